package main

import (
	"fmt"
	"go/token"
	"go/types"

	"golang.org/x/tools/go/ssa"
)

// ---- C07: the sort pipeline -----------------------------------------------------------------------

// appendOfOne: v = append(base, x) with exactly one appended element x
func appendOfOne(v ssa.Value) (base, elem ssa.Value, ok bool) {
	c, isCall := v.(*ssa.Call)
	if !isCall {
		return nil, nil, false
	}
	b, isB := c.Call.Value.(*ssa.Builtin)
	if !isB || b.Name() != "append" || len(c.Call.Args) != 2 {
		return nil, nil, false
	}
	sl, isSl := c.Call.Args[1].(*ssa.Slice)
	if !isSl {
		return nil, nil, false
	}
	al, isAl := sl.X.(*ssa.Alloc)
	if !isAl {
		return nil, nil, false
	}
	arr, isArr := al.Type().Underlying().(*types.Pointer).Elem().Underlying().(*types.Array)
	if !isArr || arr.Len() != 1 {
		return nil, nil, false
	}
	for _, ref := range *al.Referrers() {
		if ia, ok := ref.(*ssa.IndexAddr); ok {
			for _, r2 := range *ia.Referrers() {
				if s, ok := r2.(*ssa.Store); ok && s.Addr == ia {
					elem = s.Val
				}
			}
		}
	}
	return c.Call.Args[0], elem, elem != nil
}

// rangeElem: v is xs[i] where i is the index of the range loop headed at l.header
func rangeElemOf(v ssa.Value, l *loop) (ssa.Value, bool) {
	u, ok := v.(*ssa.UnOp)
	if !ok || u.Op != token.MUL {
		return nil, false
	}
	ia, ok := u.X.(*ssa.IndexAddr)
	if !ok {
		return nil, false
	}
	bo, ok := ia.Index.(*ssa.BinOp)
	if !ok || bo.Op != token.ADD {
		return nil, false
	}
	ph, ok := bo.X.(*ssa.Phi)
	if !ok || ph.Block() != l.header {
		return nil, false
	}
	return ia.X, true
}

// indexedFill: the other spelling of the output loop: out := make([]string, len(sorted)) and one store
// out[i] = sorted[i].String() per iteration of a loop whose index runs over 0..len(sorted)-1
func indexedFill(fn *ssa.Function, out *loop, sorted ssa.Value, sortCall *ssa.Call) bool {
	lenOf := func(v ssa.Value) ssa.Value {
		c, ok := v.(*ssa.Call)
		if !ok {
			return nil
		}
		if b, ok := c.Call.Value.(*ssa.Builtin); ok && b.Name() == "len" && len(c.Call.Args) == 1 {
			return c.Call.Args[0]
		}
		return nil
	}
	for _, b := range fn.Blocks {
		ret, isRet := b.Instrs[len(b.Instrs)-1].(*ssa.Return)
		if !isRet || len(ret.Results) != 2 || !isNilConst(ret.Results[1]) {
			continue
		}
		ms, isMS := ret.Results[0].(*ssa.MakeSlice)
		if !isMS || lenOf(ms.Len) != sorted {
			return false
		}
		var stores []*ssa.Store
		for _, ref := range *ms.Referrers() {
			switch x := ref.(type) {
			case *ssa.IndexAddr:
				for _, r2 := range *x.Referrers() {
					st, ok := r2.(*ssa.Store)
					if !ok || st.Addr != ssa.Value(x) {
						return false
					}
					stores = append(stores, st)
				}
			case *ssa.Return, *ssa.DebugRef:
			default:
				return false
			}
		}
		if len(stores) != 1 || !out.body[stores[0].Block()] || len(out.backs) != 1 || !sortCall.Block().Dominates(out.header) {
			return false
		}
		st := stores[0]
		if !st.Block().Dominates(out.backs[0]) {
			return false
		}
		idx := st.Addr.(*ssa.IndexAddr).Index
		recv, _, isS := methodCall(st.Val, "String")
		if !isS {
			return false
		}
		ld, ok := recv.(*ssa.UnOp)
		if !ok || ld.Op != token.MUL {
			return false
		}
		ia, ok := ld.X.(*ssa.IndexAddr)
		if !ok || ia.X != sorted || ia.Index != idx {
			return false
		}
		// idx is the loop's induction value: phi(0, phi+1) or phi(-1, idx)+1, guarded by idx < len(sorted)
		ph, isPhi := idx.(*ssa.Phi)
		start := int64(0)
		if !isPhi {
			bo, ok := idx.(*ssa.BinOp)
			if !ok || bo.Op != token.ADD {
				return false
			}
			if one, ok := constInt(bo.Y); !ok || one != 1 {
				return false
			}
			ph, isPhi = bo.X.(*ssa.Phi)
			start = -1
		}
		if !isPhi || ph.Block() != out.header {
			return false
		}
		for i, e := range ph.Edges {
			if out.body[out.header.Preds[i]] {
				var next ssa.Value = idx
				if start == 0 {
					bo, ok := e.(*ssa.BinOp)
					if !ok || bo.Op != token.ADD || bo.X != ssa.Value(ph) {
						return false
					}
					if one, ok := constInt(bo.Y); !ok || one != 1 {
						return false
					}
					continue
				}
				if e != next {
					return false
				}
			} else if c, ok := constInt(e); !ok || c != start {
				return false
			}
		}
		guard := false
		for blk := range out.body {
			iff, ok := blk.Instrs[len(blk.Instrs)-1].(*ssa.If)
			if !ok {
				continue
			}
			bo, ok := iff.Cond.(*ssa.BinOp)
			if ok && bo.Op == token.LSS && bo.X == idx && lenOf(bo.Y) == sorted && out.body[blk.Succs[0]] && !out.body[blk.Succs[1]] {
				guard = true
			}
		}
		return guard
	}
	return false
}

func methodCall(v ssa.Value, name string) (recv ssa.Value, args []ssa.Value, ok bool) {
	c, isCall := v.(*ssa.Call)
	if !isCall {
		return nil, nil, false
	}
	if c.Call.IsInvoke() {
		if c.Call.Method.Name() != name {
			return nil, nil, false
		}
		return c.Call.Value, c.Call.Args, true
	}
	f := c.Call.StaticCallee()
	if f == nil || f.Name() != name || f.Signature.Recv() == nil || len(c.Call.Args) == 0 {
		return nil, nil, false
	}
	return c.Call.Args[0], c.Call.Args[1:], true
}

func ruleSortPipeline(p *Prog, r *Report) {
	gen := cmdFunc(p, "sort")
	if gen == nil {
		r.Bad("R-SORTFLOW", "cmd.sort", "-", "sort command implementation not found")
		return
	}
	insts := instancesOf(p, gen)
	if len(insts) == 0 {
		r.Bad("R-SORTFLOW", "cmd.sort", p.FnPos(gen), "no instances")
		return
	}
	fn := insts[0]
	loops := findLoops(fn)
	var sortCall *ssa.Call
	for _, b := range fn.Blocks {
		for _, ins := range b.Instrs {
			if c, ok := ins.(*ssa.Call); ok {
				if f := c.Call.StaticCallee(); f != nil && (extName(f) == "slices.SortFunc" || extName(f) == "slices.SortStableFunc") {
					sortCall = c
				}
			}
		}
	}
	if sortCall == nil || len(loops) != 2 {
		r.Bad("R-SORTFLOW", "cmd.sort: parse-all, sort, render-all", p.FnPos(gen), fmt.Sprintf("expected one sort call between an input loop and an output loop (found %d loops)", len(loops)))
		return
	}
	in, out := loops[0], loops[1]
	sorted := sortCall.Call.Args[0]
	// (1) input loop: the sorted slice is the input loop's accumulator; one append of NewVersion(args[i]) per iteration
	acc, ok := sorted.(*ssa.Phi)
	okIn := ok && acc.Block() == in.header
	why := ""
	if okIn {
		for i, e := range acc.Edges {
			if !in.body[in.header.Preds[i]] {
				if ms, isMake := e.(*ssa.MakeSlice); isMake {
					if c, okc := constInt(ms.Len); !okc || c != 0 {
						okIn, why = false, "the version slice does not start empty"
					}
				} else if !isNilConst(e) {
					okIn, why = false, "the version slice does not start empty"
				}
				continue
			}
			base, elem, isApp := appendOfOne(e)
			if !isApp || base != ssa.Value(acc) {
				okIn, why = false, "an iteration does not append exactly one version"
				continue
			}
			ex, isEx := elem.(*ssa.Extract)
			if !isEx || ex.Index != 0 {
				okIn, why = false, "the appended value is not the result of NewVersion"
				continue
			}
			_, cargs, isNV := methodCall(ex.Tuple, "NewVersion")
			if !isNV {
				// through a wrapper of the CLI package that hands the constructor's result on
				if wc, ok := ex.Tuple.(*ssa.Call); ok {
					if m, _, sp, isW := parseWrapper(wc.Call.StaticCallee()); isW && m == "NewVersion" && sp < len(wc.Call.Args) {
						cargs, isNV = []ssa.Value{wc.Call.Args[sp]}, true
					}
				}
			}
			if !isNV || len(cargs) != 1 {
				okIn, why = false, "the appended value is not the result of NewVersion"
				continue
			}
			if src, isEl := rangeElemOf(cargs[0], in); !isEl || src != ssa.Value(fn.Params[1]) {
				okIn, why = false, "the parsed string is not the loop's element of args"
			}
		}
		if len(in.backs) != 1 {
			okIn, why = false, "the input loop has several back edges (an argument can be skipped)"
		}
	} else {
		why = "the slice handed to the sort is not the accumulator of the loop over the arguments"
	}
	if okIn {
		r.Ok("R-SORTFLOW", "cmd.sort: one parsed version per argument", p.FnPos(gen), "each argument contributes exactly one NewVersion result; nothing is filtered")
	} else {
		r.Bad("R-SORTFLOW", "cmd.sort: one parsed version per argument", p.FnPos(gen), why)
	}
	// (2) comparator
	cmpArg := sortCall.Call.Args[1]
	if mc, isMC := cmpArg.(*ssa.MakeClosure); isMC {
		cmpArg = mc.Fn
	}
	cf, isFn := cmpArg.(*ssa.Function)
	okCmp := false
	if isFn && len(cf.Params) == 2 && cf.Blocks != nil {
		for _, b := range cf.Blocks {
			if ret, isRet := b.Instrs[len(b.Instrs)-1].(*ssa.Return); isRet {
				if recv, cargs, isC := methodCall(ret.Results[0], "Compare"); isC && recv == ssa.Value(cf.Params[0]) && len(cargs) == 1 && cargs[0] == ssa.Value(cf.Params[1]) {
					okCmp = true
				} else {
					okCmp = false
					break
				}
			}
		}
	}
	if okCmp {
		r.Ok("R-SORTCMP", "cmd.sort: comparator is a.Compare(b)", p.Pos(sortCall.Pos()), "the sort comparator is the element type's Compare in parameter order")
	} else {
		r.Bad("R-SORTCMP", "cmd.sort: comparator is a.Compare(b)", p.Pos(sortCall.Pos()), "the sort comparator is not the versions' Compare applied to (a, b) in order")
	}
	// (3) output loop over the sorted slice: one String() per element, in order, into the returned slice
	okOut := false
	why = "the returned slice is not built by appending String() of each sorted element"
	for _, b := range fn.Blocks {
		ret, isRet := b.Instrs[len(b.Instrs)-1].(*ssa.Return)
		if !isRet || !isNilConst(ret.Results[1]) {
			continue
		}
		oacc, isPhi := ret.Results[0].(*ssa.Phi)
		if !isPhi || oacc.Block() != out.header {
			continue
		}
		good := len(out.backs) == 1
		for i, e := range oacc.Edges {
			if !out.body[out.header.Preds[i]] {
				continue
			}
			base, elem, isApp := appendOfOne(e)
			if !isApp || base != ssa.Value(oacc) {
				good = false
				continue
			}
			recv, _, isS := methodCall(elem, "String")
			if !isS {
				good = false
				continue
			}
			if src, isEl := rangeElemOf(recv, out); !isEl || src != sorted {
				good = false
			}
		}
		if good && sortCall.Block().Dominates(out.header) {
			okOut = true
		}
	}
	if !okOut && indexedFill(fn, out, sorted, sortCall) {
		okOut = true
	}
	if okOut {
		r.Ok("R-SORTFLOW", "cmd.sort: one rendered string per sorted element", p.FnPos(gen), "output[i] = sorted[i].String() for every i, after the sort")
	} else {
		r.Bad("R-SORTFLOW", "cmd.sort: one rendered string per sorted element", p.FnPos(gen), why)
	}
	// (4) no partial result with an error
	okPartial := true
	for _, b := range fn.Blocks {
		if ret, isRet := b.Instrs[len(b.Instrs)-1].(*ssa.Return); isRet && !isNilConst(ret.Results[1]) && !isNilConst(ret.Results[0]) {
			okPartial = false
		}
	}
	if okPartial {
		r.Ok("R-NOPARTIAL", "cmd.sort: nil result with an error", p.FnPos(gen), "every error return carries a nil slice")
	} else {
		r.Bad("R-NOPARTIAL", "cmd.sort: nil result with an error", p.FnPos(gen), "an error return carries a (partial) result")
	}
	// runEcosystem: the failure message is not built from the command's result
	re := cmdFunc(p, "runEcosystem")
	if re != nil {
		if ri := instancesOf(p, re); len(ri) > 0 {
			f2 := ri[0]
			good := true
			for _, b := range f2.Blocks {
				ret, isRet := b.Instrs[len(b.Instrs)-1].(*ssa.Return)
				if !isRet {
					continue
				}
				if c, okc := constInt(ret.Results[1]); !okc || c == 0 {
					continue
				}
				// failure return: its string must not derive from the result accumulator
				seen := map[ssa.Value]bool{}
				var uses func(v ssa.Value) bool
				uses = func(v ssa.Value) bool {
					if seen[v] {
						return false
					}
					seen[v] = true
					if ph, isPhi := v.(*ssa.Phi); isPhi && ph.Comment == "result" {
						return true
					}
					if ins, isIns := v.(ssa.Instruction); isIns {
						for _, op := range ins.Operands(nil) {
							if *op != nil && uses(*op) {
								return true
							}
						}
					}
					return false
				}
				if uses(ret.Results[0]) {
					good = false
				}
			}
			if good {
				r.Ok("R-NOPARTIAL", "cmd.runEcosystem: failure output excludes the result", p.FnPos(re), "failure returns are diagnostics that do not contain the command's (partial) result")
			} else {
				r.Bad("R-NOPARTIAL", "cmd.runEcosystem: failure output excludes the result", p.FnPos(re), "a failure return includes the command's result text")
			}
		}
	}
	r.Floor("R-SORTFLOW", 2)
}

func init() {
	register("C07", "The sort pipeline as structure, the order laws by reference to C01: (R-SORTFLOW) cmd.sort appends exactly one NewVersion result per argument (no filtering), sorts that slice, and appends exactly one String() per element of the sorted slice in order; (R-SORTCMP) the comparator is a.Compare(b) in parameter order, range {-1,0,1} (R-SIGN); (R-NOPARTIAL) every error return carries a nil slice and the CLI's failure output does not include a result; String() returns the stored input (C18 R-ORIGINAL, re-run); that adjacent outputs are non-decreasing and classes are order-independent follows from Compare being a total preorder (R-PREORDER, re-run) given slices.SortFunc is a correct comparison sort.", ruleSortPipeline, ruleSign, rulePreorder, func(p *Prog, r *Report) { ruleOriginal(p, r) })
}
