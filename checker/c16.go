package main

import (
	"fmt"
	"go/token"
	"go/types"

	"golang.org/x/tools/go/ssa"
)

// ---- C16: VERS results ignore constraint order, whitespace and duplicates --------------------------

func isStringSlice(t types.Type) bool {
	s, ok := t.Underlying().(*types.Slice)
	return ok && isStringType(s.Elem())
}

// rawSliceUses: the raw (un-normalised) constraint slice v may only be normalised, measured, scanned for
// the lone-star test, or handed to a function that treats it the same way.
func rawSliceUses(p *Prog, fn *ssa.Function, v ssa.Value, norm *ssa.Function, seen map[ssa.Value]bool, depth int) string {
	if seen[v] {
		return ""
	}
	seen[v] = true
	refs := v.Referrers()
	if refs == nil {
		return ""
	}
	for _, ref := range *refs {
		switch x := ref.(type) {
		case *ssa.DebugRef:
		case *ssa.Phi:
			if why := rawSliceUses(p, fn, x, norm, seen, depth); why != "" {
				return why
			}
		case *ssa.IndexAddr:
			// elements may only be trimmed and compared with "*" or "" (lone-star test), or normalised
			for _, r2 := range *x.Referrers() {
				ld, ok := r2.(*ssa.UnOp)
				if !ok {
					return "element of the raw constraint list is written at " + p.Pos(r2.Pos())
				}
				for _, use := range *ld.Referrers() {
					if why := rawElemUse(p, use); why != "" {
						return why
					}
				}
			}
		case *ssa.Call:
			if b, ok := x.Call.Value.(*ssa.Builtin); ok && b.Name() == "len" {
				continue
			}
			cal := x.Call.StaticCallee()
			names := p.calleeNames(x)
			if cal != nil && (cal == norm || cal.Origin() == norm) {
				continue
			}
			okAll := len(names) > 0
			for _, cn := range names {
				if !cn.repo || cn.fn == nil || depth >= 4 {
					okAll = false
					break
				}
				// which parameter receives v?
				params := cn.fn.Params
				for i, arg := range x.Call.Args {
					if arg == v && i < len(params) {
						if why := rawSliceUses(p, cn.fn, params[i], norm, map[ssa.Value]bool{}, depth+1); why != "" {
							return why
						}
					}
				}
			}
			if !okAll {
				return "the raw constraint list is passed to " + calleeLabel(x) + " at " + p.Pos(x.Pos())
			}
		default:
			return fmt.Sprintf("the raw constraint list is used by %T at %s", ref, p.Pos(ref.Pos()))
		}
	}
	return ""
}

func rawElemUse(p *Prog, use ssa.Instruction) string {
	switch x := use.(type) {
	case *ssa.DebugRef:
		return ""
	case *ssa.Call:
		f := x.Call.StaticCallee()
		if f != nil && extName(f) == "strings.TrimSpace" {
			// the trimmed element may only be compared with "*" / ""
			for _, u2 := range *x.Referrers() {
				bo, ok := u2.(*ssa.BinOp)
				if ok && (bo.Op == token.EQL || bo.Op == token.NEQ) {
					if s, ok := constString(bo.Y); ok && (s == "*" || s == "") {
						continue
					}
				}
				if _, ok := u2.(*ssa.DebugRef); ok {
					continue
				}
				return "a raw constraint is used beyond the lone-star test at " + p.Pos(u2.Pos())
			}
			return ""
		}
		if f != nil && extName(f) == "strings.Map" {
			return "" // whitespace removal inside the normaliser: R-VERS-NORM-WS
		}
		return "a raw constraint is passed to " + calleeLabel(x) + " at " + p.Pos(x.Pos())
	}
	return fmt.Sprintf("a raw constraint is used by %T at %s", use, p.Pos(use.Pos()))
}

func ruleVersNormFlow(p *Prog, r *Report) {
	norm := versFunc(p, "normalizeConstraints")
	if norm == nil {
		r.Bad("R-VERS-NORM-FLOW", "vers.normalizeConstraints", "-", "normaliser not found")
		return
	}
	table, _, why := versDispatch(p)
	if why != "" {
		r.Bad("R-VERS-NORM-FLOW", "vers dispatch", "-", why)
		return
	}
	for scheme, fn := range table {
		if fn == nil || len(fn.Params) == 0 || !isStringSlice(fn.Params[0].Type()) {
			continue
		}
		key := "vers scheme " + scheme + ": raw constraints only reach the normaliser"
		if why := rawSliceUses(p, fn, fn.Params[0], norm, map[ssa.Value]bool{}, 0); why != "" {
			r.Bad("R-VERS-NORM-FLOW", key, p.FnPos(fn), why+": the result can then depend on spacing, order or repetition of the constraints")
		} else {
			r.Ok("R-VERS-NORM-FLOW", key, p.FnPos(fn), "every consumer other than normalizeConstraints (and len / the lone-star test) receives the normalised list")
		}
	}
	// vers.Contains itself: the Split result
	contains := versFunc(p, "Contains")
	for _, b := range contains.Blocks {
		for _, ins := range b.Instrs {
			c, ok := ins.(*ssa.Call)
			if !ok {
				continue
			}
			f := c.Call.StaticCallee()
			if f == nil || extName(f) != "strings.Split" {
				continue
			}
			if sep, _ := constString(c.Call.Args[1]); sep != "|" {
				continue
			}
			key := "vers.Contains: the split constraint list"
			if why := rawSliceUses(p, contains, c, norm, map[ssa.Value]bool{}, 0); why != "" {
				r.Bad("R-VERS-NORM-FLOW", key, p.Pos(c.Pos()), why)
			} else {
				r.Ok("R-VERS-NORM-FLOW", key, p.Pos(c.Pos()), "used only for the lone-star test, its length, and as the argument of the scheme's function")
			}
		}
	}
	r.Floor("R-VERS-NORM-FLOW", 12)
}

// R-VERS-NORM-WS / SORT: inside normalizeConstraints
func ruleVersNormInner(p *Prog, r *Report) {
	gen := versFunc(p, "normalizeConstraints")
	insts := instancesOf(p, gen)
	if gen == nil || len(insts) == 0 {
		r.Bad("R-VERS-NORM-WS", "vers.normalizeConstraints", "-", "not found")
		return
	}
	fn := insts[0]
	raw := fn.Params[len(fn.Params)-1]
	// (1) every element of the raw list goes through the whitespace-removing Map and nowhere else
	var cleaned []ssa.Value
	bad := ""
	for _, ref := range *raw.Referrers() {
		ia, ok := ref.(*ssa.IndexAddr)
		if !ok {
			if c, ok := ref.(*ssa.Call); ok {
				if b, ok := c.Call.Value.(*ssa.Builtin); ok && b.Name() == "len" {
					continue
				}
			}
			if _, ok := ref.(*ssa.DebugRef); ok {
				continue
			}
			bad = fmt.Sprintf("the raw list is used by %T at %s", ref, p.Pos(ref.Pos()))
			continue
		}
		for _, r2 := range *ia.Referrers() {
			ld, ok := r2.(*ssa.UnOp)
			if !ok {
				bad = "raw element written"
				continue
			}
			for _, use := range *ld.Referrers() {
				if _, ok := use.(*ssa.DebugRef); ok {
					continue
				}
				c, ok := use.(*ssa.Call)
				if ok && c.Call.StaticCallee() != nil && stripsWhitespaceHelper(p, c.Call.StaticCallee()) && len(c.Call.Args) == 1 && c.Call.Args[0] == ssa.Value(ld) {
					// the removal is done by a helper whose every result is strings.Map(drop IsSpace, parameter)
					cleaned = append(cleaned, c)
					continue
				}
				if !ok || c.Call.StaticCallee() == nil || extName(c.Call.StaticCallee()) != "strings.Map" || c.Call.Args[1] != ssa.Value(ld) {
					bad = "a raw constraint is used before whitespace removal at " + p.Pos(use.Pos())
					continue
				}
				if !dropsWhitespace(c.Call.Args[0]) {
					bad = "the mapping function does not drop exactly the characters unicode.IsSpace reports"
					continue
				}
				cleaned = append(cleaned, c)
			}
		}
	}
	if bad == "" && len(cleaned) > 0 {
		r.Ok("R-VERS-NORM-WS", "vers.normalizeConstraints: whitespace removed first", p.FnPos(gen), "each raw constraint is only the operand of strings.Map(drop unicode.IsSpace); operator test, de-duplication key, NewVersion and the output use the cleaned string")
	} else {
		if bad == "" {
			bad = "no whitespace-removing strings.Map over the raw constraints found"
		}
		r.Bad("R-VERS-NORM-WS", "vers.normalizeConstraints: whitespace removed first", p.FnPos(gen), bad)
	}
	// (2) de-duplication: the seen-map key is the cleaned constraint; the append is dominated by the !seen edge
	okSeen, okKey := false, true
	for _, b := range fn.Blocks {
		for _, ins := range b.Instrs {
			switch x := ins.(type) {
			case *ssa.MapUpdate:
				if !derivesFromAny(x.Key, cleaned) {
					okKey = false
				}
				okSeen = true
			case *ssa.Lookup:
				if _, isMap := x.X.Type().Underlying().(*types.Map); isMap && !derivesFromAny(x.Index, cleaned) {
					okKey = false
				}
			}
		}
	}
	if okSeen && okKey {
		r.Ok("R-VERS-NORM-SORT", "vers.normalizeConstraints: de-duplication key", p.FnPos(gen), "the seen-set is keyed by the cleaned constraint text")
	} else {
		r.Bad("R-VERS-NORM-SORT", "vers.normalizeConstraints: de-duplication key", p.FnPos(gen), "duplicates are detected on something other than the whitespace-free constraint text")
	}
	// (3) sort before extraction, comparator orders by version only
	var sortCall *ssa.Call
	for _, b := range fn.Blocks {
		for _, ins := range b.Instrs {
			if c, ok := ins.(*ssa.Call); ok {
				if f := c.Call.StaticCallee(); f != nil && (extName(f) == "slices.SortFunc" || extName(f) == "slices.SortStableFunc") {
					sortCall = c
				}
			}
		}
	}
	if sortCall == nil {
		r.Bad("R-VERS-NORM-SORT", "vers.normalizeConstraints: sorted before extraction", p.FnPos(gen), "no sort of the parsed constraints")
		return
	}
	// every non-empty return must be dominated by the sort call
	okDom := true
	for _, b := range fn.Blocks {
		ret, ok := b.Instrs[len(b.Instrs)-1].(*ssa.Return)
		if !ok || !isNilConst(ret.Results[len(ret.Results)-1]) {
			continue
		}
		if !sortCall.Block().Dominates(b) {
			// allowed: returning an empty literal when there is nothing to sort
			if sl, ok := ret.Results[0].(*ssa.Slice); ok {
				if al, ok := sl.X.(*ssa.Alloc); ok {
					if arr, ok := al.Type().Underlying().(*types.Pointer).Elem().Underlying().(*types.Array); ok && arr.Len() == 0 {
						continue
					}
				}
			}
			if ms, ok := ret.Results[0].(*ssa.MakeSlice); ok {
				if c, ok := constInt(ms.Len); ok && c == 0 {
					continue
				}
			}
			okDom = false
		}
	}
	if okDom {
		r.Ok("R-VERS-NORM-SORT", "vers.normalizeConstraints: sorted before extraction", p.Pos(sortCall.Pos()), "the sort call dominates every successful non-empty return")
	} else {
		r.Bad("R-VERS-NORM-SORT", "vers.normalizeConstraints: sorted before extraction", p.Pos(sortCall.Pos()), "a successful return is not preceded by the sort on every path")
	}
	// comparator shape
	arg := sortCall.Call.Args[1]
	if mc, ok := arg.(*ssa.MakeClosure); ok {
		arg = mc.Fn
	}
	cf, ok := arg.(*ssa.Function)
	if !ok || len(cf.Params) != 2 {
		r.Bad("R-VERS-NORM-SORT", "vers.normalizeConstraints: comparator", p.Pos(sortCall.Pos()), "comparator is not a two-argument function literal")
		return
	}
	why := ""
	nCompare := 0
	for _, b := range cf.Blocks {
		ret, ok := b.Instrs[len(b.Instrs)-1].(*ssa.Return)
		if !ok {
			continue
		}
		switch v := ret.Results[0].(type) {
		case *ssa.Const:
			// only under a star test
			if !domEdges(b, func(cond ssa.Value, tv bool) bool {
				bo, ok := cond.(*ssa.BinOp)
				if !ok || bo.Op != token.EQL {
					return false
				}
				s, ok := constString(bo.Y)
				return ok && s == "*" && tv
			}) {
				why = "the comparator returns a constant at " + p.Pos(ret.Pos()) + " outside the star special case: entries are not ordered by version alone"
			}
		case *ssa.Call:
			okc := false
			if v.Call.IsInvoke() && v.Call.Method.Name() == "Compare" || v.Call.StaticCallee() != nil && v.Call.StaticCallee().Name() == "Compare" {
				recv := v.Call.Value
				args := v.Call.Args
				if !v.Call.IsInvoke() && len(args) == 2 {
					recv, args = args[0], args[1:]
				}
				if fieldOfParam(recv, cf.Params[0]) && len(args) == 1 && fieldOfParam(args[0], cf.Params[1]) {
					okc = true
					nCompare++
				}
			}
			if !okc {
				why = "the comparator's result at " + p.Pos(ret.Pos()) + " is not a.version.Compare(b.version) in parameter order"
			}
		default:
			why = fmt.Sprintf("the comparator returns %T", v)
		}
	}
	if why == "" && nCompare >= 1 {
		r.Ok("R-VERS-NORM-SORT", "vers.normalizeConstraints: comparator", p.FnPos(cf), "non-star entries are ordered by a.version.Compare(b.version) only")
	} else {
		if why == "" {
			why = "the comparator never compares versions"
		}
		r.Bad("R-VERS-NORM-SORT", "vers.normalizeConstraints: comparator", p.FnPos(cf), why)
	}
	r.Floor("R-VERS-NORM-SORT", 3)
}

// stripsWhitespaceHelper: a repo function string -> string every result of which is strings.Map(f, param)
// with f dropping exactly the characters unicode.IsSpace reports
func stripsWhitespaceHelper(p *Prog, g *ssa.Function) bool {
	if g == nil || !p.IsRepoFn(g) || g.Blocks == nil || len(g.Params) != 1 || !isStringType(g.Params[0].Type()) || g.Signature.Results().Len() != 1 {
		return false
	}
	n := 0
	for _, b := range g.Blocks {
		ret, ok := b.Instrs[len(b.Instrs)-1].(*ssa.Return)
		if !ok {
			continue
		}
		c, ok := ret.Results[0].(*ssa.Call)
		if !ok || c.Call.StaticCallee() == nil || extName(c.Call.StaticCallee()) != "strings.Map" || c.Call.Args[1] != ssa.Value(g.Params[0]) || !dropsWhitespace(c.Call.Args[0]) {
			return false
		}
		n++
	}
	return n > 0
}

// fieldOfParam: v is a field load from the (spilled) struct parameter par
func fieldOfParam(v ssa.Value, par *ssa.Parameter) bool {
	u, ok := v.(*ssa.UnOp)
	if !ok || u.Op != token.MUL {
		if f, ok := v.(*ssa.Field); ok {
			return f.X == ssa.Value(par)
		}
		return false
	}
	fa, ok := u.X.(*ssa.FieldAddr)
	if !ok {
		return false
	}
	al, ok := fa.X.(*ssa.Alloc)
	if !ok {
		return fa.X == ssa.Value(par)
	}
	for _, ref := range *al.Referrers() {
		if s, ok := ref.(*ssa.Store); ok && s.Addr == al && s.Val == ssa.Value(par) {
			return true
		}
	}
	return false
}

func derivesFromAny(v ssa.Value, srcs []ssa.Value) bool {
	seen := map[ssa.Value]bool{}
	var walk func(x ssa.Value) bool
	walk = func(x ssa.Value) bool {
		if seen[x] {
			return false
		}
		seen[x] = true
		for _, s := range srcs {
			if x == s {
				return true
			}
		}
		if ph, ok := x.(*ssa.Phi); ok {
			all := len(ph.Edges) > 0
			for _, e := range ph.Edges {
				if !walk(e) {
					all = false
				}
			}
			return all
		}
		return false
	}
	return walk(v)
}

// dropsWhitespace: fnv is func(r rune) rune { if unicode.IsSpace(r) { return -1 }; return r }
func dropsWhitespace(fnv ssa.Value) bool {
	if mc, ok := fnv.(*ssa.MakeClosure); ok {
		fnv = mc.Fn
	}
	f, ok := fnv.(*ssa.Function)
	if !ok || len(f.Params) != 1 || f.Blocks == nil {
		return false
	}
	iff, ok := f.Blocks[0].Instrs[len(f.Blocks[0].Instrs)-1].(*ssa.If)
	if !ok {
		return false
	}
	c, ok := iff.Cond.(*ssa.Call)
	if !ok || c.Call.StaticCallee() == nil || extName(c.Call.StaticCallee()) != "unicode.IsSpace" || c.Call.Args[0] != ssa.Value(f.Params[0]) {
		return false
	}
	retOf := func(b *ssa.BasicBlock) ssa.Value {
		if r, ok := b.Instrs[len(b.Instrs)-1].(*ssa.Return); ok {
			return r.Results[0]
		}
		return nil
	}
	t, e := retOf(f.Blocks[0].Succs[0]), retOf(f.Blocks[0].Succs[1])
	if t == nil || e == nil {
		return false
	}
	d, ok := constInt(t)
	return ok && d == -1 && e == ssa.Value(f.Params[0])
}

func init() {
	register("C16", "Invariance of vers.Contains under constraint order, spacing and repetition, through the normalisation mechanism: (R-VERS-NORM-FLOW) in every scheme function and in the generic containment routine the raw constraint list reaches only normalizeConstraints (plus len and the lone-star test); every other consumer gets the normalised list; (R-VERS-NORM-WS) inside the normaliser each raw constraint is only the operand of strings.Map(drop unicode.IsSpace) and the cleaned text feeds the operator test, the de-duplication key, NewVersion and the output; (R-VERS-NORM-SORT) the sort dominates extraction, its comparator orders non-star entries by a.version.Compare(b.version) only, the seen-set is keyed by the cleaned text. With C01 for the scheme and pairwise non-equivalent versions the sorted list is unique, so everything downstream is independent of the input order.", ruleVersNormFlow, ruleVersNormInner)
}
