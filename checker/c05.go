package main

import (
	"fmt"
	"go/constant"
	"go/token"
	"go/types"
	"os"
	"regexp"
	"sort"
	"strings"

	"golang.org/x/tools/go/ssa"
)

// ---- C05: shorthand range operators denote their documented intervals ---------------------------------

// renderAV: a readable form of an abstract value (for tables and reports)
func renderAV(v any) string {
	switch x := v.(type) {
	case nil:
		return "nil"
	case avConst:
		if x.v.Kind() == constant.String {
			return constant.StringVal(x.v)
		}
		return x.v.ExactString()
	case avTerm:
		return "{" + x.key + "}"
	case avRef:
		return "{&" + x.key + "}"
	case avStr:
		s := ""
		for _, p := range x.parts {
			s += renderAV(p)
		}
		return s
	case avNil:
		return "nil"
	case avIface:
		return renderAV(x.x)
	case *avBox:
		return "&" + renderAV(x.val)
	case avAddr:
		if x.ref != nil {
			return "&" + x.ref.key
		}
		return "&local"
	case *avStruct:
		var fs []string
		for _, f := range x.fields {
			fs = append(fs, renderAV(f))
		}
		return "{" + strings.Join(fs, " | ") + "}"
	case avList:
		var es []string
		for _, e := range x.elems {
			es = append(es, renderAV(e))
		}
		return "[" + strings.Join(es, ", ") + "]"
	case avTuple:
		var es []string
		for _, e := range x {
			es = append(es, renderAV(e))
		}
		return "(" + strings.Join(es, "; ") + ")"
	case avUnknown:
		return "?" + x.why
	}
	return fmt.Sprintf("%T", v)
}

// desugarTable tabulates a desugaring function (text -> constraints) with the ecosystem's version
// constructor kept opaque: the parsed base is an abstract version whose fields are terms.
func desugarTable(p *Prog, e *Eco, fn *ssa.Function) (*aeCtx, []tabLeaf, string) {
	c := newAECtx(p)
	c.stageMode = false
	c.symArith = true
	c.opaqueFns[e.NewVer] = "constructor"
	leaves, oof := c.tabulate(fn, paramArgs(fn))
	return c, leaves, oof
}

func ruleDesugarDebug(p *Prog, r *Report) {
	spec := os.Getenv("GVTAB") // ecosystem.function
	if spec == "" {
		return
	}
	parts := strings.SplitN(spec, ".", 2)
	e := ecoByName(p, parts[0])
	fn := fnByName(p, e, parts[1])
	if fn == nil {
		for f := range p.AllFns {
			if f.Name() == parts[1] && f.Pkg != nil && f.Pkg.Pkg == e.VerT.Obj().Pkg() && f.Blocks != nil {
				fn = f
			}
		}
	}
	var c *aeCtx
	var leaves []tabLeaf
	var oof string
	if fn == e.NewVer {
		c = newAECtx(p)
		c.stageMode = false
		c.symArith = true
		c.subModel = true
		leaves, oof = c.tabulate(fn, paramArgs(fn))
	} else {
		c, leaves, oof = desugarTable(p, e, fn)
	}
	fmt.Fprintf(os.Stderr, "TAB %s: %d leaves oof=%q\n", spec, len(leaves), oof)
	var out []string
	for _, lf := range leaves {
		out = append(out, fmt.Sprintf("  [%s] => %s", lf.w.describe(c.pools, c.terms), renderAV(lf.res)))
	}
	sort.Strings(out)
	for _, s := range out {
		fmt.Fprintln(os.Stderr, s)
	}
}

func init() {
	register("C05", "Shorthand range operators denote their documented intervals", ruleDesugarDebug)
}

// ---- R-DESUGAR: the parse-side shorthands, as symbolic tables --------------------------------------------
//
// A desugaring function is evaluated with the version constructor kept opaque, integers "x+1" kept
// symbolic and strings kept as templates: every abstract world yields the list of comparators the
// shorthand expands to, e.g. ^V with V.major = 0, V.minor != 0  =>  >= V, < 0.(V.minor+1).0-0.
// The table is compared with the interval the ecosystem documents for the construct.

var ctorResultRe = regexp.MustCompile(`NewVersion\(.*?\)#0`)
var nestedCtorRe = regexp.MustCompile("\\{&NewVersion\\(`([^`]*)`\\)#0\\}")
var ctorArgRe = regexp.MustCompile(`^NewVersion\((.*)\)#[01]`)

var cutPartRe = regexp.MustCompile(`Cut\(([^()]*(?:\([^()]*\))?[^()]*)\)#([01])`)

func normTemplate(s string) string {
	// the parsed base
	s = strings.ReplaceAll(s, "NewVersion(version)#0", "V")
	s = nestedCtorRe.ReplaceAllString(s, "$1")
	s = ctorResultRe.ReplaceAllString(s, "V")
	s = strings.ReplaceAll(s, `c.version`, "V")
	// strings.Cut(x, sep) is the two-part split of x: before = Split(x,sep)[0], after = Split(x,sep)[1]
	s = cutPartRe.ReplaceAllString(s, `Split($1)[$2]`)
	for i := 0; i < 4; i++ {
		s = strings.ReplaceAll(s, fmt.Sprintf(`Atoi(Split(rangeStr,".")[%d])#0`, i), fmt.Sprintf("N%d", i))
	}
	return s
}

type dsLeaf struct {
	w     *world
	c     *aeCtx
	cons  []string // "op template", normalised
	isErr bool
	desc  string
}

// zero: is the abstract integer at the constant 0 in this world (known=false: not consulted)
func (l dsLeaf) zero(keySuffix string) (isZero, known bool) {
	for k, v := range l.w.pos {
		key := k[:strings.LastIndex(k, "|")]
		if normTemplate(key) != keySuffix {
			continue
		}
		z := poolIndexInt(l.c.pools[key], 0)
		return z >= 0 && v == 2*z+1, true
	}
	return false, false
}

func (l dsLeaf) intAt(keySuffix string) (int64, bool) {
	for k, v := range l.w.pos {
		key := k[:strings.LastIndex(k, "|")]
		if normTemplate(key) != keySuffix || v%2 == 0 || v/2 >= len(l.c.pools[key]) {
			continue
		}
		if n, ok := constant.Int64Val(constant.ToInt(l.c.pools[key][v/2])); ok {
			return n, true
		}
	}
	return 0, false
}

// strEmpty: the abstract string is / is not the empty string in this world (known=false: not examined)
func (l dsLeaf) strEmpty(keySuffix string) (isEmpty, known bool) {
	for k, v := range l.w.pos {
		key := k[:strings.LastIndex(k, "|")]
		if normTemplate(key) != keySuffix {
			continue
		}
		z := poolIndexStr(l.c.pools[key], "")
		if z < 0 {
			return false, false
		}
		return v == 2*z+1, true
	}
	return false, false
}

// hasStringField: the ecosystem's Version has a string field of that name
func hasStringField(e *Eco, name string) bool {
	st, ok := e.VerT.Underlying().(*types.Struct)
	if !ok {
		return false
	}
	for i := 0; i < st.NumFields(); i++ {
		if st.Field(i).Name() == name && isStringType(st.Field(i).Type()) {
			return true
		}
	}
	return false
}

// negative: the world puts a numeric component of the parsed base below 0; components are parsed from
// digit groups (C03 R-NUMPARSE), so no such base exists
func (l dsLeaf) negative() bool {
	for k, v := range l.w.pos {
		key := k[:strings.LastIndex(k, "|")]
		nk := normTemplate(key)
		if !strings.HasPrefix(nk, "V.") && !strings.HasPrefix(nk, "N") {
			continue
		}
		ti := l.c.terms[key]
		if ti == nil || ti.kind != akOrder || !isIntType(ti.t) {
			continue
		}
		if z := poolIndexInt(l.c.pools[key], 0); z >= 0 && v < 2*z+1 {
			return true
		}
	}
	return false
}

// cmpInt: the abstract integer against the constant n: -1, 0, 1 (known=false: not determined)
func (l dsLeaf) cmpInt(keySuffix string, n int64) (int, bool) {
	for k, v := range l.w.pos {
		key := k[:strings.LastIndex(k, "|")]
		if normTemplate(key) != keySuffix {
			continue
		}
		i := poolIndexInt(l.c.pools[key], n)
		if i < 0 {
			return 0, false
		}
		switch {
		case v < 2*i+1:
			return -1, true
		case v == 2*i+1:
			return 0, true
		}
		return 1, true
	}
	return 0, false
}

func desugarLeaves(p *Prog, e *Eco, fn *ssa.Function) ([]dsLeaf, string) {
	c, leaves, oof := desugarTable(p, e, fn)
	if oof != "" {
		return nil, oof
	}
	var out []dsLeaf
	for _, lf := range leaves {
		dl := dsLeaf{w: lf.w, c: c, desc: normTemplate(lf.w.describe(c.pools, c.terms))}
		res := lf.res
		if t, ok := res.(avTuple); ok && len(t) == 2 {
			if _, isNil := t[1].(avNil); !isNil {
				dl.isErr = true
				out = append(out, dl)
				continue
			}
			res = t[0]
		}
		l, ok := res.(avList)
		if !ok {
			if _, isNil := res.(avNil); isNil {
				dl.isErr = true
				out = append(out, dl)
				continue
			}
			return nil, fmt.Sprintf("result %T is not a list of constraints", res)
		}
		for _, el := range l.elems {
			if b, ok := el.(*avBox); ok {
				el = b.val
			}
			s, ok := el.(*avStruct)
			if !ok || len(s.fields) < 2 {
				return nil, fmt.Sprintf("constraint %T has no model", el)
			}
			op := renderAV(s.fields[0])
			ver := s.fields[1]
			if b, ok := ver.(*avBox); ok {
				// a version value built directly: its text field
				if vs, ok := b.val.(*avStruct); ok && len(vs.fields) > 0 {
					ver = vs.fields[0]
				}
			}
			dl.cons = append(dl.cons, op+" "+normTemplate(renderAV(ver)))
		}
		out = append(out, dl)
	}
	return out, ""
}

// baseLower: the lower bound of a shorthand is its base
func baseLower(s string) bool {
	if !strings.HasPrefix(s, ">= ") {
		return false
	}
	t := strings.TrimPrefix(s, ">= ")
	switch {
	case t == "{version}" || t == "{&V}" || t == "{V}":
		return true
	case strings.HasPrefix(t, "{V.major}.{V.minor}.{V.patch}"):
		rest := strings.TrimPrefix(t, "{V.major}.{V.minor}.{V.patch}")
		rest = strings.ReplaceAll(rest, "-{V.prerelease}", "")
		rest = strings.ReplaceAll(rest, "+{V.build}", "")
		return rest == ""
	}
	return false
}

type desugarSpec struct {
	eco, fn, construct string
	// upper returns the documented upper comparator for the world, or a reason why it is not determined
	upper func(l dsLeaf) (want []string, undetermined string)
	lower func(s string) bool
}

var desugarSpecs = []desugarSpec{
	{"npm", "parseCaretRange", "^V (node-semver: the left-most non-zero component may not change)", func(l dsLeaf) ([]string, string) {
		mz, ok := l.zero("V.major")
		if !ok {
			return nil, "V.major is not examined"
		}
		if !mz {
			return []string{"< {(V.major+1)}.0.0-0"}, ""
		}
		nz, ok := l.zero("V.minor")
		if !ok {
			return nil, "V.minor is not examined although V.major is 0"
		}
		if !nz {
			return []string{"< 0.{(V.minor+1)}.0-0"}, ""
		}
		return []string{"< 0.0.{(V.patch+1)}-0"}, ""
	}, baseLower},
	{"npm", "parseTildeRange", "~V (patch-level changes)", func(l dsLeaf) ([]string, string) {
		return []string{"< {V.major}.{(V.minor+1)}.0-0"}, ""
	}, baseLower},
	{"npm", "parseXRange", "M.x / M.m.x", func(l dsLeaf) ([]string, string) {
		n, ok := l.intAt(`len(Split(rangeStr,"."))`)
		switch {
		case ok && n == 2:
			return []string{"< {(N0+1)}.0.0-0"}, ""
		case ok && n == 3:
			return []string{"< {N0}.{(N1+1)}.0-0"}, ""
		}
		return nil, "number of components not examined"
	}, func(s string) bool {
		return s == ">= {N0}.0.0-0" || s == ">= {N0}.0.0" || s == ">= {N0}.{N1}.0-0" || s == ">= {N0}.{N1}.0"
	}},
	{"npm", "parseHyphenRange", "A - B", func(l dsLeaf) ([]string, string) {
		return []string{`<= {TrimSpace(Split(rangeStr," - ")[1])}`}, ""
	}, func(s string) bool { return s == `>= {TrimSpace(Split(rangeStr," - ")[0])}` }},
	{"pypi", "parseCompatibleRelease", "~=V (PEP 440: drop the last release segment, increment the one before)", func(l dsLeaf) ([]string, string) {
		c, ok := l.cmpInt("len(V.release)", 2)
		if !ok {
			return nil, "the number of release segments is not compared with 2"
		}
		switch {
		case c < 0:
			return nil, "skip" // ~=N is not valid PEP 440
		case c == 0:
			return []string{"< {(V.release[0]+1)}.0"}, ""
		}
		// three segments (the documented case of the second form)
		return []string{"< {V.release[0]}.{(V.release[1]+1)}.0"}, ""
	}, baseLower},
	{"pypi", "parseWildcardConstraint", "==V.* (prefix match: every version whose release starts with V)", func(l dsLeaf) ([]string, string) {
		op := ""
		for k, v := range l.w.pos {
			if strings.HasPrefix(k, "operator|") && v%2 == 1 {
				op = constant.StringVal(l.c.pools["operator"][v/2])
			}
		}
		if op != "==" {
			return nil, "skip:" + op
		}
		// the base is the text in front of ".*", parsed as written
		for k := range l.w.pos {
			if m := ctorArgRe.FindStringSubmatch(k); m != nil && m[1] != `TrimSuffix(version,".*")` {
				return nil, "the base that is parsed is not the text in front of '.*' but " + m[1] + " (its number of release segments is then not the written one)"
			}
		}
		c, ok := l.cmpInt("len(V.release)", 2)
		if !ok {
			return nil, "the number of release segments of the base is not compared with 2"
		}
		switch {
		case c < 0:
			return []string{"< {(V.release[0]+1)}.0.0"}, ""
		}
		return []string{"< {V.release[0]}.{(V.release[1]+1)}.0"}, "" // two segments (three and more are not claimed)
	}, func(s string) bool {
		return s == ">= {V.release[0]}.0.0" || s == ">= {V.release[0]}.{V.release[1]}.0"
	}},
	{"composer", "parseTildeConstraint", "~V (~1.2 allows everything below 2.0.0, ~1.2.3 below 1.3.0)", func(l dsLeaf) ([]string, string) {
		if len(l.cons) == 1 && strings.HasPrefix(l.cons[0], "= ") {
			return nil, "skip" // a dev branch is matched exactly
		}
		c, ok := l.cmpInt(`len(Split(version,"."))`, 2)
		if !ok {
			return nil, "the arity of the base is not compared with 2"
		}
		if c <= 0 {
			return []string{"< {(V.major+1)}.0.0"}, ""
		}
		return []string{"< {V.major}.{(V.minor+1)}.0"}, ""
	}, func(s string) bool {
		return s == ">= {&V}" || s == ">= {V.major}.0.0" || s == ">= {V.major}.{V.minor}.0"
	}},
	{"composer", "parseCaretConstraint", "^V for a base with a stability suffix (left-most non-zero component may not change)", func(l dsLeaf) ([]string, string) {
		for _, c := range l.cons {
			if strings.HasPrefix(c, "caret") || strings.HasPrefix(c, "= ") {
				return nil, "skip" // stable bases use the direct caret predicates (named exception of C05), dev branches are exact
			}
		}
		mz, ok := l.zero("V.major")
		if !ok {
			if c, ok2 := l.cmpInt("V.major", 0); ok2 {
				mz, ok = c == 0, true
			}
		}
		if !ok {
			return nil, "V.major is not examined"
		}
		if !mz {
			return []string{"< {(V.major+1)}.0.0"}, ""
		}
		nz, ok := l.zero("V.minor")
		if !ok {
			return nil, "V.minor is not examined although V.major is 0"
		}
		if !nz {
			return []string{"< 0.{(V.minor+1)}.0"}, ""
		}
		return []string{"< 0.0.{(V.patch+1)}"}, ""
	}, func(s string) bool { return s == ">= {&V}" }},
	{"hex", "expandPessimisticConstraint", "~> V (Elixir Version: ~> X.Y allows everything below (X+1).0.0, ~> X.Y.Z below X.(Y+1).0)", func(l dsLeaf) ([]string, string) {
		n, ok := l.intAt(`Count(V.original,".")`)
		if ok && n == 1 {
			return []string{"< {(V.major+1)}.0.0"}, ""
		}
		two, three := "< {(V.major+1)}.0.0", "< {V.major}.{(V.minor+1)}.0"
		if _, known := l.zero(`Count(V.original,".")`); !known {
			// the arity is not examined in this world: the expansion serves two- and three-component bases
			// alike and is wrong for one of them; report it against the arity it is wrong for
			for _, c := range l.cons {
				if c == three {
					return []string{two}, ""
				}
			}
			return []string{three}, ""
		}
		return []string{three}, ""
	}, baseLower},
}

func ruleDesugar(p *Prog, r *Report) {
	for _, sp := range desugarSpecs {
		e := ecoByName(p, sp.eco)
		key := fmt.Sprintf("%s: %s", sp.eco, sp.construct)
		if e == nil {
			r.Und("R-DESUGAR", key, "", "ecosystem not found")
			continue
		}
		fn := fnByName(p, e, sp.fn)
		if fn == nil {
			r.Und("R-DESUGAR", key, "", fmt.Sprintf("desugaring function %s not found", sp.fn))
			continue
		}
		leaves, oof := desugarLeaves(p, e, fn)
		if oof != "" {
			r.Und("R-DESUGAR", key, p.FnPos(fn), "outside the evaluator's fragment: "+oof)
			continue
		}
		var bad, pairBad []string
		n := 0
		for _, lf := range leaves {
			if lf.isErr || lf.negative() {
				continue
			}
			want, und := sp.upper(lf)
			if und == "skip" || und == "skip:" {
				continue
			}
			if strings.HasPrefix(und, "skip:") {
				// another operator of the same function: it must still be a (lower, upper) pair
				if len(lf.cons) == 2 && strings.HasPrefix(lf.cons[0], "<") && strings.HasPrefix(lf.cons[1], ">") {
					pairBad = append(pairBad, fmt.Sprintf("%s%s expands to the pair %v, which is ANDed: an upper bound below a lower bound denotes the empty set [%s]", strings.TrimPrefix(und, "skip:"), "V.*", lf.cons, lf.desc))
				}
				continue
			}
			if und != "" {
				bad = append(bad, und+"\x00 ["+lf.desc+"] => "+fmt.Sprint(lf.cons))
				continue
			}
			n++
			var lowers, uppers []string
			for _, c := range lf.cons {
				if strings.HasPrefix(c, ">") {
					lowers = append(lowers, c)
				} else {
					uppers = append(uppers, c)
				}
			}
			if len(lowers) != 1 || !sp.lower(lowers[0]) {
				bad = append(bad, fmt.Sprintf("lower bound %v is not the base\x00 [%s]", lowers, lf.desc))
				continue
			}
			// the three numeric components alone are the base only when the base has no pre-release part:
			// a lower bound written from them must come from a world that has looked at the pre-release
			// field and found it empty (^1.2.3-beta.2 starts at 1.2.3-beta.2, not at 1.2.3)
			if lowers[0] == ">= {V.major}.{V.minor}.{V.patch}" && hasStringField(e, "prerelease") {
				if empty, known := lf.strEmpty("V.prerelease"); !known || !empty {
					bad = append(bad, fmt.Sprintf("lower bound %v is written from the numeric components of the base without its pre-release part having been looked at: a base with a pre-release tag (and the pre-releases after it) falls below the bound\x00 [%s]", lowers, lf.desc))
					continue
				}
			}
			if fmt.Sprint(uppers) != fmt.Sprint(want) {
				bad = append(bad, fmt.Sprintf("expands to %v, documented %v\x00 [%s]", uppers, want, lf.desc))
			}
		}
		if len(pairBad) > 0 {
			// one finding per operator, so that a recorded finding pins that operator only
			sort.Strings(pairBad)
			seenOp := map[string]bool{}
			for _, pb := range pairBad {
				op, _, _ := strings.Cut(pb, "V.*")
				if seenOp[op] {
					continue
				}
				seenOp[op] = true
				r.Bad("R-PAIR-INTERVAL", fmt.Sprintf("%s: %s expands to one lower and one upper bound :: %sV.*", sp.eco, sp.fn, op), p.FnPos(fn), pb)
			}
		}
		switch {
		case len(bad) > 0:
			// one finding per distinct failing expansion, so that a recorded finding pins one expansion
			// and a different wrong expansion of the same shorthand is still reported
			sort.Strings(bad)
			bySig := map[string][]string{}
			var sigs []string
			for _, b := range bad {
				sig, rest, _ := strings.Cut(b, "\x00")
				if _, ok := bySig[sig]; !ok {
					sigs = append(sigs, sig)
				}
				bySig[sig] = append(bySig[sig], rest)
			}
			for _, sig := range sigs {
				r.Bad("R-DESUGAR", key+" :: "+sig, p.FnPos(fn), fmt.Sprintf("%d of %d abstract worlds, e.g.%s", len(bySig[sig]), len(leaves), bySig[sig][0]))
			}
		case n == 0:
			r.Und("R-DESUGAR", key, p.FnPos(fn), "no successful abstract world")
		default:
			r.Ok("R-DESUGAR", key, p.FnPos(fn), fmt.Sprintf("%s: in all %d successful abstract worlds the shorthand expands to '>= base' and the documented exclusive upper bound", sp.fn, n))
		}
	}
	r.Floor("R-DESUGAR", len(desugarSpecs))
}

func init() {
	register("C05", "", ruleDesugar)
}

// ---- R-SHORT-PRED: shorthands implemented as direct predicates (cargo) -------------------------------------
//
// cargo's caret and tilde are predicates of (probe, base). Each is tabulated over two individuals; in
// every abstract world the result must be "probe >= base and the components the documented interval
// fixes are equal", with >= read from the same world through Compare.

func ruleShortPred(p *Prog, r *Report) {
	e := ecoByName(p, "cargo")
	if e == nil {
		r.Und("R-SHORT-PRED", "cargo: ecosystem", "", "ecosystem not found")
		return
	}
	type spec struct {
		fn, construct string
		// fixed returns how many leading components (1..3) must equal the base's, given accessors
		fixed func(baseZero func(f string) (bool, bool), prec func() (int64, bool)) (int, string)
	}
	specs := []spec{
		{"satisfiesCaretConstraint", "^V (the left-most non-zero component may not change)", func(bz func(string) (bool, bool), _ func() (int64, bool)) (int, string) {
			mz, ok := bz(".major")
			if !ok {
				return 0, "base.major is not examined"
			}
			if !mz {
				return 1, ""
			}
			nz, ok := bz(".minor")
			if !ok {
				return 0, "base.minor is not examined although base.major is 0"
			}
			if !nz {
				return 2, ""
			}
			return 3, ""
		}},
		{"satisfiesTildeConstraint", "~V (~1 fixes the major, ~1.2 and ~1.2.3 fix major and minor)", func(_ func(string) (bool, bool), prec func() (int64, bool)) (int, string) {
			n, ok := prec()
			if !ok {
				return 0, "the precision of the base is not examined"
			}
			if n == 1 {
				return 1, ""
			}
			return 2, ""
		}},
	}
	for _, sp := range specs {
		key := "cargo: " + sp.construct
		fn := fnByName(p, e, sp.fn)
		if fn == nil {
			r.Und("R-SHORT-PRED", key, "", "predicate "+sp.fn+" not found")
			continue
		}
		c := newAECtx(p)
		c.stageMode = false
		var bad []string
		n := 0
		comps := []string{".major", ".minor", ".patch"}
		oof := c.withRetries(fn, func() {
			bad, n = nil, 0
			c.explore(2, 200000, func(w *world) {
				run := &aeRun{ctx: c, w: w, ind: [2]int{0, 1}}
				args := []any{avRef{key: "", side: 0, t: fn.Params[0].Type()}, avRef{key: "", side: 1, t: fn.Params[1].Type()}}
				precKey := ""
				if len(fn.Params) == 3 {
					precKey = "precision"
					args = append(args, run.mkTerm(precKey, 1, fn.Params[2].Type(), akOrder, nil))
				}
				res := run.call(fn, args)
				rc, ok := res.(avConst)
				if !ok || rc.v.Kind() != constant.Bool {
					panic(outOfFragment{"the predicate's result is not a constant in the abstract domain"})
				}
				got := constant.BoolVal(rc.v)
				// the specification in this world
				cmp := c.runPair(e.Compare, w, 0, 1, nil)
				bz := func(f string) (bool, bool) {
					v, ok := w.pos[posKey(f, 1)]
					if !ok {
						return false, false
					}
					z := poolIndexInt(c.pools[f], 0)
					return z >= 0 && v == 2*z+1, true
				}
				prec := func() (int64, bool) {
					v, ok := w.pos[posKey(precKey, 1)]
					if !ok || precKey == "" {
						return 0, false
					}
					if v%2 == 1 {
						n, _ := constant.Int64Val(c.pools[precKey][v/2])
						return n, true
					}
					return 3, true // not one of the tested precisions: the full form
				}
				for _, f := range comps {
					for ind := 0; ind < 2; ind++ {
						if v, ok := w.pos[posKey(f, ind)]; ok {
							if z := poolIndexInt(c.pools[f], 0); z >= 0 && v < 2*z+1 {
								return // a negative component: no parsed version has one
							}
						}
					}
				}
				k, why := sp.fixed(bz, prec)
				desc := w.describe(c.pools, c.terms)
				if why != "" {
					if !got {
						return // rejected before the base was examined: the lower bound or an unequal leading component
					}
					bad = append(bad, why+": ["+desc+"]")
					return
				}
				want := cmp >= 0
				for i := 0; i < k && want; i++ {
					run2 := &aeRun{ctx: c, w: w, ind: [2]int{0, 1}}
					if run2.cmpInds(comps[i], 0, 1) != 0 {
						want = false
					}
				}
				n++
				if got != want {
					bad = append(bad, fmt.Sprintf("contains=%v, documented interval gives %v (probe?base=%d, %d leading components fixed) [%s]", got, want, cmp, k, desc))
				}
			})
		})
		switch {
		case oof != "":
			r.Und("R-SHORT-PRED", key, p.FnPos(fn), "outside the evaluator's fragment: "+oof)
		case len(bad) > 0:
			sort.Strings(bad)
			r.Bad("R-SHORT-PRED", key, p.FnPos(fn), fmt.Sprintf("%d of %d abstract worlds: %s", len(bad), n+len(bad), bad[0]))
		case n < 10:
			r.Und("R-SHORT-PRED", key, p.FnPos(fn), fmt.Sprintf("only %d abstract worlds", n))
		default:
			r.Ok("R-SHORT-PRED", key, p.FnPos(fn), fmt.Sprintf("%s: in all %d abstract worlds of (probe, base) the result is 'probe >= base (Compare) and the fixed leading components are equal'", sp.fn, n))
		}
	}
	// the base text: only its numeric core is padded / counted
	for _, name := range []string{"normalizePartialVersion", "countVersionComponents"} {
		fn := fnByName(p, e, name)
		key := "cargo: " + name + " treats only the numeric core of a partial base"
		if fn == nil {
			r.Und("R-SHORT-PRED", key, "", "function not found")
			continue
		}
		cut, split := false, false
		for _, b := range fn.Blocks {
			for _, ins := range b.Instrs {
				c, ok := ins.(*ssa.Call)
				if !ok {
					continue
				}
				f := c.Call.StaticCallee()
				if f == nil {
					continue
				}
				switch extName(f) {
				case "strings.IndexAny", "strings.Cut", "strings.Index", "strings.SplitN":
					if s, ok := constString(c.Call.Args[1]); ok && strings.Contains(s, "-") {
						cut = true
					}
				case "strings.Split":
					if s, ok := constString(c.Call.Args[1]); ok && s == "." {
						split = true
						// the text that is split must not be the raw parameter
						if c.Call.Args[0] == ssa.Value(fn.Params[0]) && !cut {
							split = false
						}
					}
				}
			}
		}
		if cut && split {
			r.Ok("R-SHORT-PRED", key, p.FnPos(fn), "the text is cut at the first '-'/'+' before it is split at '.'")
		} else {
			r.Bad("R-SHORT-PRED", key, p.FnPos(fn), "the whole text is split at '.', so dots inside a pre-release count as components: ^1.0.0-alpha.2 would lose '.2' and contain 1.0.0-alpha.1")
		}
	}
	r.Floor("R-SHORT-PRED", 4)
}

func init() {
	register("C05", "", ruleShortPred)
}

// lowerGuard: the block reached when Compare(probe, base) >= 0, the other edge returning false
func lowerGuard(e *Eco, fn *ssa.Function, probe, base ssa.Value) *ssa.BasicBlock {
	for _, b := range fn.Blocks {
		iff, ok := b.Instrs[len(b.Instrs)-1].(*ssa.If)
		if !ok {
			continue
		}
		bo, ok := iff.Cond.(*ssa.BinOp)
		if !ok {
			continue
		}
		call, ok := bo.X.(*ssa.Call)
		if !ok || call.Call.StaticCallee() != e.Compare || len(call.Call.Args) != 2 || call.Call.Args[0] != probe || call.Call.Args[1] != base {
			continue
		}
		if z, okz := constInt(bo.Y); !okz || z != 0 {
			continue
		}
		retFalse := func(s *ssa.BasicBlock) bool {
			ret, ok := s.Instrs[len(s.Instrs)-1].(*ssa.Return)
			if !ok || len(ret.Results) != 1 {
				return false
			}
			cv, ok := ret.Results[0].(*ssa.Const)
			return ok && cv.Value != nil && cv.Value.Kind() == constant.Bool && !constant.BoolVal(cv.Value)
		}
		switch {
		case bo.Op == token.LSS && retFalse(b.Succs[0]):
			return b.Succs[1]
		case bo.Op == token.GEQ && retFalse(b.Succs[1]):
			return b.Succs[0]
		}
	}
	return nil
}

// calledUnderGuard: "" when every call of fn comes from a predicate of (probe, base) whose own guard
// dominates the call and which hands its probe and base on
func calledUnderGuard(p *Prog, e *Eco, fn *ssa.Function, vp []*ssa.Parameter) string {
	n := p.CG.Nodes[fn]
	if n == nil || len(n.In) == 0 {
		return "no resolved caller"
	}
	idx := func(prm *ssa.Parameter) int {
		for i, q := range fn.Params {
			if q == prm {
				return i
			}
		}
		return -1
	}
	pi, bi := idx(vp[0]), idx(vp[1])
	for _, ce := range n.In {
		if ce.Site == nil {
			return "an unresolved call site"
		}
		g := ce.Caller.Func
		var gv []*ssa.Parameter
		for _, prm := range g.Params {
			if pt, ok := prm.Type().Underlying().(*types.Pointer); ok && types.Identical(pt.Elem(), e.VerT) {
				gv = append(gv, prm)
			}
		}
		args := ce.Site.Common().Args
		if len(gv) != 2 || pi >= len(args) || bi >= len(args) || args[pi] != ssa.Value(gv[0]) || args[bi] != ssa.Value(gv[1]) {
			return "called from " + g.Name() + " with other operands than its probe and base"
		}
		guard := lowerGuard(e, g, gv[0], gv[1])
		if guard == nil || !guard.Dominates(ce.Site.Block()) {
			return "called from " + g.Name() + " outside its guard"
		}
	}
	return ""
}

// ---- R-LOWER-DOM: nothing older than the base is contained (direct predicates) -------------------------------
func ruleLowerDom(p *Prog, r *Report) {
	n := 0
	for _, e := range p.Ecos {
		for _, fn := range p.RepoReachable(e.Contains) {
			if fn.Pkg == nil || fn.Pkg.Pkg != e.VerT.Obj().Pkg() || fn.Blocks == nil {
				continue
			}
			// (probe, base *Version) -> bool, possibly with a receiver first
			var vp []*ssa.Parameter
			for _, prm := range fn.Params {
				if pt, ok := prm.Type().Underlying().(*types.Pointer); ok && types.Identical(pt.Elem(), e.VerT) {
					vp = append(vp, prm)
				}
			}
			if len(vp) != 2 || fn.Signature.Results().Len() != 1 || !isBoolType(fn.Signature.Results().At(0).Type()) {
				continue
			}
			n++
			key := fmt.Sprintf("%s: %s contains nothing older than the base", e.Name, fn.Name())
			// the test Compare(probe, base) < 0 -> return false
			var guard *ssa.BasicBlock // the block reached when probe >= base
			for _, b := range fn.Blocks {
				iff, ok := b.Instrs[len(b.Instrs)-1].(*ssa.If)
				if !ok {
					continue
				}
				bo, ok := iff.Cond.(*ssa.BinOp)
				if !ok {
					continue
				}
				call, ok := bo.X.(*ssa.Call)
				if !ok || call.Call.StaticCallee() != e.Compare || len(call.Call.Args) != 2 {
					continue
				}
				if call.Call.Args[0] != ssa.Value(vp[0]) || call.Call.Args[1] != ssa.Value(vp[1]) {
					continue
				}
				z, okz := constInt(bo.Y)
				if !okz || z != 0 {
					continue
				}
				retFalse := func(s *ssa.BasicBlock) bool {
					ret, ok := s.Instrs[len(s.Instrs)-1].(*ssa.Return)
					if !ok || len(ret.Results) != 1 {
						return false
					}
					cv, ok := ret.Results[0].(*ssa.Const)
					return ok && cv.Value != nil && cv.Value.Kind() == constant.Bool && !constant.BoolVal(cv.Value)
				}
				switch {
				case bo.Op == token.LSS && retFalse(b.Succs[0]):
					guard = b.Succs[1]
				case bo.Op == token.GEQ && retFalse(b.Succs[1]):
					guard = b.Succs[0]
				}
			}
			if guard == nil {
				// a helper of such a predicate: every call of it is made under the caller's guard with the
				// caller's (probe, base)
				if why := calledUnderGuard(p, e, fn, vp); why == "" {
					r.Ok("R-LOWER-DOM", key, p.FnPos(fn), "helper: every call site is dominated by the caller's test Compare(probe, base) >= 0 and receives the caller's probe and base")
				} else {
					r.Bad("R-LOWER-DOM", key, p.FnPos(fn), "no test 'Compare(probe, base) < 0 -> false' found ("+why+"): versions older than the base are not excluded by the order")
				}
				continue
			}
			bad := ""
			for _, b := range fn.Blocks {
				ret, ok := b.Instrs[len(b.Instrs)-1].(*ssa.Return)
				if !ok || len(ret.Results) != 1 {
					continue
				}
				if cv, ok := ret.Results[0].(*ssa.Const); ok && cv.Value != nil && cv.Value.Kind() == constant.Bool && !constant.BoolVal(cv.Value) {
					continue
				}
				if !guard.Dominates(b) {
					bad = p.Pos(ret.Pos())
				}
			}
			if bad != "" {
				r.Bad("R-LOWER-DOM", key, bad, "a result other than false can be returned without passing the test Compare(probe, base) >= 0")
			} else {
				r.Ok("R-LOWER-DOM", key, p.FnPos(fn), "every return other than false is dominated by Compare(probe, base) >= 0")
			}
		}
	}
	// method-shaped prefix predicates: (c *constraint) f(probe) bool that compares a field of the probe with
	// the same field of the constraint's own version (composer's caret forms)
	for _, e := range p.Ecos {
		for _, fn := range p.RepoReachable(e.Contains) {
			if fn.Pkg == nil || fn.Pkg.Pkg != e.VerT.Obj().Pkg() || fn.Blocks == nil || fn.Signature.Recv() == nil {
				continue
			}
			if fn.Signature.Results().Len() != 1 || !isBoolType(fn.Signature.Results().At(0).Type()) {
				continue
			}
			var probe *ssa.Parameter
			nver := 0
			for _, prm := range fn.Params[1:] {
				if pt, ok := prm.Type().Underlying().(*types.Pointer); ok && types.Identical(pt.Elem(), e.VerT) {
					probe = prm
					nver++
				}
			}
			if nver != 1 {
				continue
			}
			// the base: a *Version loaded from a field of the receiver
			isBase := func(v ssa.Value) bool {
				ld, ok := v.(*ssa.UnOp)
				if !ok || ld.Op != token.MUL {
					return false
				}
				fa, ok := ld.X.(*ssa.FieldAddr)
				return ok && fa.X == ssa.Value(fn.Params[0])
			}
			fieldOf := func(v ssa.Value) (base ssa.Value, field int, ok bool) {
				ld, isLd := v.(*ssa.UnOp)
				if !isLd || ld.Op != token.MUL {
					return nil, 0, false
				}
				fa, isFA := ld.X.(*ssa.FieldAddr)
				if !isFA {
					return nil, 0, false
				}
				return fa.X, fa.Field, true
			}
			comparesFields := false
			for _, b := range fn.Blocks {
				for _, ins := range b.Instrs {
					bo, ok := ins.(*ssa.BinOp)
					if !ok {
						continue
					}
					xb, xf, ok1 := fieldOf(bo.X)
					yb, yf, ok2 := fieldOf(bo.Y)
					if ok1 && ok2 && xf == yf && (xb == ssa.Value(probe) && isBase(yb) || yb == ssa.Value(probe) && isBase(xb)) {
						comparesFields = true
					}
				}
			}
			if !comparesFields {
				continue
			}
			// the guard: Compare(probe, base) >= 0 (as a branch or as the first conjunct of the result)
			guarded := func(b *ssa.BasicBlock) bool {
				return domEdges(b, func(cond ssa.Value, tv bool) bool {
					bo, ok := cond.(*ssa.BinOp)
					if !ok {
						return false
					}
					call, ok := bo.X.(*ssa.Call)
					if !ok || call.Call.StaticCallee() != e.Compare || len(call.Call.Args) != 2 || call.Call.Args[0] != ssa.Value(probe) || !isBase(call.Call.Args[1]) {
						return false
					}
					if z, ok := constInt(bo.Y); !ok || z != 0 {
						return false
					}
					return bo.Op == token.GEQ && tv || bo.Op == token.LSS && !tv
				})
			}
			var unguarded []string
			for _, b := range fn.Blocks {
				ret, ok := b.Instrs[len(b.Instrs)-1].(*ssa.Return)
				if !ok {
					continue
				}
				var bad func(v ssa.Value, at *ssa.BasicBlock, depth int) bool
				bad = func(v ssa.Value, at *ssa.BasicBlock, depth int) bool {
					if cv, ok := v.(*ssa.Const); ok && cv.Value != nil && cv.Value.Kind() == constant.Bool && !constant.BoolVal(cv.Value) {
						return false
					}
					if guarded(at) {
						return false
					}
					if ph, ok := v.(*ssa.Phi); ok && depth < 3 {
						for i, ed := range ph.Edges {
							if bad(ed, ph.Block().Preds[i], depth+1) {
								return true
							}
						}
						return false
					}
					// the comparison itself as the result: Compare(probe, base) >= 0
					if bo, ok := v.(*ssa.BinOp); ok && bo.Op == token.GEQ {
						if call, ok := bo.X.(*ssa.Call); ok && call.Call.StaticCallee() == e.Compare {
							return false
						}
					}
					return true
				}
				if bad(ret.Results[0], b, 0) {
					unguarded = append(unguarded, p.Pos(ret.Pos()))
				}
			}
			n++
			key := fmt.Sprintf("%s: %s contains nothing older than the base", e.Name, fn.Name())
			if len(unguarded) > 0 {
				sort.Strings(unguarded)
				r.Bad("R-LOWER-DOM", fmt.Sprintf("%s :: %d acceptance(s) without the order test", key, len(unguarded)), unguarded[0], "a result other than false is returned on a path that has not passed Compare(probe, base) >= 0: versions older than the base (its own pre-releases, dev branches) can be contained")
			} else {
				r.Ok("R-LOWER-DOM", key, p.FnPos(fn), "every result other than false is dominated by, or conjoined with, Compare(probe, base) >= 0")
			}
		}
	}
	r.Floor("R-LOWER-DOM", 8)
	_ = n
}

func init() {
	register("C05", "", ruleLowerDom)
}

func init() {
	// debugging aid: GVTAB=eco.NewVersion tabulates a method by name
}
