package main

import (
	"fmt"
	"go/constant"
	"go/token"
	"go/types"
	"sort"

	"golang.org/x/tools/go/ssa"
)

// ---- R-PANIC-ASSERT: unchecked type assertions follow a tagged-union discipline --------
//
// x.(T) without comma-ok is accepted only when x is the interface field of a struct S that
// also carries a boolean tag field, every construction of S pairs a constant tag with a
// value of one dynamic type (tag->type is a function), and under every valuation of the
// tag atoms for which the assertion is reachable the tag of the asserted operand maps to T.

type structSite struct {
	valType types.Type // dynamic type stored in the interface field (nil: not set)
	tag     map[int]*bool
	pos     token.Pos
	ok      bool
}

// constructionSites enumerates every place a value of struct type S is built field by field.
func constructionSites(p *Prog, S *types.Named, valField int) []structSite {
	var sites []structSite
	st := S.Underlying().(*types.Struct)
	collect := func(base ssa.Value, pos token.Pos, hasWhole bool) {
		// one site per store to the interface field; its tags are the constant tag stores to the
		// same base in the same block (a literal's field stores are emitted together)
		type fs struct {
			s     *ssa.Store
			field int
		}
		var stores []fs
		for _, ref := range *base.Referrers() {
			fa, ok := ref.(*ssa.FieldAddr)
			if !ok {
				continue
			}
			for _, r2 := range *fa.Referrers() {
				if s, ok := r2.(*ssa.Store); ok && s.Addr == fa {
					stores = append(stores, fs{s, fa.Field})
				}
			}
		}
		nval := 0
		for _, vs := range stores {
			if vs.field != valField {
				continue
			}
			nval++
			site := structSite{tag: map[int]*bool{}, pos: vs.s.Pos(), ok: true}
			if mi, ok := vs.s.Val.(*ssa.MakeInterface); ok {
				site.valType = mi.X.Type()
			} else if c, ok := vs.s.Val.(*ssa.Const); ok && c.Value == nil {
				site.valType = nil
			} else {
				site.ok = false
			}
			for _, ts := range stores {
				if ts.field == valField || ts.s.Block() != vs.s.Block() {
					continue
				}
				if b, ok := st.Field(ts.field).Type().Underlying().(*types.Basic); ok && b.Kind() == types.Bool {
					if c, ok := ts.s.Val.(*ssa.Const); ok && c.Value != nil && c.Value.Kind() == constant.Bool {
						v := constant.BoolVal(c.Value)
						if site.tag[ts.field] != nil && *site.tag[ts.field] != v {
							site.ok = false
						}
						site.tag[ts.field] = &v
					} else {
						site.ok = false
					}
				}
			}
			// a tag stored in another block for the same base makes the pairing unknowable here
			for _, ts := range stores {
				if ts.field != valField && ts.s.Block() != vs.s.Block() && site.tag[ts.field] == nil {
					if b, ok := st.Field(ts.field).Type().Underlying().(*types.Basic); ok && b.Kind() == types.Bool {
						site.ok = false
					}
				}
			}
			sites = append(sites, site)
		}
		if nval == 0 && !hasWhole {
			// zero interface value; tags whatever is stored
			site := structSite{tag: map[int]*bool{}, pos: pos, ok: true}
			for _, ts := range stores {
				if c, ok := ts.s.Val.(*ssa.Const); ok && c.Value != nil && c.Value.Kind() == constant.Bool {
					v := constant.BoolVal(c.Value)
					site.tag[ts.field] = &v
				}
			}
			used := false
			for _, ref := range *base.Referrers() {
				if _, isFA := ref.(*ssa.FieldAddr); !isFA {
					if _, isDbg := ref.(*ssa.DebugRef); !isDbg {
						used = true
					}
				}
			}
			if used {
				sites = append(sites, site)
			}
		}
	}
	for fn := range p.AllFns {
		if !p.IsRepoFn(fn) || fn.Blocks == nil {
			continue
		}
		for _, blk := range fn.Blocks {
			for _, ins := range blk.Instrs {
				switch x := ins.(type) {
				case *ssa.Alloc:
					et := x.Type().Underlying().(*types.Pointer).Elem()
					if types.Identical(et, S) {
						// a spill of an existing value (*alloc = v) is a copy, not a construction
						hasWhole := false
						for _, ref := range *x.Referrers() {
							if s, ok := ref.(*ssa.Store); ok && s.Addr == x {
								hasWhole = true
							}
						}
						collect(x, x.Pos(), hasWhole)
					} else if arr, ok := et.Underlying().(*types.Array); ok && types.Identical(arr.Elem(), S) {
						for _, ref := range *x.Referrers() {
							if ia, ok := ref.(*ssa.IndexAddr); ok {
								whole := false
								for _, r2 := range *ia.Referrers() {
									if s, ok := r2.(*ssa.Store); ok && s.Addr == ia {
										whole = true
									}
								}
								collect(ia, x.Pos(), whole)
							}
						}
					}
				case *ssa.MakeSlice:
					if types.Identical(x.Type().Underlying().(*types.Slice).Elem(), S) {
						if c, ok := constInt(x.Len); !ok || c != 0 {
							sites = append(sites, structSite{tag: map[int]*bool{}, pos: x.Pos(), ok: true}) // zero elements
						}
					}
				}
				for _, op := range ins.Operands(nil) {
					if c, ok := (*op).(*ssa.Const); ok && c.Value == nil && types.Identical(c.Type(), S) {
						sites = append(sites, structSite{tag: map[int]*bool{}, pos: ins.Pos(), ok: true}) // zero literal
					}
				}
			}
		}
	}
	return sites
}

type tagAtom struct {
	base  ssa.Value // root allocation / pointer the struct is read through
	field int
}

func atomOf(v ssa.Value) (tagAtom, bool) {
	u, ok := v.(*ssa.UnOp)
	if !ok || u.Op != token.MUL {
		if f, ok := v.(*ssa.Field); ok {
			return tagAtom{f.X, f.Field}, true
		}
		return tagAtom{}, false
	}
	fa, ok := u.X.(*ssa.FieldAddr)
	if !ok {
		return tagAtom{}, false
	}
	return tagAtom{fa.X, fa.Field}, true
}

// evalCond: truth value of a branch condition under a valuation of tag atoms (0 unknown, 1 true, 2 false)
func evalCond(v ssa.Value, val map[tagAtom]bool) int {
	switch x := v.(type) {
	case *ssa.UnOp:
		if x.Op == token.NOT {
			switch evalCond(x.X, val) {
			case 1:
				return 2
			case 2:
				return 1
			}
			return 0
		}
		if at, ok := atomOf(v); ok {
			if b, known := val[at]; known {
				if b {
					return 1
				}
				return 2
			}
		}
	case *ssa.Field:
		if at, ok := atomOf(v); ok {
			if b, known := val[at]; known {
				if b {
					return 1
				}
				return 2
			}
		}
	case *ssa.Const:
		if x.Value != nil && x.Value.Kind() == constant.Bool {
			if constant.BoolVal(x.Value) {
				return 1
			}
			return 2
		}
	}
	return 0
}

func reachableUnder(fn *ssa.Function, target *ssa.BasicBlock, val map[tagAtom]bool) bool {
	seen := map[*ssa.BasicBlock]bool{}
	var stack []*ssa.BasicBlock
	stack = append(stack, fn.Blocks[0])
	seen[fn.Blocks[0]] = true
	for len(stack) > 0 {
		b := stack[len(stack)-1]
		stack = stack[:len(stack)-1]
		if b == target {
			return true
		}
		succs := b.Succs
		if iff, ok := b.Instrs[len(b.Instrs)-1].(*ssa.If); ok {
			switch evalCond(iff.Cond, val) {
			case 1:
				succs = b.Succs[:1]
			case 2:
				succs = b.Succs[1:]
			}
		}
		for _, s := range succs {
			if !seen[s] {
				seen[s] = true
				stack = append(stack, s)
			}
		}
	}
	return false
}

func rulePanicAssert(p *Prog, r *Report) {
	roots := append(p.LibraryRoots(), p.CLIRoots()...)
	fns := p.Representatives(p.RepoReachable(roots...))
	for _, fn := range fns {
		fk := p.FnKey(fn)
		for _, blk := range fn.Blocks {
			for _, ins := range blk.Instrs {
				ta, ok := ins.(*ssa.TypeAssert)
				if !ok || ta.CommaOk {
					continue
				}
				key := fmt.Sprintf("%s: assert %s.(%s)", fk, describeAddr(ta.X), types.TypeString(ta.AssertedType, func(*types.Package) string { return "" }))
				pos := p.Pos(ta.Pos())
				at, ok := atomOf(ta.X)
				if !ok {
					if why, safe := syncMapDiscipline(p, ta); safe {
						r.Ok("R-PANIC-ASSERT", key, pos, why)
						continue
					}
					r.Bad("R-PANIC-ASSERT", key, pos, "unchecked type assertion on a value that is not a struct's interface field: no discipline to check")
					continue
				}
				var S *types.Named
				switch bt := at.base.Type().Underlying().(type) {
				case *types.Pointer:
					S, _ = bt.Elem().(*types.Named)
				default:
					S, _ = at.base.Type().(*types.Named)
				}
				if S == nil {
					r.Bad("R-PANIC-ASSERT", key, pos, "unchecked type assertion: operand's struct type not resolved")
					continue
				}
				st := S.Underlying().(*types.Struct)
				sites := constructionSites(p, S, at.field)
				// find a bool tag field for which tag -> dynamic type is a function over all sites
				found := false
				var why string
				for tf := 0; tf < st.NumFields(); tf++ {
					if b, ok := st.Field(tf).Type().Underlying().(*types.Basic); !ok || b.Kind() != types.Bool {
						continue
					}
					tagType := map[bool]types.Type{}
					consistent := true
					for _, s := range sites {
						if !s.ok {
							consistent = false
							why = "a construction site of " + S.Obj().Name() + " at " + p.Pos(s.pos) + " does not store a constant tag / a value of static dynamic type"
							break
						}
						tv := false
						if s.tag[tf] != nil {
							tv = *s.tag[tf]
						}
						if prev, seen := tagType[tv]; seen {
							if (prev == nil) != (s.valType == nil) || prev != nil && !types.Identical(prev, s.valType) {
								consistent = false
								why = fmt.Sprintf("construction at %s pairs tag %s=%v with dynamic type %v, another site with %v", p.Pos(s.pos), st.Field(tf).Name(), tv, s.valType, prev)
								break
							}
						} else {
							tagType[tv] = s.valType
						}
					}
					if !consistent || len(sites) == 0 {
						continue
					}
					// reachable valuations: atoms = tag fields of every struct base read in this function
					atoms := map[tagAtom]bool{}
					for _, b2 := range fn.Blocks {
						for _, i2 := range b2.Instrs {
							if v2, ok := i2.(ssa.Value); ok {
								if a2, ok := atomOf(v2); ok && a2.field == tf {
									if bb, ok := v2.Type().Underlying().(*types.Basic); ok && bb.Kind() == types.Bool {
										atoms[a2] = true
									}
								}
							}
						}
					}
					var al []tagAtom
					for a2 := range atoms {
						al = append(al, a2)
					}
					sort.Slice(al, func(i, j int) bool { return al[i].base.Name() < al[j].base.Name() })
					if len(al) > 8 {
						why = "too many tag atoms"
						continue
					}
					myTag := tagAtom{at.base, tf}
					bad := ""
					for mask := 0; mask < 1<<len(al); mask++ {
						val := map[tagAtom]bool{}
						for i, a2 := range al {
							val[a2] = mask&(1<<i) != 0
						}
						if !reachableUnder(fn, blk, val) {
							continue
						}
						tv, known := val[myTag]
						if !known {
							bad = "the operand's tag is never tested in this function"
							break
						}
						dt := tagType[tv]
						if _, seen := tagType[tv]; !seen || dt == nil || !types.Identical(dt, ta.AssertedType) {
							bad = fmt.Sprintf("reachable with %s=%v, for which constructions store dynamic type %v, not %v", st.Field(tf).Name(), tv, dt, ta.AssertedType)
							break
						}
					}
					if bad != "" {
						why = bad
						continue
					}
					found = true
					r.Ok("R-PANIC-ASSERT", key, pos, fmt.Sprintf("tagged union %s: tag %s determines the dynamic type at all %d construction sites; assertion reachable only under matching tag valuations (%d atoms)", S.Obj().Name(), st.Field(tf).Name(), len(sites), len(al)))
					break
				}
				if !found {
					r.Bad("R-PANIC-ASSERT", key, pos, "unchecked type assertion may panic: "+why)
				}
			}
		}
	}
	r.Floor("R-PANIC-ASSERT", 6)
}

func init() {
	register("C06", "", rulePanicAssert)
}

// syncMapDiscipline: x.(T) where x is the value loaded from a package-level sync.Map and every value
// ever stored into that map (Store, LoadOrStore, Swap, CompareAndSwap) has static type T.
func syncMapDiscipline(p *Prog, ta *ssa.TypeAssert) (string, bool) {
	ex, ok := ta.X.(*ssa.Extract)
	if !ok || ex.Index != 0 {
		return "", false
	}
	call, ok := ex.Tuple.(*ssa.Call)
	if !ok {
		return "", false
	}
	f := call.Call.StaticCallee()
	if f == nil || (extName(f) != "(*sync.Map).Load" && extName(f) != "(*sync.Map).LoadOrStore") {
		return "", false
	}
	g, ok := call.Call.Args[0].(*ssa.Global)
	if !ok {
		return "", false
	}
	stores := 0
	for fn := range p.AllFns {
		if !p.IsRepoFn(fn) || fn.Blocks == nil {
			continue
		}
		for _, b := range fn.Blocks {
			for _, ins := range b.Instrs {
				c, ok := ins.(ssa.CallInstruction)
				if !ok {
					continue
				}
				cf := c.Common().StaticCallee()
				if cf == nil || len(c.Common().Args) == 0 || c.Common().Args[0] != ssa.Value(g) {
					// the map escapes if its address is used any other way; checked below
					continue
				}
				var val ssa.Value
				switch extName(cf) {
				case "(*sync.Map).Store", "(*sync.Map).LoadOrStore", "(*sync.Map).Swap":
					val = c.Common().Args[2]
				case "(*sync.Map).CompareAndSwap":
					val = c.Common().Args[3]
				case "(*sync.Map).Load", "(*sync.Map).Delete", "(*sync.Map).LoadAndDelete", "(*sync.Map).Range", "(*sync.Map).CompareAndDelete", "(*sync.Map).Clear":
					continue
				default:
					return "", false
				}
				mi, ok := val.(*ssa.MakeInterface)
				if !ok || !types.Identical(mi.X.Type(), ta.AssertedType) {
					return "", false
				}
				stores++
			}
		}
	}
	// the global must not be used other than as the receiver of these calls
	for fn := range p.AllFns {
		if !p.IsRepoFn(fn) || fn.Blocks == nil {
			continue
		}
		for _, b := range fn.Blocks {
			for _, ins := range b.Instrs {
				for _, op := range ins.Operands(nil) {
					if *op != ssa.Value(g) {
						continue
					}
					c, ok := ins.(ssa.CallInstruction)
					if !ok || len(c.Common().Args) == 0 || c.Common().Args[0] != ssa.Value(g) || c.Common().StaticCallee() == nil {
						return "", false
					}
				}
			}
		}
	}
	if stores == 0 {
		return "", false
	}
	return fmt.Sprintf("value loaded from package-level sync.Map %s: all %d stores into it have static type %s", g.Name(), stores, ta.AssertedType), true
}
