package main

// c17b.go: R-VERS-MUSTPASS. vers.Contains may answer without an error only after everything C17
// lists has been checked. The syntactic conditions are the business of R-VERS-REJECT; this rule is the
// must-pass-through part: on every path to a return with a nil error
//
//   - vers.Contains itself only forwards the result of the scheme's evaluator, taken from the scheme
//     table (so an unsupported scheme and everything below are errors whatever the constraints are);
//   - inside an evaluator (and the functions it forwards to) the probe has been parsed by the
//     ecosystem's NewVersion without error, and either the constraints have been validated by
//     normalizeConstraints without error (directly or through a wrapper all of whose error-free
//     returns have passed it) or the return is the documented answer "true" for the lone "*".
//
// A shortcut, a cache hit or a gate that answers before those calls is reported with the return it
// reaches.

import (
	"fmt"
	"go/token"
	"go/types"
	"sort"

	"golang.org/x/tools/go/ssa"
)

// errNilEdgeDominates: b is dominated by the edge on which the error result of call c is nil
func errNilEdgeDominates(c *ssa.Call, b *ssa.BasicBlock) bool {
	res := c.Call.Signature().Results()
	if res.Len() == 0 || !isErrorType(res.At(res.Len()-1).Type()) {
		return false
	}
	var errv ssa.Value
	if res.Len() == 1 {
		errv = c
	} else {
		for _, ref := range *c.Referrers() {
			if ex, ok := ref.(*ssa.Extract); ok && ex.Index == res.Len()-1 {
				errv = ex
			}
		}
	}
	if errv == nil {
		return false
	}
	return domEdges(b, func(cond ssa.Value, tv bool) bool {
		bo, ok := cond.(*ssa.BinOp)
		if !ok {
			return false
		}
		var x ssa.Value
		switch {
		case isNilConst(bo.Y):
			x = bo.X
		case isNilConst(bo.X):
			x = bo.Y
		default:
			return false
		}
		if x != errv {
			return false
		}
		return bo.Op == token.EQL && tv || bo.Op == token.NEQ && !tv
	})
}

// errNonNilAt: v is a definitely non-nil error at block b: a fresh error, or a value tested v != nil on a
// dominating edge
func errNonNilAt(v ssa.Value, b *ssa.BasicBlock) bool {
	if definitelyNonNilErr(v) {
		return true
	}
	return domEdges(b, func(cond ssa.Value, tv bool) bool {
		bo, ok := cond.(*ssa.BinOp)
		if !ok {
			return false
		}
		var x ssa.Value
		switch {
		case isNilConst(bo.Y):
			x = bo.X
		case isNilConst(bo.X):
			x = bo.Y
		default:
			return false
		}
		return x == v && (bo.Op == token.NEQ && tv || bo.Op == token.EQL && !tv)
	})
}

// trueEdgeDominates: b is dominated by the edge on which the boolean call c is true
func trueEdgeDominates(c *ssa.Call, b *ssa.BasicBlock) bool {
	return domEdges(b, func(cond ssa.Value, tv bool) bool {
		if cond == ssa.Value(c) {
			return tv
		}
		if u, ok := cond.(*ssa.UnOp); ok && u.Op == token.NOT && u.X == ssa.Value(c) {
			return !tv
		}
		return false
	})
}

type mustPass struct {
	p    *Prog
	norm *ssa.Function
	memo map[string]string // fn + params -> "" ok / reason
	wrap map[*ssa.Function]int
}

func (m *mustPass) isNorm(f *ssa.Function) bool {
	return f != nil && m.norm != nil && (f == m.norm || f.Origin() == m.norm)
}

// validatingWrapper: f returns ([]string, error) and every error-free return has passed
// normalizeConstraints on the constraints it was given
func (m *mustPass) validatingWrapper(f *ssa.Function, depth int) bool {
	if f == nil || f.Blocks == nil || depth > 2 {
		return false
	}
	if v, ok := m.wrap[f]; ok {
		return v == 1
	}
	m.wrap[f] = 0
	okAll := true
	n := 0
	for _, b := range f.Blocks {
		ret, isRet := b.Instrs[len(b.Instrs)-1].(*ssa.Return)
		if !isRet || len(ret.Results) == 0 {
			continue
		}
		last := ret.Results[len(ret.Results)-1]
		if !isErrorType(last.Type()) {
			return false
		}
		if errNonNilAt(last, b) {
			continue
		}
		n++
		if ex, ok := last.(*ssa.Extract); ok {
			// forwards the results of a call: that call must be validating
			if c, ok := ex.Tuple.(*ssa.Call); ok {
				if g := c.Call.StaticCallee(); m.isNorm(g) || m.validatingWrapper(g, depth+1) {
					continue
				}
			}
			okAll = false
			continue
		}
		if !m.constraintsValidatedAt(f, b, depth) {
			okAll = false
		}
	}
	if okAll && n > 0 {
		m.wrap[f] = 1
	}
	return m.wrap[f] == 1
}

func (m *mustPass) constraintsValidatedAt(f *ssa.Function, b *ssa.BasicBlock, depth int) bool {
	for _, blk := range f.Blocks {
		for _, ins := range blk.Instrs {
			c, ok := ins.(*ssa.Call)
			if !ok {
				continue
			}
			g := c.Call.StaticCallee()
			if g == nil {
				continue
			}
			if (m.isNorm(g) || m.validatingWrapper(g, depth+1)) && errNilEdgeDominates(c, b) {
				return true
			}
		}
	}
	return false
}

// starAnswer: the block returns the constant true under the true edge of a star predicate applied to
// the raw constraints (a repo function over the constraint list that compares with "*")
func (m *mustPass) starAnswer(f *ssa.Function, ret *ssa.Return, cons ssa.Value) bool {
	cv, ok := ret.Results[0].(*ssa.Const)
	if !ok || cv.Value == nil || cv.Value.String() != "true" {
		return false
	}
	for _, blk := range f.Blocks {
		for _, ins := range blk.Instrs {
			c, ok := ins.(*ssa.Call)
			if !ok || len(c.Call.Args) != 1 || c.Call.Args[0] != cons || !isBoolType(c.Type()) {
				continue
			}
			g := c.Call.StaticCallee()
			if g == nil || !m.p.IsRepoFn(g) || !comparesWithStar(g) {
				continue
			}
			if trueEdgeDominates(c, ret.Block()) {
				return true
			}
		}
	}
	return false
}

func comparesWithStar(g *ssa.Function) bool {
	for _, b := range g.Blocks {
		for _, ins := range b.Instrs {
			if bo, ok := ins.(*ssa.BinOp); ok && (bo.Op == token.EQL || bo.Op == token.NEQ) {
				if s, ok := constString(bo.Y); ok && s == "*" {
					return true
				}
				if s, ok := constString(bo.X); ok && s == "*" {
					return true
				}
			}
		}
	}
	return false
}

// check: every error-free return of f (constraints cons, probe text ver) has passed the validations
func (m *mustPass) check(f *ssa.Function, cons, ver *ssa.Parameter, depth int) []string {
	var bad []string
	if f == nil || f.Blocks == nil {
		return []string{"evaluator without a body"}
	}
	if depth > 4 {
		return []string{"forwarding chain too deep"}
	}
	for _, b := range f.Blocks {
		ret, isRet := b.Instrs[len(b.Instrs)-1].(*ssa.Return)
		if !isRet || len(ret.Results) != 2 {
			continue
		}
		errv := ret.Results[1]
		if errNonNilAt(errv, b) {
			continue
		}
		pos := m.p.Pos(ret.Pos())
		if !isNilConst(errv) {
			// forwards the results of another evaluator
			ex, ok := errv.(*ssa.Extract)
			var call *ssa.Call
			if ok {
				call, _ = ex.Tuple.(*ssa.Call)
			}
			ex0, ok0 := ret.Results[0].(*ssa.Extract)
			if call == nil || !ok0 || ex0.Tuple != ssa.Value(call) {
				bad = append(bad, fmt.Sprintf("%s: the error returned is neither nil, nor fresh, nor the error of a forwarded evaluator", pos))
				continue
			}
			g := call.Call.StaticCallee()
			if g == nil || !m.p.IsRepoFn(g) {
				bad = append(bad, fmt.Sprintf("%s: results forwarded from a call that cannot be resolved", pos))
				continue
			}
			var gc, gv *ssa.Parameter
			for i, a := range call.Call.Args {
				if i >= len(g.Params) {
					break
				}
				if a == ssa.Value(cons) {
					gc = g.Params[i]
				}
				if a == ssa.Value(ver) {
					gv = g.Params[i]
				}
			}
			if gc == nil || gv == nil {
				bad = append(bad, fmt.Sprintf("%s: results forwarded from %s, which does not receive the raw constraints and the probe", pos, g.Name()))
				continue
			}
			for _, s := range m.check(g, gc, gv, depth+1) {
				bad = append(bad, s)
			}
			continue
		}
		// a plain answer: probe parsed, and constraints validated or the star answer
		probeOK := false
		for _, blk := range f.Blocks {
			for _, ins := range blk.Instrs {
				c, ok := ins.(*ssa.Call)
				if !ok {
					continue
				}
				name := ""
				var args []ssa.Value
				if c.Call.IsInvoke() {
					name, args = c.Call.Method.Name(), c.Call.Args
				} else if g := c.Call.StaticCallee(); g != nil && g.Signature.Recv() != nil && len(c.Call.Args) > 0 {
					name, args = g.Name(), c.Call.Args[1:]
				}
				if name == "NewVersion" && len(args) == 1 && args[0] == ssa.Value(ver) && errNilEdgeDominates(c, b) {
					probeOK = true
				}
			}
		}
		if !probeOK {
			bad = append(bad, fmt.Sprintf("%s: %s answers (%s, nil) on a path on which the probe has not been parsed by the ecosystem's NewVersion", pos, f.Name(), ret.Results[0].Name()))
			continue
		}
		if m.starAnswer(f, ret, cons) || m.constraintsValidatedAt(f, b, 0) {
			continue
		}
		bad = append(bad, fmt.Sprintf("%s: %s answers without an error on a path on which the constraints have not passed normalizeConstraints (the step that rejects a constraint without comparator or version and a version the ecosystem rejects)", pos, f.Name()))
	}
	return bad
}

func ruleVersMustPass(p *Prog, r *Report) {
	contains := versFunc(p, "Contains")
	norm := versFunc(p, "normalizeConstraints")
	if contains == nil || norm == nil {
		r.Und("R-VERS-MUSTPASS", "vers.Contains", "-", "vers.Contains or normalizeConstraints not found")
		return
	}
	m := &mustPass{p: p, norm: norm, memo: map[string]string{}, wrap: map[*ssa.Function]int{}}
	table, _, why := versDispatch(p)
	// (1) vers.Contains answers only by forwarding the evaluator taken from the table
	{
		key := "vers.Contains: every answer without an error is the evaluator's"
		var bad []string
		n := 0
		for _, b := range contains.Blocks {
			ret, isRet := b.Instrs[len(b.Instrs)-1].(*ssa.Return)
			if !isRet || len(ret.Results) != 2 || errNonNilAt(ret.Results[1], b) {
				continue
			}
			n++
			pos := p.Pos(ret.Pos())
			ex, ok := ret.Results[1].(*ssa.Extract)
			var call *ssa.Call
			if ok {
				call, _ = ex.Tuple.(*ssa.Call)
			}
			ex0, ok0 := ret.Results[0].(*ssa.Extract)
			if call == nil || !ok0 || ex0.Tuple != ssa.Value(call) {
				bad = append(bad, fmt.Sprintf("%s: vers.Contains answers (%s, nil) itself: the scheme table has not been consulted, the probe and the constraints have not been seen by the scheme's ecosystem", pos, ret.Results[0].Name()))
				continue
			}
			// the callee: the looked-up table entry (dynamic) or, for a switch, a static evaluator
			if g := call.Call.StaticCallee(); g != nil {
				found := false
				for _, f := range table {
					if f == g {
						found = true
					}
				}
				if !found && len(table) > 0 {
					bad = append(bad, fmt.Sprintf("%s: results forwarded from %s, which is not an entry of the scheme table", pos, g.Name()))
				}
				continue
			}
			exv, isEx := call.Call.Value.(*ssa.Extract)
			var lk *ssa.Lookup
			if isEx {
				lk, _ = exv.Tuple.(*ssa.Lookup)
			}
			if ph, isPhi := call.Call.Value.(*ssa.Phi); isPhi && lk == nil {
				// the evaluator chosen by a switch over the scheme: every edge is an entry of the table
				okAll := len(table) > 0
				for _, e := range ph.Edges {
					var f *ssa.Function
					switch v := e.(type) {
					case *ssa.Function:
						f = v
					case *ssa.MakeClosure:
						f, _ = v.Fn.(*ssa.Function)
					}
					found := false
					for _, g := range table {
						if g != nil && g == f {
							found = true
						}
					}
					okAll = okAll && found
				}
				if !okAll {
					bad = append(bad, fmt.Sprintf("%s: results forwarded from a function value that is not an entry of the scheme switch", pos))
				}
				continue
			}
			if lk == nil {
				bad = append(bad, fmt.Sprintf("%s: results forwarded from a function value that is not the looked-up table entry", pos))
				continue
			}
			// the ok of the lookup must hold here
			okDom := false
			for _, ref := range *lk.Referrers() {
				if e2, isE := ref.(*ssa.Extract); isE && e2.Index == 1 {
					okDom = okDom || domEdges(b, func(cond ssa.Value, tv bool) bool { return cond == ssa.Value(e2) && tv })
					// the call itself happens in a dominating block; accept the test there too
					okDom = okDom || domEdges(call.Block(), func(cond ssa.Value, tv bool) bool { return cond == ssa.Value(e2) && tv })
				}
			}
			if !okDom {
				bad = append(bad, fmt.Sprintf("%s: the table entry is called without a test that the scheme is in the table", pos))
			}
		}
		switch {
		case why != "" && len(table) == 0:
			// no table: a switch over the scheme; every forwarded callee was accepted above
			fallthrough
		case len(bad) > 0:
			if len(bad) == 0 {
				r.Ok("R-VERS-MUSTPASS", key, p.FnPos(contains), fmt.Sprintf("all %d error-free returns forward an evaluator's results", n))
			} else {
				sort.Strings(bad)
				r.Bad("R-VERS-MUSTPASS", key, p.FnPos(contains), bad[0])
			}
		case n == 0:
			r.Und("R-VERS-MUSTPASS", key, p.FnPos(contains), "no error-free return found")
		default:
			r.Ok("R-VERS-MUSTPASS", key, p.FnPos(contains), fmt.Sprintf("all %d error-free returns forward the results of the evaluator looked up in the scheme table, under the test that the scheme is present", n))
		}
	}
	// (2) every evaluator
	var evals []*ssa.Function
	seen := map[*ssa.Function]bool{}
	for _, f := range table {
		if f != nil && !seen[f] {
			seen[f] = true
			evals = append(evals, f)
		}
	}
	if len(evals) == 0 {
		// a switch over the scheme: the evaluators are the static callees forwarded by Contains
		for _, b := range contains.Blocks {
			for _, ins := range b.Instrs {
				if c, ok := ins.(*ssa.Call); ok {
					if g := c.Call.StaticCallee(); g != nil && p.IsRepoFn(g) && g.Signature.Params().Len() == 2 && g.Signature.Results().Len() == 2 {
						if isStringSlice(g.Signature.Params().At(0).Type()) && isBoolType(g.Signature.Results().At(0).Type()) && !seen[g] {
							seen[g] = true
							evals = append(evals, g)
						}
					}
				}
			}
		}
	}
	sort.Slice(evals, func(i, j int) bool { return evals[i].Name() < evals[j].Name() })
	for _, f := range evals {
		key := fmt.Sprintf("vers evaluator %s: an answer without an error has parsed the probe and validated the constraints", f.Name())
		var cons, ver *ssa.Parameter
		for _, prm := range f.Params {
			if isStringSlice(prm.Type()) {
				cons = prm
			} else if b, ok := prm.Type().Underlying().(*types.Basic); ok && b.Kind() == types.String {
				ver = prm
			}
		}
		if cons == nil || ver == nil {
			r.Und("R-VERS-MUSTPASS", key, p.FnPos(f), "evaluator does not take (constraints []string, version string)")
			continue
		}
		bad := m.check(f, cons, ver, 0)
		if len(bad) > 0 {
			sort.Strings(bad)
			r.Bad("R-VERS-MUSTPASS", key, p.FnPos(f), bad[0])
		} else {
			r.Ok("R-VERS-MUSTPASS", key, p.FnPos(f), "every return with a nil error is dominated by the error-free edges of NewVersion(probe) and of normalizeConstraints (or is the answer true under the lone-star predicate)")
		}
	}
	r.Floor("R-VERS-MUSTPASS", 12)
}

func init() {
	register("C17", "", ruleVersMustPass)
}

// ---- R-VERS-STAR (C04): 'vers:<scheme>/*' contains every valid version ------------------------------------
//
// In every evaluator (following forwarded calls) the lone-star predicate is applied to the raw
// constraints, its true edge returns (true, nil), and every return other than the error return of
// NewVersion(probe) is dominated by that test: a valid probe reaches it before anything else can answer.
func ruleVersStar(p *Prog, r *Report) {
	table, _, _ := versDispatch(p)
	var evals []*ssa.Function
	seen := map[*ssa.Function]bool{}
	for _, f := range table {
		if f != nil && !seen[f] {
			seen[f] = true
			evals = append(evals, f)
		}
	}
	sort.Slice(evals, func(i, j int) bool { return evals[i].Name() < evals[j].Name() })
	var starIn func(f *ssa.Function, cons, ver *ssa.Parameter, depth int) string
	starIn = func(f *ssa.Function, cons, ver *ssa.Parameter, depth int) string {
		if f == nil || f.Blocks == nil || depth > 3 {
			return "no body"
		}
		// the probe parse and the star test in f
		var parse, star *ssa.Call
		for _, blk := range f.Blocks {
			for _, ins := range blk.Instrs {
				c, ok := ins.(*ssa.Call)
				if !ok {
					continue
				}
				name := ""
				var args []ssa.Value
				if c.Call.IsInvoke() {
					name, args = c.Call.Method.Name(), c.Call.Args
				} else if g := c.Call.StaticCallee(); g != nil && g.Signature.Recv() != nil && len(c.Call.Args) > 0 {
					name, args = g.Name(), c.Call.Args[1:]
				}
				if name == "NewVersion" && len(args) == 1 && args[0] == ssa.Value(ver) && parse == nil {
					parse = c
				}
				if g := c.Call.StaticCallee(); g != nil && p.IsRepoFn(g) && len(c.Call.Args) == 1 && c.Call.Args[0] == ssa.Value(cons) && isBoolType(c.Type()) && comparesWithStar(g) {
					star = c
				}
			}
		}
		if star == nil {
			// no star test here: f must forward (constraints, probe) to a function that has one, on every
			// return that is not a definite error
			var next *ssa.Function
			var nc, nv *ssa.Parameter
			for _, b := range f.Blocks {
				ret, isRet := b.Instrs[len(b.Instrs)-1].(*ssa.Return)
				if !isRet || len(ret.Results) != 2 || errNonNilAt(ret.Results[1], b) {
					continue
				}
				ex, ok := ret.Results[1].(*ssa.Extract)
				if !ok {
					return fmt.Sprintf("%s answers at %s without a test for the lone star", f.Name(), p.Pos(ret.Pos()))
				}
				call, _ := ex.Tuple.(*ssa.Call)
				if call == nil || call.Call.StaticCallee() == nil {
					return fmt.Sprintf("%s forwards to an unresolved call", f.Name())
				}
				g := call.Call.StaticCallee()
				for i, a := range call.Call.Args {
					if i < len(g.Params) && a == ssa.Value(cons) {
						nc = g.Params[i]
					}
					if i < len(g.Params) && a == ssa.Value(ver) {
						nv = g.Params[i]
					}
				}
				next = g
			}
			if next == nil || nc == nil || nv == nil {
				return fmt.Sprintf("%s neither tests for the lone star nor forwards the raw constraints and the probe", f.Name())
			}
			return starIn(next, nc, nv, depth+1)
		}
		// the true edge returns (true, nil)
		okTrue := false
		for _, ref := range *star.Referrers() {
			if iff, ok := ref.(*ssa.If); ok && returnsBool(iff.Block().Succs[0], true) {
				if ret := iff.Block().Succs[0].Instrs[len(iff.Block().Succs[0].Instrs)-1].(*ssa.Return); len(ret.Results) == 2 && isNilConst(ret.Results[1]) {
					okTrue = true
				}
			}
		}
		if !okTrue {
			return fmt.Sprintf("%s: the lone-star test does not lead to 'return true, nil'", f.Name())
		}
		for _, b := range f.Blocks {
			ret, isRet := b.Instrs[len(b.Instrs)-1].(*ssa.Return)
			if !isRet {
				continue
			}
			if star.Block().Dominates(b) {
				continue
			}
			// allowed in front of the star test: the error return of the probe parse
			if parse != nil && len(ret.Results) == 2 && errNonNilAt(ret.Results[1], b) && !errNilEdgeDominates(parse, b) && parse.Block().Dominates(b) {
				continue
			}
			return fmt.Sprintf("%s can return at %s before the lone-star test: 'vers:<scheme>/*' would not contain every valid version", f.Name(), p.Pos(ret.Pos()))
		}
		return ""
	}
	for _, f := range evals {
		key := fmt.Sprintf("vers evaluator %s: a lone '*' contains every version the ecosystem parses", f.Name())
		var cons, ver *ssa.Parameter
		for _, prm := range f.Params {
			if isStringSlice(prm.Type()) {
				cons = prm
			} else if b, ok := prm.Type().Underlying().(*types.Basic); ok && b.Kind() == types.String {
				ver = prm
			}
		}
		if cons == nil || ver == nil {
			r.Und("R-VERS-STAR", key, p.FnPos(f), "evaluator does not take (constraints []string, version string)")
			continue
		}
		if why := starIn(f, cons, ver, 0); why != "" {
			r.Bad("R-VERS-STAR", key, p.FnPos(f), why)
		} else {
			r.Ok("R-VERS-STAR", key, p.FnPos(f), "after the probe is parsed the first decision is the lone-star test on the raw constraints, whose true edge returns (true, nil)")
		}
	}
	r.Floor("R-VERS-STAR", 11)
}

func init() {
	register("C04", "", ruleVersStar)
}

// C04 relies on the normaliser handing every distinct constraint on to the interval grouping: a
// de-duplication keyed on anything coarser than the constraint text drops bounds and exclusions (two
// deb versions that differ after a '+'), and with them whole intervals of the union. The two
// R-VERS-NORM-SORT obligations of C16 (de-duplication key, sort before extraction) are taken over.
func ruleVersNormForC04(p *Prog, r *Report) {
	runImports(p, r, []importSpec{{"vers", []ruleFn{ruleVersNormInner}, func(rule, key string) bool {
		return rule == "R-VERS-NORM-SORT"
	}, map[string]int{"R-VERS-NORM-SORT": 2}}})
}

func init() {
	register("C04", "", ruleVersNormForC04)
}
