package main

import (
	"fmt"
	"go/constant"
	"os"
	"sort"
	"strings"
	"time"

	"golang.org/x/tools/go/ssa"
)

// ---- C14: Alpine versions order as apk-tools does --------------------------------------------------
//
// The rules read the abstract position tables of alpine's suffix-list and numeric comparators and
// the stage order of Compare, and compare them with the ranking of the property statement:
// alpha < beta < pre < rc < (none) < cvs < svn < git < hg < p.

var apkSuffixRank = map[string]int{"alpha": 0, "beta": 1, "pre": 2, "rc": 3, "": 4, "cvs": 5, "svn": 6, "git": 7, "hg": 8, "p": 9}

// fnByName: function of the ecosystem's package
func fnByName(p *Prog, e *Eco, name string) *ssa.Function {
	for fn := range p.AllFns {
		if fn.Name() == name && fn.Pkg != nil && fn.Pkg.Pkg == e.VerT.Obj().Pkg() && fn.Blocks != nil && fn.Signature.Recv() == nil {
			return fn
		}
	}
	return nil
}

// stageFnFor: the comparator function Compare hands the given field to (from the stage keys of
// Compare's analysis: stage:/assumed:/rank: NAME(.field))
func stageFnFor(p *Prog, e *Eco, field string) *ssa.Function {
	er := runAEOne(p, e)
	if er == nil {
		return nil
	}
	var keys []string
	keys = append(keys, er.stages...)
	for k := range er.res.assumed {
		keys = append(keys, k)
	}
	sort.Strings(keys)
	for _, k := range keys {
		name := k[strings.Index(k, ":")+1:]
		i := strings.Index(name, "(")
		if i < 0 || strings.TrimSuffix(name[i+1:], ")") != field {
			continue
		}
		if fn := fnByName(p, e, name[:i]); fn != nil {
			return fn
		}
	}
	return nil
}

func ruleAlpine(p *Prog, r *Report) {
	e := ecoByName(p, "alpine")
	if e == nil {
		r.Und("R-ALPINE-CHAIN", "alpine: ecosystem", "", "ecosystem not found")
		return
	}
	ef := ecoFieldInfo(p, e)
	pos := p.FnPos(e.Compare)
	// locate the fields by the shape of their capture groups
	var fNum, fLetter, fSuf, fBuild string
	if ef.main != nil {
		for i, fp := range ef.prov {
			for _, g := range fp.groups {
				if g.ri != ef.main {
					continue
				}
				sub := findGroup(ef.main.Re, g.idx)
				name := "." + ef.st.Field(i).Name()
				switch {
				case sub != nil && alphabetWithin(sub, "0123456789.") && minLenRe(sub) >= 1 && fNum == "":
					fNum = name
				case sub != nil && maxLenRe(sub) == 1 && alphabetWithin(sub, "abcdefghijklmnopqrstuvwxyz"):
					fLetter = name
				case strings.Contains(g.ri.Pattern, "_[a-z]+") && sub != nil && strings.Contains(sub.String(), "_"):
					fSuf = name
				case sub != nil && strings.Contains(sub.String(), "-r"):
					fBuild = name
				}
			}
		}
	}
	if fNum == "" || fLetter == "" || fSuf == "" || fBuild == "" {
		r.Und("R-ALPINE-CHAIN", "alpine: fields located", pos, fmt.Sprintf("numeric/letter/suffix/revision fields not all located from the version pattern (%q %q %q %q)", fNum, fLetter, fSuf, fBuild))
		return
	}

	t0 := time.Now()
	lap := func(n string) {
		if os.Getenv("GVDEBUG") != "" {
			fmt.Fprintf(os.Stderr, "C14 %s %.1fs\n", n, time.Since(t0).Seconds())
		}
	}
	// ---- R-ALPINE-CHAIN: numeric, then letter (none first), then suffixes, then revision ----------
	{
		c := newAECtx(p)
		nonNil := func(ov map[string]override) map[string]override {
			ov[fNum+"?nil"] = override{nilVal: 2}
			return ov
		}
		all := []string{fNum, fLetter, fSuf, fBuild}
		q := func(key string, ov map[string]override, laterFrom int, what string) {
			for _, k := range all[laterFrom:] {
				if _, has := ov[k]; !has {
					ov["~"+k] = override{free: true}
				}
			}
			qr := c.queryPair(e.Compare, c.tiedExcept(nonNil(ov)), nil)
			switch {
			case qr.oof != "":
				r.Und("R-ALPINE-CHAIN", key, pos, qr.describe())
			case qr.leaves == 0:
				r.Und("R-ALPINE-CHAIN", key, pos, "no abstract world matches the row (the comparator stage was not found under the expected key)")
			case qr.only(-1):
				r.Ok("R-ALPINE-CHAIN", key, pos, fmt.Sprintf("%s: -1 in all %d abstract worlds, whatever the later parts are", what, qr.leaves))
			default:
				r.Bad("R-ALPINE-CHAIN", key, pos, what+" does not always give -1: "+qr.describe())
			}
		}
		empty := constant.MakeString("")
		q("alpine: numeric components decide first", map[string]override{"~(" + fNum + ")": {rel: relPtr(-1)}}, 1, "x smaller on the numeric components")
		q("alpine: no letter sorts before a letter", map[string]override{fLetter: {xConst: &empty, yGap: true}}, 2, "numeric components equal, x without and y with a letter")
		q("alpine: letters in alphabetical order", map[string]override{fLetter: {xGap: true, yGap: true, rel: relPtr(-1)}}, 2, "numeric components equal, x's letter before y's")
		q("alpine: suffixes decide after the letter", map[string]override{"~(" + fSuf + ")": {rel: relPtr(-1)}}, 3, "numeric components and letter equal, x smaller on the suffix list")
		q("alpine: revision decides last", map[string]override{fBuild: {rel: relPtr(-1)}}, 4, "everything else equal, x's -rN smaller")
	}

	lap("chain")
	// ---- R-ALPINE-SUFFIX: the position table of the suffix-list comparator --------------------------
	{
		key := "alpine: suffix list ordered by rank, number, and extra pre/post suffix"
		st := stageFnFor(p, e, fSuf)
		if st == nil {
			r.Und("R-ALPINE-SUFFIX", key, pos, "Compare hands "+fSuf+" to no comparator function")
		} else {
			c := newAECtx(p)
			c.stageMode = false
			leaves, loopFn, seq, oof := zipWorlds(c, st)
			if oof != "" {
				r.Und("R-ALPINE-SUFFIX", key, p.FnPos(st), "suffix-list comparator: "+oof)
			} else {
				nameK, numK, presK := "", "", "present:"+seq
				for _, k := range c.termKeys() {
					ti := c.terms[k]
					if !strings.HasPrefix(k, seq+"[i].") || len(ti.base) != 0 {
						continue
					}
					if isStringType(ti.t) {
						nameK = k
					} else if isIntType(ti.t) {
						numK = k
					}
				}
				var bad []string
				rows := map[string]int{}
				nameOf := func(w *world, ind int) (string, bool) {
					v, ok := w.pos[posKey(nameK, ind)]
					if !ok || v%2 == 0 || v/2 >= len(c.pools[nameK]) {
						return "", false
					}
					s := constant.StringVal(c.pools[nameK][v/2])
					_, known := apkSuffixRank[s]
					return s, known && s != ""
				}
				for _, lf := range leaves {
					px, py := lf.w.pos[posKey(presK, 0)], lf.w.pos[posKey(presK, 1)]
					if px == 0 && py == 0 {
						continue
					}
					desc := lf.w.describe(c.pools, c.terms)
					got, why := outcomeValue(lf.o)
					if why == "TAIL0" {
						why = ""
					}
					exp, row := int64(0), ""
					switch {
					case px == 1 && py == 1:
						nx, okx := nameOf(lf.w, 0)
						ny, oky := nameOf(lf.w, 1)
						if !okx || !oky {
							continue // a name outside the nine known ones: not claimed
						}
						row = "both present"
						switch {
						case apkSuffixRank[nx] < apkSuffixRank[ny]:
							exp = -1
						case apkSuffixRank[nx] > apkSuffixRank[ny]:
							exp = 1
						default:
							v, ok := c.cmpAssigned(lf.w, numK, 0, 1)
							if !ok {
								bad = append(bad, "equal suffix names are ordered without comparing their numbers: ["+desc+"]")
								continue
							}
							exp = int64(v)
						}
					default:
						// one list has an additional suffix: pre-release makes its owner older, post newer
						side := 1
						if py == 0 {
							side = 0
						}
						n, ok := nameOf(lf.w, side)
						if !ok {
							if _, assigned := lf.w.pos[posKey(nameK, side)]; assigned {
								continue // unknown name
							}
							bad = append(bad, "an additional suffix is ordered without looking at its name: ["+desc+"]")
							continue
						}
						row = "additional suffix"
						owner := int64(1) // the owner of the extra suffix is newer
						if apkSuffixRank[n] < apkSuffixRank[""] {
							owner = -1
						}
						exp = owner
						if side == 1 {
							exp = -owner
						}
					}
					rows[row]++
					if why != "" || got != exp {
						bad = append(bad, fmt.Sprintf("row %s: apk gives %d, the position gives %d %s [%s]", row, exp, got, why, desc))
					}
				}
				if len(bad) == 0 {
					c2 := newAECtx(p)
					c2.stageMode = false
					nz, zbad, zoof := zipDecides(c2, st, nil)
					if zoof != "" {
						bad = append(bad, "suffix-list comparator as a whole: "+zoof)
					} else if len(zbad) > 0 {
						bad = append(bad, zbad[0])
					} else {
						rows["whole function = loop"] = nz
					}
				}
				switch {
				case nameK == "" || numK == "":
					r.Und("R-ALPINE-SUFFIX", key, p.FnPos(loopFn), "suffix name/number terms not found")
				case len(bad) > 0:
					sort.Strings(bad)
					r.Bad("R-ALPINE-SUFFIX", key, p.FnPos(loopFn), fmt.Sprintf("%d disagreeing abstract position worlds, e.g. %s", len(bad), bad[0]))
				case rows["both present"] < 20 || rows["additional suffix"] < 9:
					r.Und("R-ALPINE-SUFFIX", key, p.FnPos(loopFn), fmt.Sprintf("rows not exercised enough: %v", rows))
				default:
					r.Ok("R-ALPINE-SUFFIX", key, p.FnPos(loopFn), fmt.Sprintf("%d abstract position worlds agree with alpha<beta<pre<rc<(none)<cvs<svn<git<hg<p, then the number; an additional pre-release suffix makes its version older, a post-release one newer (%v)", len(leaves), rows))
				}
			}
		}
	}

	lap("suffix")
	// ---- R-ALPINE-NUM: components without leading zeros compare as integers, left to right -----------
	{
		key := "alpine: numeric components without leading zeros compare as integers"
		st := stageFnFor(p, e, fNum)
		if st == nil {
			r.Und("R-ALPINE-NUM", key, pos, "Compare hands "+fNum+" to no comparator function")
			return
		}
		c := newAECtx(p)
		c.stageMode = false
		c.allowFirst = true
		leaves, loopFn, seq, oof := zipWorlds(c, st)
		lap("num zipWorlds")
		if oof != "" {
			r.Und("R-ALPINE-NUM", key, p.FnPos(st), "numeric comparator: "+oof)
			return
		}
		// value and text terms of a component
		valK, txtK := "", ""
		for _, k := range c.termKeys() {
			ti := c.terms[k]
			if !strings.HasPrefix(k, seq+"[i].") || len(ti.base) != 0 {
				continue
			}
			if isIntType(ti.t) {
				valK = k
			} else if isStringType(ti.t) {
				txtK = k
			}
		}
		if valK == "" {
			r.Und("R-ALPINE-NUM", key, p.FnPos(loopFn), "component value term not found")
			return
		}
		// provenance: the value is the parsed integer of the component text
		{
			elemT := ef.st.Field(fieldIndex(ef, fNum)).Type()
			_ = elemT
		}
		presK := "present:" + seq
		var bad []string
		n := 0
		for _, lf := range leaves {
			if lf.w.pos[posKey(presK, 0)] != 1 || lf.w.pos[posKey(presK, 1)] != 1 {
				continue // same number of components on both sides
			}
			if leadingZeroWorld(c, lf.w, txtK) {
				continue // leading zeros are not claimed
			}
			desc := lf.w.describe(c.pools, c.terms)
			got, why := outcomeValue(lf.o)
			if why == "TAIL0" {
				why = ""
			}
			v, ok := c.cmpAssigned(lf.w, valK, 0, 1)
			if !ok {
				bad = append(bad, "components are ordered without comparing their integer values: ["+desc+"]")
				continue
			}
			n++
			if why != "" || got != int64(v) {
				bad = append(bad, fmt.Sprintf("integer order gives %d, the position gives %d %s [%s]", v, got, why, desc))
			}
		}
		if len(bad) == 0 {
			c2 := newAECtx(p)
			c2.stageMode = false
			c2.allowFirst = true
			_, zbad, zoof := zipDecides(c2, st, nil)
			if zoof != "" {
				bad = append(bad, "numeric comparator as a whole: "+zoof)
			} else if len(zbad) > 0 {
				bad = append(bad, zbad[0])
			}
		}
		switch {
		case len(bad) > 0:
			sort.Strings(bad)
			r.Bad("R-ALPINE-NUM", key, p.FnPos(loopFn), fmt.Sprintf("%d disagreeing abstract position worlds, e.g. %s", len(bad), bad[0]))
		case n < 6:
			r.Und("R-ALPINE-NUM", key, p.FnPos(loopFn), fmt.Sprintf("only %d abstract position worlds without leading zeros", n))
		default:
			r.Ok("R-ALPINE-NUM", key, p.FnPos(loopFn), fmt.Sprintf("%d abstract position worlds (first and later positions, both components present, no leading zero): outcome is the order of the integer values, ties continue", n))
		}
	}
	r.Floor("R-ALPINE-CHAIN", 5)
	r.Floor("R-ALPINE-SUFFIX", 1)
	r.Floor("R-ALPINE-NUM", 1)
}

func fieldIndex(ef *ecoFields, key string) int {
	for i := 0; i < ef.st.NumFields(); i++ {
		if "."+ef.st.Field(i).Name() == key {
			return i
		}
	}
	return 0
}

// leadingZeroWorld: the world says that a component text is longer than one character and starts
// with '0' (on either side)
func leadingZeroWorld(c *aeCtx, w *world, txtK string) bool {
	if txtK == "" {
		return false
	}
	lenK, firstK := "len("+txtK+")", txtK+"[0]"
	for ind := 0; ind < 2; ind++ {
		long, zero := false, false
		if v, ok := w.pos[posKey(lenK, ind)]; ok {
			if one := poolIndexInt(c.pools[lenK], 1); one >= 0 && v > 2*one+1 {
				long = true
			}
		}
		if v, ok := w.pos[posKey(firstK, ind)]; ok {
			if z := poolIndexInt(c.pools[firstK], '0'); z >= 0 && v == 2*z+1 {
				zero = true
			}
		}
		if long && zero {
			return true
		}
	}
	return false
}

func init() {
	register("C14", "Alpine versions order as apk-tools does", ruleAlpine)
}
