package main

import (
	"fmt"
	"go/constant"
	"go/types"
	"os"
	"sort"
	"strings"
	"time"

	"golang.org/x/tools/go/ssa"
)

type aeFinding struct {
	law    string
	detail string
	world  string
}

type aeResult struct {
	loopSums   map[string]*loopSummary
	sig        map[string]*coreSet // law -> term keys that differ between individuals in failing worlds
	nfail      map[string]int
	root       *ssa.Function
	oof        string // non-empty: the function is out of fragment
	findings   []aeFinding
	worlds     map[string]int // law -> worlds examined
	assumed    map[string]string
	loopsOK    []string
	loopIssues map[string][]string
	atoms      []string
}

type tooLarge struct{}

// rootArgs: abstract arguments of a two-sided function: first half of the parameters is
// individual A, second half individual B, paired by position.
func (c *aeCtx) rootArgs(r *aeRun, root *ssa.Function) []any {
	n := len(root.Params)
	if n == 0 || n%2 != 0 {
		r.oof("%s does not have mirrored parameters", root.Name())
	}
	args := make([]any, n)
	for i, p := range root.Params {
		side := 0
		k := i
		if i >= n/2 {
			side = 1
			k = i - n/2
		}
		if !types.Identical(root.Params[k].Type(), p.Type()) {
			r.oof("%s parameters are not mirrored", root.Name())
		}
		key := ""
		if n > 2 {
			key = fmt.Sprintf("p%d", k)
		}
		if _, ok := p.Type().Underlying().(*types.Basic); ok {
			if key == "" {
				key = "p0"
			}
			args[i] = r.mkTerm(key, side, p.Type(), kindOfType(p.Type()), nil)
		} else {
			args[i] = avRef{key: key, side: side, t: p.Type()}
		}
	}
	return args
}

// subDomain: the language of capture group k for the k-th element of a modelled submatch list
func (c *aeCtx) subDomain(key string, ti *termInfo) *fieldDomain {
	i := strings.LastIndex(key, "[")
	if i <= 0 || !strings.HasSuffix(key, "]") || c.subOf == nil || ti == nil || ti.kind != akOrder || !isStringType(ti.t) {
		return nil
	}
	ri := c.subOf[key[:i]]
	if ri == nil {
		return nil
	}
	var k int
	if _, err := fmt.Sscanf(key[i:], "[%d]", &k); err != nil || k < 1 || k > ri.NumSub {
		return nil
	}
	if lang, fin := groupLanguage(ri.Re, k); fin {
		m := map[string]bool{}
		if !(k < len(ri.GroupMust) && ri.GroupMust[k]) {
			m[""] = true
		}
		for _, s := range lang {
			m[s] = true
		}
		return &fieldDomain{closed: true, allowed: keysOf(m)}
	}
	if k < len(ri.GroupMust) && ri.GroupMust[k] && ri.GroupMin[k] >= 1 {
		return &fieldDomain{excluded: []string{""}}
	}
	return nil
}

// candidates for a demanded atom, filtered by the consistency constraints:
//   - a value derived from bases (Atoi(x), len(x), zip order of Split(x)) is equal for
//     individuals whose bases are equal;
//   - pairwise relations inside one gap extend to a weak order;
//   - presence at the generic position agrees with the lengths (shorter sequence absent first,
//     length 0 never present).
func (c *aeCtx) candidates(w *world, na needAtom) []int {
	ti := c.terms[na.key]
	var out []int
	isLen := strings.HasPrefix(na.key, "len(")
	if na.q < 0 {
		var cands []int
		switch ti.kind {
		case akOrder:
			cands = inhabitedPos(c.pools[na.key], ti.t, isLen, c.orderedConst[na.key])
		default:
			cands = []int{0, 1}
		}
		var dom *fieldDomain
		dom = c.subDomain(na.key, ti)
		if o, ok := c.originOf[na.key]; ok && ti.kind == akOrder && isStringType(ti.t) {
			dom = c.fieldDomainFor(na.key, o)
		}
		if dom == nil && ti.kind == akOrder && isStringType(ti.t) && len(ti.base) == 1 {
			// a case/space normalisation of a field with a closed domain has the image of that domain
			if o, ok := c.originOf[ti.base[0]]; ok {
				for name, f := range map[string]func(string) string{"ToLower": strings.ToLower, "ToUpper": strings.ToUpper, "TrimSpace": strings.TrimSpace} {
					if na.key == name+"("+ti.base[0]+")" {
						if bd := c.fieldDomain(o); bd != nil && bd.closed {
							img := &fieldDomain{closed: true}
							for _, wd := range bd.allowed {
								img.allowed = append(img.allowed, f(wd))
							}
							dom = img
						}
					}
				}
			}
		}
		for _, v := range cands {
			if dom != nil && !domainAllows(dom, c.pools[na.key], v) {
				continue
			}
			if c.posOK(w, na.key, ti, na.p, v, isLen) {
				out = append(out, v)
			}
		}
		return out
	}
	for _, v := range []int{-1, 0, 1} {
		if c.relOK(w, na.key, ti, na.p, na.q, v, isLen) {
			out = append(out, v)
		}
	}
	return out
}

func (c *aeCtx) presenceOK(w *world, lenKey string, p, q int, presP, presQ int) bool {
	// cmp(len p, len q) <= 0: present(p) => present(q); >= 0: present(q) => present(p)
	cv, ok := c.cmpAssigned(w, lenKey, p, q)
	if !ok {
		return true
	}
	if cv <= 0 && presP == 1 && presQ == 0 {
		return false
	}
	if cv >= 0 && presQ == 1 && presP == 0 {
		return false
	}
	return true
}

func (c *aeCtx) posOK(w *world, key string, ti *termInfo, p, v int, isLen bool) bool {
	if ti.kind == akPresence {
		lk := ti.base[0]
		if zero := poolIndex(c.pools[lk], constant.MakeInt64(0)); zero >= 0 {
			if lp, ok := w.pos[posKey(lk, p)]; ok && lp == 2*zero+1 && v == 1 {
				return false
			}
		}
		for q := 0; q < w.n; q++ {
			if q == p {
				continue
			}
			if pq, ok := w.pos[posKey(key, q)]; ok && !c.presenceOK(w, lk, p, q, v, pq) {
				return false
			}
		}
		return true
	}
	{
		w2 := w.clone()
		w2.pos[posKey(key, p)] = v
		if !c.derivedConsistent(w2, key) {
			return false
		}
		if strings.Contains(key, "[0]") && !c.zipHeadOK(w2) {
			return false
		}
	}
	if isLen {
		pk := "present:" + strings.TrimSuffix(strings.TrimPrefix(key, "len("), ")")
		if pres, ok := w.pos[posKey(pk, p)]; ok {
			if zero := poolIndex(c.pools[key], constant.MakeInt64(0)); zero >= 0 && v == 2*zero+1 && pres == 1 {
				return false
			}
			w2 := w.clone()
			w2.pos[posKey(key, p)] = v
			for q := 0; q < w.n; q++ {
				if pq, ok := w.pos[posKey(pk, q)]; ok && q != p && !c.presenceOK(w2, key, p, q, pres, pq) {
					return false
				}
			}
		}
	}
	return true
}

// zipHeadOK: a zip relation that ties implies that the tie-determined element terms are equal at
// index 0 (when the code also reads x.seq[0] directly).
func (c *aeCtx) zipHeadOK(w *world) bool {
	for rk, v := range w.rel {
		if v != 0 || !strings.HasPrefix(rk, "zip:") {
			continue
		}
		i := strings.LastIndex(rk, "|")
		j := strings.LastIndex(rk[:i], "|")
		key := rk[:j]
		var p, q int
		fmt.Sscanf(rk[j+1:], "%d|%d", &p, &q)
		open := strings.LastIndex(key, "(")
		if open < 0 {
			continue
		}
		id, seq := key[len("zip:"):open], strings.TrimSuffix(key[open+1:], ")")
		s := c.lsum[id]
		if s == nil {
			continue
		}
		for _, k := range s.tieEq {
			head := seq + "[0]" + k[strings.Index(k, "[i]")+3:]
			if c.terms[head] == nil {
				continue
			}
			if hv, ok := c.cmpAssigned(w, head, p, q); ok && hv != 0 {
				return false
			}
		}
	}
	return true
}

func (c *aeCtx) relOK(w *world, key string, ti *termInfo, p, q, v int, isLen bool) bool {
	{
		w2 := w.clone()
		w2.rel[relKey(key, p, q)] = v
		if !c.derivedConsistent(w2, key) {
			return false
		}
		if (strings.HasPrefix(key, "zip:") || strings.Contains(key, "[0]")) && !c.zipHeadOK(w2) {
			return false
		}
	}
	if ti.lenKey != "" {
		if zero := poolIndex(c.pools[ti.lenKey], constant.MakeInt64(0)); zero >= 0 {
			lp, ok1 := w.pos[posKey(ti.lenKey, p)]
			lq, ok2 := w.pos[posKey(ti.lenKey, q)]
			if ok1 && ok2 && lp == 2*zero+1 && lq == 2*zero+1 && v != 0 {
				return false // two empty sequences tie
			}
		}
	}
	w2 := w.clone()
	w2.rel[relKey(key, p, q)] = v
	var members []int
	if ti.kind == akRel {
		for i := 0; i < w.n; i++ {
			members = append(members, i)
		}
	} else {
		pp := w.pos[posKey(key, p)]
		for i := 0; i < w.n; i++ {
			if pi, ok := w.pos[posKey(key, i)]; ok && pi == pp {
				members = append(members, i)
			}
		}
	}
	if !relsRealisable(w2, key, members) {
		return false
	}
	if isLen {
		pk := "present:" + strings.TrimSuffix(strings.TrimPrefix(key, "len("), ")")
		pp, ok1 := w.pos[posKey(pk, p)]
		pq, ok2 := w.pos[posKey(pk, q)]
		if ok1 && ok2 && !c.presenceOK(w2, key, p, q, pp, pq) {
			return false
		}
	}
	return true
}

// explore enumerates worlds on demand: body is re-run after each new atom assignment.
func (c *aeCtx) explore(n int, limit int, body func(w *world)) int {
	count := 0
	var rec func(w *world)
	rec = func(w *world) {
		if !c.started.IsZero() && time.Since(c.started) > c.budget {
			panic(tooLarge{})
		}
		var need *needAtom
		func() {
			defer func() {
				if e := recover(); e != nil {
					if na, ok := e.(needAtom); ok {
						need = &na
						return
					}
					panic(e)
				}
			}()
			body(w)
		}()
		if need == nil {
			count++
			if count > limit {
				panic(tooLarge{})
			}
			return
		}
		if c.terms[need.key] == nil {
			panic(outOfFragment{"atom without term info: " + need.key})
		}
		for _, v := range c.candidates(w, *need) {
			w2 := w.clone()
			if need.q < 0 {
				k := posKey(need.key, need.p)
				w2.pos[k] = v
				w2.order = append(w2.order, k)
			} else {
				k := relKey(need.key, need.p, need.q)
				w2.rel[k] = v
				w2.order = append(w2.order, k)
			}
			if c.filter != nil && !c.filter(w2) {
				continue
			}
			rec(w2)
		}
	}
	rec(newWorld(n))
	return count
}

// runPair evaluates root with individual i on side A and j on side B.
func (c *aeCtx) runPair(root *ssa.Function, w *world, i, j int, used map[string]bool) int64 {
	r := &aeRun{ctx: c, w: w, ind: [2]int{i, j}, usedAssumed: used}
	res := r.call(root, c.rootArgs(r, root))
	cv, ok := res.(avConst)
	if !ok || cv.v.Kind() != constant.Int {
		panic(outOfFragment{fmt.Sprintf("%s returns a value that is not a constant in the abstract domain (%T %v)", root.Name(), res, res)})
	}
	d, _ := constant.Int64Val(cv.v)
	return d
}

// runIter evaluates one generic position of the target loop; nil outcome: the loop was not reached.
func (c *aeCtx) runIter(root *ssa.Function, w *world, i, j int, fn *ssa.Function, l *loop) (out *iterOutcome) {
	r := &aeRun{ctx: c, w: w, ind: [2]int{i, j}, target: l, targetFn: fn}
	defer func() {
		if e := recover(); e != nil {
			if _, ok := e.(returned); ok {
				out = r.outcome
				return
			}
			panic(e)
		}
	}()
	r.call(root, c.rootArgs(r, root))
	return nil
}

func (c *aeCtx) presenceKeys(w *world) []string {
	seen := map[string]bool{}
	var out []string
	for k := range w.pos {
		key := k[:strings.LastIndex(k, "|")]
		if ti := c.terms[key]; ti != nil && ti.kind == akPresence && !seen[key] {
			seen[key] = true
			out = append(out, key)
		}
	}
	return out
}

func (c *aeCtx) bothAbsent(w *world, i, j int) bool {
	keys := c.presenceKeys(w)
	for _, k := range keys {
		if w.pos[posKey(k, i)] == 1 || w.pos[posKey(k, j)] == 1 {
			return false
		}
	}
	return len(keys) > 0
}

func (c *aeCtx) oneAbsent(w *world, i, j int) bool {
	for _, k := range c.presenceKeys(w) {
		pi, ok1 := w.pos[posKey(k, i)]
		pj, ok2 := w.pos[posKey(k, j)]
		if ok1 && ok2 && pi != pj {
			return true
		}
	}
	return false
}

// analyseLoop: position-wise laws of one zip loop (see DESIGN 4.1): the relation
// E(x,y) on present-or-absent elements given by one generic iteration (continue = tie) must be
// a total preorder whose non-ties are exactly the exits, with values in {-1,+1}.
func (c *aeCtx) analyseLoop(root *ssa.Function, fn *ssa.Function, l *loop) *loopSummary {
	sum := &loopSummary{seqVals: seqOperands(l)}
	id := loopID(fn, l)
	// analyse the loop from its own function when that function is itself a two-sided
	// comparator (the position laws do not depend on the caller)
	if fn != root {
		ok := true
		func() {
			defer func() {
				if e := recover(); e != nil {
					ok = false
				}
			}()
			rr := &aeRun{ctx: c, w: newWorld(1)}
			c.rootArgs(rr, fn)
		}()
		if ok {
			root = fn
		}
	}
	if len(sum.seqVals) != 2 {
		sum.why = fmt.Sprintf("loop indexes %d sequences with its counter (want the two compared sequences)", len(sum.seqVals))
		return sum
	}
	// the loop must be a plain counting loop
	if cl := classifyLoop(l); cl.class != "T2" && cl.class != "T3" {
		sum.why = "not a counting loop (" + cl.class + " " + cl.reason + ")"
		return sum
	}
	problem := func(w *world, law, msg string) {
		if !c.feasible(w) {
			return
		}
		if sum.lawSig == nil {
			sum.lawSig = map[string]*coreSet{}
			sum.lawN = map[string]int{}
			sum.lawFirst = map[string]string{}
		}
		if sum.lawSig[law] == nil {
			sum.lawSig[law] = &coreSet{}
			sum.lawFirst[law] = fmt.Sprintf("%s [world: %s]", msg, w.describe(c.pools, c.terms))
		}
		sum.lawN[law]++
		sum.lawSig[law].add(c.untiedKeys(w), fmt.Sprintf("%s [world: %s]", msg, w.describe(c.pools, c.terms)))
		if len(sum.problems) < 6 {
			sum.problems = append(sum.problems, fmt.Sprintf("%s: %s [world: %s]", law, msg, w.describe(c.pools, c.terms)))
		}
	}
	val := func(w *world, o *iterOutcome, i, j int) (int64, bool) {
		if o == nil {
			return 0, false // loop not reached for this pair
		}
		if o.kind == "tail" {
			if c.bothAbsent(w, i, j) {
				return 0, true
			}
			if !c.oneAbsent(w, i, j) {
				// guard false although both present: not a zip over these sequences
				problem(w, "shape", "loop guard is false although both sides are present")
				return 0, false
			}
			sum.minKind = true
		}
		v, why := outcomeValue(o)
		if why == "TAIL0" {
			problem(w, "tail", "a sequence with extra elements compares equal to its prefix (tail ignored)")
			return 0, true
		}
		if why != "" {
			problem(w, "exit", why)
			return v, true
		}
		return v, true
	}
	// reflexive
	sum.checked += c.explore(1, 200000, func(w *world) {
		o := c.runIter(root, w, 0, 0, fn, l)
		if v, ok := val(w, o, 0, 0); ok && v != 0 {
			problem(w, "reflexive", "an element does not tie with itself")
		}
	})
	// antisymmetric
	sum.checked += c.explore(2, 400000, func(w *world) {
		o1 := c.runIter(root, w, 0, 1, fn, l)
		v1, ok1 := val(w, o1, 0, 1)
		if !ok1 {
			return
		}
		o2 := c.runIter(root, w, 1, 0, fn, l)
		v2, ok2 := val(w, o2, 1, 0)
		if !ok2 {
			return
		}
		if v1 != -v2 {
			problem(w, "antisymmetric", fmt.Sprintf("position gives %d one way and %d the other", v1, v2))
		}
	})
	// transitive
	sum.checked += c.explore(3, 3000000, func(w *world) {
		oxy := c.runIter(root, w, 0, 1, fn, l)
		vxy, ok := val(w, oxy, 0, 1)
		if !ok || vxy > 0 {
			return
		}
		oyz := c.runIter(root, w, 1, 2, fn, l)
		vyz, ok := val(w, oyz, 1, 2)
		if !ok || vyz > 0 {
			return
		}
		oxz := c.runIter(root, w, 0, 2, fn, l)
		vxz, ok := val(w, oxz, 0, 2)
		if !ok {
			return
		}
		if vxz > 0 || (vxy < 0 || vyz < 0) && vxz == 0 {
			problem(w, "transitive", fmt.Sprintf("x?y=%d y?z=%d but x?z=%d", vxy, vyz, vxz))
		}
	})
	if sum.checked == 0 {
		sum.why = "loop never reached"
		return sum
	}
	// tie-determined element terms
	{
		cand := map[string]bool{}
		for k, ti := range c.terms {
			if strings.Contains(k, "[i]") && len(ti.base) == 0 && (ti.kind == akOrder || ti.kind == akBool || ti.kind == akNil) {
				cand[k] = true
			}
		}
		ties := 0
		c.explore(2, 400000, func(w *world) {
			o := c.runIter(root, w, 0, 1, fn, l)
			if o == nil || o.kind != "continue" {
				return
			}
			ties++
			for k := range cand {
				if v, ok := c.cmpAssigned(w, k, 0, 1); !ok || v != 0 {
					delete(cand, k)
				}
			}
		})
		if ties > 0 {
			sum.tieEq = keysOf(cand)
		}
	}
	sum.ok = true // summarised as a relation even if laws fail: failures are reported separately
	_ = id
	return sum
}

// analyse a root comparator: returns findings for the order laws.
func (c *aeCtx) analyse(root *ssa.Function) *aeResult {
	res := &aeResult{root: root, worlds: map[string]int{}, loopIssues: map[string][]string{}}
	used := map[string]bool{}
	var pending *needLoop
	// protected runs: pool misses and nested loops restart the analysis
	loopAnalysis := func(x *needLoop) {
		id := loopID(x.fn, x.l)
		defer func() {
			if e := recover(); e != nil {
				if os.Getenv("GVDEBUG") == "3" {
					fmt.Fprintf(os.Stderr, "    loop-analysis %s interrupted: %T %v\n", id, e, e)
				}
				switch y := e.(type) {
				case orderedMiss:
					c.orderedConst[y.key] = true
					c.lsum = map[string]*loopSummary{}
				case poolMiss:
					c.pools[y.key] = poolInsert(c.pools[y.key], y.c)
					c.lsum = map[string]*loopSummary{}
				case needStage:
					c.proveStage(y.fn)
				case restartAnalysis:
					c.lsum = map[string]*loopSummary{}
				case needLoop:
					if loopID(y.fn, y.l) == id {
						c.lsum[id] = &loopSummary{why: "loop is reached again while analysing it"}
					} else {
						pending = &y
					}
				case outOfFragment:
					c.lsum[id] = &loopSummary{why: y.why}
				case tooLarge:
					c.lsum[id] = &loopSummary{why: "position domain too large"}
				default:
					panic(e)
				}
			}
		}()
		c.lsum[id] = c.analyseLoop(root, x.fn, x.l)
	}
	attempt := func() (retry bool) {
		defer func() {
			if e := recover(); e != nil {
				if os.Getenv("GVDEBUG") == "3" {
					fmt.Fprintf(os.Stderr, "    attempt interrupted: %T %.200v\n", e, e)
				}
				switch x := e.(type) {
				case poolMiss:
					c.pools[x.key] = poolInsert(c.pools[x.key], x.c)
					c.lsum = map[string]*loopSummary{}
					retry = true
				case orderedMiss:
					c.orderedConst[x.key] = true
					c.lsum = map[string]*loopSummary{}
					retry = true
				case needLoop:
					pending = &x
					retry = true
				case needStage:
					c.proveStage(x.fn)
					retry = true
				case restartAnalysis:
					c.lsum = map[string]*loopSummary{}
					retry = true
				case outOfFragment:
					res.oof = x.why
				case tooLarge:
					res.oof = "abstract domain too large to enumerate"
				default:
					panic(e)
				}
			}
		}()
		res.findings = nil
		res.worlds = map[string]int{}
		res.sig = map[string]*coreSet{}
		res.nfail = map[string]int{}
		add := func(w *world, law, detail string) {
			if c.scope != nil && !c.scope(w) {
				return
			}
			if !c.feasible(w) {
				return
			}
			res.nfail[law]++
			if res.sig[law] == nil {
				res.sig[law] = &coreSet{}
			}
			res.sig[law].add(c.untiedKeys(w), fmt.Sprintf("%s [%s]", detail, w.describe(c.pools, c.terms)))
			if len(res.findings) < 12 {
				res.findings = append(res.findings, aeFinding{law, detail, w.describe(c.pools, c.terms)})
			}
		}
		res.worlds["reflexive"] = c.explore(1, 500000, func(w *world) {
			if v := c.runPair(root, w, 0, 0, used); v != 0 {
				add(w, "reflexive", fmt.Sprintf("Compare(x,x) = %d", v))
			}
		})
		res.worlds["antisymmetric"] = c.explore(2, 1000000, func(w *world) {
			v1 := c.runPair(root, w, 0, 1, used)
			v2 := c.runPair(root, w, 1, 0, used)
			if v1 < -1 || v1 > 1 {
				add(w, "range", fmt.Sprintf("Compare returns %d", v1))
			}
			if v1 != -v2 {
				add(w, "antisymmetric", fmt.Sprintf("Compare(x,y) = %d but Compare(y,x) = %d", v1, v2))
			}
		})
		res.worlds["transitive"] = c.explore(3, 6000000, func(w *world) {
			vxy := c.runPair(root, w, 0, 1, used)
			if vxy > 0 {
				return
			}
			vyz := c.runPair(root, w, 1, 2, used)
			if vyz > 0 {
				return
			}
			vxz := c.runPair(root, w, 0, 2, used)
			if vxz > 0 || (vxy < 0 || vyz < 0) && vxz == 0 {
				add(w, "transitive", fmt.Sprintf("x?y=%d, y?z=%d but x?z=%d", vxy, vyz, vxz))
			}
		})
		return false
	}
	for i := 0; ; i++ {
		if i >= 400 {
			res.oof = "analysis did not converge (restart limit)"
			break
		}
		if pending != nil {
			x := pending
			pending = nil
			loopAnalysis(x)
			continue
		}
		if !attempt() {
			break
		}
		if os.Getenv("GVDEBUG") == "3" {
			fmt.Fprintf(os.Stderr, "  retry %d: pools=%d opaque=%d stages=%d lsum=%d pending=%v\n", i, len(c.pools), len(c.opaqueFns), len(c.stages), len(c.lsum), pending != nil)
		}
	}
	res.assumed = map[string]string{}
	for k := range used {
		res.assumed[k] = c.assumed[k]
	}
	res.loopSums = map[string]*loopSummary{}
	for id, s := range c.lsum {
		res.loopSums[id] = s
		if s.ok && len(s.problems) == 0 {
			res.loopsOK = append(res.loopsOK, id)
		} else if len(s.problems) > 0 {
			res.loopIssues[id] = s.problems
		} else {
			res.loopIssues[id] = []string{"out of fragment: " + s.why}
		}
	}
	sort.Strings(res.loopsOK)
	for k := range c.terms {
		res.atoms = append(res.atoms, k)
	}
	sort.Strings(res.atoms)
	return res
}

// proveStage analyses a callee comparator on its own; if it is a total preorder on its
// operands (all laws hold, in fragment) calls to it with mirrored operands are replaced by a
// relation atom in callers (lexicographic chains stay small). Otherwise it is inlined.
func (c *aeCtx) proveStage(fn *ssa.Function) {
	c.stages[fn] = &stageInfo{} // recursion guard: inline while analysing
	sub := newAECtx(c.p)
	res := sub.analyse(fn)
	ok := res.oof == "" && len(res.findings) == 0 && len(res.loopIssues) == 0 && res.worlds["transitive"] >= 40
	si := &stageInfo{ok: ok, assumed: res.assumed, worlds: res.worlds["transitive"], loopsOK: res.loopsOK, name: fn.Name()}
	for k := range sub.stagesUsed {
		si.sub = append(si.sub, k)
	}
	sort.Strings(si.sub)
	c.stages[fn] = si
	if os.Getenv("GVDEBUG") == "terms" {
		var tk []string
		for k, ti := range sub.terms {
			tk = append(tk, fmt.Sprintf("%s:%d base=%v pool=%v", k, ti.kind, ti.base, sub.pools[k]))
		}
		sort.Strings(tk)
		fmt.Fprintf(os.Stderr, "STAGE %s ok=%v loops=%v oof=%q findings=%d loopIssues=%d worlds=%v\n", c.p.FnKey(fn), ok, res.loopsOK, res.oof, len(res.findings), len(res.loopIssues), res.worlds)
		for _, k := range tk {
			fmt.Fprintf(os.Stderr, "   sterm %s\n", k)
		}
	}
}

// domainAllows: can a value at pool position v occur given the field's construction-site domain?
func domainAllows(dom *fieldDomain, pool []constant.Value, v int) bool {
	if v%2 == 0 {
		return !dom.closed // gaps hold values outside the pool
	}
	if v/2 >= len(pool) || pool[v/2].Kind() != constant.String {
		return true
	}
	s := constant.StringVal(pool[v/2])
	if dom.closed {
		for _, a := range dom.allowed {
			if a == s {
				return true
			}
		}
		return false
	}
	for _, x := range dom.excluded {
		if x == s {
			return false
		}
	}
	return true
}

// derivedConsistent: values derived from equal bases are equal (checked for key itself and for
// every atom that lists key among its bases, on what is assigned so far).
func (c *aeCtx) derivedConsistent(w *world, key string) bool {
	check := func(d string) bool {
		ti := c.terms[d]
		if ti == nil || len(ti.base) == 0 || ti.kind == akPresence {
			return true
		}
		for p := 0; p < w.n; p++ {
			for q := p + 1; q < w.n; q++ {
				if v, ok := c.cmpAssigned(w, d, p, q); ok && v != 0 && c.basesEqual(w, d, p, q) {
					return false
				}
			}
		}
		return true
	}
	if !check(key) {
		return false
	}
	for _, d := range c.dependents(key) {
		if !check(d) {
			return false
		}
	}
	return true
}

func (c *aeCtx) dependents(key string) []string {
	if c.depIndexN != len(c.terms) {
		c.depIndex = map[string][]string{}
		for d, ti := range c.terms {
			for _, b := range ti.base {
				c.depIndex[b] = append(c.depIndex[b], d)
			}
		}
		c.depIndexN = len(c.terms)
	}
	return c.depIndex[key]
}

// coreSet: the minimal sets of untied terms among failing worlds (an antichain). Each minimal set
// is reported as a separate finding: it names the terms whose difference suffices for the failure,
// and it does not change when unrelated parts of the comparator change.
type coreSet struct {
	cores [][]string
	ex    []string
	n     []int
}

func subsetOf(a, b []string) bool { // both sorted
	j := 0
	for _, x := range a {
		for j < len(b) && b[j] < x {
			j++
		}
		if j >= len(b) || b[j] != x {
			return false
		}
	}
	return true
}

func (cs *coreSet) add(u []string, ex string) {
	for i, c := range cs.cores {
		if subsetOf(c, u) {
			cs.n[i]++
			return
		}
	}
	var cores [][]string
	var exs []string
	var ns []int
	cnt := 1
	for i, c := range cs.cores {
		if subsetOf(u, c) {
			cnt += cs.n[i]
			continue
		}
		cores, exs, ns = append(cores, c), append(exs, cs.ex[i]), append(ns, cs.n[i])
	}
	cs.cores, cs.ex, cs.n = append(cores, u), append(exs, ex), append(ns, cnt)
}

func (cs *coreSet) sorted() []int {
	idx := make([]int, len(cs.cores))
	for i := range idx {
		idx[i] = i
	}
	sort.Slice(idx, func(a, b int) bool {
		return strings.Join(cs.cores[idx[a]], ",") < strings.Join(cs.cores[idx[b]], ",")
	})
	return idx
}

// untiedKeys: terms on which at least two individuals of the world differ.
func (c *aeCtx) untiedKeys(w *world) []string {
	seen := map[string]bool{}
	var out []string
	consider := func(key string) {
		if seen[key] {
			return
		}
		for p := 0; p < w.n; p++ {
			for q := p + 1; q < w.n; q++ {
				if v, ok := c.cmpAssigned(w, key, p, q); ok && v != 0 {
					seen[key] = true
					out = append(out, key)
					return
				}
			}
		}
	}
	for k := range w.pos {
		consider(k[:strings.LastIndex(k, "|")])
	}
	for k := range w.rel {
		i := strings.LastIndex(k, "|")
		j := strings.LastIndex(k[:i], "|")
		consider(k[:j])
	}
	sort.Strings(out)
	return out
}
