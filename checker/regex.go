package main

import (
	"regexp/syntax"

	"golang.org/x/tools/go/ssa"
)

// regexInfo: what the constant pattern of a package-level *regexp.Regexp guarantees.
type regexInfo struct {
	Pattern   string
	Re        *syntax.Regexp
	NumSub    int
	GroupMin  []int  // per capture group (1-based index; [0] = whole match): minimal length when it participates
	GroupMust []bool // group participates in every successful match
	MinLen    int    // minimal length of a whole match
	Anchored  bool   // ^...$ (whole input must match)
	Err       error
}

func minLenRe(re *syntax.Regexp) int {
	switch re.Op {
	case syntax.OpLiteral:
		return len(string(re.Rune)) // bytes of the literal
	case syntax.OpCharClass, syntax.OpAnyCharNotNL, syntax.OpAnyChar:
		return 1
	case syntax.OpCapture:
		return minLenRe(re.Sub[0])
	case syntax.OpConcat:
		n := 0
		for _, s := range re.Sub {
			n += minLenRe(s)
		}
		return n
	case syntax.OpAlternate:
		m := -1
		for _, s := range re.Sub {
			if k := minLenRe(s); m < 0 || k < m {
				m = k
			}
		}
		if m < 0 {
			m = 0
		}
		return m
	case syntax.OpPlus:
		return minLenRe(re.Sub[0])
	case syntax.OpRepeat:
		return re.Min * minLenRe(re.Sub[0])
	}
	return 0 // star, quest, empty, anchors
}

func analyseRegex(pat string) *regexInfo {
	ri := &regexInfo{Pattern: pat}
	re, err := syntax.Parse(pat, syntax.Perl)
	if err != nil {
		ri.Err = err
		return ri
	}
	ri.Re = re
	ri.NumSub = re.MaxCap()
	ri.GroupMin = make([]int, ri.NumSub+1)
	ri.GroupMust = make([]bool, ri.NumSub+1)
	ri.MinLen = minLenRe(re)
	ri.GroupMin[0] = ri.MinLen
	ri.GroupMust[0] = true
	var walk func(r *syntax.Regexp, must bool)
	walk = func(r *syntax.Regexp, must bool) {
		switch r.Op {
		case syntax.OpCapture:
			ri.GroupMin[r.Cap] = minLenRe(r.Sub[0])
			ri.GroupMust[r.Cap] = must
			walk(r.Sub[0], must)
		case syntax.OpConcat:
			for _, s := range r.Sub {
				walk(s, must)
			}
		case syntax.OpPlus:
			walk(r.Sub[0], must)
		case syntax.OpRepeat:
			walk(r.Sub[0], must && r.Min >= 1)
		case syntax.OpAlternate, syntax.OpStar, syntax.OpQuest:
			for _, s := range r.Sub {
				walk(s, false)
			}
		}
	}
	walk(re, true)
	// anchored: concat starting with BeginText and ending with EndText
	if re.Op == syntax.OpConcat && len(re.Sub) >= 2 {
		f, l := re.Sub[0], re.Sub[len(re.Sub)-1]
		if (f.Op == syntax.OpBeginText || f.Op == syntax.OpBeginLine) && (l.Op == syntax.OpEndText || l.Op == syntax.OpEndLine) {
			ri.Anchored = true
		}
	}
	return ri
}

// regexTable maps package-level regexp variables and local MustCompile results to
// their constant patterns. Globals must be stored exactly once, in init, with
// regexp.MustCompile(<constant>).
type regexTable struct {
	byGlobal map[*ssa.Global]*regexInfo
	byCall   map[*ssa.Call]*regexInfo
	bad      []string
}

func (p *Prog) regexes() *regexTable {
	if p.rx != nil {
		return p.rx
	}
	t := &regexTable{byGlobal: map[*ssa.Global]*regexInfo{}, byCall: map[*ssa.Call]*regexInfo{}}
	stores := map[*ssa.Global]int{}
	for fn := range p.AllFns {
		if !p.IsRepoFn(fn) {
			continue
		}
		for _, b := range fn.Blocks {
			for _, ins := range b.Instrs {
				switch x := ins.(type) {
				case *ssa.Call:
					if f := x.Call.StaticCallee(); f != nil && (f.String() == "regexp.MustCompile" || f.String() == "regexp.Compile") {
						if s, ok := constString(x.Call.Args[0]); ok {
							t.byCall[x] = analyseRegex(s)
						} else {
							t.bad = append(t.bad, p.Pos(x.Pos())+": regexp compiled from a non-constant pattern")
						}
					}
				case *ssa.Store:
					if g, ok := x.Addr.(*ssa.Global); ok {
						stores[g]++
						if c, ok := x.Val.(*ssa.Call); ok {
							if f := c.Call.StaticCallee(); f != nil && f.String() == "regexp.MustCompile" && isInit(fn) {
								if s, ok := constString(c.Call.Args[0]); ok {
									t.byGlobal[g] = analyseRegex(s)
								}
							}
						}
					}
				}
			}
		}
	}
	for g := range t.byGlobal {
		if stores[g] != 1 {
			delete(t.byGlobal, g)
		}
	}
	p.rx = t
	return t
}

// regexOf resolves the receiver of a regexp method call to its constant pattern.
func (p *Prog) regexOf(v ssa.Value) *regexInfo {
	t := p.regexes()
	switch x := v.(type) {
	case *ssa.UnOp:
		if g, ok := x.X.(*ssa.Global); ok {
			return t.byGlobal[g]
		}
	case *ssa.Call:
		return t.byCall[x]
	}
	return nil
}
