package main

import (
	"fmt"
	"go/token"
	"go/types"
	"strings"

	"golang.org/x/tools/go/ssa"
)

// ---- interprocedural summaries ------------------------------------------------------

// retSummary: facts about a repo function's results, proven inside the callee at every
// return, in terms of its parameters: len(result_i) <= len(param_k), len(result_i) >= c,
// result_i >= c, result_i <= len(param_k) + c.
type retFact struct {
	res    int  // result index
	resLen bool // fact is about len(result)
	par    int  // parameter index or -1 (constant)
	parLen bool
	upper  bool // result <= par + c   (else result >= par + c)
	c      int64
}

func (b *bp) retSummary(fn *ssa.Function) []retFact {
	if s, ok := b.retSum[fn]; ok {
		return s
	}
	b.retSum[fn] = nil // recursion guard
	if fn.Blocks == nil {
		return nil
	}
	f := b.forFn(fn)
	var rets []*ssa.Return
	for _, blk := range fn.Blocks {
		if r, ok := blk.Instrs[len(blk.Instrs)-1].(*ssa.Return); ok {
			rets = append(rets, r)
		}
	}
	if len(rets) == 0 {
		return nil
	}
	var out []retFact
	nres := fn.Signature.Results().Len()
	for ri := 0; ri < nres; ri++ {
		rt := fn.Signature.Results().At(ri).Type()
		isLen := hasLen(rt)
		if !isLen && !isIntType(rt) {
			continue
		}
		term4 := func(r *ssa.Return) (term, int64) {
			if isLen {
				return f.lenTerm(r.Results[ri])
			}
			return f.intTerm(r.Results[ri])
		}
		all := func(mk func(t term, o int64) goal) bool {
			for _, r := range rets {
				t, o := term4(r)
				if !f.prove(point{r.Block(), len(r.Block().Instrs) - 1}, mk(t, o), nil, 1) {
					return false
				}
			}
			return true
		}
		// constant lower bounds
		lbs := []int64{8, 4, 3, 2, 1, 0, -1}
		for _, k := range lbs {
			if isLen && k <= 0 {
				break
			}
			k := k
			if all(func(t term, o int64) goal { return goal{zeroT, t, o - k} }) {
				out = append(out, retFact{res: ri, resLen: isLen, par: -1, upper: false, c: k})
				break
			}
		}
		// relation to parameters
		for pi, par := range fn.Params {
			var pt term
			var po int64
			pl := hasLen(par.Type())
			if pl {
				pt, po = f.lenTerm(par)
			} else if isIntType(par.Type()) {
				pt, po = f.intTerm(par)
			} else {
				continue
			}
			for _, c := range []int64{-1, 0} {
				c := c
				if all(func(t term, o int64) goal { return goal{t, pt, po - o + c} }) { // res <= par + c
					out = append(out, retFact{res: ri, resLen: isLen, par: pi, parLen: pl, upper: true, c: c})
					break
				}
			}
		}
	}
	b.retSum[fn] = out
	return out
}

func (f *bpFn) applyRetFacts(fn *ssa.Function, args []ssa.Value, resVal func(i int) ssa.Value) {
	for _, rf := range f.bp.retSummary(fn) {
		rv := resVal(rf.res)
		if rv == nil {
			continue
		}
		var rt term
		var ro int64
		if rf.resLen {
			rt, ro = f.lenTerm(rv)
		} else {
			rt, ro = f.intTerm(rv)
		}
		pt, po := zeroT, int64(0)
		if rf.par >= 0 {
			if rf.par >= len(args) {
				continue
			}
			if rf.parLen {
				pt, po = f.lenTerm(args[rf.par])
			} else {
				pt, po = f.intTerm(args[rf.par])
			}
		}
		why := fmt.Sprintf("summary of %s proven at every return", fn.Name())
		if rf.upper {
			f.add(rt, ro, pt, po, rf.c, why)
		} else {
			f.add(pt, po+rf.c, rt, ro, 0, why)
		}
	}
}

func (f *bpFn) repoCallFacts(c *ssa.Call, fn *ssa.Function) {
	if fn.Signature.Results().Len() != 1 {
		return
	}
	f.applyRetFacts(fn, c.Call.Args, func(i int) ssa.Value { return c })
}

func (f *bpFn) repoExtractFacts(x *ssa.Extract, c *ssa.Call, fn *ssa.Function) {
	f.applyRetFacts(fn, c.Call.Args, func(i int) ssa.Value {
		if i == x.Index {
			return x
		}
		return nil
	})
}

// ---- nil-error postconditions by expression equivalence ------------------------------
//
// For a repo function g whose last result is an error: every path to a return whose error
// result is the nil constant passes conditions C_1..C_n (dominating branch conditions of
// all nil-returning blocks, intersected). Each condition is a comparison over pure
// expression trees rooted at g's parameters. In a caller, on the edge where g(args)'s error
// is nil, a value whose pure expression tree equals the condition's tree (with parameters
// replaced by the actual arguments) is the same value, so the condition holds for it.

func (f *bpFn) exprKey(v ssa.Value, params map[*ssa.Parameter]string, depth int) (string, bool) {
	if depth > 8 {
		return "", false
	}
	v = f.canon(v)
	switch x := v.(type) {
	case *ssa.Const:
		return "c:" + x.String(), true
	case *ssa.Parameter:
		if params != nil {
			if k, ok := params[x]; ok {
				return k, true
			}
			return "", false
		}
		return fmt.Sprintf("v:%p", x), true
	case *ssa.Call:
		name := ""
		if b, ok := x.Call.Value.(*ssa.Builtin); ok {
			name = "builtin." + b.Name()
		} else if fn := x.Call.StaticCallee(); fn != nil && isPureExternal(fn.String()) {
			name = fn.String()
		} else {
			if params != nil {
				return "", false
			}
			return fmt.Sprintf("v:%p", x), true
		}
		parts := []string{name}
		for _, a := range x.Call.Args {
			k, ok := f.exprKey(a, params, depth+1)
			if !ok {
				return "", false
			}
			parts = append(parts, k)
		}
		return "(" + strings.Join(parts, " ") + ")", true
	case *ssa.Slice:
		parts := []string{"slice"}
		for _, a := range []ssa.Value{x.X, x.Low, x.High} {
			if a == nil {
				parts = append(parts, "_")
				continue
			}
			k, ok := f.exprKey(a, params, depth+1)
			if !ok {
				return "", false
			}
			parts = append(parts, k)
		}
		return "(" + strings.Join(parts, " ") + ")", true
	case *ssa.BinOp:
		a, ok1 := f.exprKey(x.X, params, depth+1)
		b, ok2 := f.exprKey(x.Y, params, depth+1)
		if !ok1 || !ok2 {
			return "", false
		}
		return "(" + x.Op.String() + " " + a + " " + b + ")", true
	}
	if params != nil {
		return "", false
	}
	return fmt.Sprintf("v:%p", v), true
}

type nilPost struct {
	// len(expr) or int expr compared with constant: term(expr) - 0 <= c or 0 - term(expr) <= c
	key   string
	isLen bool
	upper bool
	c     int64
}

// nilPosts: facts holding whenever fn returns a nil error.
func (b *bp) nilPosts(fn *ssa.Function) []nilPost {
	if s, ok := b.nilPost[fn]; ok {
		return s
	}
	b.nilPost[fn] = nil
	res := fn.Signature.Results()
	if res.Len() == 0 || fn.Blocks == nil {
		return nil
	}
	if !isErrorType(res.At(res.Len() - 1).Type()) {
		return nil
	}
	f := b.forFn(fn)
	params := map[*ssa.Parameter]string{}
	for i, p := range fn.Params {
		params[p] = fmt.Sprintf("P%d", i)
	}
	var common map[nilPost]bool
	for _, blk := range fn.Blocks {
		r, ok := blk.Instrs[len(blk.Instrs)-1].(*ssa.Return)
		if !ok {
			continue
		}
		ev := r.Results[len(r.Results)-1]
		if !isNilConst(ev) {
			// a returned error value that may be nil on some path (err variable): only accept when dominated by err != nil
			if !definitelyNonNilErr(ev) && !f.nonNilAt(blk, ev) {
				return nil
			}
			continue
		}
		facts := f.factsAt(blk)
		var dqs []diseq
		f.pathFacts(blk, &facts, &dqs)
		here := map[nilPost]bool{}
		// the parameters themselves (len(s) >= 5 after HasPrefix(s, "vers:") held on the way to `return nil`)
		for _, par := range fn.Params {
			isL := hasLen(par.Type())
			if !isL && !isIntType(par.Type()) {
				continue
			}
			key, ok := f.exprKey(par, params, 0)
			if !ok {
				continue
			}
			var t term
			var o int64
			if isL {
				t, o = f.lenTerm(par)
			} else {
				t, o = f.intTerm(par)
			}
			if lb, ok := bound(facts, t, false); ok {
				lb += o
				if !(isL && lb <= 0) {
					here[nilPost{key, isL, false, lb}] = true
				}
			}
			if ub, ok := bound(facts, t, true); ok {
				here[nilPost{key, isL, true, ub + o}] = true
			}
		}
		// candidate expressions: every len-bearing or int value in the function with a parameter-rooted key
		for _, b2 := range fn.Blocks {
			if !b2.Dominates(blk) {
				continue
			}
			for _, ins := range b2.Instrs {
				v, ok := ins.(ssa.Value)
				if !ok {
					continue
				}
				isL := hasLen(v.Type())
				if !isL && !isIntType(v.Type()) {
					continue
				}
				key, ok := f.exprKey(v, params, 0)
				if !ok || strings.HasPrefix(key, "c:") {
					continue
				}
				var t term
				var o int64
				if isL {
					t, o = f.lenTerm(v)
				} else {
					t, o = f.intTerm(v)
				}
				if lb, ok := bound(facts, t, false); ok {
					lb += o
					if !(isL && lb <= 0) {
						here[nilPost{key, isL, false, lb}] = true
					}
				}
				if ub, ok := bound(facts, t, true); ok {
					here[nilPost{key, isL, true, ub + o}] = true
				}
			}
		}
		if common == nil {
			common = here
		} else {
			for k := range common {
				if !here[k] {
					delete(common, k)
				}
			}
		}
	}
	var out []nilPost
	for k := range common {
		out = append(out, k)
	}
	b.nilPost[fn] = out
	return out
}

// nilResLen: result index -> k with len(result) >= k at every return whose error is the nil constant
// (every other return carries a definitely non-nil error)
func (b *bp) nilResLen(fn *ssa.Function) map[int]int64 {
	if b.nilLen == nil {
		b.nilLen = map[*ssa.Function]map[int]int64{}
	}
	if m, ok := b.nilLen[fn]; ok {
		return m
	}
	b.nilLen[fn] = nil
	res := fn.Signature.Results()
	if res.Len() < 2 || fn.Blocks == nil || !isErrorType(res.At(res.Len()-1).Type()) {
		return nil
	}
	f := b.forFn(fn)
	var rets []*ssa.Return
	for _, blk := range fn.Blocks {
		r, ok := blk.Instrs[len(blk.Instrs)-1].(*ssa.Return)
		if !ok {
			continue
		}
		ev := r.Results[len(r.Results)-1]
		if isNilConst(ev) {
			rets = append(rets, r)
			continue
		}
		if !definitelyNonNilErr(ev) && !f.nonNilAt(blk, ev) {
			return nil
		}
	}
	if len(rets) == 0 {
		return nil
	}
	out := map[int]int64{}
	for ri := 0; ri < res.Len()-1; ri++ {
		if !hasLen(res.At(ri).Type()) {
			continue
		}
		for _, k := range []int64{4, 3, 2, 1} {
			all := true
			for _, r := range rets {
				t, o := f.lenTerm(r.Results[ri])
				if !f.prove(point{r.Block(), len(r.Block().Instrs) - 1}, goal{zeroT, t, o - k}, nil, 1) {
					all = false
					break
				}
			}
			if all {
				out[ri] = k
				break
			}
		}
	}
	b.nilLen[fn] = out
	return out
}

func isErrorType(t types.Type) bool {
	n, ok := t.(*types.Named)
	return ok && n.Obj().Pkg() == nil && n.Obj().Name() == "error"
}

// nonNilAt: block b is dominated by the true edge of `v != nil` (or false edge of v == nil).
func (f *bpFn) nonNilAt(b *ssa.BasicBlock, v ssa.Value) bool {
	for x := b; x != nil; x = x.Idom() {
		id := x.Idom()
		if id == nil {
			break
		}
		if len(x.Preds) != 1 {
			continue
		}
		iff, ok := id.Instrs[len(id.Instrs)-1].(*ssa.If)
		if !ok {
			continue
		}
		bo, ok := iff.Cond.(*ssa.BinOp)
		if !ok || !(bo.X == v && isNilConst(bo.Y) || bo.Y == v && isNilConst(bo.X)) {
			continue
		}
		if bo.Op == token.NEQ && id.Succs[0] == x || bo.Op == token.EQL && id.Succs[1] == x {
			return true
		}
	}
	return false
}

// errNilCall: cond is `err == nil` / `err != nil` where err is (an extract of) a call to a
// repo function; returns the call and whether tv means "err is nil".
func errCallOf(v ssa.Value) *ssa.Call {
	switch x := v.(type) {
	case *ssa.Call:
		return x
	case *ssa.Extract:
		if c, ok := x.Tuple.(*ssa.Call); ok {
			res := c.Call.Signature().Results()
			if x.Index == res.Len()-1 {
				return c
			}
		}
	}
	return nil
}

// called from condFacts for BinOp comparisons of an error with nil
func (f *bpFn) errNilFacts(bo *ssa.BinOp, tv bool, out *[]dfact) {
	var ev ssa.Value
	if isNilConst(bo.Y) {
		ev = bo.X
	} else if isNilConst(bo.X) {
		ev = bo.Y
	} else {
		return
	}
	if !isErrorType(ev.Type()) {
		return
	}
	isNil := (bo.Op == token.EQL) == tv
	if !isNil {
		return
	}
	c := errCallOf(ev)
	if c == nil {
		return
	}
	fn := c.Call.StaticCallee()
	if fn == nil || !f.bp.p.IsRepoFn(fn) {
		return
	}
	// lengths of the other results when the error is nil (a helper that builds a list and returns
	// (list, nil) only after filling it)
	for ri, k := range f.bp.nilResLen(fn) {
		for _, ref := range *c.Referrers() {
			if ex, ok := ref.(*ssa.Extract); ok && ex.Index == ri {
				t, o := f.lenTerm(ex)
				*out = append(*out, dfact{zeroT, t, o - k, fmt.Sprintf("len of result %d of %s when its error is nil", ri, fn.Name())})
			}
		}
	}
	posts := f.bp.nilPosts(fn)
	if len(posts) == 0 {
		return
	}
	// instantiate parameter keys with the caller's argument keys
	argKeys := map[string]string{}
	for i, a := range c.Call.Args {
		k, ok := f.exprKey(a, nil, 0)
		if ok {
			argKeys[fmt.Sprintf("P%d", i)] = k
		}
	}
	// index caller values by key
	if f.keyIndex == nil {
		f.keyIndex = map[string][]ssa.Value{}
		for _, blk := range f.fn.Blocks {
			for _, ins := range blk.Instrs {
				if v, ok := ins.(ssa.Value); ok && (hasLen(v.Type()) || isIntType(v.Type())) {
					if k, ok := f.exprKey(v, nil, 0); ok && strings.HasPrefix(k, "(") {
						f.keyIndex[k] = append(f.keyIndex[k], v)
					}
				}
			}
		}
	}
	for _, np := range posts {
		// a bound on a parameter itself is a bound on the argument
		if strings.HasPrefix(np.key, "P") && !strings.ContainsAny(np.key, "([ ") {
			var idx int
			if _, err := fmt.Sscanf(np.key, "P%d", &idx); err == nil && idx < len(c.Call.Args) && fmt.Sprintf("P%d", idx) == np.key {
				a := c.Call.Args[idx]
				var t term
				var o int64
				if np.isLen {
					t, o = f.lenTerm(a)
				} else {
					t, o = f.intTerm(a)
				}
				why := fmt.Sprintf("postcondition of %s returning nil error (bound on its argument)", fn.Name())
				if np.upper {
					*out = append(*out, dfact{t, zeroT, np.c - o, why})
				} else {
					*out = append(*out, dfact{zeroT, t, o - np.c, why})
				}
				continue
			}
		}
		k := np.key
		for pk, ak := range argKeys {
			k = strings.ReplaceAll(k, pk, ak)
		}
		if strings.Contains(k, "P") && hasParamToken(k) {
			continue
		}
		for _, v := range f.keyIndex[k] {
			var t term
			var o int64
			if np.isLen {
				t, o = f.lenTerm(v)
			} else {
				t, o = f.intTerm(v)
			}
			why := fmt.Sprintf("postcondition of %s returning nil error (same pure expression)", fn.Name())
			if np.upper {
				*out = append(*out, dfact{t, zeroT, np.c - o, why})
			} else {
				*out = append(*out, dfact{zeroT, t, o - np.c, why})
			}
		}
	}
}

func hasParamToken(k string) bool {
	for i := 0; i+1 < len(k); i++ {
		if k[i] == 'P' && k[i+1] >= '0' && k[i+1] <= '9' && (i == 0 || k[i-1] == ' ' || k[i-1] == '(') {
			return true
		}
	}
	return false
}

// definitelyNonNilErr: a freshly constructed error value.
func definitelyNonNilErr(v ssa.Value) bool {
	switch x := v.(type) {
	case *ssa.Call:
		if fn := x.Call.StaticCallee(); fn != nil {
			switch fn.String() {
			case "fmt.Errorf", "errors.New":
				return true
			}
		}
	case *ssa.MakeInterface:
		return true
	}
	return false
}
