package main

import (
	"fmt"
	"go/types"

	"golang.org/x/tools/go/ssa"
)

// R-PANIC-BOUNDS: every index / slice expression in every reachable function is in range
// for all inputs.
func rulePanicBounds(p *Prog, r *Report) {
	roots := append(p.LibraryRoots(), p.CLIRoots()...)
	fns := p.RepoReachable(roots...)
	b := newBP(p)
	kinds := map[string]int{}
	for _, fn := range p.Representatives(fns) {
		f := b.forFn(fn)
		fk := p.FnKey(fn)
		for _, blk := range fn.Blocks {
			for idx, ins := range blk.Instrs {
				pt := point{blk, idx}
				switch x := ins.(type) {
				case *ssa.IndexAddr:
					checkIndex(p, r, f, fk, pt, x, x.X, x.Index, kinds)
				case *ssa.Index:
					checkIndex(p, r, f, fk, pt, x, x.X, x.Index, kinds)
				case *ssa.Lookup:
					if hasLen(x.X.Type()) {
						checkIndex(p, r, f, fk, pt, x, x.X, x.Index, kinds)
					}
				case *ssa.Slice:
					checkSlice(p, r, f, fk, pt, x, kinds)
				}
			}
		}
	}
	r.Extra["bounds_obligations_by_kind"] = kinds
	r.Floor("R-PANIC-BOUNDS", 400)
}

func exprKey(v ssa.Value) string { return describeAddr(v) }

func idxDesc(f *bpFn, v ssa.Value) string {
	t, o := f.intTerm(v)
	switch {
	case t.k == tZero:
		return fmt.Sprint(o)
	case o == 0:
		return shortTerm(t)
	case o > 0:
		return fmt.Sprintf("%s+%d", shortTerm(t), o)
	}
	return fmt.Sprintf("%s%d", shortTerm(t), o)
}

func shortTerm(t term) string {
	switch t.k {
	case tZero:
		return "0"
	case tLen:
		return "len(" + describeAddr(t.v) + ")"
	}
	return describeAddr(t.v)
}

func checkIndex(p *Prog, r *Report, f *bpFn, fk string, pt point, ins ssa.Value, x, index ssa.Value, kinds map[string]int) {
	key := fmt.Sprintf("%s: index %s[%s]", fk, exprKey(x), idxDesc(f, index))
	pos := p.Pos(ins.Pos())
	if !ins.Pos().IsValid() {
		pos = p.FnPos(f.fn)
	}
	lt, lo := f.lenTerm(x)
	it, io := f.intTerm(index)
	if lt.k == tZero && it.k == tZero {
		if io >= 0 && io < lo {
			r.Triv("R-PANIC-BOUNDS", key, pos, "constant index into fixed-size array")
			kinds["const-array"]++
			return
		}
	}
	// 0 <= i  :  0 - i <= 0 ;  i <= len-1 : i - len <= -1
	lower := f.prove(pt, goal{zeroT, it, io}, nil, 0)
	upper := f.prove(pt, goal{it, lt, lo - io - 1}, nil, 0)
	if lower && upper {
		r.Ok("R-PANIC-BOUNDS", key, pos, "0 <= index < len proven from dominating conditions, call postconditions and loop invariants")
		kinds["index"]++
		return
	}
	why := ""
	if !lower {
		why += "cannot prove index >= 0; "
	}
	if !upper {
		why += fmt.Sprintf("cannot prove %s < %s; ", idxDesc(f, index), shortTerm(lt))
	}
	r.Bad("R-PANIC-BOUNDS", key, pos, "possible index out of range: "+why)
}

func checkSlice(p *Prog, r *Report, f *bpFn, fk string, pt point, x *ssa.Slice, kinds map[string]int) {
	lod, hid := "", ""
	if x.Low != nil {
		lod = idxDesc(f, x.Low)
	}
	if x.High != nil {
		hid = idxDesc(f, x.High)
	}
	key := fmt.Sprintf("%s: slice %s[%s:%s]", fk, exprKey(x.X), lod, hid)
	pos := p.Pos(x.Pos())
	if !x.Pos().IsValid() {
		pos = p.FnPos(f.fn)
	}
	if x.Low == nil && x.High == nil && x.Max == nil {
		r.Triv("R-PANIC-BOUNDS", key, pos, "full slice")
		kinds["full-slice"]++
		return
	}
	lt, lo := f.lenTerm(x.X)
	// for slices (not strings) the limit is cap >= len; proving against len is sufficient
	_ = types.Typ
	var lowT term = zeroT
	var lowO int64
	if x.Low != nil {
		lowT, lowO = f.intTerm(x.Low)
	}
	hiT, hiO := lt, lo
	if x.High != nil {
		hiT, hiO = f.intTerm(x.High)
	}
	ok1 := f.prove(pt, goal{zeroT, lowT, lowO}, nil, 0)                  // 0 <= low
	ok2 := f.prove(pt, goal{lowT, hiT, hiO - lowO}, nil, 0)              // low <= high
	ok3 := x.High == nil || f.prove(pt, goal{hiT, lt, lo - hiO}, nil, 0) // high <= len
	if ok1 && ok2 && ok3 {
		r.Ok("R-PANIC-BOUNDS", key, pos, "0 <= low <= high <= len proven")
		kinds["slice"]++
		return
	}
	why := ""
	if !ok1 {
		why += "cannot prove low >= 0; "
	}
	if !ok2 {
		why += fmt.Sprintf("cannot prove low(%s) <= high(%s); ", lod, ifs(x.High == nil, shortTerm(lt), hid))
	}
	if !ok3 {
		why += fmt.Sprintf("cannot prove high(%s) <= %s; ", hid, shortTerm(lt))
	}
	r.Bad("R-PANIC-BOUNDS", key, pos, "possible slice bounds out of range: "+why)
}

func init() {
	register("C06", "", rulePanicBounds)
}
