package main

import (
	"go/constant"
	"strings"
)

// ---- feasibility of a failing abstract world ------------------------------------------------------
//
// Atoms are free: the evaluator assigns the order type of every term independently and only
// rejects a candidate when it contradicts what is assigned so far (candidates/posOK/relOK). A world
// in which an order law fails can therefore still be impossible because of facts that link
// different terms of the same individual. feasible() propagates the following facts to a fixed
// point over the (at most three) individuals of the world and rejects the world on a contradiction.
// Every fact is a theorem about the Go operations involved, so only worlds without any concrete
// instance are dropped (the analysis stays sound; it gets more precise):
//
//	F0  the order of the individuals on one term is a weak order: ties and strict steps compose;
//	F1  congruence: a value derived from bases (len(x), TrimLeft(x,"0"), Atoi(x), the zip relation
//	    of f(x) ...) ties for two individuals whose bases are all equal;
//	F2  len(t) = 0 exactly when t = "";
//	F3  strconv.ParseUint(t, 10, ·) succeeds only on digit strings, and on those the order of the
//	    parsed values is the order of (len(TrimLeft(t,"0")), TrimLeft(t,"0")).
const relUnknown = int8(2)

type feasState struct {
	c   *aeCtx
	w   *world
	rel map[string]*[3][3]int8
	bad bool
}

func (f *feasState) get(key string) *[3][3]int8 {
	if m, ok := f.rel[key]; ok {
		return m
	}
	m := &[3][3]int8{}
	for p := 0; p < 3; p++ {
		for q := 0; q < 3; q++ {
			m[p][q] = relUnknown
			if p == q {
				m[p][q] = 0
			} else if p < f.w.n && q < f.w.n {
				if v, ok := f.c.cmpAssigned(f.w, key, p, q); ok {
					m[p][q] = int8(v)
				}
			}
		}
	}
	f.rel[key] = m
	return m
}

// set records key: p ? q = v; reports whether something changed
func (f *feasState) set(key string, p, q int, v int8) bool {
	m := f.get(key)
	if m[p][q] == v {
		return false
	}
	if m[p][q] != relUnknown {
		f.bad = true
		return false
	}
	m[p][q], m[q][p] = v, -v
	return true
}

// emptiness of a string term / zero-ness of its length for individual p: 1 yes, 0 no, -1 unknown
func (f *feasState) isEmptyStr(key string, p int) int {
	pos, ok := f.w.pos[posKey(key, p)]
	if !ok {
		return -1
	}
	pool := f.c.pools[key]
	ei := -1
	for i, cv := range pool {
		if cv.Kind() == constant.String && constant.StringVal(cv) == "" {
			ei = i
		}
	}
	if ei < 0 {
		return -1
	}
	if pos == 2*ei+1 {
		return 1
	}
	if !f.c.orderedConst[key] && pos%2 == 0 {
		return 0 // equality-only pool: the one gap class holds every value outside the pool
	}
	return 0
}

func (f *feasState) isZeroLen(key string, p int) int {
	pos, ok := f.w.pos[posKey(key, p)]
	if !ok {
		return -1
	}
	pool := f.c.pools[key]
	if pos%2 == 1 {
		if pos/2 < len(pool) {
			if v, ok := constant.Int64Val(constant.ToInt(pool[pos/2])); ok {
				if v == 0 {
					return 1
				}
				return 0
			}
		}
		return -1
	}
	if !f.c.orderedConst[key] {
		// equality-only pool: a gap only says "none of the constants"
		if poolIndex(pool, constant.MakeInt64(0)) >= 0 {
			return 0
		}
		return -1
	}
	g := pos / 2
	if g > 0 && g-1 < len(pool) {
		if v, ok := constant.Int64Val(constant.ToInt(pool[g-1])); ok && v >= 0 {
			return 0 // strictly above a non-negative constant
		}
	}
	return -1
}

func (c *aeCtx) feasible(w *world) bool {
	f := &feasState{c: c, w: w, rel: map[string]*[3][3]int8{}}
	keys := map[string]bool{}
	for k := range w.pos {
		keys[k[:strings.LastIndex(k, "|")]] = true
	}
	for k := range w.rel {
		i := strings.LastIndex(k, "|")
		j := strings.LastIndex(k[:i], "|")
		keys[k[:j]] = true
	}
	var ks []string
	for k := range keys {
		if c.terms[k] != nil {
			ks = append(ks, k)
		}
	}
	n := w.n
	// F2 (per individual, no propagation needed)
	for _, k := range ks {
		if !strings.HasPrefix(k, "len(") {
			continue
		}
		inner := strings.TrimSuffix(strings.TrimPrefix(k, "len("), ")")
		ti := c.terms[inner]
		if ti == nil || ti.kind != akOrder || !isStringType(ti.t) {
			continue
		}
		for p := 0; p < n; p++ {
			e, z := f.isEmptyStr(inner, p), f.isZeroLen(k, p)
			if e >= 0 && z >= 0 && e != z {
				return false
			}
		}
	}
	for changed := true; changed && !f.bad; {
		changed = false
		for _, k := range ks {
			ti := c.terms[k]
			if ti.kind == akPresence {
				continue
			}
			m := f.get(k)
			// F0
			for p := 0; p < n; p++ {
				for q := 0; q < n; q++ {
					for r := 0; r < n; r++ {
						if p == q || q == r || p == r {
							continue
						}
						a, b := m[p][q], m[q][r]
						if a == relUnknown || b == relUnknown {
							continue
						}
						var v int8 = relUnknown
						switch {
						case a <= 0 && b <= 0:
							v = 0
							if a < 0 || b < 0 {
								v = -1
							}
						case a >= 0 && b >= 0:
							v = 0
							if a > 0 || b > 0 {
								v = 1
							}
						}
						if v != relUnknown && f.set(k, p, r, v) {
							changed = true
						}
					}
				}
			}
			// F1
			if len(ti.base) > 0 {
				for p := 0; p < n; p++ {
					for q := p + 1; q < n; q++ {
						any, all := false, true
						for _, b := range ti.base {
							bt := c.terms[b]
							if bt == nil {
								continue
							}
							if bt.kind == akRel || bt.kind == akPresence {
								all = false
								break
							}
							if bt.kind == akNil {
								// two non-nil pointers / errors need not be the same value
								pp, ok1 := w.pos[posKey(b, p)]
								pq, ok2 := w.pos[posKey(b, q)]
								if !ok1 || !ok2 || pp != 0 || pq != 0 {
									all = false
									break
								}
								any = true
								continue
							}
							if bm := f.get(b); bm[p][q] != 0 {
								all = false
								break
							}
							any = true
						}
						if any && all && f.set(k, p, q, 0) {
							changed = true
						}
					}
				}
			}
		}
		// F3
		for _, k := range ks {
			if !strings.HasSuffix(k, "#0") || !strings.HasPrefix(k, "Atoi(") {
				continue
			}
			pk := strings.TrimSuffix(k, "#0")
			if !c.uintParse[pk] || c.signedParse[pk] {
				continue
			}
			x := strings.TrimSuffix(strings.TrimPrefix(pk, "Atoi("), ")")
			ek, sk := pk+"#1", `TrimLeft(`+x+`,"0")`
			lk := "len(" + sk + ")"
			if c.terms[ek] == nil || c.terms[sk] == nil || c.terms[lk] == nil {
				continue
			}
			for p := 0; p < n; p++ {
				for q := p + 1; q < n; q++ {
					ep, ok1 := w.pos[posKey(ek, p)]
					eq, ok2 := w.pos[posKey(ek, q)]
					if !ok1 || !ok2 || ep != 0 || eq != 0 {
						continue
					}
					V, L, S := f.get(k)[p][q], f.get(lk)[p][q], f.get(sk)[p][q]
					switch {
					case L != relUnknown && L != 0:
						if f.set(k, p, q, L) {
							changed = true
						}
					case L == 0 && S != relUnknown:
						if f.set(k, p, q, S) {
							changed = true
						}
					}
					if V != relUnknown {
						if V == 0 {
							if f.set(lk, p, q, 0) {
								changed = true
							}
							if f.set(sk, p, q, 0) {
								changed = true
							}
						} else {
							if L == -V {
								f.bad = true
							}
							if L == 0 && f.set(sk, p, q, V) {
								changed = true
							}
							if S != relUnknown && S != V && f.set(lk, p, q, V) {
								changed = true
							}
						}
					}
				}
			}
		}
	}
	return !f.bad
}
