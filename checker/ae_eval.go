package main

import (
	"fmt"
	"go/constant"
	"go/token"
	"go/types"
	"regexp"
	"sort"
	"strconv"
	"strings"
	"time"
	"unicode"

	"golang.org/x/tools/go/ssa"
)

type termInfo struct {
	kind   atomKind
	t      types.Type
	base   []string
	lenKey string // zip atoms: length term of the zipped sequence (two empty sequences tie)
}

type constMap struct {
	keys []constant.Value
	vals []any
}

type aeCtx struct {
	p              *Prog
	pools          map[string][]constant.Value
	terms          map[string]*termInfo
	cmaps          map[*ssa.Global]*constMap
	loops          map[*ssa.Function][]*loop
	lsum           map[string]*loopSummary
	assumed        map[string]string // relation atoms that are assumptions (out-of-fragment stages): key -> why
	steps          int
	stepLimit      int
	started        time.Time
	budget         time.Duration   // wall-clock budget of one context: beyond it the analysis gives up (undecided)
	orderedConst   map[string]bool // term is compared by order (not just equality) with constants
	stageMode      bool
	subModel       bool                         // model FindStringSubmatch results (constructor tables)
	subOf          map[string]*regexInfo        // submatch list key -> pattern
	subID          map[string]int               // pattern -> small number used in keys
	symArith       bool                         // x+1 on an abstract integer is a derived term "(x+1)" (C05 desugaring tables only)
	allowFirst     bool                         // model "i == 0" inside a zip loop as a position class (used by C14's queries only)
	noStage        map[*ssa.Function]bool       // comparators whose operands are also read directly by the caller: inlined
	directRead     map[string]bool              // term keys demanded directly by evaluated code
	stageBases     map[string][]*ssa.Function   // operand key -> stages summarised over it
	stages         map[*ssa.Function]*stageInfo // shared cache: callee comparators proven total preorders
	stagesUsed     map[string]bool
	opaqueFns      map[*ssa.Function]string
	opaqueAt       map[string]string // callee + operand keys -> reason: opaque for these operands only
	fdom           map[fieldOrigin]*fieldDomain
	prodEx         map[*ssa.Function][]string
	originOf       map[string]fieldOrigin
	depIndex       map[string][]string
	depIndexN      int
	uintParse      map[string]bool     // "Atoi(x)" terms produced by strconv.ParseUint(x, 10, ·)
	signedParse    map[string]bool     // ... by Atoi / ParseInt / another base
	scope          func(w *world) bool // property-level scope: worlds outside it carry no obligation
	compareHook    *ssa.Function       // tabulation: calls to this function yield an opaque sign term
	allowCrossTerm bool
	filter         func(w *world) bool // query mode: only worlds accepted by the filter are explored
}

func newAECtx(p *Prog) *aeCtx {
	c := &aeCtx{p: p, pools: map[string][]constant.Value{}, terms: map[string]*termInfo{}, cmaps: map[*ssa.Global]*constMap{}, loops: map[*ssa.Function][]*loop{}, lsum: map[string]*loopSummary{}, assumed: map[string]string{}, stepLimit: 400_000_000, orderedConst: map[string]bool{}, stagesUsed: map[string]bool{}, opaqueFns: map[*ssa.Function]string{}, opaqueAt: map[string]string{}, fdom: map[fieldOrigin]*fieldDomain{}, prodEx: map[*ssa.Function][]string{}, originOf: map[string]fieldOrigin{}, uintParse: map[string]bool{}, signedParse: map[string]bool{}}
	if p.aeShared == nil {
		c.collectConstMaps()
		p.aeShared = &aeShared{cmaps: c.cmaps, fdom: c.fdom, prodEx: c.prodEx}
	}
	c.cmaps, c.fdom, c.prodEx = p.aeShared.cmaps, p.aeShared.fdom, p.aeShared.prodEx
	if p.aeStages == nil {
		p.aeStages = map[*ssa.Function]*stageInfo{}
	}
	c.stages = p.aeStages
	c.stageMode = true
	c.started, c.budget = time.Now(), 75*time.Second
	c.noStage, c.directRead, c.stageBases = map[*ssa.Function]bool{}, map[string]bool{}, map[string][]*ssa.Function{}
	return c
}

// collectConstMaps: package-level maps filled in init with constant keys.
func (c *aeCtx) collectConstMaps() {
	for fn := range c.p.AllFns {
		if !c.p.IsRepoFn(fn) || !isInit(fn) {
			continue
		}
		byMap := map[ssa.Value]*constMap{}
		for _, b := range fn.Blocks {
			for _, ins := range b.Instrs {
				switch x := ins.(type) {
				case *ssa.MapUpdate:
					k, ok := x.Key.(*ssa.Const)
					if !ok || k.Value == nil {
						continue
					}
					cm := byMap[x.Map]
					if cm == nil {
						cm = &constMap{}
						byMap[x.Map] = cm
					}
					var v any = avUnknown{"non-constant map value"}
					if vc, ok := x.Value.(*ssa.Const); ok && vc.Value != nil {
						v = avConst{vc.Value}
					}
					cm.keys = append(cm.keys, k.Value)
					cm.vals = append(cm.vals, v)
				case *ssa.Store:
					if g, ok := x.Addr.(*ssa.Global); ok {
						if cm, ok := byMap[x.Val]; ok {
							c.cmaps[g] = cm
						}
					}
				}
			}
		}
	}
}

type frame struct {
	fn   *ssa.Function
	vals map[ssa.Value]any
	mem  map[*ssa.Alloc]any
}

type iterOutcome struct {
	kind string // "exit", "continue", "done", "tail"
	val  any
}

type aeRun struct {
	ctx   *aeCtx
	w     *world
	ind   [2]int
	depth int
	// loop analysis
	target      *loop // loop whose generic iteration is analysed (nil: normal mode)
	targetFn    *ssa.Function
	inIter      bool
	freePhis    bool           // state-machine mode: loop-carried variables are abstract states
	stateInit   map[string]any // their values on loop entry
	inTail      bool           // executing the code after the analysed loop, reached from its guard at the generic position
	iterFrame   *frame
	outcome     *iterOutcome
	eqOverride  map[string]bool
	usedAssumed map[string]bool
	zUsed       []string
}

type mapRef struct{ g *ssa.Global }
type orderedMiss struct{ key string }
type needStage struct{ fn *ssa.Function }
type restartAnalysis struct{}

type aeShared struct {
	cmaps  map[*ssa.Global]*constMap
	fdom   map[fieldOrigin]*fieldDomain
	prodEx map[*ssa.Function][]string
}

type stageInfo struct {
	ok      bool
	assumed map[string]string
	worlds  int
	loopsOK []string
	sub     []string
	name    string
}

func (r *aeRun) oof(format string, a ...any) {
	panic(outOfFragment{fmt.Sprintf(format, a...)})
}

func (r *aeRun) noteOrigin(key string, t types.Type, f int) {
	if _, ok := r.ctx.originOf[key]; ok {
		return
	}
	if pt, ok := t.Underlying().(*types.Pointer); ok {
		t = pt.Elem()
	}
	if n, ok := t.(*types.Named); ok {
		r.ctx.originOf[key] = fieldOrigin{t: n, f: f}
	}
}

func (r *aeRun) mkTerm(key string, side int, t types.Type, kind atomKind, base []string) avTerm {
	if _, ok := r.ctx.terms[key]; !ok {
		r.ctx.terms[key] = &termInfo{kind: kind, t: t, base: base}
	}
	return avTerm{key: key, side: side, t: t}
}

func kindOfType(t types.Type) atomKind {
	if isBoolType(t) {
		return akBool
	}
	switch t.Underlying().(type) {
	case *types.Pointer, *types.Interface, *types.Map, *types.Signature:
		return akNil
	}
	return akOrder
}

// cmpAssigned: order of individuals p and q on term key if it is determined by the atoms
// assigned so far.
func (c *aeCtx) cmpAssigned(w *world, key string, p, q int) (int, bool) {
	if p == q {
		return 0, true
	}
	ti := c.terms[key]
	if ti == nil {
		return 0, false
	}
	if ti.kind != akRel {
		pp, ok1 := w.pos[posKey(key, p)]
		pq, ok2 := w.pos[posKey(key, q)]
		if !ok1 || !ok2 {
			return 0, false
		}
		if pp != pq {
			if pp < pq {
				return -1, true
			}
			return 1, true
		}
		if ti.kind != akOrder || pp%2 == 1 {
			return 0, true
		}
	}
	a, b, sg := p, q, 1
	if a > b {
		a, b, sg = b, a, -1
	}
	v, ok := w.rel[relKey(key, a, b)]
	return sg * v, ok
}

func (c *aeCtx) basesEqual(w *world, key string, p, q int) bool {
	ti := c.terms[key]
	if ti == nil || len(ti.base) == 0 {
		return false
	}
	any := false
	for _, b := range ti.base {
		if c.terms[b] == nil {
			continue
		}
		v, ok := c.cmpAssigned(w, b, p, q)
		if !ok || v != 0 {
			return false
		}
		any = true
	}
	return any
}

// posInd: position of individual p on term key (demanded if unassigned)
func (r *aeRun) noteDirect(key string) {
	if r.ctx.directRead[key] {
		return
	}
	r.ctx.directRead[key] = true
	hit := false
	for b, fns := range r.ctx.stageBases {
		if key == b || strings.HasPrefix(key, b+".") || strings.HasPrefix(key, b+"#") {
			for _, f := range fns {
				r.ctx.noStage[f] = true
			}
			delete(r.ctx.stageBases, b)
			hit = true
		}
	}
	if hit {
		panic(restartAnalysis{})
	}
}

func (r *aeRun) posInd(key string, p int) int {
	r.noteDirect(key)
	if v, ok := r.w.pos[posKey(key, p)]; ok {
		return v
	}
	ti := r.ctx.terms[key]
	if ti == nil {
		r.oof("atom %s has no term info", key)
	}
	if ti.kind == akPresence {
		lk := ti.base[0]
		if r.ctx.terms[lk] != nil && poolIndex(r.ctx.pools[lk], constant.MakeInt64(0)) >= 0 {
			r.posInd(lk, p)
		}
	}
	if d := r.ctx.subDomain(key, ti); d != nil && d.closed {
		for _, s := range d.allowed {
			if poolIndex(r.ctx.pools[key], constant.MakeString(s)) < 0 {
				panic(poolMiss{key, constant.MakeString(s)})
			}
		}
	}
	if o, ok := r.ctx.originOf[key]; ok && ti.kind == akOrder && isStringType(ti.t) {
		if d := r.ctx.fieldDomainFor(key, o); d != nil && d.closed {
			for _, s := range d.allowed {
				if poolIndex(r.ctx.pools[key], constant.MakeString(s)) < 0 {
					panic(poolMiss{key, constant.MakeString(s)})
				}
			}
		}
	}
	panic(needAtom{key, p, -1})
}

// cmpInds: order of individuals p and q on term key
func (r *aeRun) cmpInds(key string, p, q int) int {
	if p == q {
		return 0
	}
	ti := r.ctx.terms[key]
	if ti == nil {
		r.oof("atom %s has no term info", key)
	}
	if ti.kind != akRel {
		pp, pq := r.posInd(key, p), r.posInd(key, q)
		if pp != pq {
			if pp < pq {
				return -1
			}
			return 1
		}
		if ti.kind != akOrder || pp%2 == 1 {
			return 0
		}
	}
	a, b, sg := p, q, 1
	if a > b {
		a, b, sg = b, a, -1
	}
	if v, ok := r.w.rel[relKey(key, a, b)]; ok {
		return sg * v
	}
	if ti.lenKey != "" && r.ctx.terms[ti.lenKey] != nil {
		// individuals whose sequence is known to be empty are all tied: assign those relations first
		zero := poolIndex(r.ctx.pools[ti.lenKey], constant.MakeInt64(0))
		if zero >= 0 {
			isZero := func(p int) bool {
				v, ok := r.w.pos[posKey(ti.lenKey, p)]
				return ok && v == 2*zero+1
			}
			for _, x := range []int{a, b} {
				if !isZero(x) {
					continue
				}
				for o := 0; o < r.w.n; o++ {
					if o == x || !isZero(o) {
						continue
					}
					p, q := x, o
					if p > q {
						p, q = q, p
					}
					if _, ok := r.w.rel[relKey(key, p, q)]; !ok && !(p == a && q == b) {
						panic(needAtom{key, p, q})
					}
				}
			}
		}
	}
	panic(needAtom{key, a, b})
}

func (r *aeRun) posOf(key string, side int) int { return r.posInd(key, r.ind[side]) }
func (r *aeRun) cmpKey(key string, sa, sb int) int {
	return r.cmpInds(key, r.ind[sa], r.ind[sb])
}

func (r *aeRun) truth(v any) bool {
	switch x := v.(type) {
	case avConst:
		if x.v.Kind() == constant.Bool {
			return constant.BoolVal(x.v)
		}
	case avTerm:
		return r.posOf(x.key, x.side) == 1
	}
	if u, ok := v.(avUnknown); ok {
		r.oof("branch depends on %s", u.why)
	}
	r.oof("branch on a value without a model (%T %v)", v, v)
	return false
}

func boolC(b bool) avConst { return avConst{constant.MakeBool(b)} }
func intC(i int64) avConst { return avConst{constant.MakeInt64(i)} }

// cmp3: three-way comparison of two scalar abstract values.
func (r *aeRun) cmp3(x, y any) int { return r.cmp3o(x, y, true) }

// cmp3o: ordered=false when only (in)equality is asked
func (r *aeRun) cmp3o(x, y any, ordered bool) int {
	// an assembled string against the empty string: non-empty as soon as a constant piece is
	if sx, ok := x.(avStr); ok && !ordered {
		if c, ok := y.(avConst); ok && c.v.Kind() == constant.String && constant.StringVal(c.v) == "" {
			for _, p := range sx.parts {
				if pc, ok := p.(avConst); ok && constant.StringVal(pc.v) != "" {
					return 1
				}
			}
		}
	}
	if _, ok := y.(avStr); ok && !ordered {
		if _, isC := x.(avConst); isC {
			return -r.cmp3o(y, x, ordered)
		}
	}
	switch a := x.(type) {
	case avConst:
		switch b := y.(type) {
		case avConst:
			if constEq(a.v, b.v) {
				return 0
			}
			if constLess(a.v, b.v) {
				return -1
			}
			return 1
		case avTerm:
			return -r.cmp3o(y, x, ordered)
		}
	case avTerm:
		switch b := y.(type) {
		case avConst:
			if ordered && !r.ctx.orderedConst[a.key] && r.ctx.terms[a.key] != nil && r.ctx.terms[a.key].kind == akOrder {
				panic(orderedMiss{a.key})
			}
			if r.eqOverride[a.key] {
				r.oof("length term %s compared with a constant after a prefix loop", a.key)
			}
			ti := r.ctx.terms[a.key]
			if ti.kind == akBool {
				av := r.posOf(a.key, a.side) == 1
				bv := constant.BoolVal(b.v)
				switch {
				case av == bv:
					return 0
				case !av:
					return -1
				}
				return 1
			}
			ci := poolIndex(r.ctx.pools[a.key], b.v)
			if ci < 0 {
				panic(poolMiss{a.key, b.v})
			}
			pp, cp := r.posOf(a.key, a.side), 2*ci+1
			switch {
			case pp < cp:
				return -1
			case pp > cp:
				return 1
			}
			return 0
		case avTerm:
			if a.key != b.key {
				if r.ctx.allowCrossTerm && a.side == b.side {
					// tabulation of a one-individual predicate: the relation of two different terms is
					// an unknown of its own
					key := "rel(" + a.key + "," + b.key + ")"
					sg := 1
					if a.key > b.key {
						key, sg = "rel("+b.key+","+a.key+")", -1
					}
					r.ctx.orderedConst[key] = true
					if poolIndex(r.ctx.pools[key], constant.MakeInt64(0)) < 0 {
						r.mkTerm(key, a.side, types.Typ[types.Int], akOrder, nil)
						panic(poolMiss{key, constant.MakeInt64(0)})
					}
					t := r.mkTerm(key, a.side, types.Typ[types.Int], akOrder, nil)
					pp, cp := r.posOf(t.key, t.side), 2*poolIndex(r.ctx.pools[key], constant.MakeInt64(0))+1
					switch {
					case pp < cp:
						return -sg
					case pp > cp:
						return sg
					}
					return 0
				}
				r.oof("cross-term comparison: %s with %s", a.key, b.key)
			}
			if a.side == b.side || r.eqOverride[a.key] {
				return 0
			}
			// an ordered comparison of two values of a term whose constants were only ever tested for
			// equality: the constants must take their places in the order (and the values between them
			// their gaps), otherwise "alpha < anything else" would hold by construction
			if ordered && !r.ctx.orderedConst[a.key] && len(r.ctx.pools[a.key]) > 0 && r.ctx.terms[a.key] != nil && r.ctx.terms[a.key].kind == akOrder {
				panic(orderedMiss{a.key})
			}
			return r.cmpKey(a.key, a.side, b.side)
		}
	case avIndex:
		return r.cmpIndex(a, y)
	}
	if _, ok := y.(avIndex); ok {
		return -r.cmpIndex(y.(avIndex), x)
	}
	r.oof("comparison of values without a model (%T, %T)", x, y)
	return 0
}

// cmpIndex: generic index i against len(seq): present <=> i < len
func (r *aeRun) cmpIndex(i avIndex, y any) int {
	t, ok := y.(avTerm)
	if !ok || !strings.HasPrefix(t.key, "len(") || i.off != 0 {
		r.oof("loop index compared with something other than a sequence length (%v)", y)
	}
	seq := strings.TrimSuffix(strings.TrimPrefix(t.key, "len("), ")")
	pk := "present:" + seq
	if _, ok := r.ctx.terms[pk]; !ok {
		r.ctx.terms[pk] = &termInfo{kind: akPresence, base: []string{t.key}}
	}
	if r.posOf(pk, t.side) == 1 {
		return -1 // i < len
	}
	return 1 // i >= len (reported as "greater": only < and >= are meaningful)
}

func (r *aeRun) binop(op token.Token, x, y any, t types.Type) any {
	switch op {
	case token.EQL, token.NEQ, token.LSS, token.LEQ, token.GTR, token.GEQ:
		// nil comparisons
		if _, ok := y.(avNil); ok {
			return boolC(r.nilCmp(op, x))
		}
		if _, ok := x.(avNil); ok {
			return boolC(r.nilCmp(op, y))
		}
		if ix, ok := x.(avIndex); ok && (op == token.EQL || op == token.NEQ) {
			// "first position or not": a position class shared by all individuals. The position-wise
			// laws are checked in each class; a lexicographic order may use a different total
			// preorder at different positions.
			if cv, isC := y.(avConst); isC && r.ctx.allowFirst && ix.off == 0 && r.target != nil && cv.v.Kind() == constant.Int && constant.Sign(cv.v) == 0 {
				key := "first:" + loopID(r.targetFn, r.target)
				if _, known := r.ctx.terms[key]; !known {
					r.ctx.terms[key] = &termInfo{kind: akBool, t: types.Typ[types.Bool]}
				}
				first := r.posInd(key, 0) == 1
				return boolC(first == (op == token.EQL))
			}
			r.oof("loop index tested for equality")
		}
		if u, ok := x.(avUnknown); ok {
			return u
		}
		if u, ok := y.(avUnknown); ok {
			return u
		}
		if i, ok := x.(avIndex); ok && i.off != 0 {
			return avUnknown{"test on the next loop index"}
		}
		if i, ok := y.(avIndex); ok && i.off != 0 {
			return avUnknown{"test on the next loop index"}
		}
		c := r.cmp3o(x, y, op != token.EQL && op != token.NEQ)
		switch op {
		case token.EQL:
			return boolC(c == 0)
		case token.NEQ:
			return boolC(c != 0)
		case token.LSS:
			return boolC(c < 0)
		case token.LEQ:
			return boolC(c <= 0)
		case token.GTR:
			return boolC(c > 0)
		default:
			return boolC(c >= 0)
		}
	case token.LAND, token.LOR:
	}
	// arithmetic / concatenation
	if a, ok := x.(avConst); ok {
		if b, ok := y.(avConst); ok {
			defer func() {
				if e := recover(); e != nil {
					panic(outOfFragment{"constant arithmetic failed"})
				}
			}()
			if op == token.SHL || op == token.SHR {
				s, _ := constant.Uint64Val(b.v)
				return avConst{constant.Shift(a.v, op, uint(s))}
			}
			if op == token.QUO && a.v.Kind() == constant.Int {
				return avConst{constant.BinaryOp(a.v, token.QUO_ASSIGN, b.v)}
			}
			return avConst{constant.BinaryOp(a.v, op, b.v)}
		}
	}
	if i, ok := x.(avIndex); ok {
		if c, ok := y.(avConst); ok && op == token.ADD {
			d, _ := constant.Int64Val(c.v)
			return avIndex{i.off + d}
		}
	}
	if r.ctx.symArith && (op == token.ADD || op == token.SUB) && isIntType(t) {
		// symbolic successor/predecessor: a value derived from the term (used when a desugared bound is
		// assembled as text: the piece "(x+1)")
		if tx, ok := x.(avTerm); ok {
			if cy, ok := y.(avConst); ok && cy.v.Kind() == constant.Int {
				sign := "+"
				if op == token.SUB {
					sign = "-"
				}
				return r.mkTerm("("+tx.key+sign+cy.v.ExactString()+")", tx.side, t, akOrder, []string{tx.key})
			}
		}
	}
	if op == token.ADD && isStringType(t) {
		// string concatenation: a template of constant pieces and abstract values
		if xs, ok := strParts(x); ok {
			if ys, ok := strParts(y); ok {
				return mkStr(xs, ys)
			}
		}
	}
	return avUnknown{"arithmetic on abstract values"}
}

func (r *aeRun) nilCmp(op token.Token, v any) bool {
	isNil := false
	switch x := v.(type) {
	case avNil:
		isNil = true
	case avRef:
		key := x.key + "?nil"
		if _, ok := r.ctx.terms[key]; !ok {
			r.ctx.terms[key] = &termInfo{kind: akNil, t: x.t}
		}
		isNil = r.posOf(key, x.side) == 0
	case avTerm:
		isNil = r.posOf(x.key, x.side) == 0
	case avIface, *avStruct, avAddr:
		isNil = false
	default:
		r.oof("nil comparison of %T (%v)", v, v)
	}
	if op == token.EQL {
		return isNil
	}
	if op == token.NEQ {
		return !isNil
	}
	r.oof("ordered comparison with nil")
	return false
}

// project: the value at field f of a structured abstract value
func (r *aeRun) fieldOf(v any, st *types.Struct, f int) any {
	switch x := v.(type) {
	case *avStruct:
		return x.fields[f]
	case avRef:
		ck := x.key + "." + st.Field(f).Name()
		r.noteOrigin(ck, x.t, f)
		return r.refValue(ck, x.side, st.Field(f).Type())
	case avNil:
		r.oof("field of nil")
	}
	r.oof("field access on %T", v)
	return nil
}

// refValue: the abstract value stored at an access path
func (r *aeRun) refValue(key string, side int, t types.Type) any {
	switch u := t.Underlying().(type) {
	case *types.Basic:
		return r.mkTerm(key, side, t, kindOfType(t), nil)
	case *types.Pointer, *types.Slice, *types.Struct, *types.Interface, *types.Array:
		_ = u
		return avRef{key: key, side: side, t: t}
	}
	return avUnknown{"value of type " + t.String()}
}

func zeroValue(t types.Type) any {
	switch u := t.Underlying().(type) {
	case *types.Basic:
		switch {
		case u.Info()&types.IsString != 0:
			return avConst{constant.MakeString("")}
		case u.Info()&types.IsBoolean != 0:
			return boolC(false)
		case u.Info()&types.IsNumeric != 0:
			return intC(0)
		}
	case *types.Struct:
		s := &avStruct{t: t, fields: make([]any, u.NumFields())}
		for i := range s.fields {
			s.fields[i] = zeroValue(u.Field(i).Type())
		}
		return s
	case *types.Array:
		if u.Len() <= 16 {
			// a small local array (varargs, slice literal): elements addressed as synthetic fields
			s := &avStruct{t: t, fields: make([]any, u.Len())}
			for i := range s.fields {
				s.fields[i] = zeroValue(u.Elem())
			}
			return s
		}
	}
	return avNil{t}
}

// avList: a slice value built locally: the elements appended to a base (nil: empty)
type avList struct {
	base  any
	elems []any
}

// avStr: a string assembled from constant pieces and abstract values
type avStr struct{ parts []any }

func strParts(v any) ([]any, bool) {
	switch x := v.(type) {
	case avConst:
		if x.v.Kind() == constant.String {
			return []any{x}, true
		}
		if x.v.Kind() == constant.Int {
			return []any{avConst{constant.MakeString(x.v.ExactString())}}, true
		}
	case avTerm:
		return []any{x}, true
	case avStr:
		return x.parts, true
	case avIface:
		return strParts(x.x)
	}
	return nil, false
}

// mkStr concatenates pieces, merging adjacent constants
func mkStr(pieces ...[]any) any {
	var out []any
	for _, ps := range pieces {
		for _, p := range ps {
			if c, ok := p.(avConst); ok {
				if constant.StringVal(c.v) == "" {
					continue
				}
				if n := len(out); n > 0 {
					if pc, ok := out[n-1].(avConst); ok {
						out[n-1] = avConst{constant.MakeString(constant.StringVal(pc.v) + constant.StringVal(c.v))}
						continue
					}
				}
			}
			out = append(out, p)
		}
	}
	switch len(out) {
	case 0:
		return avConst{constant.MakeString("")}
	case 1:
		return out[0]
	}
	return avStr{out}
}

func (r *aeRun) eval(fr *frame, v ssa.Value) any {
	switch x := v.(type) {
	case *ssa.Const:
		if x.Value == nil {
			return zeroValue(x.Type())
		}
		return avConst{x.Value}
	case *ssa.Global:
		return avAddr{ref: nil, idx: x}
	case *ssa.Function:
		return x
	}
	if val, ok := fr.vals[v]; ok {
		return val
	}
	r.oof("use of unevaluated value %s in %s", v.Name(), fr.fn.Name())
	return nil
}

// call evaluates fn on abstract arguments (inlining).
func (r *aeRun) call(fn *ssa.Function, args []any) any {
	if r.depth > 10 {
		r.oof("call depth")
	}
	if fn.Blocks == nil {
		r.oof("no body for %s", fn)
	}
	fr := &frame{fn: fn, vals: map[ssa.Value]any{}, mem: map[*ssa.Alloc]any{}}
	for i, p := range fn.Params {
		fr.vals[p] = args[i]
	}
	r.depth++
	defer func() { r.depth-- }()
	return r.export(fr, r.exec(fr, fn.Blocks[0], nil), 0)
}

// avBox: a pointer to an object that outlived the activation that allocated it
type avBox struct{ val any }

// export detaches pointers to the returning activation's allocations from its frame
func (r *aeRun) export(fr *frame, v any, depth int) any {
	if depth > 6 {
		return v
	}
	switch x := v.(type) {
	case avAddr:
		if x.alloc != nil && len(x.path) == 0 && x.alloc.Parent() == fr.fn {
			if cur, ok := fr.mem[x.alloc]; ok {
				return &avBox{r.export(fr, cur, depth+1)}
			}
		}
	case avTuple:
		out := make(avTuple, len(x))
		for i, e := range x {
			out[i] = r.export(fr, e, depth+1)
		}
		return out
	case avList:
		out := avList{base: x.base, elems: make([]any, len(x.elems))}
		for i, e := range x.elems {
			out.elems[i] = r.export(fr, e, depth+1)
		}
		return out
	case *avStruct:
		for i, f := range x.fields {
			x.fields[i] = r.export(fr, f, depth+1)
		}
	}
	return v
}

func (c *aeCtx) loopsOf(fn *ssa.Function) []*loop {
	if ls, ok := c.loops[fn]; ok {
		return ls
	}
	ls := findLoops(fn)
	c.loops[fn] = ls
	return ls
}

func (c *aeCtx) loopAt(b *ssa.BasicBlock) *loop {
	for _, l := range c.loopsOf(b.Parent()) {
		if l.header == b {
			return l
		}
	}
	return nil
}

type returned struct{ v any }

// exec runs from block b (entered from pred) until the function returns.
func (r *aeRun) exec(fr *frame, b *ssa.BasicBlock, pred *ssa.BasicBlock) any {
	for {
		r.ctx.steps++
		if r.ctx.steps > r.ctx.stepLimit {
			r.oof("step budget exhausted")
		}
		if r.ctx.steps&0xffff == 0 && time.Since(r.ctx.started) > r.ctx.budget {
			panic(tooLarge{})
		}
		skipPhis := false
		if l := r.ctx.loopAt(b); l != nil {
			fromOutside := pred == nil || !l.body[pred]
			switch {
			case r.target != nil && l.header == r.target.header && fr.fn == r.targetFn && !r.inIter && fromOutside:
				// start of the generic iteration
				r.inIter = true
				r.iterFrame = fr
				for _, ins := range b.Instrs {
					ph, ok := ins.(*ssa.Phi)
					if !ok {
						break
					}
					ev := r.entryEdge(fr, ph, l)
					if isIntType(ph.Type()) {
						if c, ok := ev.(avConst); ok {
							d, _ := constant.Int64Val(c.v)
							if d == 0 || d == -1 {
								fr.vals[ph] = avIndex{d}
								continue
							}
						}
					}
					if r.freePhis {
						// state-machine mode: a loop-carried variable holds an arbitrary state
						key := "state:" + ph.Comment
						switch {
						case isBoolType(ph.Type()) || isStringType(ph.Type()) || isIntType(ph.Type()):
							fr.vals[ph] = r.mkTerm(key, 0, ph.Type(), kindOfType(ph.Type()), nil)
						default:
							fr.vals[ph] = avRef{key: key, side: 0, t: ph.Type()}
						}
						if r.stateInit == nil {
							r.stateInit = map[string]any{}
						}
						r.stateInit[ph.Comment] = ev
						continue
					}
					fr.vals[ph] = ev
				}
				skipPhis = true
				if r.freePhis {
					// state-machine mode: a local struct variable that lives across iterations (declared in
					// front of the loop, assigned inside it) holds an arbitrary state as well
					for _, al := range loopCarriedAllocs(fr.fn, l) {
						if r.stateInit == nil {
							r.stateInit = map[string]any{}
						}
						if cur, ok := fr.mem[al]; ok {
							r.stateInit[al.Comment] = cur
						} else {
							r.stateInit[al.Comment] = zeroValue(al.Type().Underlying().(*types.Pointer).Elem())
						}
						fr.mem[al] = avRef{key: "state:" + al.Comment, side: 0, t: al.Type().Underlying().(*types.Pointer).Elem()}
					}
				}
				// a rotated counting loop (for i := range n): the test i < n is made in front of the loop and
				// at the latch, not at the header. The generic position satisfies it; where it does not,
				// control is at the loop's exit.
				if bound, exit, latch := rotatedGuard(l); bound != nil {
					if !r.truth(r.binop(token.LSS, avIndex{0}, r.eval(fr, bound), types.Typ[types.Bool])) {
						r.outcome = &iterOutcome{kind: "done"}
						r.inIter = false
						r.inTail = true
						resv := r.exec(fr, exit, latch)
						r.inTail = false
						r.outcome = &iterOutcome{kind: "tail", val: resv}
						panic(returned{nil})
					}
				}
			case r.inIter && fr == r.iterFrame && l.header == r.target.header && !fromOutside:
				// back edge of the analysed loop: one generic position done
				if r.freePhis {
					next := map[string]any{}
					for _, ins := range b.Instrs {
						ph, ok := ins.(*ssa.Phi)
						if !ok {
							break
						}
						for i, pb := range b.Preds {
							if pb == pred && !isIntType(ph.Type()) {
								next[ph.Comment] = r.eval(fr, ph.Edges[i])
							}
						}
					}
					for _, al := range loopCarriedAllocs(fr.fn, l) {
						next[al.Comment] = fr.mem[al]
					}
					r.outcome = &iterOutcome{kind: "continue", val: next}
					panic(returned{nil})
				}
				r.checkBackEdge(fr, b, pred, l)
				r.outcome = &iterOutcome{kind: "continue"}
				panic(returned{nil})
			case fromOutside:
				res, cont, nb := r.enterLoop(fr, l, pred)
				if !cont {
					return res
				}
				pred, b = l.header, nb
				continue
			default:
				r.oof("unexpected loop back edge in %s", fr.fn.Name())
			}
		}
		// phis (simultaneous assignment)
		var phis []*ssa.Phi
		var phiVals []any
		for _, ins := range b.Instrs {
			ph, ok := ins.(*ssa.Phi)
			if !ok || skipPhis {
				break
			}
			idx := -1
			for i, p := range b.Preds {
				if p == pred {
					idx = i
				}
			}
			if idx < 0 {
				r.oof("phi without predecessor")
			}
			phis = append(phis, ph)
			phiVals = append(phiVals, r.eval(fr, ph.Edges[idx]))
		}
		for i, ph := range phis {
			fr.vals[ph] = phiVals[i]
		}
		nb, np := r.runBlockBody(fr, b)
		if nb == nil {
			return fr.vals[nil]
		}
		if r.inIter && fr == r.iterFrame && r.target.body[b] && !r.target.body[nb] {
			// leaving the analysed loop without returning: only through the header guard
			// (a bottom-tested loop has no header guard: leaving from its first block is an early exit too)
			rotBound, _, _ := rotatedGuard(r.target)
			if b != r.target.header || rotBound != nil {
				// early exit from the body (return block or break): the value eventually returned
				// is this position's exit value
				b, pred = nb, np
				continue
			}
			r.outcome = &iterOutcome{kind: "done"}
			// continue into the tail: a min-kind loop decides absent positions after the loop
			r.inIter = false
			r.inTail = true
			res := r.exec(fr, nb, np)
			r.inTail = false
			r.outcome = &iterOutcome{kind: "tail", val: res}
			panic(returned{nil})
		}
		b, pred = nb, np
	}
}

func (r *aeRun) entryEdge(fr *frame, ph *ssa.Phi, l *loop) any {
	var ev any
	n := 0
	for i, p := range ph.Block().Preds {
		if !l.body[p] {
			ev = r.eval(fr, ph.Edges[i])
			n++
		}
	}
	if n != 1 {
		r.oof("loop with %d entry edges", n)
	}
	return ev
}

func (r *aeRun) checkBackEdge(fr *frame, hdr, pred *ssa.BasicBlock, l *loop) {
	idx := -1
	for i, p := range hdr.Preds {
		if p == pred {
			idx = i
		}
	}
	for _, ins := range hdr.Instrs {
		ph, ok := ins.(*ssa.Phi)
		if !ok {
			break
		}
		nv := r.eval(fr, ph.Edges[idx])
		cur := fr.vals[ph]
		if ci, ok := cur.(avIndex); ok {
			if ni, ok := nv.(avIndex); ok && ni.off == ci.off+1 {
				continue
			}
			r.oof("loop index does not advance by one")
		}
		if !sameAV(cur, nv) {
			r.oof("loop-carried state %s", ph.Comment)
		}
	}
}

func sameAV(a, b any) bool {
	switch x := a.(type) {
	case avConst:
		y, ok := b.(avConst)
		return ok && constEq(x.v, y.v)
	case avTerm:
		y, ok := b.(avTerm)
		return ok && x.key == y.key && x.side == y.side
	case avRef:
		y, ok := b.(avRef)
		return ok && x.key == y.key && x.side == y.side
	case avNil:
		_, ok := b.(avNil)
		return ok
	}
	return false
}

// loopCarriedAllocs: named struct locals declared in front of the loop l and stored to inside it
func loopCarriedAllocs(fn *ssa.Function, l *loop) []*ssa.Alloc {
	var out []*ssa.Alloc
	for _, b := range fn.Blocks {
		if l.body[b] {
			continue
		}
		for _, ins := range b.Instrs {
			al, ok := ins.(*ssa.Alloc)
			if !ok || al.Heap || al.Comment == "" || al.Comment == "complit" || al.Comment == "varargs" {
				continue
			}
			if _, isStruct := al.Type().Underlying().(*types.Pointer).Elem().Underlying().(*types.Struct); !isStruct {
				continue
			}
			stored := false
			for _, ref := range *al.Referrers() {
				switch x := ref.(type) {
				case *ssa.Store:
					if x.Addr == ssa.Value(al) && l.body[x.Block()] {
						stored = true
					}
				case *ssa.FieldAddr:
					for _, r2 := range *x.Referrers() {
						if st, ok := r2.(*ssa.Store); ok && st.Addr == ssa.Value(x) && l.body[st.Block()] {
							stored = true
						}
					}
				}
			}
			if stored {
				out = append(out, al)
			}
		}
	}
	return out
}

// rotatedGuard: l is a bottom-tested counting loop  if 0 < n { do { ... } while (i+1 < n) }: the header has
// no test on the counter, exactly one latch tests next < n with next = counter+1, and the block in front of
// the loop tests 0 < n with the same n. Returns n, the exit block and the latch.
func rotatedGuard(l *loop) (bound ssa.Value, exit, latch *ssa.BasicBlock) {
	var idx *ssa.Phi
	for _, ins := range l.header.Instrs {
		ph, ok := ins.(*ssa.Phi)
		if !ok {
			break
		}
		if isIntType(ph.Type()) && idx == nil {
			idx = ph
		}
	}
	if idx == nil || len(l.backs) != 1 {
		return nil, nil, nil
	}
	if iff, ok := l.header.Instrs[len(l.header.Instrs)-1].(*ssa.If); ok {
		if bo, ok := iff.Cond.(*ssa.BinOp); ok && (bo.X == ssa.Value(idx) || bo.Y == ssa.Value(idx)) && (!l.body[l.header.Succs[0]] || !l.body[l.header.Succs[1]]) {
			return nil, nil, nil // top-tested
		}
	}
	lb := l.backs[0]
	iff, ok := lb.Instrs[len(lb.Instrs)-1].(*ssa.If)
	if !ok {
		return nil, nil, nil
	}
	bo, ok := iff.Cond.(*ssa.BinOp)
	if !ok || bo.Op != token.LSS {
		return nil, nil, nil
	}
	nx, ok := bo.X.(*ssa.BinOp)
	if !ok || nx.Op != token.ADD || nx.X != ssa.Value(idx) {
		return nil, nil, nil
	}
	if one, ok := constInt(nx.Y); !ok || one != 1 {
		return nil, nil, nil
	}
	if lb.Succs[0] != l.header || l.body[lb.Succs[1]] {
		return nil, nil, nil
	}
	// the test in front of the loop
	okPre := false
	for i, pb := range l.header.Preds {
		if l.body[pb] {
			continue
		}
		if c, ok := constInt(idx.Edges[i]); !ok || c != 0 {
			return nil, nil, nil
		}
		pi, ok := pb.Instrs[len(pb.Instrs)-1].(*ssa.If)
		if !ok {
			// for i := range <positive constant>: the test in front of the loop is folded away
			if _, isJump := pb.Instrs[len(pb.Instrs)-1].(*ssa.Jump); isJump {
				if k, isC := constInt(bo.Y); isC && k >= 1 {
					okPre = true
					continue
				}
			}
			return nil, nil, nil
		}
		pbo, ok := pi.Cond.(*ssa.BinOp)
		if !ok || pbo.Op != token.LSS || pbo.Y != bo.Y || pb.Succs[0] != l.header {
			return nil, nil, nil
		}
		if z, ok := constInt(pbo.X); !ok || z != 0 {
			return nil, nil, nil
		}
		okPre = true
	}
	if !okPre {
		return nil, nil, nil
	}
	return bo.Y, lb.Succs[1], lb
}

// runBlockBody executes the non-phi instructions of b and returns the next block.
func (r *aeRun) runBlockBody(fr *frame, b *ssa.BasicBlock) (*ssa.BasicBlock, *ssa.BasicBlock) {
	for _, ins := range b.Instrs {
		switch x := ins.(type) {
		case *ssa.Phi:
			continue
		case *ssa.If:
			if r.inIter && fr == r.iterFrame && r.target.body[b] && b != r.target.header {
				// bottom-tested (rotated) loop: the test "is there a next position" ends the generic position
				h := r.target.header
				if (b.Succs[0] == h && !r.target.body[b.Succs[1]]) || (b.Succs[1] == h && !r.target.body[b.Succs[0]]) {
					r.checkBackEdge(fr, h, b, r.target)
					r.outcome = &iterOutcome{kind: "continue"}
					panic(returned{nil})
				}
			}
			// the test 0 < n in front of a rotated counting loop: the loop is entered regardless; its
			// generic position (or its summary) accounts for the case that there is no position at all,
			// exactly as for the top-tested spelling, whose header is always reached
			if hl := r.ctx.loopAt(b.Succs[0]); hl != nil && !hl.body[b] {
				if bound, _, _ := rotatedGuard(hl); bound != nil {
					return b.Succs[0], b
				}
			}
			if r.truth(r.eval(fr, x.Cond)) {
				return b.Succs[0], b
			}
			return b.Succs[1], b
		case *ssa.Jump:
			return b.Succs[0], b
		case *ssa.Return:
			var res any
			switch len(x.Results) {
			case 0:
			case 1:
				res = r.eval(fr, x.Results[0])
			default:
				t := make(avTuple, len(x.Results))
				for i, rv := range x.Results {
					t[i] = r.eval(fr, rv)
				}
				res = t
			}
			if r.inIter && fr == r.iterFrame {
				r.outcome = &iterOutcome{kind: "exit", val: res}
				panic(returned{nil})
			}
			fr.vals[nil] = res
			return nil, b
		case *ssa.Store:
			r.store(fr, r.eval(fr, x.Addr), r.eval(fr, x.Val))
		case *ssa.DebugRef:
		case *ssa.MapUpdate, *ssa.Send, *ssa.Go, *ssa.Defer, *ssa.RunDefers, *ssa.Panic:
			r.oof("effectful instruction %T", ins)
		case ssa.Value:
			fr.vals[x] = r.evalInstr(fr, x)
		default:
			r.oof("instruction %T", ins)
		}
	}
	r.oof("block without terminator")
	return nil, nil
}

func (r *aeRun) store(fr *frame, addr, val any) {
	a, ok := addr.(avAddr)
	if !ok || a.alloc == nil {
		r.oof("store through a non-local address")
	}
	if len(a.path) == 0 {
		fr.mem[a.alloc] = val
		return
	}
	cur, ok := fr.mem[a.alloc].(*avStruct)
	if !ok {
		et := a.alloc.Type().Underlying().(*types.Pointer).Elem()
		z, isS := zeroValue(et).(*avStruct)
		if !isS {
			r.oof("field store into non-struct local")
		}
		// materialise from an abstract struct if one was stored whole
		if ref, isRef := fr.mem[a.alloc].(avRef); isRef {
			st := et.Underlying().(*types.Struct)
			for i := range z.fields {
				z.fields[i] = r.fieldOf(ref, st, i)
			}
		}
		cur = z
		fr.mem[a.alloc] = cur
	}
	for _, f := range a.path[:len(a.path)-1] {
		nx, ok := cur.fields[f].(*avStruct)
		if !ok {
			r.oof("nested field store")
		}
		cur = nx
	}
	cur.fields[a.path[len(a.path)-1]] = val
}

func (r *aeRun) load(fr *frame, addr any, t types.Type) any {
	if b, ok := addr.(*avBox); ok {
		return b.val
	}
	a, ok := addr.(avAddr)
	if !ok {
		r.oof("load through %T", addr)
	}
	if a.alloc != nil {
		cur, ok := fr.mem[a.alloc]
		if !ok {
			cur = zeroValue(a.alloc.Type().Underlying().(*types.Pointer).Elem())
			fr.mem[a.alloc] = cur
		}
		et := a.alloc.Type().Underlying().(*types.Pointer).Elem()
		for _, f := range a.path {
			st, ok := et.Underlying().(*types.Struct)
			if !ok {
				r.oof("field path through non-struct")
			}
			cur = r.fieldOf(cur, st, f)
			et = st.Field(f).Type()
		}
		// a struct loaded by value must not alias the local copy
		if s, ok := cur.(*avStruct); ok {
			cp := &avStruct{t: s.t, fields: append([]any{}, s.fields...)}
			return cp
		}
		return cur
	}
	if g, ok := a.idx.(*ssa.Global); ok && a.ref == nil {
		if _, isMap := t.Underlying().(*types.Map); isMap {
			return mapRef{g}
		}
		if _, isPtr := t.Underlying().(*types.Pointer); isPtr {
			return avAddr{idx: g, ref: nil, path: []int{-1}} // e.g. *regexp.Regexp held in a global
		}
		if isErrorType(t) && g.Pkg != nil && !r.ctx.p.IsRepoPkg(g.Pkg.Pkg) {
			// a sentinel error of the standard library (strconv.ErrSyntax, io.EOF): set once at
			// package initialisation to a non-nil value
			return avIface{avUnknown{"error value"}}
		}
		r.oof("load of global %s", g.Name())
	}
	if a.ref != nil {
		return r.refValue(a.ref.key, a.ref.side, t)
	}
	r.oof("load of unmodelled address")
	return nil
}

func (r *aeRun) evalInstr(fr *frame, v ssa.Value) any {
	switch x := v.(type) {
	case *ssa.Alloc:
		return avAddr{alloc: x}
	case *ssa.BinOp:
		return r.binop(x.Op, r.eval(fr, x.X), r.eval(fr, x.Y), x.Type())
	case *ssa.UnOp:
		switch x.Op {
		case token.NOT:
			return boolC(!r.truth(r.eval(fr, x.X)))
		case token.MUL:
			return r.load(fr, r.eval(fr, x.X), x.Type())
		case token.SUB:
			if c, ok := r.eval(fr, x.X).(avConst); ok {
				return avConst{constant.UnaryOp(token.SUB, c.v, 0)}
			}
			return avUnknown{"negation of abstract value"}
		}
		return avUnknown{"unary " + x.Op.String()}
	case *ssa.FieldAddr:
		base := r.eval(fr, x.X)
		st := x.X.Type().Underlying().(*types.Pointer).Elem().Underlying().(*types.Struct)
		switch b := base.(type) {
		case avAddr:
			if b.alloc != nil {
				return avAddr{alloc: b.alloc, path: append(append([]int{}, b.path...), x.Field)}
			}
			if b.ref != nil {
				nr := avRef{key: b.ref.key + "." + st.Field(x.Field).Name(), side: b.ref.side, t: st.Field(x.Field).Type()}
				r.noteOrigin(nr.key, x.X.Type(), x.Field)
				return avAddr{ref: &nr}
			}
		case avRef:
			nr := avRef{key: b.key + "." + st.Field(x.Field).Name(), side: b.side, t: st.Field(x.Field).Type()}
			r.noteOrigin(nr.key, x.X.Type(), x.Field)
			return avAddr{ref: &nr}
		case avNil:
			r.oof("field address of nil pointer")
		}
		r.oof("field address of %T", base)
	case *ssa.Field:
		base := r.eval(fr, x.X)
		st := x.X.Type().Underlying().(*types.Struct)
		return r.fieldOf(base, st, x.Field)
	case *ssa.IndexAddr:
		base := r.eval(fr, x.X)
		idx := r.eval(fr, x.Index)
		switch b := base.(type) {
		case avRef:
			return r.elemAddr(b, idx)
		case avAddr:
			if b.alloc != nil {
				// local array (varargs / literal): constant index -> synthetic field path
				if c, ok := idx.(avConst); ok {
					d, _ := constant.Int64Val(c.v)
					return avAddr{alloc: b.alloc, path: append(append([]int{}, b.path...), int(d))}
				}
			}
		}
		r.oof("element address of %T", base)
	case *ssa.Index:
		base := r.eval(fr, x.X)
		idx := r.eval(fr, x.Index)
		if ic, ok := idx.(avConst); ok && isStringType(x.X.Type()) {
			k, _ := constant.Int64Val(constant.ToInt(ic.v))
			switch b := base.(type) {
			case avConst:
				if sv := constant.StringVal(b.v); k >= 0 && int(k) < len(sv) {
					return avConst{constant.MakeInt64(int64(sv[k]))}
				}
				r.oof("constant string index out of range")
			case avTerm:
				// the k-th byte of an unknown string: a value derived from the string
				return r.mkTerm(fmt.Sprintf("%s[%d]", b.key, k), b.side, x.Type(), akOrder, []string{b.key})
			}
		}
		if ii, ok := idx.(avIndex); ok && isStringType(x.X.Type()) {
			if b, ok := base.(avTerm); ok {
				// the byte at the generic position of the analysed loop
				if !r.inIter || ii.off != 0 {
					r.oof("generic index outside the analysed loop")
				}
				pk := "present:" + b.key
				if _, ok := r.ctx.terms[pk]; !ok {
					r.ctx.terms[pk] = &termInfo{kind: akPresence, base: []string{"len(" + b.key + ")"}}
				}
				if r.posOf(pk, b.side) != 1 {
					r.oof("element read at an absent position")
				}
				return r.mkTerm(b.key+"[i]", b.side, x.Type(), akOrder, nil)
			}
		}
		r.oof("array value indexing")
	case *ssa.Lookup:
		return r.lookup(fr, x)
	case *ssa.Slice:
		base := r.eval(fr, x.X)
		if x.Low == nil && x.High == nil {
			if a, ok := base.(avAddr); ok && a.alloc != nil && len(a.path) == 0 {
				if pt, ok := a.alloc.Type().Underlying().(*types.Pointer); ok {
					if _, isArr := pt.Elem().Underlying().(*types.Array); isArr {
						if arr, ok := fr.mem[a.alloc].(*avStruct); ok {
							return avList{elems: append([]any{}, arr.fields...)}
						}
						if z, ok := zeroValue(pt.Elem()).(*avStruct); ok {
							return avList{elems: z.fields}
						}
					}
				}
			}
			return base
		}
		// substring / subslice of an abstract value: a derived value
		if t, ok := base.(avTerm); ok {
			lo, hi := "", ""
			if x.Low != nil {
				lo = r.keyOf(r.eval(fr, x.Low))
			}
			if x.High != nil {
				hi = r.keyOf(r.eval(fr, x.High))
			}
			if lo != "?" && hi != "?" {
				return r.mkTerm(fmt.Sprintf("%s[%s:%s]", t.key, lo, hi), t.side, x.Type(), akOrder, []string{t.key})
			}
		}
		return avUnknown{"slice expression"}
	case *ssa.Phi:
		r.oof("phi evaluated out of order")
	case *ssa.Extract:
		t, ok := r.eval(fr, x.Tuple).(avTuple)
		if !ok {
			r.oof("extract from non-tuple")
		}
		return t[x.Index]
	case *ssa.Call:
		return r.evalCall(fr, x)
	case *ssa.MakeInterface:
		return avIface{r.eval(fr, x.X)}
	case *ssa.ChangeType:
		return r.eval(fr, x.X)
	case *ssa.ChangeInterface:
		return r.eval(fr, x.X)
	case *ssa.Convert:
		in := r.eval(fr, x.X)
		if c, ok := in.(avConst); ok {
			if isIntType(x.Type()) && c.v.Kind() == constant.Int {
				return c
			}
			if isStringType(x.Type()) && c.v.Kind() == constant.String {
				return c
			}
		}
		if t, ok := in.(avTerm); ok && isIntType(x.Type()) && isIntType(x.X.Type()) {
			if orderPreservingConv(r.ctx.p, x.X.Type(), x.Type()) {
				return t // rune(byte), int64(int), ...: every value keeps its place
			}
			return avUnknown{fmt.Sprintf("conversion %s -> %s can wrap around: the order of the values is not kept", x.X.Type(), x.Type())}
		}
		return avUnknown{"conversion"}
	case *ssa.TypeAssert:
		in := r.eval(fr, x.X)
		switch b := in.(type) {
		case avIface:
			if x.CommaOk {
				r.oof("comma-ok assertion")
			}
			return b.x
		case avRef:
			if x.CommaOk {
				r.oof("comma-ok assertion")
			}
			// typed view of an abstract interface value
			tn := types.TypeString(x.AssertedType, func(*types.Package) string { return "" })
			if o, ok := r.ctx.originOf[b.key]; ok {
				r.ctx.originOf[b.key+"#"+tn] = o
			}
			return r.refValue(b.key+"#"+tn, b.side, x.AssertedType)
		}
		r.oof("type assertion on %T", in)
	case *ssa.MakeSlice, *ssa.MakeMap, *ssa.MakeClosure, *ssa.MakeChan:
		return avUnknown{"allocation"}
	case *ssa.Range, *ssa.Next, *ssa.Select:
		r.oof("range/next")
	}
	r.oof("instruction %T", v)
	return nil
}

func (r *aeRun) keyOf(v any) string {
	switch x := v.(type) {
	case avConst:
		return x.v.ExactString()
	case avTerm:
		return x.key
	}
	return "?"
}

func (r *aeRun) elemAddr(seq avRef, idx any) avAddr {
	var et types.Type
	switch u := seq.t.Underlying().(type) {
	case *types.Slice:
		et = u.Elem()
	case *types.Pointer:
		if a, ok := u.Elem().Underlying().(*types.Array); ok {
			et = a.Elem()
		}
	case *types.Array:
		et = u.Elem()
	}
	if et == nil {
		r.oof("element of non-sequence")
	}
	switch i := idx.(type) {
	case avIndex:
		if !r.inIter || i.off != 0 {
			r.oof("generic index outside the analysed loop")
		}
		// the element exists only if this side is present at the generic position
		pk := "present:" + seq.key
		if _, ok := r.ctx.terms[pk]; !ok {
			r.ctx.terms[pk] = &termInfo{kind: akPresence, base: []string{"len(" + seq.key + ")"}}
		}
		if r.posOf(pk, seq.side) != 1 {
			r.oof("element read at an absent position")
		}
		nr := avRef{key: seq.key + "[i]", side: seq.side, t: et}
		return avAddr{ref: &nr}
	case avConst:
		nr := avRef{key: seq.key + "[" + i.v.ExactString() + "]", side: seq.side, t: et}
		return avAddr{ref: &nr}
	case avTerm:
		// after a zip loop that stopped at the first position where one sequence S ended, len(S) is
		// that position: x[len(S)] is the other sequence's element at the generic position
		if r.inTail && strings.HasPrefix(i.key, "len(") {
			short := strings.TrimSuffix(strings.TrimPrefix(i.key, "len("), ")")
			spk, pk := "present:"+short, "present:"+seq.key
			if r.ctx.terms[spk] != nil && r.ctx.terms[pk] != nil && r.posOf(spk, i.side) == 0 {
				if r.posOf(pk, seq.side) != 1 {
					// both sequences have ended at the generic position: this is not the first
					// position past the shorter one, and the position laws ignore its outcome
					r.inTail = false
					r.outcome = &iterOutcome{kind: "tail", val: avUnknown{"tail past both sequences"}}
					panic(returned{nil})
				}
				nr := avRef{key: seq.key + "[i]", side: seq.side, t: et}
				return avAddr{ref: &nr}
			}
		}
	}
	if t, ok := idx.(avTerm); ok {
		r.oof("element index by the term %s (tail=%v, iter=%v)", t.key, r.inTail, r.inIter)
	}
	r.oof("element index %T", idx)
	return avAddr{}
}

func (r *aeRun) lookup(fr *frame, x *ssa.Lookup) any {
	m := r.eval(fr, x.X)
	k := r.eval(fr, x.Index)
	mr, ok := m.(mapRef)
	if !ok {
		if _, isStr := x.X.Type().Underlying().(*types.Basic); isStr {
			return avUnknown{"string indexing"}
		}
		r.oof("lookup in a map that is not a package-level constant table")
	}
	cm := r.ctx.cmaps[mr.g]
	if cm == nil {
		r.oof("map %s is not a constant table filled in init", mr.g.Name())
	}
	vt := x.X.Type().Underlying().(*types.Map).Elem()
	found := -1
	switch kv := k.(type) {
	case avConst:
		for i, mk := range cm.keys {
			if constEq(mk, kv.v) {
				found = i
			}
		}
	case avTerm:
		for _, mk := range cm.keys {
			if poolIndex(r.ctx.pools[kv.key], mk) < 0 {
				panic(poolMiss{kv.key, mk})
			}
		}
		p := r.posOf(kv.key, kv.side)
		if p%2 == 1 {
			c := r.ctx.pools[kv.key][p/2]
			for i, mk := range cm.keys {
				if constEq(mk, c) {
					found = i
				}
			}
		}
	default:
		r.oof("map key %T", k)
	}
	var val any = zeroValue(vt)
	if found >= 0 {
		val = cm.vals[found]
	}
	if x.CommaOk {
		return avTuple{val, boolC(found >= 0)}
	}
	return val
}

// sideOf: all abstract operands belong to one individual (or are constants)
func sidesOf(args []any) (side int, mixed bool, keys []string) {
	side = -1
	for _, a := range args {
		s := -1
		switch x := a.(type) {
		case avTerm:
			s = x.side
			keys = append(keys, x.key)
		case avRef:
			s = x.side
			keys = append(keys, x.key)
		case avConst:
			keys = append(keys, x.v.ExactString())
			continue
		default:
			return -1, true, nil
		}
		if side == -1 {
			side = s
		} else if side != s {
			mixed = true
		}
	}
	return
}

func baseKeys(args []any) []string {
	var out []string
	for _, a := range args {
		switch x := a.(type) {
		case avTerm:
			out = append(out, x.key)
		}
	}
	return out
}

func (r *aeRun) derived(name string, args []any, t types.Type) any {
	// an operand whose field has a closed domain sits on one of its constants: fold
	if _, foldable := foldConst(name, nil); foldable {
		sub := make([]any, len(args))
		copy(sub, args)
		all := true
		for i, a := range args {
			switch x := a.(type) {
			case avConst:
			case avTerm:
				all = false
				closedDom := false
				if o, ok := r.ctx.originOf[x.key]; ok && isStringType(x.t) {
					if d := r.ctx.fieldDomain(o); d != nil && d.closed {
						closedDom = true
					}
				}
				if d := r.ctx.subDomain(x.key, r.ctx.terms[x.key]); d != nil && d.closed {
					closedDom = true
				}
				if closedDom {
					pos := r.posOf(x.key, x.side)
					if pos%2 == 1 && pos/2 < len(r.ctx.pools[x.key]) {
						sub[i] = avConst{r.ctx.pools[x.key][pos/2]}
						all = true
					}
				}
			default:
				all = false
			}
			if !all {
				break
			}
		}
		if all {
			if v, ok := foldConst(name, sub); ok {
				return v
			}
		}
	}
	side, mixed, keys := sidesOf(args)
	if mixed || keys == nil {
		return avUnknown{name + " of mixed or unmodelled operands"}
	}
	allConst := side == -1
	if allConst {
		if v, ok := foldConst(name, args); ok {
			return v
		}
		return avUnknown{name + " of constants"}
	}
	key := name + "(" + strings.Join(keys, ",") + ")"
	switch u := t.Underlying().(type) {
	case *types.Basic:
		return r.mkTerm(key, side, t, kindOfType(t), baseKeys(args))
	case *types.Slice:
		_ = u
		return avRef{key: key, side: side, t: t}
	case *types.Interface:
		if isErrorType(t) {
			return r.mkTerm(key, side, t, akNil, baseKeys(args))
		}
	case *types.Tuple:
		out := make(avTuple, u.Len())
		for i := 0; i < u.Len(); i++ {
			ft := u.At(i).Type()
			k := fmt.Sprintf("%s#%d", key, i)
			if _, isB := ft.Underlying().(*types.Basic); isB {
				out[i] = r.mkTerm(k, side, ft, kindOfType(ft), baseKeys(args))
			} else if isErrorType(ft) {
				out[i] = r.mkTerm(k, side, ft, akNil, baseKeys(args))
			} else {
				out[i] = avRef{key: k, side: side, t: ft}
			}
		}
		return out
	}
	return avUnknown{name + " result type"}
}

func (r *aeRun) evalCall(fr *frame, c *ssa.Call) any {
	com := c.Common()
	if com.IsInvoke() {
		r.oof("interface method call %s", com.Method.Name())
	}
	args := make([]any, len(com.Args))
	for i, a := range com.Args {
		args[i] = r.eval(fr, a)
	}
	if b, ok := com.Value.(*ssa.Builtin); ok {
		switch b.Name() {
		case "len":
			switch x := args[0].(type) {
			case avConst:
				if x.v.Kind() == constant.String {
					return intC(int64(len(constant.StringVal(x.v))))
				}
			case avRef:
				return r.mkTerm("len("+x.key+")", x.side, types.Typ[types.Int], akOrder, nil)
			case avTerm:
				return r.mkTerm("len("+x.key+")", x.side, types.Typ[types.Int], akOrder, []string{x.key})
			case avNil:
				return intC(0)
			case avList:
				if x.base == nil {
					return intC(int64(len(x.elems)))
				}
			}
			return avUnknown{"len"}
		case "append":
			var out avList
			switch x := args[0].(type) {
			case avNil:
			case avList:
				out = avList{base: x.base, elems: append([]any{}, x.elems...)}
			case avRef:
				out = avList{base: x}
			default:
				return avUnknown{"append to an unmodelled slice"}
			}
			if len(args) > 1 {
				add, ok := args[1].(avList)
				if !ok || add.base != nil {
					if _, isNil := args[1].(avNil); !isNil {
						return avUnknown{"append of an unmodelled slice"}
					}
				}
				out.elems = append(out.elems, add.elems...)
			}
			return out
		case "min", "max":
			best := args[0]
			for _, a := range args[1:] {
				c3 := r.cmp3(a, best)
				if b.Name() == "min" && c3 < 0 || b.Name() == "max" && c3 > 0 {
					best = a
				}
			}
			return best
		}
		return avUnknown{"builtin " + b.Name()}
	}
	fn := com.StaticCallee()
	if fn == nil {
		r.oof("dynamic call")
	}
	name := extName(fn)
	if r.ctx.p.IsRepoFn(fn) {
		return r.callRepo(fn, args, c)
	}
	switch name {
	case "strings.Compare", "cmp.Compare":
		return intC(int64(r.cmp3(args[0], args[1])))
	case "cmp.Less":
		return boolC(r.cmp3(args[0], args[1]) < 0)
	case "(time.Time).Compare":
		a, ok1 := args[0].(avRef)
		b, ok2 := args[1].(avRef)
		if ok1 && ok2 && a.key == b.key {
			ta := r.mkTerm(a.key+"@time", a.side, types.Typ[types.Int64], akOrder, nil)
			tb := r.mkTerm(b.key+"@time", b.side, types.Typ[types.Int64], akOrder, nil)
			return intC(int64(r.cmp3(ta, tb)))
		}
		r.oof("time comparison of unrelated values")
	case "fmt.Sprintf":
		if f, ok := args[0].(avConst); ok && f.v.Kind() == constant.String {
			var vals []any
			if len(args) > 1 {
				if l, ok := args[1].(avList); ok && l.base == nil {
					vals = l.elems
				} else if _, isNil := args[1].(avNil); !isNil {
					return avUnknown{"Sprintf with unmodelled arguments"}
				}
			}
			format := constant.StringVal(f.v)
			var pieces [][]any
			ai := 0
			for i := 0; i < len(format); i++ {
				if format[i] != '%' {
					j := i
					for j < len(format) && format[j] != '%' {
						j++
					}
					pieces = append(pieces, []any{avConst{constant.MakeString(format[i:j])}})
					i = j - 1
					continue
				}
				if i+1 >= len(format) {
					return avUnknown{"Sprintf format"}
				}
				i++
				switch format[i] {
				case '%':
					pieces = append(pieces, []any{avConst{constant.MakeString("%")}})
				case 's', 'v', 'd':
					if ai >= len(vals) {
						return avUnknown{"Sprintf with too few arguments"}
					}
					ps, ok := strParts(vals[ai])
					if !ok {
						return avUnknown{"Sprintf of an unmodelled value"}
					}
					if format[i] == 'd' {
						if t, isT := vals[ai].(avIface); isT {
							if tt, ok := t.x.(avTerm); ok && !isIntType(tt.t) {
								return avUnknown{"Sprintf %d of a non-integer"}
							}
						}
					}
					pieces = append(pieces, ps)
					ai++
				default:
					return avUnknown{"Sprintf verb " + string(format[i])}
				}
			}
			return mkStr(pieces...)
		}
		return avUnknown{"Sprintf with a non-constant format"}
	case "strings.Join":
		if l, ok := args[0].(avList); ok && l.base == nil {
			sep, okS := strParts(args[1])
			if okS {
				var pieces [][]any
				for i, el := range l.elems {
					ps, ok := strParts(el)
					if !ok {
						return avUnknown{"Join of an unmodelled element"}
					}
					if i > 0 {
						pieces = append(pieces, sep)
					}
					pieces = append(pieces, ps)
				}
				return mkStr(pieces...)
			}
		}
		return avUnknown{"Join of an unmodelled slice"}
	case "fmt.Errorf", "errors.New":
		return avIface{avUnknown{"error value"}} // a freshly made error is never nil
	case "strings.EqualFold":
		// EqualFold(a, b) holds exactly when the canonical case foldings of a and b are equal: each
		// side's folding is a value derived from that side
		fold := func(v any) any {
			switch x := v.(type) {
			case avConst:
				if x.v.Kind() == constant.String {
					return avConst{constant.MakeString(canonFold(constant.StringVal(x.v)))}
				}
			case avTerm:
				return r.mkTerm("Fold("+x.key+")", x.side, types.Typ[types.String], akOrder, []string{x.key})
			}
			return nil
		}
		fa, fb := fold(args[0]), fold(args[1])
		if fa == nil || fb == nil {
			return avUnknown{"EqualFold of unmodelled operands"}
		}
		return boolC(r.cmp3o(fa, fb, false) == 0)
	case "strconv.Atoi", "strconv.ParseInt", "strconv.ParseUint":
		if _, mixed, ks := sidesOf(args[:1]); !mixed && len(ks) == 1 {
			// which parser produced the term (the digit-string axiom F3 of feasible() holds for
			// ParseUint in base 10 only: it accepts no sign)
			pk := "Atoi(" + ks[0] + ")"
			base10 := false
			if len(com.Args) > 1 {
				if bc, ok := com.Args[1].(*ssa.Const); ok && bc.Value != nil {
					if v, ok := constant.Int64Val(constant.ToInt(bc.Value)); ok && v == 10 {
						base10 = true
					}
				}
			}
			if name == "strconv.ParseUint" && base10 {
				r.ctx.uintParse[pk] = true
			} else {
				r.ctx.signedParse[pk] = true
			}
		}
		return r.derived("Atoi", args[:1], c.Type())
	case "(*regexp.Regexp).FindStringSubmatch":
		// the submatch list of a constant pattern: nil or one element per capture group; element k
		// ranges over the language of group k (or is "" when the group does not take part)
		if ri := r.ctx.p.regexOf(com.Args[0]); ri != nil && ri.Err == nil && r.ctx.subModel {
			if t, ok := args[1].(avTerm); ok {
				if r.ctx.subOf == nil {
					r.ctx.subOf = map[string]*regexInfo{}
					r.ctx.subID = map[string]int{}
				}
				if _, ok := r.ctx.subID[ri.Pattern]; !ok {
					r.ctx.subID[ri.Pattern] = len(r.ctx.subID) + 1
				}
				key := fmt.Sprintf("m%d(%s)", r.ctx.subID[ri.Pattern], t.key)
				r.ctx.subOf[key] = ri
				return avRef{key: key, side: t.side, t: c.Type()}
			}
		}
		return avUnknown{"FindStringSubmatch"}
	case "(*regexp.Regexp).MatchString":
		pat := "?"
		if ri := r.ctx.p.regexOf(com.Args[0]); ri != nil {
			pat = ri.Pattern
		}
		return r.derived("Match["+pat+"]", args[1:], c.Type())
	}
	if isPureExternal(name) {
		short := name[strings.LastIndex(name, ".")+1:]
		return r.derived(short, args, c.Type())
	}
	return avUnknown{"call to " + name}
}

// callRepo: inline a repo callee; if it is out of fragment, fall back to an opaque derived
// value (single-sided arguments) or an assumed relation (mirrored arguments).
func (r *aeRun) callRepo(fn *ssa.Function, args []any, site *ssa.Call) (res any) {
	if h := r.ctx.compareHook; h != nil && (fn == h || fn.Origin() == h) && len(args) == 2 {
		ka, _ := keySide(args[0])
		kb, _ := keySide(args[1])
		key := "cmp(" + ka + "," + kb + ")"
		r.ctx.orderedConst[key] = true
		return r.mkTerm(key, 0, types.Typ[types.Int], akOrder, nil)
	}
	if r.ctx.stageMode && r.depth >= 1 {
		if ks, s0, ok := mirroredArgs(fn, args); ok && !r.ctx.noStage[fn] {
			for _, k := range ks {
				direct := r.ctx.directRead[k]
				for d := range r.ctx.directRead {
					if strings.HasPrefix(d, k+".") || strings.HasPrefix(d, k+"#") {
						direct = true
					}
				}
				if direct {
					// the caller also branches on this operand itself: a summarised relation would
					// lose the connection between the two readings
					r.ctx.noStage[fn] = true
					panic(restartAnalysis{})
				}
			}
			st, known := r.ctx.stages[fn]
			if !known {
				panic(needStage{fn})
			}
			if st.ok {
				key := "stage:" + fn.Name() + "(" + strings.Join(ks, ",") + ")"
				if _, seen := r.ctx.terms[key]; !seen {
					r.ctx.terms[key] = &termInfo{kind: akRel, base: ks}
				}
				if r.usedAssumed != nil {
					for k := range st.assumed {
						r.usedAssumed[k] = true
						r.ctx.assumed[k] = st.assumed[k]
					}
				}
				r.ctx.stagesUsed[key] = true
				for _, k := range ks {
					known := false
					for _, f := range r.ctx.stageBases[k] {
						known = known || f == fn
					}
					if !known {
						r.ctx.stageBases[k] = append(r.ctx.stageBases[k], fn)
					}
				}
				return intC(int64(r.cmpKey(key, s0, 1-s0)))
			}
		}
	}
	if why, isOpaque := r.ctx.opaqueFns[fn]; isOpaque {
		return r.opaqueCall(fn, args, why)
	}
	for _, a := range args {
		if u, ok := a.(avUnknown); ok {
			// the result of a call on a value without a model has no model either; the callee itself
			// stays inlinable for its other call sites
			return avUnknown{"call to " + fn.Name() + " with an unmodelled argument (" + u.why + ")"}
		}
	}
	saved := r.snapshot()
	defer func() {
		if e := recover(); e != nil {
			oof, ok := e.(outOfFragment)
			if !ok {
				panic(e)
			}
			if r.inIter && r.iterFrame != nil && saved.inIter != r.inIter {
				panic(e)
			}
			r.restore(saved)
			// for given operands a callee is either always inlined or always opaque: restart with
			// it marked opaque on these operands (other operands may still be evaluated inline)
			r.ctx.opaqueFns[fn] = oof.why
			panic(restartAnalysis{})
		}
	}()
	return r.call(fn, args)
}

type runSnap struct {
	depth  int
	inIter bool
}

func (r *aeRun) snapshot() runSnap { return runSnap{r.depth, r.inIter} }
func (r *aeRun) restore(s runSnap) { r.depth = s.depth; r.inIter = s.inIter }

func (r *aeRun) opaqueCall(fn *ssa.Function, args []any, why string) any {
	// a stateless receiver (*Ecosystem with no fields) carries no information
	var kept []any
	for i, a := range args {
		if i < len(fn.Params) {
			if pt, ok := fn.Params[i].Type().Underlying().(*types.Pointer); ok {
				if st, ok := pt.Elem().Underlying().(*types.Struct); ok && st.NumFields() == 0 {
					continue
				}
			}
		}
		kept = append(kept, a)
	}
	args = kept
	// an assembled string is named by its template
	for i, a := range args {
		if st, ok := a.(avStr); ok {
			key, side := "", 0
			for _, pc := range st.parts {
				switch x := pc.(type) {
				case avConst:
					key += constant.StringVal(x.v)
				case avTerm:
					key += "{" + x.key + "}"
					side = x.side
				}
			}
			args[i] = r.mkTerm("`"+key+"`", side, types.Typ[types.String], akOrder, nil)
		}
	}
	side, mixed, keys := sidesOf(args)
	name := fn.Name()
	if keys == nil {
		r.oof("call to %s is out of fragment (%s) and its operands have no model", name, why)
	}
	// two scalar operands, possibly a literal on one side: order by an opaque rank of the operand
	if len(args) == 2 && isIntType(fn.Signature.Results().At(0).Type()) && fn.Signature.Results().Len() == 1 {
		rank := func(v any) (any, bool) {
			switch x := v.(type) {
			case avConst:
				return x, true
			case avTerm:
				key := "rank:" + name + "(" + x.key + ")"
				if _, known := r.ctx.terms[key]; !known {
					r.ctx.terms[key] = &termInfo{kind: akOrder, t: types.Typ[types.String], base: []string{x.key}}
					r.ctx.assumed[key] = why
				}
				if r.usedAssumed != nil {
					r.usedAssumed[key] = true
				}
				r.ctx.orderedConst[key] = true
				return avTerm{key: key, side: x.side, t: types.Typ[types.String]}, true
			}
			return nil, false
		}
		ra, ok1 := rank(args[0])
		rb, ok2 := rank(args[1])
		_, c1 := ra.(avConst)
		_, c2 := rb.(avConst)
		if ok1 && ok2 && !(c1 && c2) {
			ta, isTa := ra.(avTerm)
			tb, isTb := rb.(avTerm)
			if !(isTa && isTb && ta.key != tb.key) {
				// at most one distinct literal may be ranked against (its place among others is unknown)
				for _, t := range []any{ra, rb} {
					if tt, ok := t.(avTerm); ok && len(r.ctx.pools[tt.key]) > 1 {
						r.oof("assumed comparator %s is applied to several different literals", name)
					}
				}
				return intC(int64(r.cmp3(ra, rb)))
			}
		}
		if c1 && c2 && constEq(ra.(avConst).v, rb.(avConst).v) {
			return intC(0)
		}
	}
	if !mixed {
		if side == -1 {
			r.oof("call to %s on constants is out of fragment (%s)", name, why)
		}
		// pure function of one individual's values (C19: no effects): an opaque derived value
		if fn.Signature.Results().Len() > 1 {
			return r.derived(name, args, fn.Signature.Results())
		}
		return r.derived(name, args, fn.Signature.Results().At(0).Type())
	}
	// mirrored comparator? first half side s, second half side 1-s with the same keys
	n := len(args)
	if n%2 == 0 && isIntType(fn.Signature.Results().At(0).Type()) && fn.Signature.Results().Len() == 1 {
		ok := true
		var ks []string
		s0 := -1
		for i := 0; i < n/2; i++ {
			ka, sa := keySide(args[i])
			kb, sb := keySide(args[i+n/2])
			if ka == "" || ka != kb || sa == sb || sa < 0 || sb < 0 {
				ok = false
				break
			}
			if s0 == -1 {
				s0 = sa
			} else if s0 != sa {
				ok = false
			}
			ks = append(ks, ka)
		}
		if ok {
			key := "assumed:" + name + "(" + strings.Join(ks, ",") + ")"
			if _, known := r.ctx.terms[key]; !known {
				r.ctx.terms[key] = &termInfo{kind: akRel, base: ks}
				r.ctx.assumed[key] = why
			}
			if r.usedAssumed != nil {
				r.usedAssumed[key] = true
			}
			return intC(int64(r.cmpKey(key, s0, 1-s0)))
		}
	}
	r.oof("call to %s is out of fragment (%s) and is not a mirrored comparator", name, why)
	return nil
}

// mirroredArgs: fn is called as a comparator: 2k arguments, the first k from one individual,
// the last k the same terms of the other individual, int result.
func mirroredArgs(fn *ssa.Function, args []any) ([]string, int, bool) {
	n := len(args)
	if n == 0 || n%2 != 0 || fn.Signature.Results().Len() != 1 || !isIntType(fn.Signature.Results().At(0).Type()) {
		return nil, 0, false
	}
	var ks []string
	s0 := -1
	for i := 0; i < n/2; i++ {
		ka, sa := keySide(args[i])
		kb, sb := keySide(args[i+n/2])
		if ka == "" && sa < 0 || ka != kb || sa == sb || sa < 0 || sb < 0 {
			return nil, 0, false
		}
		if s0 == -1 {
			s0 = sa
		} else if s0 != sa {
			return nil, 0, false
		}
		ks = append(ks, ka)
	}
	return ks, s0, true
}

func keySide(v any) (string, int) {
	switch x := v.(type) {
	case avTerm:
		return x.key, x.side
	case avRef:
		return x.key, x.side
	}
	return "", -1
}

var _ = sort.Strings

// foldConst evaluates a few pure std functions on constant arguments (constant folding).
// canonFold: the canonical representative of s under Unicode simple case folding (the smallest
// rune of each rune's fold orbit), so that EqualFold(a, b) <=> canonFold(a) == canonFold(b).
func canonFold(s string) string {
	var sb strings.Builder
	for _, ch := range s {
		m := ch
		for f := unicode.SimpleFold(ch); f != ch; f = unicode.SimpleFold(f) {
			if f < m {
				m = f
			}
		}
		sb.WriteRune(m)
	}
	return sb.String()
}

func foldConst(name string, args []any) (any, bool) {
	if args == nil {
		// query: is this function folded at all
		switch name {
		case "Atoi", "ToLower", "ToUpper", "TrimSpace", "HasPrefix", "HasSuffix", "Contains", "EqualFold", "TrimLeft", "TrimRight", "Trim", "TrimPrefix", "TrimSuffix":
			return nil, true
		}
		return nil, strings.HasPrefix(name, "Match[")
	}
	str := func(i int) (string, bool) {
		c, ok := args[i].(avConst)
		if !ok || c.v.Kind() != constant.String {
			return "", false
		}
		return constant.StringVal(c.v), true
	}
	switch {
	case name == "Atoi":
		s, ok := str(0)
		if !ok {
			return nil, false
		}
		n, err := strconv.Atoi(s)
		if err != nil {
			return avTuple{intC(0), avIface{avUnknown{"error value"}}}, true
		}
		return avTuple{intC(int64(n)), avNil{}}, true
	case strings.HasPrefix(name, "Match["):
		s, ok := str(0)
		if !ok {
			return nil, false
		}
		re, err := regexp.Compile(name[len("Match[") : len(name)-1])
		if err != nil {
			return nil, false
		}
		return boolC(re.MatchString(s)), true
	case name == "ToLower":
		if s, ok := str(0); ok {
			return avConst{constant.MakeString(strings.ToLower(s))}, true
		}
	case name == "ToUpper":
		if s, ok := str(0); ok {
			return avConst{constant.MakeString(strings.ToUpper(s))}, true
		}
	case name == "TrimSpace":
		if s, ok := str(0); ok {
			return avConst{constant.MakeString(strings.TrimSpace(s))}, true
		}
	case name == "HasPrefix":
		a, ok1 := str(0)
		b, ok2 := str(1)
		if ok1 && ok2 {
			return boolC(strings.HasPrefix(a, b)), true
		}
	case name == "Contains":
		a, ok1 := str(0)
		b, ok2 := str(1)
		if ok1 && ok2 {
			return boolC(strings.Contains(a, b)), true
		}
	case name == "HasSuffix":
		a, ok1 := str(0)
		b, ok2 := str(1)
		if ok1 && ok2 {
			return boolC(strings.HasSuffix(a, b)), true
		}
	case name == "EqualFold":
		a, ok1 := str(0)
		b, ok2 := str(1)
		if ok1 && ok2 {
			return boolC(strings.EqualFold(a, b)), true
		}
	case name == "TrimLeft" || name == "TrimRight" || name == "Trim" || name == "TrimPrefix" || name == "TrimSuffix":
		a, ok1 := str(0)
		b, ok2 := str(1)
		if ok1 && ok2 {
			f := map[string]func(string, string) string{"TrimLeft": strings.TrimLeft, "TrimRight": strings.TrimRight, "Trim": strings.Trim, "TrimPrefix": strings.TrimPrefix, "TrimSuffix": strings.TrimSuffix}[name]
			return avConst{constant.MakeString(f(a, b))}, true
		}
	}
	return nil, false
}

// orderPreservingConv: converting between the two integer types keeps every value (and hence
// the order): same signedness and not narrower, or unsigned into a strictly wider signed type.
func orderPreservingConv(p *Prog, from, to types.Type) bool {
	fb, ok1 := from.Underlying().(*types.Basic)
	tb, ok2 := to.Underlying().(*types.Basic)
	if !ok1 || !ok2 {
		return false
	}
	fs, ts := p.Sizes.Sizeof(from), p.Sizes.Sizeof(to)
	fu, tu := fb.Info()&types.IsUnsigned != 0, tb.Info()&types.IsUnsigned != 0
	switch {
	case fu == tu:
		return ts >= fs
	case fu && !tu:
		return ts > fs
	}
	return false // signed into unsigned: negative values wrap
}

// termKeys: the term keys in sorted order (rules that pick a term by its shape must not depend on map order)
func (c *aeCtx) termKeys() []string {
	ks := make([]string, 0, len(c.terms))
	for k := range c.terms {
		ks = append(ks, k)
	}
	sort.Strings(ks)
	return ks
}
