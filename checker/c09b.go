package main

// c09b.go: the constructor side of C09. R-PEP440-TABLE decides Compare over the fields; what the fields hold
// is the constructor's business. Two structural necessary conditions:
//
// R-PEP440-INPUT. The capture groups that feed the fields Compare reads are groups of the pattern matched
// against the input itself (trimmed, lower-cased): when the text is rewritten first (separators replaced,
// characters dropped) a group no longer holds what the input spells at that place, and the pattern's reading
// of the rewritten text is not PEP 440's reading of the input (1.0-1 is 1.0.post1, not 1.0.1).
//
// R-PEP440-ABSENT. A negative number in a field stands for "segment absent" (R-PEP440-TABLE reads it that
// way). The place that chooses it may do so by default or because a capture group itself is empty, not
// because a text derived from the group (leading zeros trimmed, prefix cut) is empty: post0 and dev0 are
// present segments with the number 0.
//
// Decided: those two conditions, not that every group is converted correctly (C03's R-NUMPARSE looks at that).

import (
	"fmt"
	"go/constant"
	"go/token"
	"go/types"
	"sort"

	"golang.org/x/tools/go/ssa"
)

func rulePepCtor(p *Prog, r *Report) {
	e := ecoByName(p, "pypi")
	if e == nil {
		r.Und("R-PEP440-INPUT", "pypi: the pattern is matched against the input itself", "", "ecosystem not found")
		return
	}
	ef := ecoFieldInfo(p, e)
	read := p.fieldsReadFrom(e.Compare, e.VerT)
	// ---- R-PEP440-INPUT
	{
		key := "pypi: the pattern is matched against the input itself"
		allowed := map[string]bool{"TrimSpace": true, "ToLower": true, "input": true}
		var bad []string
		n := 0
		for i := 0; ef.st != nil && i < ef.st.NumFields() && i < len(ef.prov); i++ {
			if _, ok := read[i]; !ok || len(ef.prov[i].groups) == 0 {
				continue
			}
			n++
			var ops []string
			for m := range ef.prov[i].pre {
				if !allowed[m] {
					ops = append(ops, m)
				}
			}
			sort.Strings(ops)
			if len(ops) > 0 {
				bad = append(bad, fmt.Sprintf("field %s is fed by a capture group of a pattern matched against a rewritten text (%v): the group no longer holds what the input spells there, and the pattern's reading of the rewritten text is not PEP 440's reading of the input", ef.st.Field(i).Name(), ops))
			}
		}
		sort.Strings(bad)
		switch {
		case n == 0:
			r.Und("R-PEP440-INPUT", key, p.FnPos(e.NewVer), "no field read by Compare is fed by a capture group")
		case len(bad) > 0:
			r.Und("R-PEP440-INPUT", key, p.FnPos(e.NewVer), bad[0])
		default:
			r.Ok("R-PEP440-INPUT", key, p.FnPos(e.NewVer), fmt.Sprintf("%d fields read by Compare are fed by capture groups; the matched text is the input after at most TrimSpace/ToLower", n))
		}
		r.Floor("R-PEP440-INPUT", 1)
	}
	// ---- R-PEP440-ABSENT
	{
		key := "pypi: an absent segment is recognised on a capture group's own text"
		pkg := e.VerT.Obj().Pkg()
		var fns []*ssa.Function
		for _, fn := range p.RepoReachable(e.NewVer) {
			if fn.Pkg != nil && fn.Pkg.Pkg == pkg && fn.Blocks != nil {
				fns = append(fns, fn)
			}
		}
		isNeg := func(v ssa.Value) bool {
			c, ok := v.(*ssa.Const)
			if !ok || c.Value == nil || c.Value.Kind() != constant.Int {
				return false
			}
			return constant.Sign(c.Value) < 0
		}
		// int parameters that receive a negative constant at some call site
		negPar := map[*ssa.Parameter]bool{}
		for _, fn := range fns {
			for _, b := range fn.Blocks {
				for _, ins := range b.Instrs {
					c, ok := ins.(*ssa.Call)
					if !ok {
						continue
					}
					g := c.Call.StaticCallee()
					if g == nil || !p.IsRepoFn(g) || len(g.Params) != len(c.Call.Args) {
						continue
					}
					for i, a := range c.Call.Args {
						if isNeg(a) {
							negPar[g.Params[i]] = true
						}
					}
				}
			}
		}
		sentinel := func(v ssa.Value) bool {
			if isNeg(v) {
				return true
			}
			q, ok := v.(*ssa.Parameter)
			return ok && negPar[q]
		}
		// is the text raw: a submatch element, a parameter, a field; or derived by a call / slice
		derived := func(x ssa.Value) string {
			for k := 0; k < 4; k++ {
				switch y := x.(type) {
				case *ssa.Call:
					if b, ok := y.Call.Value.(*ssa.Builtin); ok && b.Name() == "len" {
						x = y.Call.Args[0]
						continue
					}
					return calleeLabel(y)
				case *ssa.Slice:
					return "a sub-string"
				case *ssa.ChangeType:
					x = y.X
					continue
				}
				return ""
			}
			return ""
		}
		emptyTest := func(cond ssa.Value, tv bool) (ssa.Value, bool) {
			bo, ok := cond.(*ssa.BinOp)
			if !ok {
				return nil, false
			}
			if isStringType(bo.X.Type()) && isEmptyConst(bo.Y) {
				if bo.Op == token.EQL && tv || bo.Op == token.NEQ && !tv {
					return bo.X, true
				}
				return nil, false
			}
			if c, ok := bo.X.(*ssa.Call); ok {
				if b, ok := c.Call.Value.(*ssa.Builtin); ok && b.Name() == "len" && isStringType(c.Call.Args[0].Type()) {
					z, okz := constInt(bo.Y)
					if okz && (z == 0 && (bo.Op == token.EQL && tv || bo.Op == token.NEQ && !tv || bo.Op == token.GTR && !tv) || z == 1 && (bo.Op == token.LSS && tv || bo.Op == token.GEQ && !tv)) {
						return c.Call.Args[0], true
					}
				}
			}
			return nil, false
		}
		var bad []string
		sites := 0
		check := func(fn *ssa.Function, b *ssa.BasicBlock, pos token.Pos) {
			sites++
			domEdges(b, func(cond ssa.Value, tv bool) bool {
				x, ok := emptyTest(cond, tv)
				if !ok {
					return false
				}
				if why := derived(x); why != "" {
					bad = append(bad, fmt.Sprintf("%s (%s): the number that stands for an absent segment is chosen because the result of %s is empty, not because the capture group is: a segment whose number is spelled with zeros only (post0, dev0, dev00) is then taken for absent", fn.Name(), p.Pos(pos), why))
				}
				return false
			})
		}
		for _, fn := range fns {
			for _, b := range fn.Blocks {
				for _, ins := range b.Instrs {
					switch x := ins.(type) {
					case *ssa.Return:
						for _, rv := range x.Results {
							if isIntType(rv.Type()) && sentinel(rv) {
								check(fn, b, x.Pos())
							}
						}
					case *ssa.Store:
						if _, isField := x.Addr.(*ssa.FieldAddr); isField && isIntType(x.Val.Type()) && sentinel(x.Val) {
							check(fn, b, x.Pos())
						}
					case *ssa.Phi:
						if !isIntType(x.Type()) {
							continue
						}
						for i, ev := range x.Edges {
							if sentinel(ev) && i < len(b.Preds) {
								check(fn, b.Preds[i], x.Pos())
							}
						}
					}
				}
			}
		}
		sort.Strings(bad)
		switch {
		case sites == 0:
			r.Und("R-PEP440-ABSENT", key, p.FnPos(e.NewVer), "no place found where the constructor chooses a negative number for an absent segment")
		case len(bad) > 0:
			r.Bad("R-PEP440-ABSENT", key, p.FnPos(e.NewVer), bad[0])
		default:
			r.Ok("R-PEP440-ABSENT", key, p.FnPos(e.NewVer), fmt.Sprintf("%d place(s) choose a negative number for an absent segment: by default or under a test of a capture group's own text", sites))
		}
		r.Floor("R-PEP440-ABSENT", 1)
	}
	_ = types.Typ
}

func init() {
	register("C09", "", rulePepCtor)
}
