package main

// c13b.go: R-GEM-SPLIT. Gem::Version splits a version at dots and at every boundary between a digit and a
// non-digit. In the code that is the work of a character loop that copies the text and writes an extra '.'
// at such a boundary (the splitter), applied by a canonicaliser before the text is cut into segments.
//
//  1. The splitter's iteration is evaluated for every pair of character classes of the previous and the
//     current character (digits at both ends of the range, '.', letters, the characters next to the digit
//     range, '-', '+') and for the first character: it must write the character, preceded by a '.' exactly
//     when it is not the first, exactly one of the two is a digit, and neither is a '.'. Conditions over
//     anything else are followed both ways and must not change the outcome.
//  2. Every text the canonicaliser returns is built from splitter results and constant separators; its
//     own parameter may only be returned where a split of it has been found empty.
//  3. The segment parser receives the canonicaliser's result.

import (
	"fmt"
	"go/token"
	"sort"
	"strings"

	"golang.org/x/tools/go/ssa"
)

type charLoop struct {
	tl   *tokLoop
	prev *ssa.Phi // the previous character: a header phi whose back-edge value is the loop's character
	fn   *ssa.Function
}

func findSplitter(p *Prog, e *Eco) *charLoop {
	var fns []*ssa.Function
	for _, fn := range p.RepoReachable(e.NewVer) {
		if p.IsRepoFn(fn) && fn.Blocks != nil {
			fns = append(fns, fn)
		}
	}
	sort.Slice(fns, func(i, j int) bool { return fns[i].String() < fns[j].String() })
	for _, fn := range fns {
		tl := findStringRangeLoop(fn)
		if tl == nil {
			continue
		}
		// writes a constant '.' somewhere in the loop
		writesDot := false
		for _, b := range fn.Blocks {
			for _, ins := range b.Instrs {
				if c, ok := ins.(*ssa.Call); ok {
					if g := c.Call.StaticCallee(); g != nil && strings.HasSuffix(g.String(), ".WriteRune") || g != nil && strings.HasSuffix(g.String(), ".WriteByte") {
						if len(c.Call.Args) == 2 {
							if k, ok := constInt(c.Call.Args[1]); ok && k == '.' {
								writesDot = true
							}
						}
					}
				}
			}
		}
		if !writesDot {
			continue
		}
		cl := &charLoop{tl: tl, fn: fn}
		for _, ins := range tl.header.Instrs {
			ph, ok := ins.(*ssa.Phi)
			if !ok {
				break
			}
			for _, ed := range ph.Edges {
				if ed == tl.ch {
					cl.prev = ph
				}
			}
		}
		return cl
	}
	return nil
}

// run one iteration with concrete representatives for the current and the previous character
func (cl *charLoop) iterate(p *Prog, r, prev rune, first bool) (outcomes map[string]bool, unknown []string, why string) {
	outcomes = map[string]bool{}
	tl := cl.tl
	valOf := func(v ssa.Value) (int64, bool) {
		if c, ok := v.(*ssa.Convert); ok {
			v = c.X
		}
		switch {
		case v == tl.ch:
			return int64(r), true
		case cl.prev != nil && v == ssa.Value(cl.prev):
			if first {
				return 0, true // the zero value of the variable before the first character
			}
			return int64(prev), true
		}
		if tl.idx != nil && v == tl.idx {
			if first {
				return 0, true
			}
			return 1, true // any later position: only compared with 0
		}
		if k, ok := constInt(v); ok {
			return k, true
		}
		return 0, false
	}
	taken := map[*ssa.BasicBlock]*ssa.BasicBlock{} // block -> predecessor it was entered from, on the current path
	var evalV func(v ssa.Value, at, pred *ssa.BasicBlock, depth int) int
	evalV = func(v ssa.Value, at, pred *ssa.BasicBlock, depth int) int {
		if depth > 8 {
			return -1
		}
		if c, ok := v.(*ssa.Const); ok && c.Value != nil && isBoolType(c.Type()) {
			if c.Value.String() == "true" {
				return 1
			}
			return 0
		}
		switch x := v.(type) {
		case *ssa.BinOp:
			a, ok1 := valOf(x.X)
			b, ok2 := valOf(x.Y)
			if ok1 && ok2 {
				res := false
				switch x.Op {
				case token.EQL:
					res = a == b
				case token.NEQ:
					res = a != b
				case token.LSS:
					res = a < b
				case token.LEQ:
					res = a <= b
				case token.GTR:
					res = a > b
				case token.GEQ:
					res = a >= b
				default:
					return -1
				}
				if res {
					return 1
				}
				return 0
			}
			// comparison of two booleans (cur != prev)
			if (x.Op == token.NEQ || x.Op == token.EQL) && isBoolType(x.X.Type()) {
				a, b := evalV(x.X, at, pred, depth+1), evalV(x.Y, at, pred, depth+1)
				if a >= 0 && b >= 0 {
					if (a != b) == (x.Op == token.NEQ) {
						return 1
					}
					return 0
				}
			}
		case *ssa.UnOp:
			if x.Op == token.NOT {
				if r := evalV(x.X, at, pred, depth+1); r >= 0 {
					return 1 - r
				}
			}
		case *ssa.Call:
			if g := x.Call.StaticCallee(); g != nil && len(x.Call.Args) == 1 {
				if a, ok := valOf(x.Call.Args[0]); ok {
					switch g.String() {
					case "unicode.IsDigit":
						if a >= '0' && a <= '9' {
							return 1
						}
						return 0
					case "unicode.IsLetter":
						if a >= 'a' && a <= 'z' || a >= 'A' && a <= 'Z' {
							return 1
						}
						return 0
					}
				}
			}
		case *ssa.Phi:
			// the edge by which the phi's block was entered on this path
			if tp, ok := taken[x.Block()]; ok {
				for i, pb := range x.Block().Preds {
					if pb == tp {
						return evalV(x.Edges[i], tp, nil, depth+1)
					}
				}
			}
			if x.Block() == at && pred != nil {
				for i, pb := range at.Preds {
					if pb == pred {
						return evalV(x.Edges[i], pred, nil, depth+1)
					}
				}
			}
			// a boolean computed in a dominating diamond: evaluate every edge, agree or give up
			res := -2
			for i, e := range x.Edges {
				_ = i
				v := evalV(e, nil, nil, depth+1)
				if v < 0 {
					return -1
				}
				if res == -2 {
					res = v
				} else if res != v {
					return -1
				}
			}
			if res >= 0 {
				return res
			}
		}
		return -1
	}
	steps := 0
	unk := map[string]bool{}
	var walk func(b, pred *ssa.BasicBlock, ev string, depth int)
	walk = func(b, pred *ssa.BasicBlock, ev string, depth int) {
		steps++
		if steps > 5000 || depth > 60 {
			why = "iteration too large to evaluate"
			return
		}
		if b == tl.header {
			outcomes[ev] = true
			return
		}
		if old, had := taken[b]; had {
			defer func() { taken[b] = old }()
		} else {
			defer delete(taken, b)
		}
		taken[b] = pred
		for _, ins := range b.Instrs {
			c, ok := ins.(*ssa.Call)
			if !ok {
				continue
			}
			g := c.Call.StaticCallee()
			if g == nil {
				continue
			}
			name := g.String()
			if (strings.HasSuffix(name, ".WriteRune") || strings.HasSuffix(name, ".WriteByte")) && len(c.Call.Args) == 2 {
				a := c.Call.Args[1]
				if k, ok := constInt(a); ok && k == '.' {
					ev += "D"
				} else if v, ok := valOf(a); ok && v == int64(r) && (a == tl.ch || isConvOf(a, tl.ch)) {
					ev += "W"
				} else {
					ev += "?"
				}
			} else if strings.HasSuffix(name, ".WriteString") {
				ev += "?"
			}
		}
		switch t := b.Instrs[len(b.Instrs)-1].(type) {
		case *ssa.If:
			switch evalV(t.Cond, b, pred, 0) {
			case 1:
				walk(b.Succs[0], b, ev, depth+1)
			case 0:
				walk(b.Succs[1], b, ev, depth+1)
			default:
				unk[p.Pos(t.Cond.Pos())+" "+t.Cond.String()] = true
				walk(b.Succs[0], b, ev, depth+1)
				walk(b.Succs[1], b, ev, depth+1)
			}
		case *ssa.Jump:
			walk(b.Succs[0], b, ev, depth+1)
		case *ssa.Return:
			outcomes[ev+"$"] = true
		}
	}
	walk(tl.body, tl.header, "", 0)
	for u := range unk {
		unknown = append(unknown, u)
	}
	sort.Strings(unknown)
	return
}

func ruleGemSplit(p *Prog, r *Report) {
	e := ecoByName(p, "gem")
	key1 := "gem: a dot is inserted at every boundary between a digit and a non-digit (and nowhere else)"
	key2 := "gem: every text that is cut into segments has passed the boundary splitter"
	if e == nil {
		r.Und("R-GEM-SPLIT", key1, "", "ecosystem not found")
		return
	}
	cl := findSplitter(p, e)
	if cl == nil {
		r.Und("R-GEM-SPLIT", key1, p.FnPos(e.NewVer), "no character loop that writes an extra '.' found in the constructor's call tree")
		r.Floor("R-GEM-SPLIT", 2)
		return
	}
	reps := []rune{'0', '5', '9', '.', 'a', 'Z', '/', ':', '-', '+', '_'}
	isDigit := func(c rune) bool { return c >= '0' && c <= '9' }
	var bad []string
	n := 0
	for _, first := range []bool{true, false} {
		for _, cur := range reps {
			prevs := reps
			if first {
				prevs = reps[:1]
			}
			for _, pv := range prevs {
				n++
				outs, unknown, why := cl.iterate(p, cur, pv, first)
				if why != "" {
					bad = append(bad, why)
					continue
				}
				want := "W"
				if !first && isDigit(cur) != isDigit(pv) && cur != '.' && pv != '.' {
					want = "DW"
				}
				var got []string
				for o := range outs {
					got = append(got, o)
				}
				sort.Strings(got)
				desc := fmt.Sprintf("previous %q, current %q", pv, cur)
				if first {
					desc = fmt.Sprintf("first character %q", cur)
				}
				switch {
				case len(got) != 1:
					bad = append(bad, fmt.Sprintf("%s: the iteration writes %v depending on %s", desc, got, strings.Join(unknown, "; ")))
				case got[0] != want:
					bad = append(bad, fmt.Sprintf("%s: the iteration writes %q, Gem::Version's segmentation needs %q (D = '.', W = the character)", desc, got[0], want))
				}
			}
		}
	}
	if len(bad) > 0 {
		sort.Strings(bad)
		r.Bad("R-GEM-SPLIT", key1, p.FnPos(cl.fn), fmt.Sprintf("%d of %d class pairs: %s", len(bad), n, bad[0]))
	} else {
		r.Ok("R-GEM-SPLIT", key1, p.FnPos(cl.fn), fmt.Sprintf("%s: one iteration evaluated for %d pairs of character classes (previous, current) and the first character", cl.fn.Name(), n))
	}
	// (2)+(3): the canonicaliser
	var canon []*ssa.Function
	if nd := p.CG.Nodes[cl.fn]; nd != nil {
		seen := map[*ssa.Function]bool{}
		for _, ce := range nd.In {
			if g := ce.Caller.Func; p.IsRepoFn(g) && !seen[g] && g != cl.fn {
				seen[g] = true
				canon = append(canon, g)
			}
		}
	}
	sort.Slice(canon, func(i, j int) bool { return canon[i].String() < canon[j].String() })
	if len(canon) == 0 {
		r.Und("R-GEM-SPLIT", key2, p.FnPos(cl.fn), "the boundary splitter has no caller")
		r.Floor("R-GEM-SPLIT", 2)
		return
	}
	var why2 string
	for _, g := range canon {
		if g.Signature.Results().Len() != 1 || !isStringType(g.Signature.Results().At(0).Type()) {
			continue // the splitter is used in place (e.g. by the constructor itself): checked through (3) only
		}
		var flow func(v ssa.Value, at *ssa.BasicBlock, seen map[ssa.Value]bool) string
		flow = func(v ssa.Value, at *ssa.BasicBlock, seen map[ssa.Value]bool) string {
			if seen[v] {
				return ""
			}
			seen[v] = true
			switch x := v.(type) {
			case *ssa.Const:
				return ""
			case *ssa.Phi:
				for i, ed := range x.Edges {
					if w := flow(ed, x.Block().Preds[i], seen); w != "" {
						return w
					}
				}
				return ""
			case *ssa.BinOp:
				if x.Op == token.ADD {
					if w := flow(x.X, at, seen); w != "" {
						return w
					}
					return flow(x.Y, at, seen)
				}
			case *ssa.Call:
				if f := x.Call.StaticCallee(); f != nil {
					if f == cl.fn {
						return ""
					}
					switch extName(f) {
					case "(*strings.Builder).String", "strings.Join":
						return "" // assembled text: its pieces are written through the same flow (builder writes are not followed)
					}
				}
			case *ssa.Parameter:
				// the raw text may be returned only where a split of it was found empty (nothing to segment)
				okEmpty := domEdges(at, func(cond ssa.Value, tv bool) bool {
					bo, ok := cond.(*ssa.BinOp)
					if !ok {
						return false
					}
					if l, ok := lenArgAny(bo.X); ok {
						if z, ok := constInt(bo.Y); ok && z == 0 && (bo.Op == token.EQL && tv || bo.Op == token.NEQ && !tv) {
							if c, ok := l.(*ssa.Call); ok {
								for _, a := range c.Call.Args {
									if a == v {
										return true
									}
								}
							}
							if l == v {
								return true
							}
						}
					}
					if (bo.X == v && isEmptyConst(bo.Y)) && (bo.Op == token.EQL && tv || bo.Op == token.NEQ && !tv) {
						return true
					}
					return false
				})
				if okEmpty {
					return ""
				}
				return "the raw text is returned at " + p.Pos(at.Instrs[len(at.Instrs)-1].Pos()) + " without having been split at digit/letter boundaries"
			}
			return fmt.Sprintf("a value that does not come from the splitter (%T)", v)
		}
		for _, b := range g.Blocks {
			if ret, ok := b.Instrs[len(b.Instrs)-1].(*ssa.Return); ok {
				if w := flow(ret.Results[0], b, map[ssa.Value]bool{}); w != "" && why2 == "" {
					why2 = g.Name() + ": " + w
				}
			}
		}
	}
	// (3) the function that builds segments by cutting at '.' receives a canonicalised text
	if why2 == "" {
		okParse := false
		for _, fn := range p.RepoReachable(e.NewVer) {
			for _, b := range fn.Blocks {
				for _, ins := range b.Instrs {
					c, ok := ins.(*ssa.Call)
					if !ok {
						continue
					}
					g := c.Call.StaticCallee()
					if g == nil || !p.IsRepoFn(g) || g == cl.fn {
						continue
					}
					for _, a := range c.Call.Args {
						if ac, ok := a.(*ssa.Call); ok {
							if f := ac.Call.StaticCallee(); f != nil {
								for _, cg := range canon {
									if f == cg || f == cl.fn {
										okParse = true
									}
								}
							}
						}
					}
				}
			}
		}
		if !okParse {
			why2 = "no function receives the canonicalised text: the segments are cut from text that was not split at digit/letter boundaries"
		}
	}
	if why2 != "" {
		r.Bad("R-GEM-SPLIT", key2, p.FnPos(canon[0]), why2)
	} else {
		r.Ok("R-GEM-SPLIT", key2, p.FnPos(canon[0]), fmt.Sprintf("%s returns only texts assembled from %s results and constant separators (its parameter only where a split of it is empty) and its result is what the segment parser receives", canon[0].Name(), cl.fn.Name()))
	}
	r.Floor("R-GEM-SPLIT", 2)
}

func init() {
	register("C13", "", ruleGemSplit)
}
