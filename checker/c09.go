package main

import (
	"fmt"
	"go/constant"
	"os"
	"sort"
	"strings"
	"time"
)

// ---- C09: PyPI versions order as PEP 440 specifies --------------------------------------------------
//
// pypi's Compare is entirely inside the evaluator's fragment. R-PEP440-TABLE reads its abstract
// decision table and compares every leaf with the PEP 440 sort key over the same abstract atoms
// (phase, presence and relative size of the pre/post/dev numbers): a leaf must give the sign the
// key gives for every full description compatible with the atoms the code consulted.

type pepFields struct {
	epoch, release, pre, preNum, post, dev, local string // AE keys (".field"); "" when not located
	why                                           string
}

func pepLocate(p *Prog, e *Eco) *pepFields {
	ef := ecoFieldInfo(p, e)
	pf := &pepFields{}
	if ef.main == nil {
		pf.why = "no version pattern"
		return pf
	}
	name := func(k int) string {
		// the field fed by group k
		for i, fp := range ef.prov {
			for _, g := range fp.groups {
				if g.ri == ef.main && g.idx == k {
					return "." + ef.st.Field(i).Name()
				}
			}
		}
		return ""
	}
	for k := 1; k <= ef.main.NumSub; k++ {
		lang, fin := groupLanguage(ef.main.Re, k)
		has := func(w string) bool {
			for _, s := range lang {
				if s == w {
					return true
				}
			}
			return false
		}
		g := provGroup{ef.main, k}
		switch {
		case fin && has("rc") && has("a"):
			pf.pre = name(k)
			pf.preNum = name(k + 1)
		case fin && has("post"):
			pf.post = name(k + 1)
		case fin && has("dev"):
			pf.dev = name(k + 1)
		case strings.HasSuffix(g.precedingText(), "+"):
			pf.local = name(k)
		case g.digitsOnly() && pf.epoch == "" && pf.release == "" && strings.Contains(ef.main.Pattern, ")!"):
			pf.epoch = name(k)
		case g.digitsDots() && pf.release == "":
			pf.release = name(k)
		}
	}
	var missing []string
	for n, v := range map[string]string{"epoch": pf.epoch, "release": pf.release, "pre-release phase": pf.pre, "pre-release number": pf.preNum, "post number": pf.post, "dev number": pf.dev} {
		if v == "" {
			missing = append(missing, n)
		}
	}
	sort.Strings(missing)
	if len(missing) > 0 {
		pf.why = "fields not located from the version pattern: " + strings.Join(missing, ", ")
	}
	return pf
}

func phaseOf(word string) int {
	switch strings.ToLower(word) {
	case "a", "alpha":
		return 1
	case "b", "beta":
		return 2
	case "c", "rc", "pre", "preview":
		return 3
	}
	return -1
}

// pepDesc: a full abstract description of a pair of versions with equal epoch and release
type pepDesc struct {
	pre               [2]int  // 0 none, 1 a, 2 b, 3 rc
	post, dev         [2]bool // present
	rPre, rPost, rDev int     // relation of the numbers (x ? y), meaningful when both present
}

func (d pepDesc) String() string {
	side := func(i int) string {
		s := "X"
		if d.pre[i] > 0 {
			s += []string{"", "aN", "bN", "rcN"}[d.pre[i]]
		}
		if d.post[i] {
			s += ".postN"
		}
		if d.dev[i] {
			s += ".devN"
		}
		return s
	}
	return fmt.Sprintf("%s vs %s (pre numbers %s, post numbers %s, dev numbers %s)", side(0), side(1), relStr(d.rPre), relStr(d.rPost), relStr(d.rDev))
}

func relStr(r int) string { return map[int]string{-1: "<", 0: "=", 1: ">"}[r] }

// pepSign: the sign PEP 440's sort key gives (epoch and release equal, no local label)
func pepSign(d pepDesc) int {
	rank := func(i int) int {
		switch {
		case d.pre[i] == 0 && !d.post[i] && d.dev[i]:
			return -1 // .devN of the bare release: before every pre-release
		case d.pre[i] == 0:
			return 4 // final or post release: after every pre-release
		}
		return d.pre[i]
	}
	if a, b := rank(0), rank(1); a != b {
		if a < b {
			return -1
		}
		return 1
	}
	if d.pre[0] > 0 && d.rPre != 0 {
		return d.rPre
	}
	switch {
	case !d.post[0] && d.post[1]:
		return -1
	case d.post[0] && !d.post[1]:
		return 1
	case d.post[0] && d.rPost != 0:
		return d.rPost
	}
	switch {
	case d.dev[0] && !d.dev[1]:
		return -1
	case !d.dev[0] && d.dev[1]:
		return 1
	case d.dev[0] && d.rDev != 0:
		return d.rDev
	}
	return 0
}

func allPepDescs() []pepDesc {
	var out []pepDesc
	bools := []bool{false, true}
	for px := 0; px < 4; px++ {
		for py := 0; py < 4; py++ {
			for _, qx := range bools {
				for _, qy := range bools {
					for _, dx := range bools {
						for _, dy := range bools {
							rels := func(both bool) []int {
								if both {
									return []int{-1, 0, 1}
								}
								return []int{0}
							}
							for _, rp := range rels(px > 0 && py > 0) {
								for _, rq := range rels(qx && qy) {
									for _, rd := range rels(dx && dy) {
										out = append(out, pepDesc{pre: [2]int{px, py}, post: [2]bool{qx, qy}, dev: [2]bool{dx, dy}, rPre: rp, rPost: rq, rDev: rd})
									}
								}
							}
						}
					}
				}
			}
		}
	}
	return out
}

// absentConst: the single negative pool constant of an int term that encodes "segment absent"
func absentConst(c *aeCtx, key string) (int, bool) {
	pool := c.pools[key]
	if len(pool) != 1 || pool[0].Kind() != constant.Int {
		return 0, false
	}
	if v, ok := constant.Int64Val(pool[0]); ok && v < 0 {
		return 0, true // pool index 0
	}
	return 0, false
}

func rulePepTable(p *Prog, r *Report) {
	e := ecoByName(p, "pypi")
	if e == nil {
		r.Und("R-PEP440-TABLE", "pypi: PEP 440 phase order", "", "ecosystem not found")
		return
	}
	pf := pepLocate(p, e)
	pos := p.FnPos(e.Compare)
	if pf.why != "" {
		r.Und("R-PEP440-TABLE", "pypi: PEP 440 phase order", pos, pf.why)
		return
	}

	t0 := time.Now()
	lap := func(n string) {
		if os.Getenv("GVDEBUG") != "" {
			fmt.Fprintf(os.Stderr, "C09 %s %.1fs\n", n, time.Since(t0).Seconds())
		}
	}
	// R-PYPI-LOCAL: the local label takes part in the order
	{
		key := "pypi: local version label takes part in the order"
		if pf.local == "" {
			r.Und("R-PYPI-LOCAL", key, pos, "no capture group follows '+' in the version pattern")
		} else {
			ef := ecoFieldInfo(p, e)
			read := p.fieldsReadFrom(e.Compare, e.VerT)
			found := false
			for i := 0; i < ef.st.NumFields(); i++ {
				if "."+ef.st.Field(i).Name() == pf.local {
					_, found = read[i]
				}
			}
			if found {
				r.Ok("R-PYPI-LOCAL", key, pos, "the field fed by the group after '+' is read on a path from Compare")
			} else {
				r.Bad("R-PYPI-LOCAL", key, pos, fmt.Sprintf("field %s holds the local version label (capture group after '+') and is read by nothing reachable from Compare: a local version compares equal to its public version, where PEP 440 sorts it after", pf.local))
			}
		}
	}

	// R-PEP440-CHAIN: epoch first, then the release
	{
		c := newAECtx(p)
		ov := map[string]override{pf.epoch: {rel: relPtr(-1)}}
		for _, k := range []string{pf.release, pf.pre, pf.preNum, pf.post, pf.dev} {
			ov["~"+k] = override{free: true}
		}
		qr := c.queryPair(e.Compare, c.tiedExcept(ov), nil)
		key := "pypi: epoch decides first"
		switch {
		case qr.oof != "":
			r.Und("R-PEP440-CHAIN", key, pos, qr.describe())
		case qr.only(-1):
			r.Ok("R-PEP440-CHAIN", key, pos, fmt.Sprintf("smaller epoch gives -1 in all %d abstract worlds whatever the other segments are", qr.leaves))
		default:
			r.Bad("R-PEP440-CHAIN", key, pos, "a smaller epoch does not always give -1: "+qr.describe())
		}
		c2 := newAECtx(p)
		ov2 := map[string]override{"~(" + pf.release + ")": {rel: relPtr(-1)}}
		for _, k := range []string{pf.pre, pf.preNum, pf.post, pf.dev} {
			ov2["~"+k] = override{free: true}
		}
		q2 := c2.queryPair(e.Compare, c2.tiedExcept(ov2), []string{})
		key2 := "pypi: release decides after the epoch and before the phases"
		stageSeen := false
		for _, k := range c2.termKeys() {
			if strings.HasPrefix(k, "stage:") && strings.Contains(k, "("+pf.release+")") {
				stageSeen = true
			}
		}
		switch {
		case q2.oof != "":
			r.Und("R-PEP440-CHAIN", key2, pos, q2.describe())
		case !stageSeen:
			r.Und("R-PEP440-CHAIN", key2, pos, "the release segments are not compared by a proven comparator stage")
		case q2.only(-1):
			r.Ok("R-PEP440-CHAIN", key2, pos, fmt.Sprintf("smaller release (proven stage) with equal epoch gives -1 in all %d abstract worlds whatever the phases are", q2.leaves))
		default:
			r.Bad("R-PEP440-CHAIN", key2, pos, "a smaller release with equal epoch does not always give -1: "+q2.describe())
		}
	}

	lap("chain")
	// R-PEP440-PAD: release segments compare numerically with implicit zero padding
	{
		key := "pypi: release segments numeric with zero padding"
		var st = preStage(p, e, pf.release)
		if st == nil {
			r.Und("R-PEP440-PAD", key, pos, "no proven position-wise comparator receives "+pf.release)
		} else {
			c := newAECtx(p)
			c.stageMode = false
			leaves, atoms, loopFn, oof := semverIterLeaves(c, st)
			var bad []string
			rows := map[string]int{}
			if oof == "" && atoms != nil {
				zero := poolIndexInt(c.pools[atoms.E], 0)
				for _, lf := range leaves {
					if lf.px == 0 && lf.py == 0 {
						continue
					}
					exp, row := int64(0), ""
					switch {
					case lf.px == 1 && lf.py == 1:
						row = "both present"
						if lf.relE == nil {
							bad = append(bad, "segments are ordered without comparing them: ["+lf.desc+"]")
							continue
						}
						exp = int64(*lf.relE)
					default:
						// one side is padded with zero: the present one decides by its sign
						row = "padded"
						side := 1
						if lf.py == 0 {
							side = 0
						}
						pv, ok := lf.posE[side], lf.hasPosE[side]
						if !ok || zero < 0 {
							bad = append(bad, "a missing segment is not compared with zero: ["+lf.desc+"]")
							continue
						}
						switch {
						case pv == 2*zero+1:
							exp = 0
						case pv > 2*zero+1:
							exp = 1
						default:
							exp = -1
						}
						if side == 1 {
							exp = -exp
						}
					}
					rows[row]++
					if lf.gotWhy != "" || lf.got != exp {
						bad = append(bad, fmt.Sprintf("row %s: expected %d, position gives %d %s [%s]", row, exp, lf.got, lf.gotWhy, lf.desc))
					}
				}
			}
			switch {
			case oof != "" || atoms == nil:
				r.Und("R-PEP440-PAD", key, p.FnPos(st), "release comparator: "+oof)
			case len(bad) > 0:
				sort.Strings(bad)
				r.Bad("R-PEP440-PAD", key, p.FnPos(loopFn), fmt.Sprintf("%d disagreeing abstract position worlds, e.g. %s", len(bad), bad[0]))
			case rows["both present"] == 0 || rows["padded"] == 0:
				r.Und("R-PEP440-PAD", key, p.FnPos(loopFn), fmt.Sprintf("rows not exercised: %v", rows))
			default:
				r.Ok("R-PEP440-PAD", key, p.FnPos(loopFn), fmt.Sprintf("%d abstract position worlds: present segments by integer order, a missing segment equals 0 (%v)", len(leaves), rows))
			}
		}
	}

	lap("pad")
	// R-PEP440-TABLE
	c := newAECtx(p)
	c.stageMode = false
	ov := map[string]override{}
	for _, k := range []string{pf.pre, pf.preNum, pf.post, pf.dev} {
		ov["~"+k] = override{free: true}
	}
	filter := c.tiedExcept(ov)
	descs := allPepDescs()
	type leaf struct {
		desc string
		got  int64
		w    *world
	}
	var leaves []leaf
	saved := c.filter
	c.filter = filter
	oof := c.withRetries(e.Compare, func() {
		leaves = nil
		c.explore(2, 300000, func(w *world) {
			v := c.runPair(e.Compare, w, 0, 1, nil)
			leaves = append(leaves, leaf{w.describe(c.pools, c.terms), v, w.clone()})
		})
	})
	c.filter = saved
	key := "pypi: phases order as the PEP 440 sort key"
	if oof != "" {
		r.Und("R-PEP440-TABLE", key, pos, "Compare is outside the evaluator's fragment: "+oof)
		return
	}
	// derived spellings of the phase (ToLower(.prerelease), ...)
	var phaseKeys []string
	for _, k := range c.termKeys() {
		ti := c.terms[k]
		if k == pf.pre || len(ti.base) == 1 && ti.base[0] == pf.pre && isStringType(ti.t) {
			phaseKeys = append(phaseKeys, k)
		}
	}
	sort.Strings(phaseKeys)
	postAbs, okP := absentConst(c, pf.post)
	devAbs, okD := absentConst(c, pf.dev)
	if !okP || !okD {
		r.Und("R-PEP440-TABLE", key, pos, fmt.Sprintf("the encoding of an absent post/dev segment was not recognised (pools %v %v)", c.pools[pf.post], c.pools[pf.dev]))
		return
	}
	var bad []string
	spurious, checked := 0, 0
	compat := func(w *world, d pepDesc) (ok bool, impossible bool) {
		for ind := 0; ind < 2; ind++ {
			for _, k := range phaseKeys {
				v, has := w.pos[posKey(k, ind)]
				if !has {
					continue
				}
				if v%2 == 0 {
					if k == pf.pre {
						// not one of the compared constants: some non-empty spelling
						if ci := poolIndexStr(c.pools[k], ""); ci >= 0 && d.pre[ind] == 0 {
							return false, false
						}
						continue
					}
					return false, true // an unknown spelling: excluded by the pattern's alternation
				}
				word := constant.StringVal(c.pools[k][v/2])
				if word == "" {
					if d.pre[ind] != 0 {
						return false, false
					}
				} else if ph := phaseOf(word); ph != d.pre[ind] {
					return false, ph < 0
				}
			}
			if v, has := w.pos[posKey(pf.post, ind)]; has && (v == 2*postAbs+1) == d.post[ind] {
				return false, false
			}
			if v, has := w.pos[posKey(pf.dev, ind)]; has && (v == 2*devAbs+1) == d.dev[ind] {
				return false, false
			}
		}
		rel := func(k string, both bool, want int) bool {
			if !both {
				return true
			}
			if v, ok := c.cmpAssigned(w, k, 0, 1); ok && v != want {
				return false
			}
			return true
		}
		if !rel(pf.preNum, d.pre[0] > 0 && d.pre[1] > 0, d.rPre) || !rel(pf.post, d.post[0] && d.post[1], d.rPost) || !rel(pf.dev, d.dev[0] && d.dev[1], d.rDev) {
			return false, false
		}
		return true, false
	}
	for _, lf := range leaves {
		n := 0
		for _, d := range descs {
			ok, _ := compat(lf.w, d)
			if !ok {
				continue
			}
			n++
			if want := pepSign(d); int64(want) != lf.got {
				bad = append(bad, fmt.Sprintf("%s: PEP 440 gives %d, Compare gives %d [%s]", d, want, lf.got, lf.desc))
				break
			}
		}
		if n == 0 {
			spurious++
			if os.Getenv("GVDEBUG") == "c09" && spurious < 6 {
				fmt.Fprintf(os.Stderr, "spurious: %s\n", lf.desc)
			}
		} else {
			checked++
		}
	}
	switch {
	case len(bad) > 0:
		sort.Strings(bad)
		r.Bad("R-PEP440-TABLE", key, pos, fmt.Sprintf("%d of %d abstract worlds disagree with the PEP 440 key, e.g. %s", len(bad), len(leaves), bad[0]))
	case checked < 20:
		r.Und("R-PEP440-TABLE", key, pos, fmt.Sprintf("only %d abstract worlds matched a description (atoms %v)", checked, phaseKeys))
	default:
		r.Ok("R-PEP440-TABLE", key, pos, fmt.Sprintf("%d abstract worlds of Compare (epoch and release equal) each give the sign of the PEP 440 key for every one of the %d pair descriptions compatible with the atoms consulted; %d worlds with a spelling outside the pattern's alternation skipped", checked, len(descs), spurious))
	}

	lap("table")
	// alias spellings are the same phase: the constants Compare distinguishes map onto a, b, rc
	{
		key := "pypi: every accepted pre-release spelling has a phase"
		ef := ecoFieldInfo(p, e)
		var words []string
		for k := 1; k <= ef.main.NumSub; k++ {
			if lang, fin := groupLanguage(ef.main.Re, k); fin {
				for _, s := range lang {
					if s == "rc" {
						words = lang
					}
				}
			}
		}
		seen := map[string]bool{}
		for _, k := range phaseKeys {
			for _, cv := range c.pools[k] {
				seen[strings.ToLower(constant.StringVal(cv))] = true
			}
		}
		var miss []string
		for _, wd := range words {
			if wd != "" && !seen[strings.ToLower(wd)] {
				miss = append(miss, wd)
			}
		}
		if len(words) == 0 {
			r.Und("R-PEP440-SPELL", key, pos, "phase alternation not found in the pattern")
		} else if len(miss) > 0 {
			r.Bad("R-PEP440-SPELL", key, pos, fmt.Sprintf("spellings accepted by the pattern but never distinguished by Compare (they fall into a default rank): %v", miss))
		} else {
			r.Ok("R-PEP440-SPELL", key, pos, fmt.Sprintf("every spelling of the pattern's alternation %v is one of the constants Compare ranks", words))
		}
	}
	r.Floor("R-PEP440-TABLE", 1)
	r.Floor("R-PEP440-CHAIN", 2)
	r.Floor("R-PEP440-PAD", 1)
	r.Floor("R-PYPI-LOCAL", 1)
}

func poolIndexInt(pool []constant.Value, n int64) int {
	for i, c := range pool {
		if c.Kind() == constant.Int {
			if v, ok := constant.Int64Val(c); ok && v == n {
				return i
			}
		}
	}
	return -1
}

func init() {
	register("C09", "PyPI versions order as PEP 440 specifies", rulePepTable)
}
