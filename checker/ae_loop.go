package main

import (
	"fmt"
	"go/constant"
	"go/token"
	"go/types"
	"sort"
	"strings"

	"golang.org/x/tools/go/ssa"
)

// loopSummary: what the analysis of a zip loop established.
type loopSummary struct {
	ok       bool
	why      string
	minKind  bool // positions where one side is absent are decided after the loop (length tail)
	checked  int  // worlds examined
	seqVals  []ssa.Value
	problems []string
	lawSig   map[string]*coreSet
	lawN     map[string]int
	lawFirst map[string]string
	// tieEq: element terms ("…[i].f") that are consulted and equal in every abstract position world
	// where the position ties with both sides present: a tie of the whole zip implies they are equal
	// at every index, in particular at [0]
	tieEq []string
}

type needLoop struct {
	fn *ssa.Function
	l  *loop
}

func loopID(fn *ssa.Function, l *loop) string {
	f := fn
	if o := fn.Origin(); o != nil {
		f = o
	}
	// ordinal among the function's loops plus the loop variables' names: stable under edits elsewhere
	ord := 0
	for i, o := range findLoops(fn) {
		if o.header == l.header {
			ord = i + 1
		}
	}
	return fmt.Sprintf("%s#loop%d%s", f.String(), ord, loopDesc(l))
}

// seqOperands: SSA values indexed by the loop's index phi.
func seqOperands(l *loop) []ssa.Value {
	var idx *ssa.Phi
	for _, ins := range l.header.Instrs {
		ph, ok := ins.(*ssa.Phi)
		if !ok {
			break
		}
		if isIntType(ph.Type()) && idx == nil {
			idx = ph
		}
	}
	seen := map[ssa.Value]bool{}
	var out []ssa.Value
	isIdx := func(v ssa.Value) bool {
		if v == ssa.Value(idx) {
			return true
		}
		// range loops index with phi+1
		if b, ok := v.(*ssa.BinOp); ok && b.X == ssa.Value(idx) {
			return true
		}
		return false
	}
	// reloads of the same field of the same base (x.items read in two branches) are one sequence
	canon := func(v ssa.Value) string {
		if ld, ok := v.(*ssa.UnOp); ok && ld.Op == token.MUL {
			if fa, ok := ld.X.(*ssa.FieldAddr); ok {
				return fmt.Sprintf("%s.%d", fa.X.Name(), fa.Field)
			}
		}
		return ""
	}
	seenCanon := map[string]bool{}
	var blocks []*ssa.BasicBlock
	for b := range l.body {
		blocks = append(blocks, b)
	}
	sort.Slice(blocks, func(i, j int) bool { return blocks[i].Index < blocks[j].Index })
	for _, b := range blocks {
		for _, ins := range b.Instrs {
			if ia, ok := ins.(*ssa.IndexAddr); ok && isIdx(ia.Index) && !seen[ia.X] {
				seen[ia.X] = true
				if ck := canon(ia.X); ck != "" {
					if seenCanon[ck] {
						continue
					}
					seenCanon[ck] = true
				}
				out = append(out, ia.X)
			}
			// a padded read moved into a helper: f(seq, i) whose body indexes its sequence parameter with its
			// index parameter
			if c, ok := ins.(*ssa.Call); ok {
				if g := c.Call.StaticCallee(); g != nil && g.Blocks != nil && len(c.Call.Args) == len(g.Params) {
					for ai, a := range c.Call.Args {
						if _, isSlice := a.Type().Underlying().(*types.Slice); !isSlice || seen[a] {
							continue
						}
						for aj, ix := range c.Call.Args {
							if !isIdx(ix) {
								continue
							}
							indexes := false
							for _, gb := range g.Blocks {
								for _, gi := range gb.Instrs {
									if ia, ok := gi.(*ssa.IndexAddr); ok && ia.X == ssa.Value(g.Params[ai]) && ia.Index == ssa.Value(g.Params[aj]) {
										indexes = true
									}
								}
							}
							if indexes {
								seen[a] = true
								if ck := canon(a); ck != "" {
									if seenCanon[ck] {
										continue
									}
									seenCanon[ck] = true
								}
								out = append(out, a)
							}
						}
					}
				}
			}
			// a string read byte by byte with the counter is a sequence too
			if ix, ok := ins.(*ssa.Index); ok && isIdx(ix.Index) && isStringType(ix.X.Type()) && !seen[ix.X] {
				seen[ix.X] = true
				out = append(out, ix.X)
			}
		}
	}
	sort.Slice(out, func(i, j int) bool { return out[i].Name() < out[j].Name() })
	return out
}

// enterLoop (normal mode): the loop is replaced by its summary: a relation atom Z that is a
// total preorder on the compared sequences (established by analyseLoop). Z != 0: the function
// returns Z's sign from inside the loop; Z == 0: execution continues after the loop.
func (r *aeRun) enterLoop(fr *frame, l *loop, pred *ssa.BasicBlock) (any, bool, *ssa.BasicBlock) {
	id := loopID(fr.fn, l)
	if r.inTail && fr == r.iterFrame {
		// the code after the analysed loop runs a second loop in the same function: the comparison
		// is not one position-wise pass, and the lexicographic argument does not apply
		r.oof("a second loop (%s) runs after the position-wise loop in the same function: not a single position-wise comparison", shortLoopID(id))
	}
	sum, ok := r.ctx.lsum[id]
	if !ok {
		if r.target != nil {
			// another loop met while analysing the target loop: provisionally a relation atom
			sum = &loopSummary{ok: true, seqVals: seqOperands(l)}
		} else {
			panic(needLoop{fr.fn, l})
		}
	}
	if !sum.ok {
		r.oof("loop %s: %s", id, sum.why)
	}
	// runtime sequence keys
	var keys []string
	sides := map[string][]int{}
	for _, sv := range sum.seqVals {
		v := r.force(fr, sv, 0)
		ref, isRef := v.(avRef)
		if st, isStr := v.(avTerm); isStr && isStringType(st.t) {
			ref, isRef = avRef{key: st.key, side: st.side, t: st.t}, true
		}
		if !isRef {
			r.oof("loop %s iterates a sequence without a model", id)
		}
		if _, seen := sides[ref.key]; !seen {
			keys = append(keys, ref.key)
		}
		sides[ref.key] = append(sides[ref.key], ref.side)
	}
	sort.Strings(keys)
	if len(keys) != 1 || len(sides[keys[0]]) != 2 || sides[keys[0]][0] == sides[keys[0]][1] {
		r.oof("loop %s does not zip the same sequence of two individuals (%v)", id, keys)
	}
	zkey := "zip:" + id + "(" + keys[0] + ")"
	if _, known := r.ctx.terms[zkey]; !known {
		r.ctx.terms[zkey] = &termInfo{kind: akRel, base: []string{seqBase(keys[0])}, lenKey: "len(" + keys[0] + ")"}
	}
	// orientation: which individual is the loop's first (A) side? the side of the first sequence operand
	var first avRef
	switch fv := r.force(fr, sum.seqVals[0], 0).(type) {
	case avRef:
		first = fv
	case avTerm:
		first = avRef{key: fv.key, side: fv.side, t: fv.t}
	}
	c := r.cmpKey(zkey, first.side, 1-first.side)
	r.zUsed = append(r.zUsed, zkey)
	if c != 0 {
		if fr.fn.Signature.Results().Len() != 1 || !isIntType(fr.fn.Signature.Results().At(0).Type()) {
			r.oof("loop %s exits a function that does not return int", id)
		}
		res := intC(int64(c))
		fr.vals[nil] = res
		return res, false, nil
	}
	// tie: continue after the loop
	if sum.minKind {
		if r.eqOverride == nil {
			r.eqOverride = map[string]bool{}
		}
		r.eqOverride["len("+keys[0]+")"] = true
	}
	// define header values for code after the loop
	for _, ins := range l.header.Instrs {
		switch x := ins.(type) {
		case *ssa.Phi:
			if isIntType(x.Type()) {
				fr.vals[x] = avUnknown{"loop index after the loop"}
			} else {
				fr.vals[x] = r.entryEdge(fr, x, l)
			}
		case *ssa.If, *ssa.Jump:
		case ssa.Value:
			func() {
				defer func() {
					if e := recover(); e != nil {
						if _, isOOF := e.(outOfFragment); isOOF {
							fr.vals[x] = avUnknown{"header value after the loop"}
							return
						}
						panic(e)
					}
				}()
				fr.vals[x] = r.evalInstr(fr, x)
			}()
		}
	}
	var exit *ssa.BasicBlock
	if _, rexit, _ := rotatedGuard(l); rexit != nil {
		// bottom-tested counting loop: it is left at the latch (a non-body successor of the header is an
		// early return inside the position, not the loop's exit)
		return nil, true, rexit
	}
	cands := append([]*ssa.BasicBlock{l.header}, l.backs...)
	for _, cb := range cands {
		for _, s := range cb.Succs {
			if !l.body[s] {
				if exit != nil && exit != s {
					r.oof("loop %s has several exits", id)
				}
				exit = s
			}
		}
	}
	if exit == nil {
		r.oof("loop %s has no exit at its header or latch", id)
	}
	return nil, true, exit
}

// seqBase: the scalar term a derived sequence was computed from ("Split(.prerelease,".")" -> ".prerelease")
func seqBase(key string) string {
	if i := strings.Index(key, "("); i >= 0 && strings.HasSuffix(key, ")") {
		inner := key[i+1 : len(key)-1]
		if j := strings.Index(inner, ","); j >= 0 {
			inner = inner[:j]
		}
		return inner
	}
	return key
}

// position outcome as a comparison value: continue -> 0 (tie at this position), exit/tail -> its constant
func outcomeValue(o *iterOutcome) (int64, string) {
	switch o.kind {
	case "continue":
		return 0, ""
	case "exit", "tail":
		c, ok := o.val.(avConst)
		if !ok || c.v.Kind() != constant.Int {
			return 0, "position returns a non-constant value"
		}
		d, _ := constant.Int64Val(c.v)
		if d == 0 {
			if o.kind == "exit" {
				return 0, "the loop body returns 0 from inside the loop: later positions are ignored although this position ties"
			}
			return 0, "TAIL0"
		}
		if d != 1 && d != -1 {
			return d, "position returns a value outside {-1,0,1}"
		}
		return d, ""
	}
	return 0, "position leaves the loop"
}

// force evaluates a pure value that is defined inside the loop body (e.g. the per-iteration
// reload of v.parts) from the state at loop entry.
func (r *aeRun) force(fr *frame, v ssa.Value, depth int) any {
	if val, ok := fr.vals[v]; ok {
		return val
	}
	switch v.(type) {
	case *ssa.Const, *ssa.Global, *ssa.Function, *ssa.Parameter:
		return r.eval(fr, v)
	}
	if depth > 8 {
		r.oof("sequence operand too deep")
	}
	ins, ok := v.(ssa.Instruction)
	if !ok {
		r.oof("sequence operand is not an instruction")
	}
	switch v.(type) {
	case *ssa.UnOp, *ssa.FieldAddr, *ssa.Field, *ssa.Extract, *ssa.ChangeType, *ssa.Slice:
	default:
		r.oof("sequence operand %T is not a pure access path", v)
	}
	for _, op := range ins.Operands(nil) {
		if *op != nil {
			fr.vals[*op] = r.force(fr, *op, depth+1)
		}
	}
	val := r.evalInstr(fr, v)
	return val
}
