package main

import (
	"fmt"
	"go/token"
	"go/types"
	"sort"
	"strings"

	"golang.org/x/tools/go/ssa"
)

// ---- C17: VERS validates its input and routes each scheme ---------------------------------------

// the statement's routing table: scheme name -> ecosystem package
var versSchemes = map[string]string{
	"alpine": "alpine", "cargo": "cargo", "deb": "debian", "gem": "gem", "generic": "semver",
	"golang": "golang", "maven": "maven", "npm": "npm", "nuget": "nuget", "pypi": "pypi", "rpm": "rpm",
}

func versFunc(p *Prog, name string) *ssa.Function { return p.PkgFunc(p.Vers, name) }

// versDispatch: the scheme -> function table consulted by vers.Contains (local literal or package-level)
func versDispatch(p *Prog) (map[string]*ssa.Function, token.Pos, string) {
	contains := versFunc(p, "Contains")
	var lk *ssa.Lookup
	for _, b := range contains.Blocks {
		for _, ins := range b.Instrs {
			if l, ok := ins.(*ssa.Lookup); ok {
				if mt, ok := l.X.Type().Underlying().(*types.Map); ok {
					if _, isFn := mt.Elem().Underlying().(*types.Signature); isFn {
						lk = l
					}
				}
			}
		}
	}
	if lk == nil {
		return nil, contains.Pos(), "vers.Contains does not look the scheme up in a table of functions"
	}
	out := map[string]*ssa.Function{}
	collect := func(m ssa.Value, fns []*ssa.Function) {
		for _, fn := range fns {
			for _, b := range fn.Blocks {
				for _, ins := range b.Instrs {
					mu, ok := ins.(*ssa.MapUpdate)
					if !ok || mu.Map != m {
						continue
					}
					k, okk := constString(mu.Key)
					var f *ssa.Function
					switch v := mu.Value.(type) {
					case *ssa.Function:
						f = v
					case *ssa.MakeClosure:
						f = v.Fn.(*ssa.Function)
					}
					if okk && f != nil {
						out[k] = f
					} else {
						out["?"] = nil
					}
				}
			}
		}
	}
	switch m := lk.X.(type) {
	case *ssa.MakeMap:
		collect(m, []*ssa.Function{contains})
	case *ssa.UnOp:
		if g, ok := m.X.(*ssa.Global); ok {
			// package-level table: filled in init
			for fn := range p.AllFns {
				if !p.IsRepoFn(fn) || !isInit(fn) {
					continue
				}
				for _, b := range fn.Blocks {
					for _, ins := range b.Instrs {
						if s, ok := ins.(*ssa.Store); ok && s.Addr == ssa.Value(g) {
							collect(s.Val, []*ssa.Function{fn})
						}
					}
				}
			}
		}
	}
	// the key looked up must be the scheme of the range and the callee must get (constraints, version)
	return out, lk.Pos(), ""
}

func ruleVersRoute(p *Prog, r *Report) {
	table, pos, why := versDispatch(p)
	if why != "" {
		r.Bad("R-VERS-ROUTE", "vers.Contains: dispatch table", p.Pos(pos), why)
		return
	}
	generic := versFunc(p, "contains")
	var schemes []string
	for s := range versSchemes {
		schemes = append(schemes, s)
	}
	sort.Strings(schemes)
	for _, s := range schemes {
		key := "vers scheme " + s
		fn := table[s]
		want := p.EcoBy[versSchemes[s]]
		if fn == nil {
			r.Bad("R-VERS-ROUTE", key, p.Pos(pos), "scheme is not in the dispatch table: a supported scheme would be rejected")
			continue
		}
		if want == nil {
			r.Und("R-VERS-ROUTE", key, p.Pos(pos), "ecosystem package "+versSchemes[s]+" not found")
			continue
		}
		// every Ecosystem value created in fn, and the one passed to the generic contains
		var ecos []*Eco
		passed := false
		var passedEco *Eco
		forwards := false
		for _, b := range fn.Blocks {
			for _, ins := range b.Instrs {
				if al, ok := ins.(*ssa.Alloc); ok {
					if e := ecoOfValue(p, al); e != nil {
						ecos = append(ecos, e)
					}
				}
				if c, ok := ins.(*ssa.Call); ok {
					if cal := c.Call.StaticCallee(); cal != nil && (cal == generic || cal.Origin() == generic) {
						passed = true
						passedEco = ecoOfValue(p, c.Call.Args[0])
						if len(fn.Params) == 2 && len(c.Call.Args) == 3 && c.Call.Args[1] == ssa.Value(fn.Params[0]) && c.Call.Args[2] == ssa.Value(fn.Params[1]) {
							forwards = true
						}
					}
				}
			}
		}
		bad := ""
		for _, e := range ecos {
			if e != want {
				bad = fmt.Sprintf("scheme %q is evaluated with the %s ecosystem (in %s), the VERS scheme denotes %s", s, e.Name, fn.Name(), want.Name)
			}
		}
		switch {
		case bad != "":
			r.Bad("R-VERS-ROUTE", key, p.FnPos(fn), bad)
		case !passed || passedEco != want:
			r.Bad("R-VERS-ROUTE", key, p.FnPos(fn), "the scheme's function does not pass a "+want.Name+" Ecosystem to the generic containment routine")
		case !forwards:
			r.Bad("R-VERS-ROUTE", key, p.FnPos(fn), "the scheme's function does not forward (constraints, version) unchanged and in order")
		default:
			r.Ok("R-VERS-ROUTE", key, p.FnPos(fn), "dispatches to "+fn.Name()+", which uses only the "+want.Name+" ecosystem and forwards (constraints, version)")
		}
	}
	var extra []string
	for k := range table {
		if _, ok := versSchemes[k]; !ok {
			extra = append(extra, k)
		}
	}
	sort.Strings(extra)
	if len(extra) > 0 {
		r.Note("dispatch table has additional schemes %v (not claimed)", extra)
	}
	// the dispatcher is called with (constraints, version) of the request, and the table key is scheme(versRange)
	contains := versFunc(p, "Contains")
	okCall := false
	for _, b := range contains.Blocks {
		for _, ins := range b.Instrs {
			c, ok := ins.(*ssa.Call)
			if !ok || c.Call.StaticCallee() != nil || c.Call.IsInvoke() {
				continue
			}
			if _, isB := c.Call.Value.(*ssa.Builtin); isB {
				continue
			}
			if len(c.Call.Args) == 2 && c.Call.Args[1] == ssa.Value(contains.Params[1]) {
				okCall = true
			}
		}
	}
	if okCall {
		r.Ok("R-VERS-ROUTE", "vers.Contains: dispatch call", p.FnPos(contains), "the looked-up function receives the probe version parameter unchanged")
	} else {
		r.Bad("R-VERS-ROUTE", "vers.Contains: dispatch call", p.FnPos(contains), "the looked-up function is not called with the probe version")
	}
	r.Floor("R-VERS-ROUTE", 12)
}

// R-VERS-LABELS: toRanges has a case for the Name() of every routed ecosystem.
func ruleVersLabels(p *Prog, r *Report) {
	gen := versFunc(p, "toRanges")
	if gen == nil {
		r.Bad("R-VERS-LABELS", "vers.toRanges", "-", "not found")
		return
	}
	insts := instancesOf(p, gen)
	if len(insts) == 0 {
		r.Bad("R-VERS-LABELS", "vers.toRanges", p.FnPos(gen), "no instances")
		return
	}
	fn := insts[0]
	labels := map[string]bool{}
	for _, b := range fn.Blocks {
		for _, ins := range b.Instrs {
			bo, ok := ins.(*ssa.BinOp)
			if !ok || bo.Op != token.EQL {
				continue
			}
			if s, ok := constString(bo.Y); ok {
				if c, ok := bo.X.(*ssa.Call); ok && (c.Call.IsInvoke() && c.Call.Method.Name() == "Name" || c.Call.StaticCallee() != nil && c.Call.StaticCallee().Name() == "Name") {
					labels[s] = true
				}
			}
		}
	}
	var schemes []string
	for s := range versSchemes {
		schemes = append(schemes, s)
	}
	sort.Strings(schemes)
	for _, s := range schemes {
		e := p.EcoBy[versSchemes[s]]
		key := "vers.toRanges: case for scheme " + s
		if e == nil {
			continue
		}
		if labels[e.NameVal] {
			r.Ok("R-VERS-LABELS", key, p.FnPos(gen), fmt.Sprintf("case %q equals %s.Name()", e.NameVal, e.Name))
		} else {
			r.Bad("R-VERS-LABELS", key, p.FnPos(gen), fmt.Sprintf("no case for %q (= %s.Name()): ranges of a supported scheme fall to the 'not yet supported' error", e.NameVal, e.Name))
		}
	}
	r.Floor("R-VERS-LABELS", 11)
}

// ---- R-VERS-REJECT -------------------------------------------------------------------------------

// nilReturnBlocks: blocks returning a nil error as last result
func nilReturnBlocks(fn *ssa.Function) []*ssa.BasicBlock {
	var out []*ssa.BasicBlock
	for _, b := range fn.Blocks {
		if ret, ok := b.Instrs[len(b.Instrs)-1].(*ssa.Return); ok && len(ret.Results) > 0 && isNilConst(ret.Results[len(ret.Results)-1]) {
			out = append(out, b)
		}
	}
	return out
}

// leadsToError: every path from b reaches a return with a definitely non-nil error before any nil return
func leadsToError(b *ssa.BasicBlock, seen map[*ssa.BasicBlock]bool, depth int) bool {
	if seen[b] || depth > 6 {
		return false
	}
	seen[b] = true
	if ret, ok := b.Instrs[len(b.Instrs)-1].(*ssa.Return); ok {
		return len(ret.Results) > 0 && definitelyNonNilErr(ret.Results[len(ret.Results)-1])
	}
	if len(b.Succs) == 0 {
		return false
	}
	for _, s := range b.Succs {
		if !leadsToError(s, seen, depth+1) {
			return false
		}
	}
	return true
}

// guardRejects: is there an If in fn on cond matching pred whose (truth) edge leads to an error return,
// with the If dominating every nil return?
func guardRejects(fn *ssa.Function, match func(cond ssa.Value) (truth bool, ok bool)) bool {
	nilBlocks := nilReturnBlocks(fn)
	for _, b := range fn.Blocks {
		iff, ok := b.Instrs[len(b.Instrs)-1].(*ssa.If)
		if !ok {
			continue
		}
		truth, ok := match(iff.Cond)
		if !ok {
			continue
		}
		succ := b.Succs[0]
		if !truth {
			succ = b.Succs[1]
		}
		if !leadsToError(succ, map[*ssa.BasicBlock]bool{}, 0) {
			continue
		}
		dom := true
		for _, nb := range nilBlocks {
			if !b.Dominates(nb) {
				dom = false
			}
		}
		if !dom {
			// second conjunct of `a && b`: reached through single-predecessor blocks from a dominating test
			for x := b; len(x.Preds) == 1; {
				x = x.Preds[0]
				d2 := true
				for _, nb := range nilBlocks {
					if !x.Dominates(nb) {
						d2 = false
					}
				}
				if d2 {
					dom = true
					break
				}
			}
		}
		if dom || inLoopBeforeNil(fn, b, nilBlocks) {
			return true
		}
	}
	return false
}

// inLoopBeforeNil: b is inside a loop whose header dominates every nil return (a per-element test)
func inLoopBeforeNil(fn *ssa.Function, b *ssa.BasicBlock, nilBlocks []*ssa.BasicBlock) bool {
	for _, l := range findLoops(fn) {
		if !l.body[b] {
			continue
		}
		ok := true
		for _, nb := range nilBlocks {
			if !l.header.Dominates(nb) {
				ok = false
			}
		}
		if ok {
			return true
		}
	}
	return false
}

func isNot(v ssa.Value) (ssa.Value, bool) {
	if u, ok := v.(*ssa.UnOp); ok && u.Op == token.NOT {
		return u.X, true
	}
	return nil, false
}

// cmpConstCond: cond is  x OP c  for an integer/rune constant c
func cmpConstCond(cond ssa.Value, op token.Token, c int64) bool {
	bo, ok := cond.(*ssa.BinOp)
	if !ok || bo.Op != op {
		return false
	}
	v, ok := constInt(bo.Y)
	return ok && v == c
}

func ruleVersReject(p *Prog, r *Report) {
	valid := versFunc(p, "valid")
	if valid == nil {
		r.Bad("R-VERS-REJECT", "vers.valid", "-", "validation function not found")
		return
	}
	// vers.Contains consults the validator first and returns (false, err) on failure
	contains := versFunc(p, "Contains")
	callsValid := false
	for _, b := range contains.Blocks {
		for _, ins := range b.Instrs {
			if c, ok := ins.(*ssa.Call); ok && c.Call.StaticCallee() == valid && c.Call.Args[0] == ssa.Value(contains.Params[0]) {
				callsValid = true
			}
		}
	}
	if callsValid {
		r.Ok("R-VERS-REJECT", "vers.Contains: validates the range string first", p.FnPos(contains), "valid(versRange) is called on the range parameter (its error is propagated: R-ERRPROP)")
	} else {
		r.Bad("R-VERS-REJECT", "vers.Contains: validates the range string first", p.FnPos(contains), "vers.Contains does not validate the range string")
	}
	type cond struct {
		name  string
		match func(cond ssa.Value) (bool, bool)
	}
	strCall := func(v ssa.Value, name string) (*ssa.Call, bool) {
		c, ok := v.(*ssa.Call)
		if !ok {
			return nil, false
		}
		f := c.Call.StaticCallee()
		return c, f != nil && extName(f) == name
	}
	conds := []cond{
		{"prefix 'vers:'", func(cv ssa.Value) (bool, bool) {
			if x, ok := isNot(cv); ok {
				// !HasPrefix(...) as a value: error on the true edge
				c, ok := strCall(x, "strings.HasPrefix")
				if !ok {
					return false, false
				}
				s, ok := constString(c.Call.Args[1])
				return true, ok && s == "vers:"
			}
			// branch on HasPrefix itself: error on the false edge
			c, ok := strCall(cv, "strings.HasPrefix")
			if !ok {
				return false, false
			}
			s, ok := constString(c.Call.Args[1])
			return false, ok && s == "vers:"
		}},
		{"character below 32", func(cv ssa.Value) (bool, bool) { return true, cmpConstCond(cv, token.LSS, 32) }},
		{"character above 126", func(cv ssa.Value) (bool, bool) { return true, cmpConstCond(cv, token.GTR, 126) }},
		{"'/' separator present", func(cv ssa.Value) (bool, bool) {
			bo, ok := cv.(*ssa.BinOp)
			if !ok || bo.Op != token.NEQ {
				return false, false
			}
			v, okc := constInt(bo.Y)
			l, okl := lenArgAny(bo.X)
			if !okc || v != 2 || !okl {
				return false, false
			}
			c, ok := strCall(l, "strings.SplitN")
			if !ok {
				return false, false
			}
			sep, _ := constString(c.Call.Args[1])
			n, _ := constInt(c.Call.Args[2])
			return true, sep == "/" && n == 2
		}},
		{"scheme not empty", func(cv ssa.Value) (bool, bool) { return true, emptyTestOfSplitPart(cv, 0) }},
		{"constraints not empty", func(cv ssa.Value) (bool, bool) { return true, emptyTestOfSplitPart(cv, 1) }},
		{"more than one star", func(cv ssa.Value) (bool, bool) { return true, cmpConstCond(cv, token.GTR, 1) }},
	}
	for _, c := range conds {
		key := "vers.valid: rejects " + c.name
		if guardRejects(valid, c.match) {
			r.Ok("R-VERS-REJECT", key, p.FnPos(valid), "the test is made on every path to acceptance and its failing edge returns an error")
		} else {
			r.Bad("R-VERS-REJECT", key, p.FnPos(valid), "no test with an error return for this condition guards acceptance")
		}
	}
	// scheme alphabet: the class test as a whole: inside a range loop over the scheme, an error return is
	// reachable, and the accepting continuation is only reached through r in [a-z] or [0-9]
	// (checked through the constants the loop compares the rune with)
	need := map[int64]bool{'a': false, 'z': false, '0': false, '9': false}
	for _, b := range valid.Blocks {
		for _, ins := range b.Instrs {
			if bo, ok := ins.(*ssa.BinOp); ok {
				if v, ok := constInt(bo.Y); ok {
					if _, want := need[v]; want && (bo.Op == token.GEQ || bo.Op == token.LEQ || bo.Op == token.LSS || bo.Op == token.GTR) {
						need[v] = true
					}
				}
			}
		}
	}
	allNeed := true
	for _, v := range need {
		allNeed = allNeed && v
	}
	if allNeed {
		r.Ok("R-VERS-REJECT", "vers.valid: scheme alphabet [a-z0-9]", p.FnPos(valid), "scheme runes are compared with 'a','z','0','9'")
	} else {
		r.Bad("R-VERS-REJECT", "vers.valid: scheme alphabet [a-z0-9]", p.FnPos(valid), "the scheme is not restricted to lowercase ASCII letters and digits")
	}
	// star must be alone
	starAlone := guardRejects(valid, func(cv ssa.Value) (bool, bool) {
		// starCount == 1 && hasOther: the second conjunct's true edge rejects; accept a boolean phi/flag test
		if _, ok := cv.(*ssa.Phi); ok {
			return true, true
		}
		return false, false
	})
	if starAlone {
		r.Ok("R-VERS-REJECT", "vers.valid: star must be alone", p.FnPos(valid), "a star together with another constraint is rejected")
	} else {
		r.Bad("R-VERS-REJECT", "vers.valid: star must be alone", p.FnPos(valid), "no rejection of a '*' that is accompanied by other constraints")
	}
	// normalizeConstraints: constraint without operator / without version is an error
	nc := versFunc(p, "normalizeConstraints")
	if nc != nil {
		if insts := instancesOf(p, nc); len(insts) > 0 {
			fn := insts[0]
			for _, c := range []struct{ name, what string }{{"constraint without comparator", "operator"}, {"constraint without version", "versionStr"}} {
				ok := false
				for _, b := range fn.Blocks {
					iff, isIf := b.Instrs[len(b.Instrs)-1].(*ssa.If)
					if !isIf {
						continue
					}
					bo, isBo := iff.Cond.(*ssa.BinOp)
					if !isBo || bo.Op != token.EQL || !isEmptyConst(bo.Y) {
						continue
					}
					name := ""
					if ph, isPhi := bo.X.(*ssa.Phi); isPhi {
						name = ph.Comment
					}
					if name == c.what && leadsToError(b.Succs[0], map[*ssa.BasicBlock]bool{}, 0) {
						ok = true
					}
				}
				key := "vers.normalizeConstraints: rejects " + c.name
				if ok {
					r.Ok("R-VERS-REJECT", key, p.FnPos(nc), "an empty "+c.what+" returns an error")
				} else {
					r.Bad("R-VERS-REJECT", key, p.FnPos(nc), "no error return for an empty "+c.what)
				}
			}
		}
	}
	r.Floor("R-VERS-REJECT", 12)
}

func lenArgAny(v ssa.Value) (ssa.Value, bool) {
	c, ok := v.(*ssa.Call)
	if !ok {
		return nil, false
	}
	b, ok := c.Call.Value.(*ssa.Builtin)
	if !ok || b.Name() != "len" {
		return nil, false
	}
	return c.Call.Args[0], true
}

// emptyTestOfSplitPart: cond is  parts[k] == ""  for the SplitN result
func emptyTestOfSplitPart(cond ssa.Value, k int64) bool {
	bo, ok := cond.(*ssa.BinOp)
	if !ok || bo.Op != token.EQL || !isEmptyConst(bo.Y) {
		return false
	}
	u, ok := bo.X.(*ssa.UnOp)
	if !ok || u.Op != token.MUL {
		return false
	}
	ia, ok := u.X.(*ssa.IndexAddr)
	if !ok {
		return false
	}
	i, ok := constInt(ia.Index)
	if !ok || i != k {
		return false
	}
	c, ok := ia.X.(*ssa.Call)
	if !ok {
		return false
	}
	f := c.Call.StaticCallee()
	return f != nil && extName(f) == "strings.SplitN"
}

// ---- R-ERRPROP: no error of a repo callee is dropped in vers or cmd ---------------------------------

func ruleErrProp(p *Prog, r *Report) {
	roots := []*ssa.Function{versFunc(p, "Contains")}
	roots = append(roots, p.CLIRoots()...)
	fns := p.Representatives(p.RepoReachable(roots...))
	n := 0
	for _, fn := range fns {
		pk := fnPkg(fn)
		if pk != p.Vers.Types && pk != p.Cmd.Types {
			continue
		}
		for _, b := range fn.Blocks {
			for _, ins := range b.Instrs {
				c, ok := ins.(*ssa.Call)
				if !ok {
					continue
				}
				res := c.Call.Signature().Results()
				if res.Len() == 0 || !isErrorType(res.At(res.Len()-1).Type()) {
					continue
				}
				names := p.calleeNames(c)
				repo := false
				for _, cn := range names {
					if cn.repo {
						repo = true
					}
				}
				if !repo {
					continue
				}
				n++
				key := fmt.Sprintf("%s: error of %s", p.FnKey(fn), calleeLabel(c))
				var errv ssa.Value
				if res.Len() == 1 {
					errv = c
				} else {
					for _, ref := range *c.Referrers() {
						if ex, ok := ref.(*ssa.Extract); ok && ex.Index == res.Len()-1 {
							errv = ex
						}
					}
				}
				if errv == nil {
					r.Bad("R-ERRPROP", key, p.Pos(c.Pos()), "the error result is discarded")
					continue
				}
				if errHandled(errv, map[ssa.Value]bool{}) {
					r.Ok("R-ERRPROP", key, p.Pos(c.Pos()), "the error is tested against nil with the failing branch returning an error, or is returned directly")
				} else {
					r.Bad("R-ERRPROP", key, p.Pos(c.Pos()), "the error result is neither returned nor tested with a failing branch that returns an error")
				}
			}
		}
	}
	r.Floor("R-ERRPROP", 12)
}

func calleeLabel(c *ssa.Call) string {
	if f := c.Call.StaticCallee(); f != nil {
		if o := f.Origin(); o != nil {
			return o.Name()
		}
		return f.Name()
	}
	if c.Call.IsInvoke() {
		return c.Call.Method.Name()
	}
	return "dynamic callee"
}

// errHandled: err flows to a return's error result, or to `err != nil` whose true edge returns a non-nil error
func errHandled(errv ssa.Value, seen map[ssa.Value]bool) bool {
	if seen[errv] {
		return false
	}
	seen[errv] = true
	for _, ref := range *errv.Referrers() {
		switch x := ref.(type) {
		case *ssa.Return:
			if x.Results[len(x.Results)-1] == errv {
				return true
			}
		case *ssa.Phi:
			if errHandled(x, seen) {
				return true
			}
		case *ssa.BinOp:
			if (x.Op == token.NEQ || x.Op == token.EQL) && (isNilConst(x.X) || isNilConst(x.Y)) {
				for _, r2 := range *x.Referrers() {
					iff, ok := r2.(*ssa.If)
					if !ok {
						continue
					}
					b := iff.Block()
					succ := b.Succs[0]
					if x.Op == token.EQL {
						succ = b.Succs[1]
					}
					if returnsErrorOrFailure(succ, errv, map[*ssa.BasicBlock]bool{}, 0) {
						return true
					}
				}
			}
		}
	}
	return false
}

// returnsErrorOrFailure: all paths from b return a non-nil error (wrapping allowed), or for CLI
// runners a non-zero exit code
func returnsErrorOrFailure(b *ssa.BasicBlock, errv ssa.Value, seen map[*ssa.BasicBlock]bool, depth int) bool {
	if seen[b] || depth > 6 {
		return false
	}
	seen[b] = true
	if ret, ok := b.Instrs[len(b.Instrs)-1].(*ssa.Return); ok {
		if len(ret.Results) == 0 {
			return false
		}
		last := ret.Results[len(ret.Results)-1]
		if last == errv || definitelyNonNilErr(last) {
			return true
		}
		if ph, ok := last.(*ssa.Phi); ok {
			for _, e := range ph.Edges {
				if e == errv || definitelyNonNilErr(e) {
					return true
				}
			}
		}
		if c, ok := constInt(last); ok && c != 0 {
			return true // CLI runner: failure exit code
		}
		return false
	}
	if len(b.Succs) == 0 {
		return false
	}
	for _, s := range b.Succs {
		if !returnsErrorOrFailure(s, errv, seen, depth+1) {
			return false
		}
	}
	return true
}

var _ = strings.TrimSpace

func init() {
	register("C17", "VERS input validation and routing as structural facts: (R-VERS-ROUTE) the scheme dispatch table maps each of the 11 scheme names to a function that creates only the expected ecosystem's Ecosystem value and forwards (constraints, version) to the generic containment routine; (R-VERS-LABELS) toRanges has a case for the Name() of every routed ecosystem; (R-VERS-REJECT) each syntactic condition of the statement is tested in valid()/normalizeConstraints on every path to acceptance with an error on its failing edge; (R-ERRPROP) no error returned by a repo callee is dropped in pkg/spec/vers or cmd; with C06's R-ERRFALSE (error => false).", ruleVersRoute, ruleVersLabels, ruleVersReject, ruleErrProp, ruleErrFalse)
}
