package main

import (
	"fmt"
	"go/token"
	"go/types"
	"sort"
	"strings"

	"golang.org/x/tools/go/ssa"
)

// ---- C17: VERS validates its input and routes each scheme ---------------------------------------

// the statement's routing table: scheme name -> ecosystem package
var versSchemes = map[string]string{
	"alpine": "alpine", "cargo": "cargo", "deb": "debian", "gem": "gem", "generic": "semver",
	"golang": "golang", "maven": "maven", "npm": "npm", "nuget": "nuget", "pypi": "pypi", "rpm": "rpm",
}

func versFunc(p *Prog, name string) *ssa.Function { return p.PkgFunc(p.Vers, name) }

// versDispatch: the scheme -> function table consulted by vers.Contains (local literal or package-level)
func versDispatch(p *Prog) (map[string]*ssa.Function, token.Pos, string) {
	contains := versFunc(p, "Contains")
	var lk *ssa.Lookup
	for _, b := range contains.Blocks {
		for _, ins := range b.Instrs {
			if l, ok := ins.(*ssa.Lookup); ok {
				if mt, ok := l.X.Type().Underlying().(*types.Map); ok {
					if _, isFn := mt.Elem().Underlying().(*types.Signature); isFn {
						lk = l
					}
				}
			}
		}
	}
	if lk == nil {
		// the other spellings of the table: a switch over the scheme whose cases call the evaluators, or
		// whose cases select the evaluator that is called once afterwards (a phi of functions)
		out := map[string]*ssa.Function{}
		var pos token.Pos
		schemeKey := func(b *ssa.BasicBlock) string {
			key := ""
			domEdges(b, func(cond ssa.Value, tv bool) bool {
				bo, ok := cond.(*ssa.BinOp)
				if !ok || !(bo.Op == token.EQL && tv || bo.Op == token.NEQ && !tv) {
					return false
				}
				x, y := bo.X, bo.Y
				if _, isC := constString(x); isC {
					x, y = y, x
				}
				k, isC := constString(y)
				if !isC {
					return false
				}
				ex, isEx := x.(*ssa.Extract)
				if !isEx || ex.Index != 0 {
					return false
				}
				sc, isCall := ex.Tuple.(*ssa.Call)
				if !isCall || sc.Call.StaticCallee() != versFunc(p, "scheme") {
					return false
				}
				key = k
				return true
			})
			return key
		}
		for _, b := range contains.Blocks {
			for _, ins := range b.Instrs {
				c, ok := ins.(*ssa.Call)
				if !ok || c.Call.StaticCallee() != nil || c.Call.IsInvoke() {
					continue
				}
				ph, ok := c.Call.Value.(*ssa.Phi)
				if !ok {
					continue
				}
				for i, e := range ph.Edges {
					var f *ssa.Function
					switch v := e.(type) {
					case *ssa.Function:
						f = v
					case *ssa.MakeClosure:
						f, _ = v.Fn.(*ssa.Function)
					}
					k := schemeKey(ph.Block().Preds[i])
					if f == nil || k == "" {
						out["?"] = nil
						continue
					}
					out[k] = f
				}
				pos = c.Pos()
			}
		}
		if len(out) > 0 {
			return out, pos, ""
		}
		for _, b := range contains.Blocks {
			for _, ins := range b.Instrs {
				c, ok := ins.(*ssa.Call)
				if !ok {
					continue
				}
				g := c.Call.StaticCallee()
				if g == nil || !p.IsRepoFn(g) || g.Signature.Params().Len() != 2 || g.Signature.Results().Len() != 2 {
					continue
				}
				if !isStringSlice(g.Signature.Params().At(0).Type()) || !isBoolType(g.Signature.Results().At(0).Type()) {
					continue
				}
				key := ""
				domEdges(b, func(cond ssa.Value, tv bool) bool {
					bo, ok := cond.(*ssa.BinOp)
					if !ok || !(bo.Op == token.EQL && tv || bo.Op == token.NEQ && !tv) {
						return false
					}
					x, y := bo.X, bo.Y
					if _, isC := constString(x); isC {
						x, y = y, x
					}
					k, isC := constString(y)
					if !isC {
						return false
					}
					// x is the scheme of the range: the first result of scheme(versRange)
					ex, isEx := x.(*ssa.Extract)
					if !isEx || ex.Index != 0 {
						return false
					}
					sc, isCall := ex.Tuple.(*ssa.Call)
					if !isCall || sc.Call.StaticCallee() != versFunc(p, "scheme") {
						return false
					}
					key = k
					return true
				})
				if key == "" {
					out["?"] = nil
					continue
				}
				out[key] = g
				if pos == token.NoPos {
					pos = c.Pos()
				}
			}
		}
		if len(out) == 0 {
			return nil, contains.Pos(), "vers.Contains neither looks the scheme up in a table of functions nor switches over it"
		}
		return out, pos, ""
	}
	out := map[string]*ssa.Function{}
	collect := func(m ssa.Value, fns []*ssa.Function) {
		for _, fn := range fns {
			for _, b := range fn.Blocks {
				for _, ins := range b.Instrs {
					mu, ok := ins.(*ssa.MapUpdate)
					if !ok || mu.Map != m {
						continue
					}
					k, okk := constString(mu.Key)
					var f *ssa.Function
					switch v := mu.Value.(type) {
					case *ssa.Function:
						f = v
					case *ssa.MakeClosure:
						f = v.Fn.(*ssa.Function)
					}
					if okk && f != nil {
						out[k] = f
					} else {
						out["?"] = nil
					}
				}
			}
		}
	}
	switch m := lk.X.(type) {
	case *ssa.MakeMap:
		collect(m, []*ssa.Function{contains})
	case *ssa.UnOp:
		if g, ok := m.X.(*ssa.Global); ok {
			// package-level table: filled in init
			for fn := range p.AllFns {
				if !p.IsRepoFn(fn) || !isInit(fn) {
					continue
				}
				for _, b := range fn.Blocks {
					for _, ins := range b.Instrs {
						if s, ok := ins.(*ssa.Store); ok && s.Addr == ssa.Value(g) {
							collect(s.Val, []*ssa.Function{fn})
						}
					}
				}
			}
		}
	}
	// the key looked up must be the scheme of the range and the callee must get (constraints, version)
	return out, lk.Pos(), ""
}

func ruleVersRoute(p *Prog, r *Report) {
	table, pos, why := versDispatch(p)
	if why != "" {
		r.Bad("R-VERS-ROUTE", "vers.Contains: dispatch table", p.Pos(pos), why)
		return
	}
	generic := versFunc(p, "contains")
	var schemes []string
	for s := range versSchemes {
		schemes = append(schemes, s)
	}
	sort.Strings(schemes)
	for _, s := range schemes {
		key := "vers scheme " + s
		fn := table[s]
		want := p.EcoBy[versSchemes[s]]
		if fn == nil {
			r.Bad("R-VERS-ROUTE", key, p.Pos(pos), "scheme is not in the dispatch table: a supported scheme would be rejected")
			continue
		}
		if want == nil {
			r.Und("R-VERS-ROUTE", key, p.Pos(pos), "ecosystem package "+versSchemes[s]+" not found")
			continue
		}
		// every Ecosystem value created in fn, and the one passed to the generic contains
		var ecos []*Eco
		passed := false
		var passedEco *Eco
		forwards := false
		for _, b := range fn.Blocks {
			for _, ins := range b.Instrs {
				if al, ok := ins.(*ssa.Alloc); ok {
					if e := ecoOfValue(p, al); e != nil {
						ecos = append(ecos, e)
					}
				}
				if c, ok := ins.(*ssa.Call); ok {
					if cal := c.Call.StaticCallee(); cal != nil && (cal == generic || cal.Origin() == generic) {
						passed = true
						passedEco = ecoOfValue(p, c.Call.Args[0])
						if len(fn.Params) == 2 && len(c.Call.Args) == 3 && c.Call.Args[1] == ssa.Value(fn.Params[0]) && c.Call.Args[2] == ssa.Value(fn.Params[1]) {
							forwards = true
						}
					}
				}
			}
		}
		bad := ""
		for _, e := range ecos {
			if e != want {
				bad = fmt.Sprintf("scheme %q is evaluated with the %s ecosystem (in %s), the VERS scheme denotes %s", s, e.Name, fn.Name(), want.Name)
			}
		}
		switch {
		case bad != "":
			r.Bad("R-VERS-ROUTE", key, p.FnPos(fn), bad)
		case !passed || passedEco != want:
			r.Bad("R-VERS-ROUTE", key, p.FnPos(fn), "the scheme's function does not pass a "+want.Name+" Ecosystem to the generic containment routine")
		case !forwards:
			r.Bad("R-VERS-ROUTE", key, p.FnPos(fn), "the scheme's function does not forward (constraints, version) unchanged and in order")
		default:
			r.Ok("R-VERS-ROUTE", key, p.FnPos(fn), "dispatches to "+fn.Name()+", which uses only the "+want.Name+" ecosystem and forwards (constraints, version)")
		}
	}
	var extra []string
	for k := range table {
		if _, ok := versSchemes[k]; !ok {
			extra = append(extra, k)
		}
	}
	sort.Strings(extra)
	if len(extra) > 0 {
		r.Note("dispatch table has additional schemes %v (not claimed)", extra)
	}
	// the dispatcher is called with (constraints, version) of the request, and the table key is scheme(versRange)
	contains := versFunc(p, "Contains")
	okCall := false
	for _, b := range contains.Blocks {
		for _, ins := range b.Instrs {
			c, ok := ins.(*ssa.Call)
			if !ok || c.Call.IsInvoke() {
				continue
			}
			if g := c.Call.StaticCallee(); g != nil {
				// switch spelling: the evaluators are called directly
				isEval := false
				for _, f := range table {
					if f == g {
						isEval = true
					}
				}
				if !isEval {
					continue
				}
			}
			if _, isB := c.Call.Value.(*ssa.Builtin); isB {
				continue
			}
			if len(c.Call.Args) == 2 && c.Call.Args[1] == ssa.Value(contains.Params[1]) {
				okCall = true
			}
		}
	}
	if okCall {
		r.Ok("R-VERS-ROUTE", "vers.Contains: dispatch call", p.FnPos(contains), "the looked-up function receives the probe version parameter unchanged")
	} else {
		r.Bad("R-VERS-ROUTE", "vers.Contains: dispatch call", p.FnPos(contains), "the looked-up function is not called with the probe version")
	}
	r.Floor("R-VERS-ROUTE", 12)
}

// R-VERS-LABELS: toRanges has a case for the Name() of every routed ecosystem.
func ruleVersLabels(p *Prog, r *Report) {
	gen := versFunc(p, "toRanges")
	if gen == nil {
		r.Bad("R-VERS-LABELS", "vers.toRanges", "-", "not found")
		return
	}
	insts := instancesOf(p, gen)
	if len(insts) == 0 {
		r.Bad("R-VERS-LABELS", "vers.toRanges", p.FnPos(gen), "no instances")
		return
	}
	fn := insts[0]
	labels := map[string]bool{}
	for _, b := range fn.Blocks {
		for _, ins := range b.Instrs {
			bo, ok := ins.(*ssa.BinOp)
			if !ok || bo.Op != token.EQL {
				continue
			}
			if s, ok := constString(bo.Y); ok {
				if c, ok := bo.X.(*ssa.Call); ok && (c.Call.IsInvoke() && c.Call.Method.Name() == "Name" || c.Call.StaticCallee() != nil && c.Call.StaticCallee().Name() == "Name") {
					labels[s] = true
				}
			}
		}
	}
	var schemes []string
	for s := range versSchemes {
		schemes = append(schemes, s)
	}
	sort.Strings(schemes)
	for _, s := range schemes {
		e := p.EcoBy[versSchemes[s]]
		key := "vers.toRanges: case for scheme " + s
		if e == nil {
			continue
		}
		if labels[e.NameVal] {
			r.Ok("R-VERS-LABELS", key, p.FnPos(gen), fmt.Sprintf("case %q equals %s.Name()", e.NameVal, e.Name))
		} else {
			r.Bad("R-VERS-LABELS", key, p.FnPos(gen), fmt.Sprintf("no case for %q (= %s.Name()): ranges of a supported scheme fall to the 'not yet supported' error", e.NameVal, e.Name))
		}
	}
	r.Floor("R-VERS-LABELS", 11)
}

// ---- R-VERS-REJECT -------------------------------------------------------------------------------

// nilReturnBlocks: blocks returning a nil error as last result
func nilReturnBlocks(fn *ssa.Function) []*ssa.BasicBlock {
	var out []*ssa.BasicBlock
	for _, b := range fn.Blocks {
		if ret, ok := b.Instrs[len(b.Instrs)-1].(*ssa.Return); ok && len(ret.Results) > 0 && isNilConst(ret.Results[len(ret.Results)-1]) {
			out = append(out, b)
		}
	}
	return out
}

// leadsToError: every path from b reaches a return with a definitely non-nil error before any nil return
func leadsToError(b *ssa.BasicBlock, seen map[*ssa.BasicBlock]bool, depth int) bool {
	if seen[b] || depth > 6 {
		return false
	}
	seen[b] = true
	if ret, ok := b.Instrs[len(b.Instrs)-1].(*ssa.Return); ok {
		return len(ret.Results) > 0 && definitelyNonNilErr(ret.Results[len(ret.Results)-1])
	}
	if len(b.Succs) == 0 {
		return false
	}
	for _, s := range b.Succs {
		if !leadsToError(s, seen, depth+1) {
			return false
		}
	}
	return true
}

// guardRejects: is there an If in fn on cond matching pred whose (truth) edge leads to an error return,
// with the If dominating every nil return?
func guardRejects(fn *ssa.Function, match func(cond ssa.Value) (truth bool, ok bool)) bool {
	nilBlocks := nilReturnBlocks(fn)
	for _, b := range fn.Blocks {
		iff, ok := b.Instrs[len(b.Instrs)-1].(*ssa.If)
		if !ok {
			continue
		}
		truth, ok := match(iff.Cond)
		if !ok {
			continue
		}
		succ := b.Succs[0]
		if !truth {
			succ = b.Succs[1]
		}
		if !leadsToError(succ, map[*ssa.BasicBlock]bool{}, 0) {
			continue
		}
		dom := true
		for _, nb := range nilBlocks {
			if !b.Dominates(nb) {
				dom = false
			}
		}
		if !dom {
			// second conjunct of `a && b`: reached through single-predecessor blocks from a dominating test
			for x := b; len(x.Preds) == 1; {
				x = x.Preds[0]
				d2 := true
				for _, nb := range nilBlocks {
					if !x.Dominates(nb) {
						d2 = false
					}
				}
				if d2 {
					dom = true
					break
				}
			}
		}
		if dom || inLoopBeforeNil(fn, b, nilBlocks) {
			return true
		}
	}
	return false
}

// inLoopBeforeNil: b is inside a loop whose header dominates every nil return (a per-element test)
func inLoopBeforeNil(fn *ssa.Function, b *ssa.BasicBlock, nilBlocks []*ssa.BasicBlock) bool {
	for _, l := range findLoops(fn) {
		if !l.body[b] {
			continue
		}
		ok := true
		for _, nb := range nilBlocks {
			if !l.header.Dominates(nb) {
				ok = false
			}
		}
		if ok {
			return true
		}
	}
	return false
}

func isNot(v ssa.Value) (ssa.Value, bool) {
	if u, ok := v.(*ssa.UnOp); ok && u.Op == token.NOT {
		return u.X, true
	}
	return nil, false
}

// cmpConstCond: cond is  x OP c  for an integer/rune constant c
func cmpConstCond(cond ssa.Value, op token.Token, c int64) bool {
	bo, ok := cond.(*ssa.BinOp)
	if !ok || bo.Op != op {
		return false
	}
	v, ok := constInt(bo.Y)
	return ok && v == c
}

func ruleVersReject(p *Prog, r *Report) {
	valid := versFunc(p, "valid")
	if valid == nil {
		r.Bad("R-VERS-REJECT", "vers.valid", "-", "validation function not found")
		return
	}
	// vers.Contains consults the validator first and returns (false, err) on failure
	contains := versFunc(p, "Contains")
	callsValid := false
	for _, b := range contains.Blocks {
		for _, ins := range b.Instrs {
			if c, ok := ins.(*ssa.Call); ok && c.Call.StaticCallee() == valid && c.Call.Args[0] == ssa.Value(contains.Params[0]) {
				callsValid = true
			}
		}
	}
	if callsValid {
		r.Ok("R-VERS-REJECT", "vers.Contains: validates the range string first", p.FnPos(contains), "valid(versRange) is called on the range parameter (its error is propagated: R-ERRPROP)")
	} else {
		r.Bad("R-VERS-REJECT", "vers.Contains: validates the range string first", p.FnPos(contains), "vers.Contains does not validate the range string")
	}
	type cond struct {
		name  string
		match func(cond ssa.Value) (bool, bool)
	}
	strCall := func(v ssa.Value, name string) (*ssa.Call, bool) {
		c, ok := v.(*ssa.Call)
		if !ok {
			return nil, false
		}
		f := c.Call.StaticCallee()
		return c, f != nil && extName(f) == name
	}
	conds := []cond{
		{"prefix 'vers:'", func(cv ssa.Value) (bool, bool) {
			if x, ok := isNot(cv); ok {
				// !HasPrefix(...) as a value: error on the true edge
				c, ok := strCall(x, "strings.HasPrefix")
				if !ok {
					return false, false
				}
				s, ok := constString(c.Call.Args[1])
				return true, ok && s == "vers:"
			}
			// branch on HasPrefix itself: error on the false edge
			c, ok := strCall(cv, "strings.HasPrefix")
			if !ok {
				return false, false
			}
			s, ok := constString(c.Call.Args[1])
			return false, ok && s == "vers:"
		}},
		{"character below 32", func(cv ssa.Value) (bool, bool) { return true, cmpConstCond(cv, token.LSS, 32) }},
		{"character above 126", func(cv ssa.Value) (bool, bool) { return true, cmpConstCond(cv, token.GTR, 126) }},
		{"'/' separator present", func(cv ssa.Value) (bool, bool) {
			// len(strings.SplitN(x, "/", 2)) != 2, or the found flag of strings.Cut(x, "/") (possibly negated),
			// or strings.Contains / strings.Index spelled tests
			if x, ok := isNot(cv); ok {
				if cutPart(x, 2) {
					return true, true
				}
				if c, ok := strCall(x, "strings.Contains"); ok {
					sep, _ := constString(c.Call.Args[1])
					return true, sep == "/"
				}
			}
			if cutPart(cv, 2) {
				return false, true
			}
			if c, ok := strCall(cv, "strings.Contains"); ok {
				sep, _ := constString(c.Call.Args[1])
				return false, sep == "/"
			}
			bo, ok := cv.(*ssa.BinOp)
			if !ok {
				return false, false
			}
			if c, ok := strCall(bo.X, "strings.Index"); ok {
				sep, _ := constString(c.Call.Args[1])
				z, okz := constInt(bo.Y)
				if sep == "/" && okz {
					switch {
					case bo.Op == token.LSS && z == 0, bo.Op == token.EQL && z == -1:
						return true, true
					case bo.Op == token.GEQ && z == 0, bo.Op == token.NEQ && z == -1:
						return false, true
					}
				}
				return false, false
			}
			if bo.Op != token.NEQ {
				return false, false
			}
			v, okc := constInt(bo.Y)
			l, okl := lenArgAny(bo.X)
			if !okc || v != 2 || !okl {
				return false, false
			}
			c, ok := strCall(l, "strings.SplitN")
			if !ok {
				return false, false
			}
			sep, _ := constString(c.Call.Args[1])
			n, _ := constInt(c.Call.Args[2])
			return true, sep == "/" && n == 2
		}},
		{"scheme not empty", func(cv ssa.Value) (bool, bool) { return true, emptyTestOfSplitPart(cv, 0) }},
		{"constraints not empty", func(cv ssa.Value) (bool, bool) { return true, emptyTestOfSplitPart(cv, 1) }},
		{"more than one star", func(cv ssa.Value) (bool, bool) { return true, cmpConstCond(cv, token.GTR, 1) }},
	}
	for _, c := range conds {
		key := "vers.valid: rejects " + c.name
		if guardRejects(valid, c.match) {
			r.Ok("R-VERS-REJECT", key, p.FnPos(valid), "the test is made on every path to acceptance and its failing edge returns an error")
		} else {
			r.Bad("R-VERS-REJECT", key, p.FnPos(valid), "no test with an error return for this condition guards acceptance")
		}
	}
	// scheme alphabet: the class test as a whole: inside a range loop over the scheme, an error return is
	// reachable, and the accepting continuation is only reached through r in [a-z] or [0-9]
	// (checked through the constants the loop compares the rune with)
	need := map[int64]bool{'a': false, 'z': false, '0': false, '9': false}
	for _, b := range valid.Blocks {
		for _, ins := range b.Instrs {
			if bo, ok := ins.(*ssa.BinOp); ok {
				if v, ok := constInt(bo.Y); ok {
					if _, want := need[v]; want && (bo.Op == token.GEQ || bo.Op == token.LEQ || bo.Op == token.LSS || bo.Op == token.GTR) {
						need[v] = true
					}
				}
			}
		}
	}
	allNeed := true
	for _, v := range need {
		allNeed = allNeed && v
	}
	if allNeed {
		r.Ok("R-VERS-REJECT", "vers.valid: scheme alphabet [a-z0-9]", p.FnPos(valid), "scheme runes are compared with 'a','z','0','9'")
	} else {
		r.Bad("R-VERS-REJECT", "vers.valid: scheme alphabet [a-z0-9]", p.FnPos(valid), "the scheme is not restricted to lowercase ASCII letters and digits")
	}
	// star must be alone
	starAlone := guardRejects(valid, func(cv ssa.Value) (bool, bool) {
		// starCount == 1 && hasOther: the second conjunct's true edge rejects; accept a boolean phi/flag test
		if _, ok := cv.(*ssa.Phi); ok {
			return true, true
		}
		return false, false
	})
	if starAlone {
		r.Ok("R-VERS-REJECT", "vers.valid: star must be alone", p.FnPos(valid), "a star together with another constraint is rejected")
	} else {
		r.Bad("R-VERS-REJECT", "vers.valid: star must be alone", p.FnPos(valid), "no rejection of a '*' that is accompanied by other constraints")
	}
	// normalizeConstraints: constraint without operator / without version is an error. Decided on the text
	// that is handed to the ecosystem's NewVersion: (version) the call is dominated by the edge on which
	// that very value is not empty; (comparator) the value is, on every flow into it, either what follows
	// a prefix of the constraint tested with HasPrefix/CutPrefix, or the empty string (which the first test
	// rejects) - so a constraint that starts with no comparator never reaches the parser as a version.
	nc := versFunc(p, "normalizeConstraints")
	if nc != nil {
		if insts := instancesOf(p, nc); len(insts) > 0 {
			fn := insts[0]
			var calls []*ssa.Call
			textOf := map[*ssa.Call]ssa.Value{}
			for _, b := range fn.Blocks {
				for _, ins := range b.Instrs {
					if c, ok := ins.(*ssa.Call); ok {
						name := ""
						var args []ssa.Value
						if c.Call.IsInvoke() {
							name, args = c.Call.Method.Name(), c.Call.Args
						} else if g := c.Call.StaticCallee(); g != nil && g.Signature.Recv() != nil && len(c.Call.Args) > 0 {
							name, args = g.Name(), c.Call.Args[1:]
						}
						if name == "NewVersion" && len(args) == 1 {
							calls = append(calls, c)
							textOf[c] = args[0]
						} else if g := c.Call.StaticCallee(); g != nil && p.IsRepoFn(g) {
							// the call of NewVersion extracted into a helper that hands one of its own
							// parameters to it: the call site's argument is the text that reaches the parser
							if i := newVersionParam(g); i >= 0 && i < len(c.Call.Args) {
								calls = append(calls, c)
								textOf[c] = c.Call.Args[i]
							}
						}
					}
				}
			}
			argOf := func(c *ssa.Call) ssa.Value { return textOf[c] }
			okVer, okOp := len(calls) > 0, len(calls) > 0
			whyOp := ""
			for _, c := range calls {
				vs := argOf(c)
				if !nonEmptyAt(vs, c.Block()) {
					okVer = false
				}
				if why := operatorStripped(p, vs, map[ssa.Value]bool{}, 0); why != "" {
					okOp, whyOp = false, why
				}
			}
			key := "vers.normalizeConstraints: rejects constraint without version"
			if okVer {
				r.Ok("R-VERS-REJECT", key, p.FnPos(nc), "every text handed to NewVersion has passed a test that it is not empty, whose failing edge is an error")
			} else {
				r.Bad("R-VERS-REJECT", key, p.FnPos(nc), "a constraint version reaches NewVersion without a dominating test that it is not empty")
			}
			key = "vers.normalizeConstraints: rejects constraint without comparator"
			if okOp {
				r.Ok("R-VERS-REJECT", key, p.FnPos(nc), "the text handed to NewVersion is what follows a tested comparator prefix of the constraint, or the empty string (rejected)")
			} else {
				r.Bad("R-VERS-REJECT", key, p.FnPos(nc), "a constraint can reach NewVersion without a comparator having been stripped: "+whyOp)
			}
		}
	}
	r.Floor("R-VERS-REJECT", 12)
}

// nonEmptyAt: block b is dominated by an edge on which the string v is not empty, the other edge leading to
// an error
func nonEmptyAt(v ssa.Value, b *ssa.BasicBlock) bool {
	return domEdges(b, func(cond ssa.Value, tv bool) bool {
		bo, ok := cond.(*ssa.BinOp)
		if !ok {
			return false
		}
		switch {
		case bo.X == v && isEmptyConst(bo.Y), bo.Y == v && isEmptyConst(bo.X):
			return bo.Op == token.EQL && !tv || bo.Op == token.NEQ && tv
		}
		if l, ok := lenArgAny(bo.X); ok && l == v {
			if z, ok := constInt(bo.Y); ok {
				switch {
				case z == 0 && bo.Op == token.EQL:
					return !tv
				case z == 0 && (bo.Op == token.GTR || bo.Op == token.NEQ):
					return tv
				case z == 1 && bo.Op == token.GEQ:
					return tv
				case z == 1 && bo.Op == token.LSS:
					return !tv
				}
			}
		}
		return false
	})
}

// operatorStripped: every flow into the string v is the empty constant or the rest of a string behind a
// prefix that was tested (s[len(op):] or TrimPrefix under HasPrefix(s, op), CutPrefix); "" = yes
func operatorStripped(p *Prog, v ssa.Value, seen map[ssa.Value]bool, depth int) string {
	if seen[v] {
		return ""
	}
	seen[v] = true
	if depth > 6 {
		return "flow too deep"
	}
	prefixTested := func(str, op ssa.Value, b *ssa.BasicBlock) bool {
		return domEdges(b, func(cond ssa.Value, tv bool) bool {
			c, ok := cond.(*ssa.Call)
			if !ok || !tv {
				return false
			}
			f := c.Call.StaticCallee()
			return f != nil && extName(f) == "strings.HasPrefix" && c.Call.Args[0] == str && (op == nil || c.Call.Args[1] == op)
		})
	}
	switch x := v.(type) {
	case *ssa.Const:
		if isEmptyConst(x) {
			return ""
		}
		return "a non-empty constant"
	case *ssa.Phi:
		for _, e := range x.Edges {
			if why := operatorStripped(p, e, seen, depth+1); why != "" {
				return why
			}
		}
		return ""
	case *ssa.Slice:
		// s[len(op):] under HasPrefix(s, op)
		if x.High != nil || x.Low == nil {
			return "a slice other than s[len(op):]"
		}
		var op ssa.Value
		if l, ok := lenArgAny(x.Low); ok {
			op = l
		} else if _, ok := constInt(x.Low); !ok {
			return "a slice whose start is not the length of the tested prefix"
		}
		if prefixTested(x.X, op, x.Block()) {
			return ""
		}
		return "the rest of a string whose prefix was not tested with HasPrefix"
	case *ssa.Extract:
		c, ok := x.Tuple.(*ssa.Call)
		if !ok {
			return "an unrecognised tuple"
		}
		f := c.Call.StaticCallee()
		if f == nil {
			return "the result of a dynamic call"
		}
		if extName(f) == "strings.CutPrefix" && x.Index == 0 {
			return "" // after is "" unless the prefix was found... the found flag is what the empty test sees
		}
		if p.IsRepoFn(f) && f.Blocks != nil {
			for _, b := range f.Blocks {
				if ret, ok := b.Instrs[len(b.Instrs)-1].(*ssa.Return); ok && x.Index < len(ret.Results) {
					if why := operatorStripped(p, ret.Results[x.Index], seen, depth+1); why != "" {
						return why
					}
				}
			}
			return ""
		}
		return "the result of " + f.String()
	case *ssa.Call:
		f := x.Call.StaticCallee()
		if f != nil && extName(f) == "strings.TrimPrefix" && prefixTested(x.Call.Args[0], x.Call.Args[1], x.Block()) {
			return ""
		}
		if f != nil && p.IsRepoFn(f) && f.Blocks != nil && f.Signature.Results().Len() == 1 {
			for _, b := range f.Blocks {
				if ret, ok := b.Instrs[len(b.Instrs)-1].(*ssa.Return); ok {
					if why := operatorStripped(p, ret.Results[0], seen, depth+1); why != "" {
						return why
					}
				}
			}
			return ""
		}
		return "the result of a call that does not strip a tested prefix"
	}
	return fmt.Sprintf("the constraint itself or another unstripped text (%T)", v)
}

func lenArgAny(v ssa.Value) (ssa.Value, bool) {
	c, ok := v.(*ssa.Call)
	if !ok {
		return nil, false
	}
	b, ok := c.Call.Value.(*ssa.Builtin)
	if !ok || b.Name() != "len" {
		return nil, false
	}
	return c.Call.Args[0], true
}

// cutPart: v is result k (0 before, 1 after, 2 found) of strings.Cut(x, "/")
func cutPart(v ssa.Value, k int) bool {
	ex, ok := v.(*ssa.Extract)
	if !ok || ex.Index != k {
		return false
	}
	c, ok := ex.Tuple.(*ssa.Call)
	if !ok {
		return false
	}
	f := c.Call.StaticCallee()
	if f == nil || extName(f) != "strings.Cut" {
		return false
	}
	sep, _ := constString(c.Call.Args[1])
	return sep == "/"
}

// emptyTestOfSplitPart: cond is  parts[k] == ""  for the SplitN result
func emptyTestOfSplitPart(cond ssa.Value, k int64) bool {
	bo, ok := cond.(*ssa.BinOp)
	if !ok || bo.Op != token.EQL || !isEmptyConst(bo.Y) {
		return false
	}
	if cutPart(bo.X, int(k)) {
		return true
	}
	u, ok := bo.X.(*ssa.UnOp)
	if !ok || u.Op != token.MUL {
		return false
	}
	ia, ok := u.X.(*ssa.IndexAddr)
	if !ok {
		return false
	}
	i, ok := constInt(ia.Index)
	if !ok || i != k {
		return false
	}
	c, ok := ia.X.(*ssa.Call)
	if !ok {
		return false
	}
	f := c.Call.StaticCallee()
	return f != nil && extName(f) == "strings.SplitN"
}

// ---- R-ERRPROP: no error of a repo callee is dropped in vers or cmd ---------------------------------

func ruleErrProp(p *Prog, r *Report) {
	roots := []*ssa.Function{versFunc(p, "Contains")}
	roots = append(roots, p.CLIRoots()...)
	fns := p.Representatives(p.RepoReachable(roots...))
	n := 0
	for _, fn := range fns {
		pk := fnPkg(fn)
		if pk != p.Vers.Types && pk != p.Cmd.Types {
			continue
		}
		for _, b := range fn.Blocks {
			for _, ins := range b.Instrs {
				c, ok := ins.(*ssa.Call)
				if !ok {
					continue
				}
				res := c.Call.Signature().Results()
				if res.Len() == 0 || !isErrorType(res.At(res.Len()-1).Type()) {
					continue
				}
				names := p.calleeNames(c)
				repo := false
				for _, cn := range names {
					if cn.repo {
						repo = true
					}
				}
				if !repo {
					continue
				}
				n++
				key := fmt.Sprintf("%s: error of %s", p.FnKey(fn), calleeLabel(c))
				var errv ssa.Value
				if res.Len() == 1 {
					errv = c
				} else {
					for _, ref := range *c.Referrers() {
						if ex, ok := ref.(*ssa.Extract); ok && ex.Index == res.Len()-1 {
							errv = ex
						}
					}
				}
				if errv == nil {
					r.Bad("R-ERRPROP", key, p.Pos(c.Pos()), "the error result is discarded")
					continue
				}
				if errHandled(errv, map[ssa.Value]bool{}) {
					r.Ok("R-ERRPROP", key, p.Pos(c.Pos()), "the error is tested against nil with the failing branch returning an error, or is returned directly")
				} else {
					r.Bad("R-ERRPROP", key, p.Pos(c.Pos()), "the error result is neither returned nor tested with a failing branch that returns an error")
				}
			}
		}
	}
	r.Floor("R-ERRPROP", 12)
}

func calleeLabel(c *ssa.Call) string {
	if f := c.Call.StaticCallee(); f != nil {
		if o := f.Origin(); o != nil {
			return o.Name()
		}
		return f.Name()
	}
	if c.Call.IsInvoke() {
		return c.Call.Method.Name()
	}
	return "dynamic callee"
}

// errHandled: err flows to a return's error result, or to `err != nil` whose true edge returns a non-nil error
func errHandled(errv ssa.Value, seen map[ssa.Value]bool) bool {
	if seen[errv] {
		return false
	}
	seen[errv] = true
	for _, ref := range *errv.Referrers() {
		switch x := ref.(type) {
		case *ssa.Return:
			if x.Results[len(x.Results)-1] == errv {
				return true
			}
		case *ssa.Phi:
			if errHandled(x, seen) {
				return true
			}
		case *ssa.BinOp:
			if (x.Op == token.NEQ || x.Op == token.EQL) && (isNilConst(x.X) || isNilConst(x.Y)) {
				for _, r2 := range *x.Referrers() {
					iff, ok := r2.(*ssa.If)
					if !ok {
						continue
					}
					b := iff.Block()
					succ := b.Succs[0]
					if x.Op == token.EQL {
						succ = b.Succs[1]
					}
					if returnsErrorOrFailure(succ, errv, map[*ssa.BasicBlock]bool{}, 0) {
						return true
					}
				}
			}
		}
	}
	return false
}

// returnsErrorOrFailure: all paths from b return a non-nil error (wrapping allowed), or for CLI
// runners a non-zero exit code
func returnsErrorOrFailure(b *ssa.BasicBlock, errv ssa.Value, seen map[*ssa.BasicBlock]bool, depth int) bool {
	if seen[b] || depth > 6 {
		return false
	}
	seen[b] = true
	if ret, ok := b.Instrs[len(b.Instrs)-1].(*ssa.Return); ok {
		if len(ret.Results) == 0 {
			return false
		}
		last := ret.Results[len(ret.Results)-1]
		if last == errv || definitelyNonNilErr(last) {
			return true
		}
		if ph, ok := last.(*ssa.Phi); ok {
			for _, e := range ph.Edges {
				if e == errv || definitelyNonNilErr(e) {
					return true
				}
			}
		}
		if c, ok := constInt(last); ok && c != 0 {
			return true // CLI runner: failure exit code
		}
		return false
	}
	if len(b.Succs) == 0 {
		return false
	}
	for _, s := range b.Succs {
		if !returnsErrorOrFailure(s, errv, seen, depth+1) {
			return false
		}
	}
	return true
}

var _ = strings.TrimSpace

func init() {
	register("C17", "VERS input validation and routing as structural facts: (R-VERS-ROUTE) the scheme dispatch table maps each of the 11 scheme names to a function that creates only the expected ecosystem's Ecosystem value and forwards (constraints, version) to the generic containment routine; (R-VERS-LABELS) toRanges has a case for the Name() of every routed ecosystem; (R-VERS-REJECT) each syntactic condition of the statement is tested in valid()/normalizeConstraints on every path to acceptance with an error on its failing edge; (R-ERRPROP) no error returned by a repo callee is dropped in pkg/spec/vers or cmd; with C06's R-ERRFALSE (error => false).", ruleVersRoute, ruleVersLabels, ruleVersReject, ruleErrProp, ruleErrFalse)
}

// newVersionParam: the index of the parameter of g that g hands, unchanged, to an ecosystem's NewVersion
// (-1 when there is none)
func newVersionParam(g *ssa.Function) int {
	if g.Blocks == nil {
		return -1
	}
	for _, b := range g.Blocks {
		for _, ins := range b.Instrs {
			c, ok := ins.(*ssa.Call)
			if !ok {
				continue
			}
			var text ssa.Value
			if c.Call.IsInvoke() {
				if c.Call.Method.Name() == "NewVersion" && len(c.Call.Args) == 1 {
					text = c.Call.Args[0]
				}
			} else if h := c.Call.StaticCallee(); h != nil && h.Signature.Recv() != nil && h.Name() == "NewVersion" && len(c.Call.Args) == 2 {
				text = c.Call.Args[1]
			}
			if text == nil {
				continue
			}
			for i, q := range g.Params {
				if ssa.Value(q) == text {
					return i
				}
			}
		}
	}
	return -1
}
