package main

import (
	"fmt"
	"go/constant"
	"os"
	"strings"

	"golang.org/x/tools/go/ssa"
)

// withRetries runs body until no new pool constant / loop summary / stage proof is needed.
// Returns a non-empty reason if the evaluation is outside the fragment.
func (c *aeCtx) withRetries(root *ssa.Function, body func()) (oof string) {
	var pending *needLoop
	loopAnalysis := func(x *needLoop) {
		id := loopID(x.fn, x.l)
		saved := c.filter
		c.filter = nil
		defer func() {
			c.filter = saved
			if e := recover(); e != nil {
				switch y := e.(type) {
				case orderedMiss:
					c.orderedConst[y.key] = true
					c.lsum = map[string]*loopSummary{}
				case poolMiss:
					c.pools[y.key] = poolInsert(c.pools[y.key], y.c)
					c.lsum = map[string]*loopSummary{}
				case needStage:
					c.proveStage(y.fn)
				case restartAnalysis:
					c.lsum = map[string]*loopSummary{}
				case needLoop:
					if loopID(y.fn, y.l) == id {
						c.lsum[id] = &loopSummary{why: "loop is reached again while analysing it"}
					} else {
						pending = &y
					}
				case outOfFragment:
					c.lsum[id] = &loopSummary{why: y.why}
				case tooLarge:
					c.lsum[id] = &loopSummary{why: "position domain too large"}
				default:
					panic(e)
				}
			}
		}()
		c.lsum[id] = c.analyseLoop(root, x.fn, x.l)
	}
	attempt := func() (retry bool) {
		defer func() {
			if e := recover(); e != nil {
				switch x := e.(type) {
				case poolMiss:
					c.pools[x.key] = poolInsert(c.pools[x.key], x.c)
					c.lsum = map[string]*loopSummary{}
					retry = true
				case orderedMiss:
					c.orderedConst[x.key] = true
					c.lsum = map[string]*loopSummary{}
					retry = true
				case needLoop:
					pending = &x
					retry = true
				case needStage:
					c.proveStage(x.fn)
					retry = true
				case restartAnalysis:
					c.lsum = map[string]*loopSummary{}
					retry = true
				case outOfFragment:
					oof = x.why
				case tooLarge:
					oof = "abstract domain too large to enumerate"
				default:
					panic(e)
				}
			}
		}()
		body()
		return false
	}
	for i := 0; ; i++ {
		if i >= 400 {
			return "analysis did not converge (restart limit)"
		}
		if pending != nil {
			x := pending
			pending = nil
			loopAnalysis(x)
			continue
		}
		if !attempt() {
			return oof
		}
	}
}

// override: required relation of one term between individuals 0 (x) and 1 (y)
type override struct {
	rel     *int            // x ? y on this term: -1, 0, 1
	xConst  *constant.Value // x's value is this constant
	yConst  *constant.Value
	xGap    bool // x's value is not one of the pool constants (e.g. non-empty, unknown word)
	yGap    bool
	free    bool // no requirement
	boolVal bool // xConst/yConst are booleans (position 0/1)
	nilVal  int  // 1: both nil, 2: both non-nil (for ?nil atoms)
}

func relPtr(i int) *int { return &i }

// tiedExcept: a world filter: every assigned atom is tied between x and y unless overridden.
// Overrides are looked up by exact key or, for keys ending in "*", by prefix/suffix match.
func (c *aeCtx) tiedExcept(ov map[string]override) func(w *world) bool {
	find := func(key string) (override, bool) {
		if o, ok := ov[key]; ok {
			return o, true
		}
		for k, o := range ov {
			if strings.HasPrefix(k, "*") && strings.HasSuffix(key, k[1:]) {
				return o, true
			}
			if strings.HasPrefix(k, "~") && strings.Contains(key, k[1:]) {
				return o, true
			}
			if strings.HasSuffix(k, "*") && strings.HasPrefix(key, k[:len(k)-1]) {
				return o, true
			}
		}
		return override{}, false
	}
	return func(w *world) bool {
		check := func(key string) bool {
			ti := c.terms[key]
			if ti == nil {
				return true
			}
			o, has := find(key)
			if has && o.free {
				return true
			}
			if has && o.nilVal != 0 {
				for ind := 0; ind < 2; ind++ {
					if p, ok := w.pos[posKey(key, ind)]; ok && p != o.nilVal-1 {
						return false
					}
				}
				return true
			}
			if has {
				posOf := func(ind int, want *constant.Value, gap bool) bool {
					p, ok := w.pos[posKey(key, ind)]
					if !ok {
						return true
					}
					if want != nil && o.boolVal {
						b := 0
						if constant.BoolVal(*want) {
							b = 1
						}
						return p == b
					}
					if want != nil {
						ci := poolIndex(c.pools[key], *want)
						return ci >= 0 && p == 2*ci+1
					}
					if gap {
						return p%2 == 0
					}
					return true
				}
				if !posOf(0, o.xConst, o.xGap) || !posOf(1, o.yConst, o.yGap) {
					return false
				}
				if o.rel != nil {
					if v, ok := c.cmpAssigned(w, key, 0, 1); ok && v != *o.rel {
						return false
					}
				}
				return true
			}
			// tied
			if ti.kind != akRel {
				p0, ok0 := w.pos[posKey(key, 0)]
				p1, ok1 := w.pos[posKey(key, 1)]
				if ok0 && ok1 && p0 != p1 {
					return false
				}
			}
			if v, ok := w.rel[relKey(key, 0, 1)]; ok && v != 0 {
				return false
			}
			return true
		}
		for k := range w.pos {
			if !check(k[:strings.LastIndex(k, "|")]) {
				return false
			}
		}
		for k := range w.rel {
			i := strings.LastIndex(k, "|")
			j := strings.LastIndex(k[:i], "|")
			if !check(k[:j]) {
				return false
			}
		}
		return true
	}
}

type queryResult struct {
	oof     string
	leaves  int
	results map[int64]int // result value -> number of leaves
	sample  map[int64]string
	touched map[string]bool // override keys that were consulted in some leaf
}

// queryPair: Compare(x,y) over all worlds allowed by the filter
func (c *aeCtx) queryPair(root *ssa.Function, filter func(w *world) bool, watch []string) *queryResult {
	qr := &queryResult{}
	saved := c.filter
	c.filter = filter
	defer func() { c.filter = saved }()
	qr.oof = c.withRetries(root, func() {
		qr.leaves = 0
		qr.results = map[int64]int{}
		qr.sample = map[int64]string{}
		qr.touched = map[string]bool{}
		qr.leaves = c.explore(2, 300000, func(w *world) {
			v := c.runPair(root, w, 0, 1, nil)
			qr.results[v]++
			if _, ok := qr.sample[v]; !ok {
				qr.sample[v] = w.describe(c.pools, c.terms)
			}
			for _, k := range watch {
				for wk := range w.pos {
					if strings.HasPrefix(wk, k+"|") {
						qr.touched[k] = true
					}
				}
				for wk := range w.rel {
					if strings.HasPrefix(wk, k+"|") {
						qr.touched[k] = true
					}
				}
			}
		})
	})
	return qr
}

func (qr *queryResult) only(v int64) bool {
	if qr.oof != "" || qr.leaves == 0 {
		return false
	}
	for k := range qr.results {
		if k != v {
			return false
		}
	}
	return true
}

func (qr *queryResult) describe() string {
	if qr.oof != "" {
		return "out of fragment: " + qr.oof
	}
	s := fmt.Sprintf("%d abstract worlds:", qr.leaves)
	for v, n := range qr.results {
		s += fmt.Sprintf(" result %d in %d (e.g. [%s])", v, n, qr.sample[v])
	}
	return s
}

type elemResult struct {
	oof    string
	ok     bool
	leaves int
	detail string
}

// queryElem: at a generic position of the zip loop over sequence seq where both sides are present,
// a smaller int element must end the comparison with -1.
func (c *aeCtx) queryElem(root *ssa.Function, seq string) *elemResult {
	return c.queryElemBy(root, seq, nil)
}

// queryElemBy: the same for a value derived from the element (pick names the term whose order is
// fixed to "smaller", and terms that must not be the empty string, after a first plain analysis
// has created the terms).
func (c *aeCtx) queryElemBy(root *ssa.Function, seq string, pick func(terms map[string]*termInfo) (string, []string)) *elemResult {
	res := &elemResult{}
	// find the loop that zips seq: run a plain analysis first so that summaries exist
	c.queryPair(root, nil, nil)
	var fn *ssa.Function
	var lp *loop
	for f := range c.p.AllFns {
		if !c.p.IsRepoFn(f) || f.Blocks == nil {
			continue
		}
		for _, l := range c.loopsOf(f) {
			if s, ok := c.lsum[loopID(f, l)]; ok && s.ok {
				for k := range c.terms {
					if strings.HasPrefix(k, "zip:"+loopID(f, l)+"(") && (strings.HasSuffix(k, "("+seq+")") || seq == "") {
						if lp != nil && lp != l {
							res.oof = "several position-wise loops over the same sequence"
							return res
						}
						fn, lp = f, l
					}
				}
			}
		}
	}
	if lp == nil {
		res.oof = "no summarised zip loop over " + seq
		return res
	}
	elem := seq + "[i]"
	var nonEmpty []string
	if pick != nil {
		elem, nonEmpty = pick(c.terms)
		if elem == "" {
			res.oof = "no value parsed from the elements of " + seq + " is compared"
			if os.Getenv("GVDEBUG") != "" {
				for k := range c.terms {
					fmt.Fprintln(os.Stderr, "  qeb term", k)
				}
			}
			return res
		}
	}
	errK := ""
	if strings.HasSuffix(elem, "#0") {
		errK = strings.TrimSuffix(elem, "#0") + "#1"
	}
	saved := c.filter
	c.filter = func(w *world) bool {
		for k, v := range w.pos {
			key := k[:strings.LastIndex(k, "|")]
			if ti := c.terms[key]; ti != nil && ti.kind == akPresence && v != 1 {
				return false
			}
			if errK != "" && key == errK && v != 0 {
				return false
			}
			for _, ne := range nonEmpty {
				if key == ne {
					if ei := poolIndexStr(c.pools[ne], ""); ei >= 0 && v == 2*ei+1 {
						return false
					}
				}
			}
		}
		if v, ok := c.cmpAssigned(w, elem, 0, 1); ok && v != -1 {
			return false
		}
		return true
	}
	defer func() { c.filter = saved }()
	res.ok = true
	touched := false
	res.oof = c.withRetries(root, func() {
		res.leaves = c.explore(2, 200000, func(w *world) {
			o := c.runIter(root, w, 0, 1, fn, lp)
			if os.Getenv("GVDEBUG") == "qeb" {
				fmt.Fprintf(os.Stderr, "  qeb leaf %v <- %s\n", o, w.describe(c.pools, c.terms))
			}
			if o == nil {
				return
			}
			if _, ok := c.cmpAssigned(w, elem, 0, 1); !ok {
				return // element not consulted on this path
			}
			touched = true
			v, why := outcomeValue(o)
			if why != "" || v != -1 {
				res.ok = false
				res.detail = fmt.Sprintf("outcome %s %v in [%s]", o.kind, o.val, w.describe(c.pools, c.terms))
			}
		})
	})
	if !touched && res.oof == "" {
		if os.Getenv("GVDEBUG") != "" {
			fmt.Fprintln(os.Stderr, "  qeb elem", elem, nonEmpty)
			for k := range c.terms {
				fmt.Fprintln(os.Stderr, "  qeb2 term", k)
			}
		}
		res.ok = false
		res.detail = "the element values are never compared"
	}
	return res
}
