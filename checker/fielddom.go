package main

import (
	"go/constant"
	"go/token"
	"go/types"
	"regexp/syntax"
	"sort"
	"strings"

	"golang.org/x/tools/go/ssa"
)

// ---- value domains of struct fields, from their construction sites -------------------------
//
// A string field whose every stored value is a capture group with a finite language
// (gentoo suffix: (alpha|beta|pre|rc|p)) has a closed domain; a field filled through a
// normaliser (maven: normalizeQualifier) can never hold the spellings the normaliser maps
// away. The abstract evaluator uses this to skip abstract worlds no parser can produce.

type fieldDomain struct {
	closed   bool
	allowed  []string // closed: the only possible values
	excluded []string // open: values that cannot occur
}

type fieldOrigin struct {
	t      *types.Named
	f      int
	stored bool // only values that are stored into a container (not by-value temporaries)
}

// fieldDomainFor: the domain that applies to a term key. A key that denotes an element of a stored
// sequence (x.items[i].f) cannot hold the values the code only ever puts into by-value temporaries
// (a sentinel struct literal handed to a comparator).
func (c *aeCtx) fieldDomainFor(key string, o fieldOrigin) *fieldDomain {
	if strings.Contains(key, "[") {
		o.stored = true
	}
	return c.fieldDomain(o)
}

// byValueTemp: the struct written by this store lives in a non-escaping local that is only read
// as a whole value to be passed to calls
func byValueTemp(fa *ssa.FieldAddr) bool {
	al, ok := fa.X.(*ssa.Alloc)
	if !ok || al.Heap {
		return false
	}
	for _, ref := range *al.Referrers() {
		switch x := ref.(type) {
		case *ssa.FieldAddr:
			for _, rr := range *x.Referrers() {
				if st, ok := rr.(*ssa.Store); !ok || st.Addr != x {
					return false
				}
			}
		case *ssa.UnOp:
			for _, rr := range *x.Referrers() {
				if _, ok := rr.(*ssa.Call); !ok {
					return false
				}
			}
		case *ssa.DebugRef:
		default:
			return false
		}
	}
	return true
}

func (c *aeCtx) fieldDomain(o fieldOrigin) *fieldDomain {
	if d, ok := c.fdom[o]; ok {
		return d
	}
	c.fdom[o] = nil
	st, ok := o.t.Underlying().(*types.Struct)
	if !ok || o.f >= st.NumFields() {
		return nil
	}
	ft := st.Field(o.f).Type()
	if !isStringType(ft) {
		if _, isIface := ft.Underlying().(*types.Interface); !isIface {
			return nil
		}
	}
	var dom *fieldDomain
	first := true
	for fn := range c.p.AllFns {
		if !c.p.IsRepoFn(fn) || fn.Blocks == nil || fn.Origin() != nil {
			continue
		}
		for _, blk := range fn.Blocks {
			for _, ins := range blk.Instrs {
				s, ok := ins.(*ssa.Store)
				if !ok {
					continue
				}
				fa, ok := s.Addr.(*ssa.FieldAddr)
				if !ok || fa.Field != o.f {
					continue
				}
				pt, ok := fa.X.Type().Underlying().(*types.Pointer)
				if !ok || !types.Identical(pt.Elem(), o.t) {
					continue
				}
				if o.stored && byValueTemp(fa) {
					continue
				}
				// only string-typed payloads matter for an interface field
				v := s.Val
				if mi, ok := v.(*ssa.MakeInterface); ok {
					if !isStringType(mi.X.Type()) {
						continue
					}
					v = mi.X
				}
				d := c.valueDomain(v, 0)
				if first {
					dom, first = d, false
				} else {
					dom = joinDomain(dom, d)
				}
			}
		}
	}
	if first {
		return nil
	}
	c.fdom[o] = dom
	return dom
}

func joinDomain(a, b *fieldDomain) *fieldDomain {
	if a == nil || b == nil {
		return nil // unknown: anything
	}
	if a.closed && b.closed {
		m := map[string]bool{}
		for _, s := range append(append([]string{}, a.allowed...), b.allowed...) {
			m[s] = true
		}
		return &fieldDomain{closed: true, allowed: keysOf(m)}
	}
	if a.closed {
		a, b = b, a
	}
	// a open
	ex := map[string]bool{}
	for _, s := range a.excluded {
		ex[s] = true
	}
	if b.closed {
		for _, s := range b.allowed {
			delete(ex, s)
		}
	} else {
		bm := map[string]bool{}
		for _, s := range b.excluded {
			bm[s] = true
		}
		for s := range ex {
			if !bm[s] {
				delete(ex, s)
			}
		}
	}
	return &fieldDomain{excluded: keysOf(ex)}
}

func keysOf(m map[string]bool) []string {
	var out []string
	for k := range m {
		out = append(out, k)
	}
	sort.Strings(out)
	return out
}

func (c *aeCtx) valueDomain(v ssa.Value, depth int) *fieldDomain {
	if depth > 6 {
		return nil
	}
	switch x := v.(type) {
	case *ssa.Const:
		if x.Value != nil && x.Value.Kind() == constant.String {
			return &fieldDomain{closed: true, allowed: []string{constant.StringVal(x.Value)}}
		}
	case *ssa.Extract:
		// result k of a repo helper: the join over its returns. A return that reports failure through a
		// constant false in a boolean result is left out when the caller branches on that result.
		call, ok := x.Tuple.(*ssa.Call)
		if !ok {
			return nil
		}
		g := call.Call.StaticCallee()
		if g == nil || !c.p.IsRepoFn(g) || g.Blocks == nil {
			return nil
		}
		okIdx := -1
		for i := 0; i < g.Signature.Results().Len(); i++ {
			if isBoolType(g.Signature.Results().At(i).Type()) {
				for _, ref := range *call.Referrers() {
					if ex, isEx := ref.(*ssa.Extract); isEx && ex.Index == i {
						for _, r2 := range *ex.Referrers() {
							if _, isIf := r2.(*ssa.If); isIf {
								okIdx = i
							}
						}
					}
				}
			}
		}
		var d *fieldDomain
		first := true
		for _, b := range g.Blocks {
			ret, isRet := b.Instrs[len(b.Instrs)-1].(*ssa.Return)
			if !isRet || x.Index >= len(ret.Results) {
				continue
			}
			if okIdx >= 0 {
				if cv, isC := ret.Results[okIdx].(*ssa.Const); isC && cv.Value != nil && cv.Value.Kind() == constant.Bool && !constant.BoolVal(cv.Value) {
					continue
				}
			}
			de := c.valueDomain(ret.Results[x.Index], depth+1)
			if de == nil {
				return nil
			}
			if first {
				d, first = de, false
			} else {
				d = joinDomain(d, de)
			}
		}
		return d
	case *ssa.Parameter:
		// a parameter of a repo helper: the join over every call site (all of them must be resolved)
		fn := x.Parent()
		idx := -1
		for i, q := range fn.Params {
			if q == x {
				idx = i
			}
		}
		n := c.p.CG.Nodes[fn]
		if idx < 0 || n == nil || len(n.In) == 0 || !c.p.IsRepoFn(fn) {
			return nil
		}
		var d *fieldDomain
		for i, ce := range n.In {
			if ce.Site == nil || idx >= len(ce.Site.Common().Args) || ce.Site.Common().IsInvoke() {
				return nil
			}
			de := c.valueDomain(ce.Site.Common().Args[idx], depth+1)
			if de == nil {
				return nil
			}
			if i == 0 {
				d = de
			} else {
				d = joinDomain(d, de)
			}
		}
		return d
	case *ssa.Phi:
		var d *fieldDomain
		for i, e := range x.Edges {
			de := c.valueDomain(e, depth+1)
			if i == 0 {
				d = de
			} else {
				d = joinDomain(d, de)
			}
		}
		return d
	case *ssa.UnOp:
		if x.Op != token.MUL {
			return nil
		}
		if arr, _ := constArrayOf(x); arr != nil {
			// element of a slice literal of constants (for _, op := range operators)
			m := map[string]bool{}
			for _, s := range arr {
				m[s] = true
			}
			return &fieldDomain{closed: true, allowed: keysOf(m)}
		}
		ia, ok := x.X.(*ssa.IndexAddr)
		if !ok {
			return nil
		}
		k, ok := constInt(ia.Index)
		if !ok {
			return nil
		}
		call, ok := ia.X.(*ssa.Call)
		if !ok {
			return nil
		}
		f := call.Call.StaticCallee()
		if f == nil || f.String() != "(*regexp.Regexp).FindStringSubmatch" {
			return nil
		}
		ri := c.p.regexOf(call.Call.Args[0])
		if ri == nil || ri.Err != nil || int(k) > ri.NumSub || k < 1 {
			return nil
		}
		lang, finite := groupLanguage(ri.Re, int(k))
		if !finite {
			if int(k) < len(ri.GroupMust) && ri.GroupMust[k] && ri.GroupMin[k] >= 1 {
				return &fieldDomain{excluded: []string{""}} // a mandatory, non-empty group
			}
			return nil
		}
		m := map[string]bool{"": true} // a group that does not participate yields ""
		for _, s := range lang {
			m[s] = true
		}
		return &fieldDomain{closed: true, allowed: keysOf(m)}
	case *ssa.Call:
		f := x.Call.StaticCallee()
		if f == nil {
			return nil
		}
		switch f.String() {
		case "strings.ToLower", "strings.ToUpper", "strings.TrimSpace":
			d := c.valueDomain(x.Call.Args[0], depth+1)
			if d == nil || !d.closed {
				return nil
			}
			m := map[string]bool{}
			for _, s := range d.allowed {
				switch f.Name() {
				case "ToLower":
					s = strings.ToLower(s)
				case "ToUpper":
					s = strings.ToUpper(s)
				default:
					s = strings.TrimSpace(s)
				}
				m[s] = true
			}
			return &fieldDomain{closed: true, allowed: keysOf(m)}
		}
		if c.p.IsRepoFn(f) && len(f.Params) == 1 && isStringType(f.Params[0].Type()) && f.Signature.Results().Len() == 1 && isStringType(f.Signature.Results().At(0).Type()) {
			if d := c.valueDomain(x.Call.Args[0], depth+1); d != nil && d.closed {
				// image of a finite set under a repo function, by constant evaluation
				m := map[string]bool{}
				ok := true
				for _, s := range d.allowed {
					func() {
						defer func() {
							if e := recover(); e != nil {
								ok = false
							}
						}()
						sub := newAECtx(c.p)
						sub.stageMode = false
						r := &aeRun{ctx: sub, w: newWorld(1)}
						res := r.call(f, []any{avConst{constant.MakeString(s)}})
						if cv, isC := res.(avConst); isC && cv.v.Kind() == constant.String {
							m[constant.StringVal(cv.v)] = true
						} else {
							ok = false
						}
					}()
				}
				if ok {
					return &fieldDomain{closed: true, allowed: keysOf(m)}
				}
			}
			ex := c.producerExclusions(f)
			return &fieldDomain{excluded: ex}
		}
	}
	return nil
}

// groupLanguage: the finite language of capture group k, if it is finite and small.
func groupLanguage(re *syntax.Regexp, k int) ([]string, bool) {
	var grp *syntax.Regexp
	var find func(r *syntax.Regexp)
	find = func(r *syntax.Regexp) {
		if r.Op == syntax.OpCapture && r.Cap == k {
			grp = r.Sub[0]
			return
		}
		for _, s := range r.Sub {
			find(s)
		}
	}
	find(re)
	if grp == nil {
		return nil, false
	}
	return reLanguage(grp)
}

func reLanguage(r *syntax.Regexp) ([]string, bool) {
	switch r.Op {
	case syntax.OpEmptyMatch:
		return []string{""}, true
	case syntax.OpLiteral:
		if r.Flags&syntax.FoldCase != 0 {
			return nil, false
		}
		return []string{string(r.Rune)}, true
	case syntax.OpCharClass:
		var out []string
		for i := 0; i+1 < len(r.Rune); i += 2 {
			for c := r.Rune[i]; c <= r.Rune[i+1]; c++ {
				out = append(out, string(c))
				if len(out) > 8 {
					return nil, false
				}
			}
		}
		return out, true
	case syntax.OpCapture:
		return reLanguage(r.Sub[0])
	case syntax.OpQuest:
		l, ok := reLanguage(r.Sub[0])
		if !ok {
			return nil, false
		}
		return append([]string{""}, l...), true
	case syntax.OpAlternate:
		var out []string
		for _, s := range r.Sub {
			l, ok := reLanguage(s)
			if !ok {
				return nil, false
			}
			out = append(out, l...)
		}
		if len(out) > 64 {
			return nil, false
		}
		return out, true
	case syntax.OpConcat:
		out := []string{""}
		for _, s := range r.Sub {
			l, ok := reLanguage(s)
			if !ok {
				return nil, false
			}
			var nx []string
			for _, a := range out {
				for _, b := range l {
					nx = append(nx, a+b)
				}
			}
			if len(nx) > 64 {
				return nil, false
			}
			out = nx
		}
		return out, true
	}
	return nil, false
}

// producerExclusions: constants the string->string function f tests its (normalised) argument
// against but can never return: on the default path it returns the tested value itself, which
// then differs from every tested constant.
func (c *aeCtx) producerExclusions(f *ssa.Function) []string {
	if ex, ok := c.prodEx[f]; ok {
		return ex
	}
	c.prodEx[f] = nil
	sub := newAECtx(c.p)
	sub.stageMode = false
	image := map[string]bool{}
	var subject string
	ok := true
	run := func() (retry bool) {
		defer func() {
			if e := recover(); e != nil {
				switch x := e.(type) {
				case poolMiss:
					sub.pools[x.key] = poolInsert(sub.pools[x.key], x.c)
					retry = true
				case orderedMiss:
					sub.orderedConst[x.key] = true
					retry = true
				case restartAnalysis:
					retry = true
				default:
					ok = false
				}
			}
		}()
		image = map[string]bool{}
		sub.explore(1, 10000, func(w *world) {
			r := &aeRun{ctx: sub, w: w, ind: [2]int{0, 0}}
			arg := r.mkTerm("p0", 0, f.Params[0].Type(), akOrder, nil)
			res := r.call(f, []any{arg})
			switch v := res.(type) {
			case avConst:
				if v.v.Kind() == constant.String {
					image[constant.StringVal(v.v)] = true
				} else {
					ok = false
				}
			case avTerm:
				if subject != "" && subject != v.key {
					ok = false
				}
				subject = v.key
				if p, assigned := w.pos[posKey(v.key, 0)]; assigned && p%2 == 1 {
					image[constant.StringVal(sub.pools[v.key][p/2])] = true
				}
			default:
				ok = false
			}
		})
		return false
	}
	for i := 0; i < 50 && run(); i++ {
	}
	if !ok || subject == "" {
		return nil
	}
	var ex []string
	for _, cst := range sub.pools[subject] {
		if cst.Kind() == constant.String && !image[constant.StringVal(cst)] {
			ex = append(ex, constant.StringVal(cst))
		}
	}
	sort.Strings(ex)
	c.prodEx[f] = ex
	return ex
}
