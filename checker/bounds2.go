package main

import (
	"go/token"
	"go/types"

	"golang.org/x/tools/go/ssa"
)

// ---- canonicalisation of loads --------------------------------------------------
//
// go/ssa performs no CSE: `len(v.parts)` and `v.parts[i]` load the field twice. Two
// loads of the same access path denote the same value when no store can intervene.
// (a) root is a local Alloc: a load is replaced by the value of the unique Store to
//     that field when the store dominates the load;
// (b) otherwise (parameter, call result, loaded pointer): all loads of root.f are
//     identified, provided this function contains no store through a non-local root
//     (callees write only fresh memory: C19 R-PURE).

type loadKey struct {
	base  ssa.Value
	field int
}

func (f *bpFn) initCanon() {
	f.canonMap = map[ssa.Value]ssa.Value{}
	f.sharedStores = false
	stores := map[loadKey][]*ssa.Store{}
	for _, b := range f.fn.Blocks {
		for _, ins := range b.Instrs {
			if s, ok := ins.(*ssa.Store); ok {
				if fa, ok := s.Addr.(*ssa.FieldAddr); ok {
					stores[loadKey{fa.X, fa.Field}] = append(stores[loadKey{fa.X, fa.Field}], s)
				}
				if _, ok := rootOf(s.Addr).(*ssa.Alloc); !ok {
					if _, isLoad := rootOf(s.Addr).(*ssa.UnOp); !isLoad {
						f.sharedStores = true
					} else {
						// store into an element of a loaded slice (pv.release[i] = x): writes element memory only
						if _, isIdx := s.Addr.(*ssa.IndexAddr); !isIdx {
							f.sharedStores = true
						}
					}
				}
			}
		}
	}
	f.fieldStores = stores
	f.firstLoad = map[loadKey]ssa.Value{}
}

func (f *bpFn) canon(v ssa.Value) ssa.Value {
	if f == nil || f.canonMap == nil {
		return v
	}
	if c, ok := f.canonMap[v]; ok {
		return c
	}
	f.canonMap[v] = v // cycle guard
	c := f.canon1(v)
	f.canonMap[v] = c
	return c
}

func (f *bpFn) canon1(v ssa.Value) ssa.Value {
	u, ok := v.(*ssa.UnOp)
	if !ok || u.Op != token.MUL {
		return v
	}
	if ia, isIA := u.X.(*ssa.IndexAddr); isIA {
		return f.canonElemLoad(u, ia)
	}
	fa, ok := u.X.(*ssa.FieldAddr)
	if !ok {
		return v
	}
	base := f.canon(fa.X)
	if al, ok := base.(*ssa.Alloc); ok {
		// unique dominating store
		var sts []*ssa.Store
		for k, ss := range f.fieldStores {
			if k.field == fa.Field && f.canon(k.base) == al {
				sts = append(sts, ss...)
			}
		}
		if len(sts) == 1 && instrDominates(sts[0], u) && !f.allocAddrStoredElsewhere(al) {
			return f.canon(sts[0].Val)
		}
		return v
	}
	if f.sharedStores {
		return v
	}
	k := loadKey{base, fa.Field}
	if first, ok := f.firstLoad[k]; ok {
		return first
	}
	f.firstLoad[k] = v
	return v
}

// allocAddrStoredElsewhere: whole-struct stores (*alloc = x) defeat field tracking.
func (f *bpFn) allocAddrStoredElsewhere(al *ssa.Alloc) bool {
	for _, ref := range *al.Referrers() {
		if s, ok := ref.(*ssa.Store); ok && s.Addr == al {
			return true
		}
	}
	return false
}

func instrDominates(a, b ssa.Instruction) bool {
	if a.Block() == b.Block() {
		for _, ins := range a.Block().Instrs {
			if ins == a {
				return true
			}
			if ins == b {
				return false
			}
		}
	}
	return a.Block().Dominates(b.Block())
}

// ---- path splitting at merge blocks ----------------------------------------------

// proveSplit: walk up from b through single-predecessor blocks to the nearest merge block
// M and prove the goal separately for every edge into M (edge facts + dominating facts of
// the predecessor), carrying the facts collected between M and b.
func (f *bpFn) proveSplit(b *ssa.BasicBlock, g goal, carry []dfact, carryDq []diseq, hyps []sfact, depth int) bool {
	if depth > 3 {
		return false
	}
	cf := append([]dfact{}, carry...)
	cd := append([]diseq{}, carryDq...)
	x := b
	for len(x.Preds) == 1 {
		p := x.Preds[0]
		if iff, ok := p.Instrs[len(p.Instrs)-1].(*ssa.If); ok {
			if p.Succs[0] == x && p.Succs[1] != x {
				f.condFacts(iff.Cond, true, &cf, &cd)
			} else if p.Succs[1] == x && p.Succs[0] != x {
				f.condFacts(iff.Cond, false, &cf, &cd)
			}
		}
		x = p
	}
	if len(x.Preds) < 2 {
		return false
	}
	for _, p := range x.Preds {
		facts := f.factsAt(p)
		facts = append(facts, usableAt(hyps, p)...)
		dqs := append([]diseq{}, cd...)
		f.edgeFacts(p, x, &facts, &dqs)
		facts = append(facts, cf...)
		// goal terms must be defined on this path: phis of x are substituted
		ng := g
		if entails(facts, dqs, ng) {
			continue
		}
		if x.Dominates(p) {
			return false // back edge: leave loops to the induction machinery
		}
		if !f.proveSplit(p, ng, cf, cd, hyps, depth+1) {
			return false
		}
	}
	return true
}

// ---- struct field length invariants -------------------------------------------------

type fieldKey struct {
	t *types.Named
	f int
}

// fieldLenLB: a lower bound k such that every *T that has left its constructor has
// len(T.f) >= k: every allocation of T stores the field (value proven len >= k at the store)
// before the pointer escapes, every other store to the field satisfies the bound, and no zero
// T is created by value (arrays/slices/maps of T, new(T) without stores).
func (b *bp) fieldLenLB(t *types.Named, fi int) int64 {
	k := fieldKey{t, fi}
	if v, ok := b.fieldLB[k]; ok {
		return v
	}
	b.fieldLB[k] = 0 // in progress / default
	best := int64(-1)
	ok := true
	st, _ := t.Underlying().(*types.Struct)
	if st == nil {
		return 0
	}
	consider := func(v int64) {
		if best < 0 || v < best {
			best = v
		}
	}
	for fn := range b.p.AllFns {
		if !b.p.IsRepoFn(fn) || fn.Blocks == nil {
			continue
		}
		for _, blk := range fn.Blocks {
			for _, ins := range blk.Instrs {
				switch x := ins.(type) {
				case *ssa.Alloc:
					et := x.Type().Underlying().(*types.Pointer).Elem()
					if types.Identical(et, t) {
						// all stores to field fi rooted at this alloc
						lb, good := b.allocFieldLB(fn, x, fi)
						if !good {
							ok = false
						} else {
							consider(lb)
						}
					} else if containsByValue(et, t) {
						ok = false
					}
				case *ssa.MakeSlice:
					if containsByValue(x.Type().Underlying().(*types.Slice).Elem(), t) {
						ok = false
					}
				case *ssa.MakeMap:
					if containsByValue(x.Type().Underlying().(*types.Map).Elem(), t) {
						ok = false
					}
				case *ssa.Store:
					fa, isFA := x.Addr.(*ssa.FieldAddr)
					if !isFA || fa.Field != fi {
						// whole-struct store of a T value
						if types.Identical(x.Val.Type(), t) {
							if _, isAlloc := x.Addr.(*ssa.Alloc); !isAlloc {
								ok = false
							}
						}
						continue
					}
					pt, isPtr := fa.X.Type().Underlying().(*types.Pointer)
					if !isPtr || !types.Identical(pt.Elem(), t) {
						continue
					}
					if _, isAlloc := fa.X.(*ssa.Alloc); isAlloc {
						continue // handled with the alloc
					}
					f := b.forFn(fn)
					consider(f.lenLowerBoundAt(point{blk, 0}, x.Val))
				}
			}
		}
	}
	if !ok || best < 0 {
		best = 0
	}
	b.fieldLB[k] = best
	return best
}

func containsByValue(t types.Type, target *types.Named) bool {
	if types.Identical(t, target) {
		return true
	}
	switch u := t.Underlying().(type) {
	case *types.Array:
		return containsByValue(u.Elem(), target)
	case *types.Struct:
		if n, ok := t.(*types.Named); ok && n == target {
			return true
		}
		for i := 0; i < u.NumFields(); i++ {
			if containsByValue(u.Field(i).Type(), target) {
				return true
			}
		}
	}
	return false
}

// allocFieldLB: for a local allocation of T: min over stores to field fi of the proven
// len lower bound; the alloc may be used as a value (returned, passed, stored) only at
// points dominated by such a store.
func (b *bp) allocFieldLB(fn *ssa.Function, al *ssa.Alloc, fi int) (int64, bool) {
	f := b.forFn(fn)
	var stores []*ssa.Store
	for _, ref := range *al.Referrers() {
		if fa, ok := ref.(*ssa.FieldAddr); ok && fa.Field == fi {
			for _, r2 := range *fa.Referrers() {
				if s, ok := r2.(*ssa.Store); ok && s.Addr == fa {
					stores = append(stores, s)
				}
			}
		}
	}
	if len(stores) == 0 {
		return 0, true // never set: zero length
	}
	best := int64(-1)
	for _, s := range stores {
		lb := f.lenLowerBoundAt(point{s.Block(), 0}, s.Val)
		if best < 0 || lb < best {
			best = lb
		}
	}
	// escapes must be dominated by some store
	for _, ref := range *al.Referrers() {
		switch r := ref.(type) {
		case *ssa.FieldAddr:
			continue
		case *ssa.Store:
			if r.Addr == al {
				return 0, true
			}
		}
		dominated := false
		for _, s := range stores {
			if instrDominates(s, ref) {
				dominated = true
			}
		}
		if !dominated {
			return 0, true
		}
	}
	return best, true
}

// lenLowerBoundAt: largest k in 0..8 with len(v) >= k provable at pt.
func (f *bpFn) lenLowerBoundAt(pt point, v ssa.Value) int64 {
	lt, lo := f.lenTerm(v)
	var best int64
	for k := int64(1); k <= 8; k++ {
		if f.prove(pt, goal{zeroT, lt, lo - k}, nil, 1) {
			best = k
		} else {
			break
		}
	}
	return best
}

// canonElemLoad: two loads m[k] (constant k) of a list that this function received from a call and
// only reads (FindStringSubmatch, Split: never stored into, never handed on) are the same value; the
// later one is represented by the earlier one when that one dominates it.
func (f *bpFn) canonElemLoad(u *ssa.UnOp, ia *ssa.IndexAddr) ssa.Value {
	k, ok := constInt(ia.Index)
	if !ok {
		return u
	}
	m := ia.X
	if _, isCall := m.(*ssa.Call); !isCall {
		return u
	}
	if _, isSlice := m.Type().Underlying().(*types.Slice); !isSlice {
		return u
	}
	refs := m.Referrers()
	if refs == nil {
		return u
	}
	for _, ref := range *refs {
		switch x := ref.(type) {
		case *ssa.IndexAddr:
			for _, r2 := range *x.Referrers() {
				if st, ok := r2.(*ssa.Store); ok && st.Addr == ssa.Value(x) {
					return u
				}
				if _, isLoad := r2.(*ssa.UnOp); !isLoad {
					if _, isDbg := r2.(*ssa.DebugRef); !isDbg {
						return u // the element's address escapes
					}
				}
			}
		case *ssa.BinOp, *ssa.DebugRef:
		case *ssa.Call:
			if b, ok := x.Call.Value.(*ssa.Builtin); !ok || b.Name() != "len" {
				return u
			}
		default:
			return u
		}
	}
	if f.elemLoads == nil {
		f.elemLoads = map[elemKey]*ssa.UnOp{}
	}
	ek := elemKey{m, k}
	if first, ok := f.elemLoads[ek]; ok {
		if first != u && instrDominates(first, u) {
			return first
		}
		if first != u && instrDominates(u, first) {
			f.elemLoads[ek] = u
		}
		return u
	}
	f.elemLoads[ek] = u
	return u
}

type elemKey struct {
	m ssa.Value
	k int64
}
