package main

import (
	"fmt"
	"go/token"
	"go/types"
	"sort"

	"golang.org/x/tools/go/ssa"
)

// ---- natural loops on SSA -------------------------------------------------------

type loop struct {
	fn     *ssa.Function
	header *ssa.BasicBlock
	body   map[*ssa.BasicBlock]bool // includes header
	backs  []*ssa.BasicBlock        // sources of back edges
}

func findLoops(fn *ssa.Function) []*loop {
	by := map[*ssa.BasicBlock]*loop{}
	var order []*loop
	for _, b := range fn.Blocks {
		for _, s := range b.Succs {
			if s.Dominates(b) { // back edge b -> s
				l := by[s]
				if l == nil {
					l = &loop{fn: fn, header: s, body: map[*ssa.BasicBlock]bool{s: true}}
					by[s] = l
					order = append(order, l)
				}
				l.backs = append(l.backs, b)
				// body: all blocks that reach b without passing through header
				var stack []*ssa.BasicBlock
				if !l.body[b] {
					l.body[b] = true
					stack = append(stack, b)
				}
				for len(stack) > 0 {
					x := stack[len(stack)-1]
					stack = stack[:len(stack)-1]
					for _, pr := range x.Preds {
						if !l.body[pr] {
							l.body[pr] = true
							stack = append(stack, pr)
						}
					}
				}
			}
		}
	}
	sort.Slice(order, func(i, j int) bool { return order[i].header.Index < order[j].header.Index })
	return order
}

// irreducible control flow (a cycle not captured by a natural loop) is reported by
// checking that removing back edges leaves an acyclic graph.
func hasIrreducibleCycle(fn *ssa.Function) bool {
	color := map[*ssa.BasicBlock]int{}
	var dfs func(b *ssa.BasicBlock) bool
	dfs = func(b *ssa.BasicBlock) bool {
		color[b] = 1
		for _, s := range b.Succs {
			if s.Dominates(b) {
				continue
			}
			if color[s] == 1 {
				return true
			}
			if color[s] == 0 && dfs(s) {
				return true
			}
		}
		color[b] = 2
		return false
	}
	if len(fn.Blocks) == 0 {
		return false
	}
	return dfs(fn.Blocks[0])
}

func (l *loop) invariant(v ssa.Value) bool {
	switch x := v.(type) {
	case *ssa.Const, *ssa.Parameter, *ssa.FreeVar, *ssa.Global, *ssa.Function:
		return true
	case ssa.Instruction:
		if !l.body[x.Block()] {
			return true
		}
		// pure recomputation of an invariant inside the loop (len(x), x+1, field loads of invariant pointers are NOT
		// accepted: memory may change) — only len/arith of invariants
		switch y := v.(type) {
		case *ssa.Call:
			if b, ok := y.Call.Value.(*ssa.Builtin); ok && (b.Name() == "len" || b.Name() == "cap") {
				return l.invariant(y.Call.Args[0])
			}
		case *ssa.BinOp:
			return l.invariant(y.X) && l.invariant(y.Y)
		case *ssa.Convert:
			return l.invariant(y.X)
		case *ssa.UnOp:
			// a load from memory whose address is invariant, in a loop that performs no store
			// except into its own local allocations (callees write only fresh memory: C19 R-PURE)
			if y.Op == token.MUL && l.invariantAddr(y.X) && l.noSharedStores() && !l.storesTo(rootOf(y.X)) {
				return true
			}
		}
	}
	return false
}

func (l *loop) invariantAddr(v ssa.Value) bool {
	switch x := v.(type) {
	case *ssa.FieldAddr:
		return l.invariant(x.X) || l.invariantAddr(x.X)
	case *ssa.IndexAddr:
		return (l.invariant(x.X) || l.invariantAddr(x.X)) && l.invariant(x.Index)
	case *ssa.Global:
		return true
	}
	return false
}

func (l *loop) storesTo(root ssa.Value) bool {
	for b := range l.body {
		for _, ins := range b.Instrs {
			if s, ok := ins.(*ssa.Store); ok && rootOf(s.Addr) == root {
				return true
			}
		}
	}
	return false
}

func (l *loop) noSharedStores() bool {
	for b := range l.body {
		for _, ins := range b.Instrs {
			switch s := ins.(type) {
			case *ssa.Store:
				if _, ok := rootOf(s.Addr).(*ssa.Alloc); !ok {
					return false
				}
			case *ssa.MapUpdate:
				return false
			}
		}
	}
	return true
}

type mono struct {
	l    *loop
	up   bool // increasing (true) or decreasing
	memo map[[2]ssa.Value]int
}

// step(v, base) reports how v relates to base along any path within one iteration:
// 2 = strictly beyond (v > base when up), 1 = not before (v >= base), 0 = unknown.
func (m *mono) rel(v, base ssa.Value, assume map[ssa.Value]int) int {
	if v == base {
		return 1
	}
	if a, ok := assume[v]; ok {
		return a
	}
	switch x := v.(type) {
	case *ssa.BinOp:
		if x.Op == token.ADD || x.Op == token.SUB {
			c, ok := constInt(x.Y)
			other := x.X
			if !ok && x.Op == token.ADD {
				c, ok = constInt(x.X)
				other = x.Y
			}
			if ok {
				if x.Op == token.SUB {
					c = -c
				}
				if !m.up {
					c = -c
				}
				r := m.rel(other, base, assume)
				if r == 0 {
					return 0
				}
				if c > 0 {
					return 2
				}
				if c == 0 {
					return r
				}
				return 0
			}
		}
	case *ssa.Phi:
		if !m.l.body[x.Block()] {
			return 0
		}
		// coinductive: assume the strongest consistent relation for x itself
		for _, try := range []int{2, 1} {
			a2 := map[ssa.Value]int{}
			for k, v := range assume {
				a2[k] = v
			}
			a2[x] = try
			ok := true
			nonself := false
			for _, e := range x.Edges {
				if e == x {
					continue
				}
				r := m.rel(e, base, a2)
				if r < try {
					ok = false
					break
				}
				if !nonself && m.rel(e, base, assume) >= try {
					nonself = true // grounded: holds without assuming anything about x
				}
			}
			if ok && nonself {
				return try
			}
		}
	case *ssa.Convert:
		return m.rel(x.X, base, assume)
	}
	return 0
}

func dependsOn(v, target ssa.Value, seen map[ssa.Value]bool) bool {
	if v == target {
		return true
	}
	if seen[v] {
		return false
	}
	seen[v] = true
	ins, ok := v.(ssa.Instruction)
	if !ok {
		return false
	}
	for _, op := range ins.Operands(nil) {
		if *op != nil && dependsOn(*op, target, seen) {
			return true
		}
	}
	return false
}

// lenShrinks: for slice/string phi p in the header, every back-edge value is a
// strictly shorter (up=false) or strictly longer (up=true) value derived from p.
func (l *loop) lenRel(v, base ssa.Value, up bool, depth int) int {
	if v == base {
		return 1
	}
	if depth > 6 {
		return 0
	}
	switch x := v.(type) {
	case *ssa.Slice:
		if up {
			return 0
		}
		// x.X[lo:hi]: shorter than X if hi = len(X)-c (c>0) and lo nil, or lo = c>0 and hi nil
		r := l.lenRel(x.X, base, up, depth+1)
		if r == 0 {
			return 0
		}
		if x.Low != nil && x.High == nil {
			if c, ok := constInt(x.Low); ok && c > 0 {
				return 2 // requires len>=c at run time, else panics (bounds prover's job)
			}
		}
		if x.High != nil {
			if b, ok := x.High.(*ssa.BinOp); ok && b.Op == token.SUB {
				if c, ok := constInt(b.Y); ok && c > 0 && isLenOf(b.X, x.X) {
					if x.Low == nil {
						return 2
					}
					if c0, ok := constInt(x.Low); ok && c0 >= 0 {
						return 2
					}
				}
			}
		}
		return r
	case *ssa.Call:
		if b, ok := x.Call.Value.(*ssa.Builtin); ok && b.Name() == "append" && up {
			r := l.lenRel(x.Call.Args[0], base, up, depth+1)
			if r == 0 {
				return 0
			}
			// append(s, elems...) with at least one element: variadic slice arg from a literal of length>=1
			if len(x.Call.Args) == 2 {
				if sl, ok := x.Call.Args[1].(*ssa.Slice); ok {
					if al, ok := sl.X.(*ssa.Alloc); ok {
						if arr, ok := al.Type().Underlying().(*types.Pointer).Elem().Underlying().(*types.Array); ok && arr.Len() >= 1 {
							return 2
						}
					}
				}
				if s, ok := constString(x.Call.Args[1]); ok && len(s) > 0 {
					return 2
				}
			}
			return r
		}
	case *ssa.Phi:
		if !l.body[x.Block()] {
			return 0
		}
		best := 2
		for _, e := range x.Edges {
			if e == x {
				continue
			}
			r := l.lenRel(e, base, up, depth+1)
			if r < best {
				best = r
			}
		}
		return best
	}
	return 0
}

func isLenOf(v, of ssa.Value) bool {
	c, ok := v.(*ssa.Call)
	if !ok {
		return false
	}
	b, ok := c.Call.Value.(*ssa.Builtin)
	return ok && b.Name() == "len" && c.Call.Args[0] == of
}

type loopClass struct {
	class  string // T1..T5 or ""
	reason string
}

// classify one loop; see DESIGN 4.5.
func classifyLoop(l *loop) loopClass {
	// candidate exit tests: If blocks inside the loop with a successor outside, which
	// dominate every back-edge source (so the test is evaluated on every iteration)
	var why []string
	for _, b := range l.fn.Blocks {
		if !l.body[b] {
			continue
		}
		iff, ok := b.Instrs[len(b.Instrs)-1].(*ssa.If)
		if !ok {
			continue
		}
		outT, outF := !l.body[b.Succs[0]], !l.body[b.Succs[1]]
		if outT == outF {
			continue
		}
		domAll := true
		for _, bk := range l.backs {
			if !b.Dominates(bk) {
				domAll = false
			}
		}
		if !domAll {
			continue
		}
		contOnTrue := outF // loop continues when cond is true
		if c := progressCond(l, iff.Cond, contOnTrue); c.class != "" {
			return c
		} else if c.reason != "" {
			why = append(why, c.reason)
		}
	}
	if c := classifyDisjunctive(l); c.class != "" {
		return c
	} else if c.reason != "" {
		why = append(why, c.reason)
	}
	return loopClass{"", fmt.Sprintf("no exit test with a ranking argument found %v", why)}
}

// progressCond: the loop continues only while cond == contOnTrue. Accepts
//
//	x < B, x <= B, x != B (x strictly increasing, B invariant)  and mirrored forms,
//	ok from Next(range iterator), len(p) > k / len(p) < k with p shrinking/growing.
func progressCond(l *loop, cond ssa.Value, contOnTrue bool) loopClass {
	switch c := cond.(type) {
	case *ssa.UnOp:
		if c.Op == token.NOT {
			return progressCond(l, c.X, !contOnTrue)
		}
	case *ssa.Extract:
		if nx, ok := c.Tuple.(*ssa.Next); ok && c.Index == 0 && contOnTrue {
			if rg, ok := nx.Iter.(*ssa.Range); ok && !l.body[rg.Block()] {
				if _, isMap := rg.X.Type().Underlying().(*types.Map); isMap {
					return loopClass{"T1", "range over map (finite; no insertion possible: purity rule)"}
				}
				return loopClass{"T1", "range over string"}
			}
		}
	case *ssa.BinOp:
		op := c.Op
		x, y := c.X, c.Y
		if !contOnTrue {
			switch op {
			case token.LSS:
				op = token.GEQ
			case token.LEQ:
				op = token.GTR
			case token.GTR:
				op = token.LEQ
			case token.GEQ:
				op = token.LSS
			case token.EQL:
				op = token.NEQ
			case token.NEQ:
				op = token.EQL
			}
		}
		// normalise to x (op) y with op in <,<=  (continue while x < y)
		switch op {
		case token.GTR:
			x, y, op = y, x, token.LSS
		case token.GEQ:
			x, y, op = y, x, token.LEQ
		}
		if op != token.LSS && op != token.LEQ {
			return loopClass{"", "exit test is not an ordering comparison"}
		}
		// continue while x < y : either x increases & y invariant, or y decreases & x invariant,
		// or these are lengths of a shrinking/growing sequence
		if l.invariant(y) {
			if r := l.varProgress(x, true); r != "" {
				return loopClass{r, "counter increases on every iteration towards an invariant bound"}
			}
		}
		if l.invariant(x) {
			if r := l.varProgress(y, false); r != "" {
				return loopClass{r, "counter decreases on every iteration towards an invariant bound"}
			}
		}
		return loopClass{"", fmt.Sprintf("comparison %s: neither side is a monotone counter against an invariant", c.String())}
	}
	return loopClass{"", "unrecognised exit condition"}
}

// varProgress: v (an int) strictly moves (up/down) on every iteration.
func (l *loop) varProgress(v ssa.Value, up bool) string {
	// len(p) of a header phi p that strictly grows/shrinks
	if c, ok := v.(*ssa.Call); ok {
		if b, ok := c.Call.Value.(*ssa.Builtin); ok && b.Name() == "len" {
			if ph, ok := c.Call.Args[0].(*ssa.Phi); ok && ph.Block() == l.header {
				okAll := true
				for i, e := range ph.Edges {
					if !l.body[l.header.Preds[i]] {
						continue
					}
					if l.lenRel(e, ph, up, 0) != 2 {
						okAll = false
					}
				}
				if okAll {
					return "T4"
				}
			}
		}
		return ""
	}
	// v = phi (+ const): header phi whose every back-edge value is strictly beyond it
	base := v
	for {
		if b, ok := base.(*ssa.BinOp); ok && (b.Op == token.ADD || b.Op == token.SUB) {
			if _, ok := constInt(b.Y); ok {
				base = b.X
				continue
			}
		}
		if cv, ok := base.(*ssa.Convert); ok {
			base = cv.X
			continue
		}
		break
	}
	ph, ok := base.(*ssa.Phi)
	if !ok || ph.Block() != l.header {
		return ""
	}
	m := &mono{l: l, up: up}
	for i, e := range ph.Edges {
		if !l.body[l.header.Preds[i]] {
			continue
		}
		if m.rel(e, ph, map[ssa.Value]int{}) != 2 {
			return ""
		}
	}
	if hasIndexGuard(l) {
		return "T3"
	}
	return "T2"
}

func hasIndexGuard(l *loop) bool {
	// cosmetic: T3 (cursor loop with a second conjunct) vs T2 (plain counting loop)
	n := 0
	for b := range l.body {
		if _, ok := b.Instrs[len(b.Instrs)-1].(*ssa.If); ok {
			if !l.body[b.Succs[0]] || !l.body[b.Succs[1]] {
				n++
			}
		}
	}
	return n > 1
}

// classifyDisjunctive handles `for i < len(a) || j < len(b) { ... }` scanner loops (T5).
// Ranking function: (len(a)-i) + (len(b)-j). Requirements checked:
//
//	(1) the loop is left when both disjuncts are false; both bounds invariant;
//	(2) on every back edge i' >= i and j' >= j (monotone);
//	(3) progress: for each cursor c with bound B and sequence x: the loop body contains
//	    cursor sub-loops `for c < B && P_k(x[c]) { c++ }` that are executed unconditionally
//	    in sequence, and the disjunction of their guards P_k is a tautology over the
//	    predicate atoms applied to x[c] — so whenever c < B at the top of an iteration at
//	    least one sub-loop advances c before the back edge is reached (or the function
//	    returns).
func classifyDisjunctive(l *loop) loopClass {
	h := l.header
	iff, ok := h.Instrs[len(h.Instrs)-1].(*ssa.If)
	if !ok {
		return loopClass{}
	}
	// header: if d1 goto body else h2 ; h2: if d2 goto body else exit
	if !l.body[h.Succs[0]] || !l.body[h.Succs[1]] {
		return loopClass{}
	}
	h2 := h.Succs[1]
	if len(h2.Instrs) == 0 {
		return loopClass{}
	}
	iff2, ok := h2.Instrs[len(h2.Instrs)-1].(*ssa.If)
	if !ok || h2.Succs[0] != h.Succs[0] || l.body[h2.Succs[1]] {
		return loopClass{"", "header is not a two-way disjunction"}
	}
	type cur struct {
		phi   *ssa.Phi
		bound ssa.Value
	}
	var curs []cur
	for _, cnd := range []ssa.Value{iff.Cond, iff2.Cond} {
		b, ok := cnd.(*ssa.BinOp)
		if !ok || b.Op != token.LSS {
			return loopClass{"", "disjunct is not c < bound"}
		}
		ph, ok := b.X.(*ssa.Phi)
		if !ok || ph.Block() != h || !l.invariant(b.Y) {
			return loopClass{"", "disjunct is not headerphi < invariant"}
		}
		curs = append(curs, cur{ph, b.Y})
	}
	for _, c := range curs {
		m := &mono{l: l, up: true}
		for i, e := range c.phi.Edges {
			if !l.body[h.Preds[i]] {
				continue
			}
			if m.rel(e, c.phi, map[ssa.Value]int{}) < 1 {
				return loopClass{"", "cursor " + c.phi.Comment + " is not monotone on a back edge"}
			}
		}
	}
	// back edges on which some cursor is strictly larger than at the loop head decrease the ranking
	// function directly (i++; j++; continue); the sub-loop argument is needed for the others
	direct := map[*ssa.BasicBlock]bool{}
	for i, pred := range h.Preds {
		if !l.body[pred] {
			continue
		}
		for _, c := range curs {
			m := &mono{l: l, up: true}
			if m.rel(c.phi.Edges[i], c.phi, map[ssa.Value]int{}) == 2 {
				direct[pred] = true
			}
		}
	}
	for _, c := range curs {
		if why := cursorProgress(l, c.phi, c.bound, direct); why != "" {
			return loopClass{"", "cursor " + c.phi.Comment + ": " + why}
		}
	}
	return loopClass{"T5", "two-cursor scanner: both cursors monotone; per cursor the sub-loop guards form a tautology, so one of them advances"}
}

// cursorProgress: find inner loops whose header phi starts (directly or through earlier
// inner loops' exit values) from c and whose guard is `c' < bound && P(x[c'])`;
// collect P as boolean formulas over atoms (callee, or comparison) applied to x[c'] and
// check that the disjunction over the chain is a tautology. The inner loops must be on
// every path from the outer header body entry to each back edge or leave the function.
func cursorProgress(l *loop, c *ssa.Phi, bound ssa.Value, direct map[*ssa.BasicBlock]bool) string {
	inner := findLoops(l.fn)
	type guard struct {
		f   formula
		hdr *ssa.BasicBlock
	}
	var guards []guard
	cur := ssa.Value(c)
	for iter := 0; iter < 8; iter++ {
		found := false
		for _, il := range inner {
			if il.header == l.header || !l.body[il.header] {
				continue
			}
			// header phi of il whose entry edge is cur
			for _, ins := range il.header.Instrs {
				ph, ok := ins.(*ssa.Phi)
				if !ok {
					break
				}
				entryIsCur := false
				for i, e := range ph.Edges {
					if !il.body[il.header.Preds[i]] && e == cur {
						entryIsCur = true
					}
				}
				if !entryIsCur {
					continue
				}
				// il.header: if ph < bound goto g else exit ; g: if P(x[ph]) goto body else exit; body: ph+1
				f, ok := innerGuard(il, ph, bound)
				if !ok {
					return "inner cursor loop has an unrecognised guard"
				}
				// must advance by +1 when the guard holds
				m := &mono{l: il, up: true}
				for i, e := range ph.Edges {
					if il.body[il.header.Preds[i]] && m.rel(e, ph, map[ssa.Value]int{}) != 2 {
						return "inner cursor loop does not advance"
					}
				}
				// the inner loop must be executed on every iteration of the outer loop up to here:
				// its header dominates all outer back edges or every path avoiding it leaves the function
				for _, bk := range l.backs {
					if direct[bk] {
						continue
					}
					if !il.header.Dominates(bk) {
						return "inner cursor loop is not on every path to the back edge"
					}
				}
				guards = append(guards, guard{f, il.header})
				cur = ph
				found = true
			}
		}
		if !found {
			break
		}
	}
	if len(guards) == 0 {
		return "no inner cursor loops found"
	}
	// between consecutive inner loops the cursor must be unchanged (cur chain guarantees it),
	// and the element inspected is x[c] for the same x. Tautology check over atoms.
	atoms := map[string]bool{}
	for _, g := range guards {
		g.f.atoms(atoms)
	}
	var names []string
	for a := range atoms {
		names = append(names, a)
	}
	sort.Strings(names)
	if len(names) > 10 {
		return "too many atoms"
	}
	for mask := 0; mask < 1<<len(names); mask++ {
		val := map[string]bool{}
		for i, n := range names {
			val[n] = mask&(1<<i) != 0
		}
		any := false
		for _, g := range guards {
			if g.f.eval(val) {
				any = true
			}
		}
		if !any {
			return fmt.Sprintf("guards are not exhaustive: no sub-loop advances when %v", val)
		}
	}
	return ""
}

type formula interface {
	eval(map[string]bool) bool
	atoms(map[string]bool)
}
type fAtom string
type fNot struct{ x formula }
type fAnd struct{ a, b formula }

func (a fAtom) eval(m map[string]bool) bool { return m[string(a)] }
func (a fAtom) atoms(m map[string]bool)     { m[string(a)] = true }
func (n fNot) eval(m map[string]bool) bool  { return !n.x.eval(m) }
func (n fNot) atoms(m map[string]bool)      { n.x.atoms(m) }
func (n fAnd) eval(m map[string]bool) bool  { return n.a.eval(m) && n.b.eval(m) }
func (n fAnd) atoms(m map[string]bool)      { n.a.atoms(m); n.b.atoms(m) }

type fTrue struct{}

func (fTrue) eval(map[string]bool) bool { return true }
func (fTrue) atoms(map[string]bool)     {}

// innerGuard extracts the element predicate of `for ph < bound && P(x[ph])`.
func innerGuard(il *loop, ph *ssa.Phi, bound ssa.Value) (formula, bool) {
	h := il.header
	iff, ok := h.Instrs[len(h.Instrs)-1].(*ssa.If)
	if !ok {
		return nil, false
	}
	b, ok := iff.Cond.(*ssa.BinOp)
	if !ok || b.Op != token.LSS || b.X != ph || !sameLen(b.Y, bound) {
		return nil, false
	}
	if il.body[h.Succs[1]] {
		return nil, false
	}
	var f formula = fTrue{}
	cur := h.Succs[0]
	for steps := 0; steps < 6; steps++ {
		if !il.body[cur] {
			return nil, false
		}
		iff2, ok := cur.Instrs[len(cur.Instrs)-1].(*ssa.If)
		if !ok {
			// reached the body (Jump back)
			return f, true
		}
		t, e := cur.Succs[0], cur.Succs[1]
		g, ok := elemFormula(iff2.Cond, ph)
		if !ok {
			return nil, false
		}
		switch {
		case il.body[t] && !il.body[e]:
			f = fAnd{f, g}
			cur = t
		case !il.body[t] && il.body[e]:
			f = fAnd{f, fNot{g}}
			cur = e
		default:
			return nil, false
		}
	}
	return nil, false
}

func sameLen(a, b ssa.Value) bool {
	if a == b {
		return true
	}
	ca, ok1 := a.(*ssa.Call)
	cb, ok2 := b.(*ssa.Call)
	if ok1 && ok2 {
		ba, ok3 := ca.Call.Value.(*ssa.Builtin)
		bb, ok4 := cb.Call.Value.(*ssa.Builtin)
		if ok3 && ok4 && ba.Name() == "len" && bb.Name() == "len" {
			return ca.Call.Args[0] == cb.Call.Args[0]
		}
	}
	return false
}

// elemFormula: cond is a boolean function of x[ph] only: calls with that single argument
// (atoms named by callee), comparisons of it with constants, and !, folded to a formula.
func elemFormula(v ssa.Value, ph *ssa.Phi) (formula, bool) {
	switch x := v.(type) {
	case *ssa.UnOp:
		if x.Op == token.NOT {
			f, ok := elemFormula(x.X, ph)
			return fNot{f}, ok
		}
	case *ssa.Call:
		if f := x.Call.StaticCallee(); f != nil && len(x.Call.Args) == 1 && isElemOf(x.Call.Args[0], ph) {
			return fAtom(f.String()), true
		}
	case *ssa.BinOp:
		if isElemOf(x.X, ph) {
			if c, ok := x.Y.(*ssa.Const); ok {
				switch x.Op {
				case token.EQL:
					return fAtom("==" + c.String()), true
				case token.NEQ:
					return fNot{fAtom("==" + c.String())}, true
				}
			}
		}
	case *ssa.Phi:
		// short-circuit results are not folded here
	}
	return nil, false
}

func isElemOf(v ssa.Value, ph *ssa.Phi) bool {
	for {
		switch x := v.(type) {
		case *ssa.Convert:
			v = x.X
			continue
		case *ssa.ChangeType:
			v = x.X
			continue
		case *ssa.Lookup:
			return x.Index == ph
		case *ssa.UnOp:
			if x.Op == token.MUL {
				if ia, ok := x.X.(*ssa.IndexAddr); ok {
					return ia.Index == ph
				}
			}
			return false
		case *ssa.Index:
			return x.Index == ph
		}
		return false
	}
}

// ---- R-TERM ----------------------------------------------------------------------

func ruleTerm(p *Prog, r *Report) {
	roots := append(p.LibraryRoots(), p.CLIRoots()...)
	fns := p.RepoReachable(roots...)
	census := map[string]int{}
	nf := 0
	for _, f := range p.Representatives(fns) {
		nf++
		fk := p.FnKey(f)
		if hasIrreducibleCycle(f) {
			r.Und("R-TERM", fk+": irreducible control flow", p.FnPos(f), "cycle that is not a natural loop")
		}
		for i, l := range findLoops(f) {
			c := classifyLoop(l)
			pos := loopPos(p, l)
			key := fmt.Sprintf("%s: loop#%d %s", fk, i+1, loopDesc(l))
			if c.class == "" {
				r.Bad("R-TERM", key, pos, "loop not in a terminating class (T1 range, T2 counting, T3 cursor, T4 shrink/grow, T5 two-cursor scanner): "+c.reason)
			} else {
				census[c.class]++
				r.Ok("R-TERM", key, pos, c.class+": "+c.reason)
			}
		}
	}
	// recursion: the repo call graph must be acyclic, except for guarded self-calls on split pieces
	ruleRecursion(p, r, fns)
	r.Extra["loop_census"] = census
	r.Floor("R-TERM", 120)
}

func loopPos(p *Prog, l *loop) string {
	for _, ins := range l.header.Instrs {
		if ins.Pos().IsValid() {
			return p.Pos(ins.Pos())
		}
	}
	for b := range l.body {
		for _, ins := range b.Instrs {
			if ins.Pos().IsValid() {
				return p.Pos(ins.Pos())
			}
		}
	}
	return p.FnPos(l.fn)
}

func loopDesc(l *loop) string {
	// name the header phis (source variable names): stable across line moves
	var names []string
	for _, ins := range l.header.Instrs {
		if ph, ok := ins.(*ssa.Phi); ok {
			if ph.Comment != "" {
				names = append(names, ph.Comment)
			}
		} else {
			break
		}
	}
	return fmt.Sprintf("%s%v", l.header.Comment, names)
}

func ruleRecursion(p *Prog, r *Report, fns []*ssa.Function) {
	set := map[*ssa.Function]bool{}
	for _, f := range fns {
		set[f] = true
	}
	// Tarjan SCC over repo functions using static + resolved edges
	index := 0
	idx := map[*ssa.Function]int{}
	low := map[*ssa.Function]int{}
	on := map[*ssa.Function]bool{}
	var stack []*ssa.Function
	var sccs [][]*ssa.Function
	succs := func(f *ssa.Function) []*ssa.Function {
		var out []*ssa.Function
		if n := p.CG.Nodes[f]; n != nil {
			for _, e := range n.Out {
				if set[e.Callee.Func] {
					out = append(out, e.Callee.Func)
				}
			}
		}
		return out
	}
	var strong func(f *ssa.Function)
	strong = func(f *ssa.Function) {
		idx[f] = index
		low[f] = index
		index++
		stack = append(stack, f)
		on[f] = true
		for _, g := range succs(f) {
			if _, seen := idx[g]; !seen {
				strong(g)
				if low[g] < low[f] {
					low[f] = low[g]
				}
			} else if on[g] && idx[g] < low[f] {
				low[f] = idx[g]
			}
		}
		if low[f] == idx[f] {
			var scc []*ssa.Function
			for {
				g := stack[len(stack)-1]
				stack = stack[:len(stack)-1]
				on[g] = false
				scc = append(scc, g)
				if g == f {
					break
				}
			}
			selfLoop := false
			for _, g := range succs(f) {
				if g == f {
					selfLoop = true
				}
			}
			if len(scc) > 1 || selfLoop {
				sccs = append(sccs, scc)
			}
		}
	}
	for _, f := range fns {
		if _, seen := idx[f]; !seen {
			strong(f)
		}
	}
	r.Ok("R-TERM-REC", "call graph scanned for cycles", "-", fmt.Sprintf("%d recursive components among %d reachable functions", len(sccs), len(fns)))
	for _, scc := range sccs {
		if len(scc) == 1 {
			f := scc[0]
			if why := guardedSplitRecursion(p, f); why == "" {
				r.Ok("R-TERM-REC", p.FnKey(f)+": self-recursion", p.FnPos(f), "self-call only on an element of strings.Split(x, K) under strings.Contains(x, K): the pieces contain no K, so depth <= 2")
				continue
			} else {
				r.Bad("R-TERM-REC", p.FnKey(f)+": self-recursion", p.FnPos(f), "recursive call without a recognised well-founded guard: "+why)
				continue
			}
		}
		var names []string
		for _, f := range scc {
			names = append(names, p.FnKey(f))
		}
		sort.Strings(names)
		r.Bad("R-TERM-REC", fmt.Sprintf("mutual recursion %v", names), p.FnPos(scc[0]), "cycle in the call graph with no ranking argument")
	}
}

// guardedSplitRecursion: every self-call f(..., piece, ...) passes, for some string
// parameter position k, an element (range value / index) of strings.Split(p_k', K) where
// the call is dominated by the true edge of strings.Contains(p_k', K) with the same
// constant K and p_k' derives from parameter k by trimming only. Pieces of Split(x,K)
// do not contain K, so the recursive activation fails the guard: depth <= 2.
func guardedSplitRecursion(p *Prog, f *ssa.Function) string {
	for _, b := range f.Blocks {
		for _, ins := range b.Instrs {
			call, ok := ins.(*ssa.Call)
			if !ok || call.Call.StaticCallee() != f {
				continue
			}
			okCall := false
			for ai, arg := range call.Call.Args {
				if ai >= len(f.Params) {
					break
				}
				sp, K := splitElement(arg)
				if sp == nil {
					continue
				}
				// guard: an If on strings.Contains(x, K) (true edge) dominating b with x == split source
				if !dominatedByContains(b, sp.Call.Args[0], K) {
					continue
				}
				// the callee's guard must test the same parameter position: Contains(param_ai-derived, K) dominates every self call
				if !derivesFromParam(sp.Call.Args[0], f.Params[ai]) {
					continue
				}
				okCall = true
			}
			if !okCall {
				return "self-call at " + p.Pos(call.Pos()) + " does not pass a Split piece under a Contains guard"
			}
		}
	}
	return ""
}

func splitElement(v ssa.Value) (*ssa.Call, string) {
	for depth := 0; depth < 6; depth++ {
		switch x := v.(type) {
		case *ssa.UnOp:
			if x.Op == token.MUL {
				if ia, ok := x.X.(*ssa.IndexAddr); ok {
					v = ia.X
					continue
				}
			}
			return nil, ""
		case *ssa.Call:
			if f := x.Call.StaticCallee(); f != nil {
				switch f.String() {
				case "strings.TrimSpace":
					v = x.Call.Args[0]
					continue
				case "strings.Split":
					if k, ok := constString(x.Call.Args[1]); ok && k != "" {
						return x, k
					}
				}
			}
			return nil, ""
		default:
			return nil, ""
		}
	}
	return nil, ""
}

func dominatedByContains(b *ssa.BasicBlock, x ssa.Value, K string) bool {
	for d := b; d != nil; d = d.Idom() {
		id := d.Idom()
		if id == nil {
			break
		}
		iff, ok := id.Instrs[len(id.Instrs)-1].(*ssa.If)
		if !ok {
			continue
		}
		c, ok := iff.Cond.(*ssa.Call)
		if !ok {
			continue
		}
		f := c.Call.StaticCallee()
		if f == nil || f.String() != "strings.Contains" {
			continue
		}
		k, ok := constString(c.Call.Args[1])
		if !ok || k != K || c.Call.Args[0] != x {
			continue
		}
		if id.Succs[0] == d && len(d.Preds) == 1 {
			return true
		}
	}
	return false
}

func derivesFromParam(v ssa.Value, par *ssa.Parameter) bool {
	for depth := 0; depth < 6; depth++ {
		if v == par {
			return true
		}
		c, ok := v.(*ssa.Call)
		if !ok {
			return false
		}
		f := c.Call.StaticCallee()
		if f == nil || f.String() != "strings.TrimSpace" {
			return false
		}
		v = c.Call.Args[0]
	}
	return false
}

func init() {
	register("C06", "", ruleTerm)
}
