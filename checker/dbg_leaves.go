package main

import (
	"fmt"
	"os"
	"sort"
	"strings"
)

// debug aid: GVCHECK_LEAVES=<pkg.func> dumps the decision table of a two-operand comparator
func dumpLeaves(p *Prog) {
	want := os.Getenv("GVCHECK_LEAVES")
	if want == "" {
		return
	}
	for fn := range p.AllFns {
		if !p.IsRepoFn(fn) || fn.Blocks == nil || !strings.HasSuffix(p.FnKey(fn), want) {
			continue
		}
		c := newAECtx(p)
		c.stageMode = os.Getenv("GVCHECK_LEAVES_STAGE") != ""
		var rows []string
		oof := c.withRetries(fn, func() {
			rows = nil
			c.explore(2, 100000, func(w *world) {
				v := c.runPair(fn, w, 0, 1, nil)
				rows = append(rows, fmt.Sprintf("%d <- %s", v, w.describe(c.pools, c.terms)))
			})
		})
		sort.Strings(rows)
		fmt.Fprintf(os.Stderr, "LEAVES %s oof=%q n=%d\n", p.FnKey(fn), oof, len(rows))
		for _, r := range rows {
			fmt.Fprintln(os.Stderr, "  ", r)
		}
		var tk []string
		for k, ti := range c.terms {
			tk = append(tk, fmt.Sprintf("%s kind=%d base=%v pool=%v", k, ti.kind, ti.base, c.pools[k]))
		}
		sort.Strings(tk)
		for _, k := range tk {
			fmt.Fprintln(os.Stderr, "   term", k)
		}
	}
}
