package main

// c17c.go: two more must-pass parts of C17.
//
// R-VERS-NORM-ALL. normalizeConstraints is the step that hands every constraint's version to the scheme's
// ecosystem; R-VERS-MUSTPASS relies on it. A return with a nil error from it must therefore lie behind the
// loop over the whole constraint parameter that contains the NewVersion call (or behind the test that the
// list is empty): a shortcut, a memo hit or a return from inside the loop answers for constraints nobody
// has looked at.
//
// R-VERS-SPLIT. The constraint list an evaluator receives from vers.Contains is the text after the first
// '/' of the range, split at '|' and at nothing else: a second separator makes "a constraint without a
// comparator" ("/>=1.0") or a version the ecosystem rejects ("1.0/") disappear before anybody validates it.
//
// Decided: those two structural conditions, not the behaviour of the loop body (R-VERS-REJECT looks at it).

import (
	"fmt"
	"go/token"
	"sort"

	"golang.org/x/tools/go/ssa"
)

func ruleVersNormAll(p *Prog, r *Report) {
	key := "vers.normalizeConstraints: an error-free return has examined every constraint"
	nc := versFunc(p, "normalizeConstraints")
	if nc == nil {
		r.Und("R-VERS-NORM-ALL", key, "-", "normalizeConstraints not found")
		return
	}
	insts := instancesOf(p, nc)
	if len(insts) == 0 {
		r.Und("R-VERS-NORM-ALL", key, p.FnPos(nc), "no instance of normalizeConstraints")
		return
	}
	fn := insts[0]
	var par *ssa.Parameter
	for _, q := range fn.Params {
		if isStringSlice(q.Type()) {
			par = q
		}
	}
	if par == nil {
		r.Und("R-VERS-NORM-ALL", key, p.FnPos(nc), "no []string parameter")
		return
	}
	var calls []*ssa.Call
	for _, b := range fn.Blocks {
		for _, ins := range b.Instrs {
			c, ok := ins.(*ssa.Call)
			if !ok {
				continue
			}
			name := ""
			if c.Call.IsInvoke() {
				name = c.Call.Method.Name()
			} else if g := c.Call.StaticCallee(); g != nil && g.Signature.Recv() != nil {
				name = g.Name()
			}
			if name == "NewVersion" {
				calls = append(calls, c)
			} else if g := c.Call.StaticCallee(); g != nil && p.IsRepoFn(g) && callsNewVersion(p, g, 0) {
				// the per-constraint work extracted into a helper of the package: its call stands for the validation
				calls = append(calls, c)
			}
		}
	}
	if len(calls) == 0 {
		r.Bad("R-VERS-NORM-ALL", key, p.FnPos(nc), "normalizeConstraints does not hand any constraint version to the ecosystem's NewVersion")
		return
	}
	// the outermost loop around a NewVersion call
	var L *loop
	for _, l := range findLoops(fn) {
		has := false
		for _, c := range calls {
			has = has || l.body[c.Block()]
		}
		if has && (L == nil || len(l.body) > len(L.body)) {
			L = l
		}
	}
	if L == nil {
		r.Bad("R-VERS-NORM-ALL", key, p.FnPos(nc), "the call of NewVersion is not inside a loop over the constraints: at most one constraint is validated")
		return
	}
	// the loop runs over the whole parameter: its header leaves on  i < len(constraints)
	ranged := false
	if iff, ok := L.header.Instrs[len(L.header.Instrs)-1].(*ssa.If); ok {
		if bo, ok := iff.Cond.(*ssa.BinOp); ok && bo.Op == token.LSS && isLenOf(bo.Y, par) {
			if L.body[L.header.Succs[0]] && !L.body[L.header.Succs[1]] {
				ranged = true
			}
		}
	}
	if !ranged {
		r.Und("R-VERS-NORM-ALL", key, p.Pos(L.header.Instrs[0].Pos()), "the loop that validates the versions is not recognised as a loop over the whole constraint parameter (index below len(constraints))")
		return
	}
	emptyList := func(b *ssa.BasicBlock) bool {
		return domEdges(b, func(cond ssa.Value, tv bool) bool {
			bo, ok := cond.(*ssa.BinOp)
			if !ok || !isLenOf(bo.X, par) {
				return false
			}
			z, ok := constInt(bo.Y)
			if !ok {
				return false
			}
			switch {
			case bo.Op == token.EQL && z == 0, bo.Op == token.LSS && z == 1, bo.Op == token.LEQ && z == 0:
				return tv
			case bo.Op == token.NEQ && z == 0, bo.Op == token.GTR && z == 0, bo.Op == token.GEQ && z == 1:
				return !tv
			}
			return false
		})
	}
	var bad []string
	n := 0
	for _, b := range nilReturnBlocks(fn) {
		n++
		ret := b.Instrs[len(b.Instrs)-1]
		switch {
		case L.body[b]:
			bad = append(bad, fmt.Sprintf("%s: returns without an error from inside the loop over the constraints: the remaining constraints are not examined", p.Pos(ret.Pos())))
		case L.header.Dominates(b):
		case emptyList(b):
		default:
			bad = append(bad, fmt.Sprintf("%s: returns without an error on a path that does not run the loop in which the scheme's ecosystem validates each constraint's version (a shortcut or a remembered answer): a constraint with a version the ecosystem rejects is then accepted", p.Pos(ret.Pos())))
		}
	}
	sort.Strings(bad)
	switch {
	case len(bad) > 0:
		r.Bad("R-VERS-NORM-ALL", key, p.FnPos(nc), bad[0])
	case n == 0:
		r.Und("R-VERS-NORM-ALL", key, p.FnPos(nc), "no error-free return found")
	default:
		r.Ok("R-VERS-NORM-ALL", key, p.FnPos(nc), fmt.Sprintf("all %d error-free returns lie behind the loop over the constraint parameter that calls NewVersion, or behind the test that the list is empty", n))
	}
	r.Floor("R-VERS-NORM-ALL", 1)
}

// callsNewVersion: g (or a repo function it calls, two levels deep) hands a text to an ecosystem's NewVersion
func callsNewVersion(p *Prog, g *ssa.Function, depth int) bool {
	if g.Blocks == nil || depth > 2 {
		return false
	}
	for _, b := range g.Blocks {
		for _, ins := range b.Instrs {
			c, ok := ins.(*ssa.Call)
			if !ok {
				continue
			}
			if c.Call.IsInvoke() {
				if c.Call.Method.Name() == "NewVersion" {
					return true
				}
				continue
			}
			h := c.Call.StaticCallee()
			if h == nil {
				continue
			}
			if h.Signature.Recv() != nil && h.Name() == "NewVersion" {
				return true
			}
			if p.IsRepoFn(h) && callsNewVersion(p, h, depth+1) {
				return true
			}
		}
	}
	return false
}

// afterFirstSlash: v is the text of range parameter rng after its first '/'. "" = yes, otherwise why not.
func afterFirstSlash(v ssa.Value, rng ssa.Value, depth int) string {
	if depth > 6 {
		return "too deep"
	}
	isRange := func(y ssa.Value) bool {
		// the range itself or the range without its "vers:" prefix (which holds no '/')
		for k := 0; k < 3; k++ {
			if y == rng {
				return true
			}
			switch x := y.(type) {
			case *ssa.Slice:
				if x.High != nil {
					return false
				}
				if x.Low != nil {
					if lo, ok := constInt(x.Low); !ok || lo < 0 || lo > 5 {
						return false
					}
				}
				y = x.X
			case *ssa.Call:
				f := x.Call.StaticCallee()
				if f == nil || extName(f) != "strings.TrimPrefix" {
					return false
				}
				if s, ok := constString(x.Call.Args[1]); !ok || s != "vers:" {
					return false
				}
				y = x.Call.Args[0]
			default:
				return false
			}
		}
		return false
	}
	if ex, ok := v.(*ssa.Extract); ok && cutPart(v, 1) {
		c := ex.Tuple.(*ssa.Call)
		if isRange(c.Call.Args[0]) {
			return ""
		}
		return "strings.Cut is not applied to the range"
	}
	if u, ok := v.(*ssa.UnOp); ok && u.Op == token.MUL {
		ia, ok := u.X.(*ssa.IndexAddr)
		if !ok {
			return "not an element of a split of the range"
		}
		if i, ok := constInt(ia.Index); !ok || i != 1 {
			return "not element 1 of the split at '/'"
		}
		c, ok := ia.X.(*ssa.Call)
		if !ok {
			return "not an element of a split of the range"
		}
		f := c.Call.StaticCallee()
		if f == nil || extName(f) != "strings.SplitN" {
			return "not an element of strings.SplitN"
		}
		sep, _ := constString(c.Call.Args[1])
		cnt, _ := constInt(c.Call.Args[2])
		if sep != "/" || cnt != 2 {
			return fmt.Sprintf("the range is split with SplitN(_, %q, %d), not at its first '/'", sep, cnt)
		}
		if isRange(c.Call.Args[0]) {
			return ""
		}
		return "strings.SplitN is not applied to the range"
	}
	if sl, ok := v.(*ssa.Slice); ok && sl.High == nil && sl.Low != nil {
		// y[strings.Index(y, "/")+1:]
		bo, ok := sl.Low.(*ssa.BinOp)
		if ok && bo.Op == token.ADD {
			if one, ok := constInt(bo.Y); ok && one == 1 {
				if c, ok := bo.X.(*ssa.Call); ok {
					f := c.Call.StaticCallee()
					if f != nil && (extName(f) == "strings.Index" || extName(f) == "strings.IndexByte") && c.Call.Args[0] == sl.X && isRange(sl.X) {
						if s, ok := constString(c.Call.Args[1]); ok && s == "/" {
							return ""
						}
						if ch, ok := constInt(c.Call.Args[1]); ok && ch == '/' {
							return ""
						}
					}
				}
			}
		}
		return "a slice of the range that is not recognised as the part after its first '/'"
	}
	return fmt.Sprintf("%T is not recognised as the part of the range after its first '/'", v)
}

// runesComparedIn: the rune constants a func(rune) bool compares its parameter with
func runesComparedIn(fv ssa.Value) ([]int64, bool) {
	var f *ssa.Function
	switch x := fv.(type) {
	case *ssa.Function:
		f = x
	case *ssa.MakeClosure:
		f, _ = x.Fn.(*ssa.Function)
	}
	if f == nil || len(f.Params) != 1 || len(f.Blocks) == 0 {
		return nil, false
	}
	set := map[int64]bool{}
	for _, b := range f.Blocks {
		for _, ins := range b.Instrs {
			switch x := ins.(type) {
			case *ssa.BinOp:
				if x.X != ssa.Value(f.Params[0]) || (x.Op != token.EQL && x.Op != token.NEQ) {
					return nil, false
				}
				c, ok := constInt(x.Y)
				if !ok {
					return nil, false
				}
				set[c] = true
			case *ssa.If, *ssa.Jump, *ssa.Return, *ssa.Phi, *ssa.DebugRef:
			default:
				return nil, false
			}
		}
	}
	var out []int64
	for c := range set {
		out = append(out, c)
	}
	sort.Slice(out, func(i, j int) bool { return out[i] < out[j] })
	return out, true
}

func ruleVersSplit(p *Prog, r *Report) {
	key := "vers.Contains: the evaluator receives the text after the first '/' split at '|' only"
	contains := versFunc(p, "Contains")
	if contains == nil || len(contains.Params) != 2 {
		r.Und("R-VERS-SPLIT", key, "-", "vers.Contains not found")
		return
	}
	rng := ssa.Value(contains.Params[0])
	// the forwarded evaluator calls
	var lists []ssa.Value
	var at []token.Pos
	for _, b := range contains.Blocks {
		ret, isRet := b.Instrs[len(b.Instrs)-1].(*ssa.Return)
		if !isRet || len(ret.Results) != 2 {
			continue
		}
		ex, ok := ret.Results[0].(*ssa.Extract)
		if !ok {
			continue
		}
		call, ok := ex.Tuple.(*ssa.Call)
		if !ok || len(call.Call.Args) < 2 || call.Call.IsInvoke() || !isStringSlice(call.Call.Args[0].Type()) {
			continue
		}
		lists = append(lists, call.Call.Args[0])
		at = append(at, call.Pos())
	}
	if len(lists) == 0 {
		r.Und("R-VERS-SPLIT", key, p.FnPos(contains), "no forwarded call of an evaluator with a constraint list found")
		return
	}
	var bad, und []string
	var check func(v ssa.Value, pos token.Pos, depth int)
	check = func(v ssa.Value, pos token.Pos, depth int) {
		if ph, ok := v.(*ssa.Phi); ok && depth < 3 {
			for _, e := range ph.Edges {
				check(e, pos, depth+1)
			}
			return
		}
		c, ok := v.(*ssa.Call)
		if !ok {
			und = append(und, fmt.Sprintf("%s: the constraint list is a %T, not the result of a split", p.Pos(pos), v))
			return
		}
		f := c.Call.StaticCallee()
		name := ""
		if f != nil {
			name = extName(f)
		}
		var text ssa.Value
		switch name {
		case "strings.Split":
			if sep, ok := constString(c.Call.Args[1]); !ok || sep != "|" {
				bad = append(bad, fmt.Sprintf("%s: the constraints are split at %q, not at '|'", p.Pos(c.Pos()), sep))
				return
			}
			text = c.Call.Args[0]
		case "strings.SplitN":
			sep, _ := constString(c.Call.Args[1])
			cnt, okc := constInt(c.Call.Args[2])
			if sep != "|" || !okc || cnt >= 0 {
				bad = append(bad, fmt.Sprintf("%s: the constraints are split with SplitN(_, %q, %d): not every '|' separates two constraints", p.Pos(c.Pos()), sep, cnt))
				return
			}
			text = c.Call.Args[0]
		case "strings.FieldsFunc":
			rs, ok := runesComparedIn(c.Call.Args[1])
			if !ok {
				und = append(und, fmt.Sprintf("%s: the separator function of FieldsFunc is not a comparison of the rune with constants", p.Pos(c.Pos())))
				return
			}
			for _, x := range rs {
				if x != '|' {
					bad = append(bad, fmt.Sprintf("%s: the constraints are also separated at %q: a constraint that holds this character (no comparator in front of what follows it, or a version the ecosystem rejects) is taken apart instead of being rejected", p.Pos(c.Pos()), rune(x)))
					return
				}
			}
			if len(rs) == 0 {
				bad = append(bad, fmt.Sprintf("%s: the constraints are not separated at '|'", p.Pos(c.Pos())))
				return
			}
			text = c.Call.Args[0]
		default:
			und = append(und, fmt.Sprintf("%s: the constraint list comes from %s, which is not a recognised split at '|'", p.Pos(c.Pos()), calleeLabel(c)))
			return
		}
		if why := afterFirstSlash(text, rng, 0); why != "" {
			und = append(und, fmt.Sprintf("%s: what is split at '|': %s", p.Pos(c.Pos()), why))
		}
	}
	for i, v := range lists {
		check(v, at[i], 0)
	}
	sort.Strings(bad)
	sort.Strings(und)
	switch {
	case len(bad) > 0:
		r.Bad("R-VERS-SPLIT", key, p.FnPos(contains), bad[0])
	case len(und) > 0:
		r.Und("R-VERS-SPLIT", key, p.FnPos(contains), und[0])
	default:
		r.Ok("R-VERS-SPLIT", key, p.FnPos(contains), fmt.Sprintf("%d forwarded evaluator call(s): the list is the part of the range after its first '/', split at '|'", len(lists)))
	}
	r.Floor("R-VERS-SPLIT", 1)
}

func init() {
	register("C17", "", ruleVersNormAll, ruleVersSplit)
}
