package main

import (
	"fmt"
	"go/types"
	"sort"
	"strings"

	"golang.org/x/tools/go/ssa"
)

// c20b.go: R-FIELD-PREFIX, a necessary condition of convexity for range predicates that read order
// fields of the probe directly (the field-equality shorthands: carets, tildes, prefix matches).
//
// Compare consults the order fields in a fixed precedence (epoch before release, major before minor ...),
// which is read off its decision table: field f outranks field g when "x.f < y.f, x.g > y.g, all else
// equal" always gives -1. A predicate whose verdict depends on g but, on the same paths, on nothing that
// Compare consults before g cannot be convex: take a in the range, b out of it differing from a in g only,
// give b an f between the f of a and of a copy c of a with a larger f - then a < b < c with a and c
// inside and b outside. So on every path through a direct read of probe.g, for every field f that
// outranks g, the function must also read probe.f or compare the probe (Compare reads everything).
// Reads inside a helper that receives the probe count at the helper's call sites as well.
//
// Decided: that part only. It does not decide that a predicate reading the right fields is convex.

type fpEvent struct {
	reads map[int]bool // fields of the probe read here (directly or in a callee that receives the probe)
	cmp   bool         // the probe is compared here (Compare or one of its helpers receives it)
	call  *ssa.Function
}

type fpFunc struct {
	fn     *ssa.Function
	events map[*ssa.BasicBlock][]*fpEvent
}

func ruleFieldPrefix(p *Prog, r *Report) {
	for _, e := range p.Ecos {
		key := e.Name + ": direct reads of order fields come with the fields Compare consults first"
		if len(e.Contains.Params) != 2 {
			continue
		}
		st, _ := e.VerT.Underlying().(*types.Struct)
		if st == nil {
			continue
		}
		inCompare := map[*ssa.Function]bool{}
		for _, fn := range p.RepoReachable(e.Compare) {
			inCompare[fn] = true
		}
		tainted := taintPointers(p, map[ssa.Value]bool{e.Contains.Params[1]: true})
		// direct events per function
		funcs := map[*ssa.Function]*fpFunc{}
		get := func(fn *ssa.Function) *fpFunc {
			if funcs[fn] == nil {
				funcs[fn] = &fpFunc{fn: fn, events: map[*ssa.BasicBlock][]*fpEvent{}}
			}
			return funcs[fn]
		}
		type callSite struct {
			caller *ssa.Function
			blk    *ssa.BasicBlock
			ev     *fpEvent
		}
		callers := map[*ssa.Function][]callSite{}
		for v := range tainted {
			refs := v.Referrers()
			if refs == nil {
				continue
			}
			for _, ref := range *refs {
				host := ref.Parent()
				if host == nil || inCompare[host] || host == e.VString {
					continue
				}
				switch x := ref.(type) {
				case *ssa.FieldAddr:
					pt, ok := x.X.Type().Underlying().(*types.Pointer)
					if !ok || !types.Identical(pt.Elem(), e.VerT) {
						continue
					}
					ff := get(host)
					ff.events[x.Block()] = append(ff.events[x.Block()], &fpEvent{reads: map[int]bool{x.Field: true}})
				case *ssa.Call:
					g := x.Call.StaticCallee()
					if g == nil || !p.IsRepoFn(g) {
						continue
					}
					passes := false
					for _, a := range x.Call.Args {
						if a == v {
							passes = true
						}
					}
					if !passes || g == e.VString {
						continue
					}
					ff := get(host)
					if inCompare[g] {
						ff.events[x.Block()] = append(ff.events[x.Block()], &fpEvent{cmp: true})
						continue
					}
					ev := &fpEvent{reads: map[int]bool{}, call: g}
					ff.events[x.Block()] = append(ff.events[x.Block()], ev)
					callers[g] = append(callers[g], callSite{host, x.Block(), ev})
				}
			}
		}
		// summaries of callees into their call events (fixed point)
		type summ struct {
			reads map[int]bool
			cmp   bool
		}
		sums := map[*ssa.Function]*summ{}
		for changed := true; changed; {
			changed = false
			for fn, ff := range funcs {
				s := sums[fn]
				if s == nil {
					s = &summ{reads: map[int]bool{}}
					sums[fn] = s
				}
				for _, evs := range ff.events {
					for _, ev := range evs {
						if ev.call != nil {
							if cs := sums[ev.call]; cs != nil {
								for f := range cs.reads {
									if !ev.reads[f] {
										ev.reads[f] = true
										changed = true
									}
								}
								if cs.cmp && !ev.cmp {
									ev.cmp = true
									changed = true
								}
							}
						}
						for f := range ev.reads {
							if !s.reads[f] {
								s.reads[f] = true
								changed = true
							}
						}
						if ev.cmp && !s.cmp {
							s.cmp = true
							changed = true
						}
					}
				}
			}
		}
		// which fields are read directly anywhere
		readFields := map[int]bool{}
		nreads := 0
		for _, ff := range funcs {
			for _, evs := range ff.events {
				for _, ev := range evs {
					if ev.call == nil && !ev.cmp {
						for f := range ev.reads {
							readFields[f] = true
							nreads++
						}
					}
				}
			}
		}
		if nreads == 0 {
			r.Ok("R-FIELD-PREFIX", key, p.FnPos(e.Contains), "the range code reads no field of the probe outside Compare")
			continue
		}
		// precedence from Compare's decision table
		ef := ecoFieldInfo(p, e)
		termOf := func(i int) string {
			f := st.Field(i)
			switch f.Type().Underlying().(type) {
			case *types.Basic:
				return "." + f.Name()
			case *types.Slice:
				return "*(." + f.Name() + ")"
			}
			return ""
		}
		c := newAECtx(p)
		c.stageMode = false
		und := ""
		orderField := map[int]bool{}
		outranks := map[int][]int{} // g -> fields f that outrank g
		var gs []int
		for g := range readFields {
			gs = append(gs, g)
		}
		sort.Ints(gs)
		for _, g := range gs {
			tg := termOf(g)
			if tg == "" {
				continue
			}
			q := c.queryPair(e.Compare, c.tiedExcept(ef.plainPresets(map[string]override{tg: {rel: relPtr(-1)}})), []string{strings.Trim(tg, "*")})
			if q.oof != "" {
				und = q.describe()
				break
			}
			if !q.only(-1) {
				continue // not a plain order field (text, build metadata, flags): R-PROBE-OBS's subject
			}
			orderField[g] = true
			for f := 0; f < st.NumFields(); f++ {
				tf := termOf(f)
				if f == g || tf == "" {
					continue
				}
				q1 := c.queryPair(e.Compare, c.tiedExcept(ef.plainPresets(map[string]override{tf: {rel: relPtr(-1)}})), []string{strings.Trim(tf, "*")})
				if q1.oof != "" || !q1.only(-1) {
					continue
				}
				q2 := c.queryPair(e.Compare, c.tiedExcept(ef.plainPresets(map[string]override{tf: {rel: relPtr(-1)}, tg: {rel: relPtr(1)}})), nil)
				if q2.oof == "" && q2.only(-1) {
					outranks[g] = append(outranks[g], f)
				}
			}
		}
		if und != "" {
			r.Und("R-FIELD-PREFIX", key, p.FnPos(e.Contains), "precedence of the order fields not read off Compare: "+und)
			continue
		}
		// path condition
		isX := func(ff *fpFunc, b *ssa.BasicBlock, f int, skip *fpEvent) bool {
			for _, ev := range ff.events[b] {
				if ev == skip {
					continue
				}
				if ev.cmp || ev.reads[f] {
					return true
				}
			}
			return false
		}
		pathAvoiding := func(ff *fpFunc, b *ssa.BasicBlock, f int, skip *fpEvent) bool {
			if isX(ff, b, f, skip) {
				return false
			}
			// entry -> b
			seen := map[*ssa.BasicBlock]bool{}
			var fwd func(x *ssa.BasicBlock) bool
			fwd = func(x *ssa.BasicBlock) bool {
				if x == b {
					return true
				}
				if seen[x] || isX(ff, x, f, skip) {
					return false
				}
				seen[x] = true
				for _, s := range x.Succs {
					if fwd(s) {
						return true
					}
				}
				return false
			}
			if len(ff.fn.Blocks) == 0 || !fwd(ff.fn.Blocks[0]) {
				return false
			}
			// b -> return
			seen2 := map[*ssa.BasicBlock]bool{}
			var out func(x *ssa.BasicBlock) bool
			out = func(x *ssa.BasicBlock) bool {
				if x != b && (seen2[x] || isX(ff, x, f, skip)) {
					return false
				}
				seen2[x] = true
				if _, ok := x.Instrs[len(x.Instrs)-1].(*ssa.Return); ok {
					return true
				}
				for _, s := range x.Succs {
					if s != b && out(s) {
						return true
					}
				}
				return false
			}
			return out(b)
		}
		var uncovered func(ff *fpFunc, b *ssa.BasicBlock, f int, skip *fpEvent, depth int) bool
		uncovered = func(ff *fpFunc, b *ssa.BasicBlock, f int, skip *fpEvent, depth int) bool {
			if !pathAvoiding(ff, b, f, skip) {
				return false
			}
			if ff.fn == e.Contains || depth > 4 {
				return true
			}
			cs := callers[ff.fn]
			if len(cs) == 0 {
				return true
			}
			for _, c := range cs {
				if uncovered(get(c.caller), c.blk, f, c.ev, depth+1) {
					return true
				}
			}
			return false
		}
		var bad []string
		for _, ff := range funcs {
			for b, evs := range ff.events {
				for _, ev := range evs {
					if ev.call != nil || ev.cmp {
						continue
					}
					for g := range ev.reads {
						if !orderField[g] {
							continue
						}
						for _, f := range outranks[g] {
							if uncovered(ff, b, f, nil, 0) {
								bad = append(bad, fmt.Sprintf("%s|%s|%s", p.FnKey(ff.fn), st.Field(g).Name(), st.Field(f).Name()))
							}
						}
					}
				}
			}
		}
		sort.Strings(bad)
		agg := map[string][]string{}
		var aggKeys []string
		seen := map[string]bool{}
		for _, bk := range bad {
			if seen[bk] {
				continue
			}
			seen[bk] = true
			parts := strings.Split(bk, "|")
			k := parts[0] + "|" + parts[1]
			if agg[k] == nil {
				aggKeys = append(aggKeys, k)
			}
			agg[k] = append(agg[k], parts[2])
		}
		for _, k := range aggKeys {
			parts := strings.Split(k, "|")
			miss := strings.Join(agg[k], ", ")
			r.Bad("R-FIELD-PREFIX", fmt.Sprintf("%s: %s reads probe.%s without [%s]", e.Name, parts[0], parts[1], miss), p.FnPos(e.Contains),
				fmt.Sprintf("there is a path through a read of probe.%s on which the probe is not compared and these fields, which Compare consults before %s, are not read: %s. The verdict on that path cannot depend on them, so the range is not convex: two versions inside that differ in such a field have versions between them that differ in %s and are outside", parts[1], parts[1], miss, parts[1]))
		}
		if len(bad) == 0 {
			var names []string
			for g := range orderField {
				names = append(names, st.Field(g).Name())
			}
			sort.Strings(names)
			r.Ok("R-FIELD-PREFIX", key, p.FnPos(e.Contains), fmt.Sprintf("%d direct reads; order fields read: %v; on every path through such a read the fields Compare consults first are read too, or the probe is compared", nreads, names))
		}
	}
	r.Floor("R-FIELD-PREFIX", 20)
}

func init() {
	register("C20", "", ruleFieldPrefix)
}
