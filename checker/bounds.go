package main

import (
	"fmt"
	"go/constant"
	"go/token"
	"go/types"
	"sort"
	"strings"

	"golang.org/x/tools/go/ssa"
)

// ---- BP: difference-constraint bounds prover ------------------------------------

type tkind uint8

const (
	tZero tkind = iota
	tInt        // the integer SSA value v
	tLen        // len(v) of a string/slice/array-pointer SSA value v
)

type term struct {
	k tkind
	v ssa.Value
}

func (t term) String() string {
	switch t.k {
	case tZero:
		return "0"
	case tInt:
		return valName(t.v)
	}
	return "len(" + valName(t.v) + ")"
}

func valName(v ssa.Value) string {
	if v == nil {
		return "nil"
	}
	switch x := v.(type) {
	case *ssa.Const:
		return x.String()
	case *ssa.Parameter:
		return x.Name()
	}
	if n := describeAddr(v); !strings.HasPrefix(n, "*ssa.") {
		return v.Name() + "«" + n + "»"
	}
	return v.Name()
}

// u - v <= c
type dfact struct {
	u, v term
	c    int64
	why  string
}

// sfact: a fact usable only at points dominated by scope (phi invariants, hypotheses)
type sfact struct {
	dfact
	scope *ssa.BasicBlock
}

// pfact: a fact about the result of an operation that can panic. It says something about the
// operands as well (len(s[:2]) = 2 and len(s[:2]) <= len(s) give len(s) >= 2), so it may only be used
// where the operation has already been executed: at points it strictly precedes and dominates.
type pfact struct {
	dfact
	at *ssa.Slice
}

type diseq struct {
	t term
	c int64
}

type point struct {
	b   *ssa.BasicBlock
	idx int // facts established strictly before instruction idx of b
}

type phiFactKey struct {
	phi *ssa.Phi
	tv  bool
}

type phiFactVal struct {
	facts []dfact
	dq    []diseq
}

type bpFn struct {
	phiDepth     int
	phiFacts     map[phiFactKey]phiFactVal
	bp           *bp
	fn           *ssa.Function
	global       []dfact // definitional facts (valid wherever the values are defined)
	partial      []pfact // facts that hold once a partial operation (a slice expression) has succeeded
	partialAt    *ssa.Slice
	inv          []sfact // proven phi invariants, scoped to the phi's block
	ready        bool
	canonMap     map[ssa.Value]ssa.Value
	fieldStores  map[loadKey][]*ssa.Store
	firstLoad    map[loadKey]ssa.Value
	sharedStores bool
	keyIndex     map[string][]ssa.Value
	elemLoads    map[elemKey]*ssa.UnOp
}

type bp struct {
	p         *Prog
	fns       map[*ssa.Function]*bpFn
	calls     map[*ssa.Function][]ssa.CallInstruction // static call sites per repo callee
	addrTaken map[*ssa.Function]bool
	depth     int
	stats     map[string]int
	fieldLB   map[fieldKey]int64
	retSum    map[*ssa.Function][]retFact
	nilPost   map[*ssa.Function][]nilPost
	nilLen    map[*ssa.Function]map[int]int64
}

func newBP(p *Prog) *bp {
	b := &bp{p: p, fns: map[*ssa.Function]*bpFn{}, calls: map[*ssa.Function][]ssa.CallInstruction{}, addrTaken: map[*ssa.Function]bool{}, stats: map[string]int{}, fieldLB: map[fieldKey]int64{}, retSum: map[*ssa.Function][]retFact{}, nilPost: map[*ssa.Function][]nilPost{}}
	for fn := range p.AllFns {
		if !p.IsRepoFn(fn) || fn.Origin() != nil && false {
			continue
		}
		for _, blk := range fn.Blocks {
			for _, ins := range blk.Instrs {
				if c, ok := ins.(ssa.CallInstruction); ok {
					if f := c.Common().StaticCallee(); f != nil && p.IsRepoFn(f) {
						b.calls[f] = append(b.calls[f], c)
					}
				}
				for _, op := range ins.Operands(nil) {
					if f, ok := (*op).(*ssa.Function); ok {
						if c, ok := ins.(ssa.CallInstruction); ok && c.Common().Value == f {
							continue
						}
						b.addrTaken[f] = true
					}
				}
			}
		}
	}
	return b
}

func (f *bpFn) intTerm(v ssa.Value) (term, int64) {
	v = f.canon(v)
	// returns term and constant offset: value = term + off
	var off int64
	for {
		v = f.canon(v)
		switch x := v.(type) {
		case *ssa.Const:
			if c, ok := constInt(x); ok {
				return term{k: tZero}, off + c
			}
			return term{tInt, v}, off
		case *ssa.BinOp:
			if x.Op == token.ADD {
				if c, ok := constInt(x.Y); ok {
					off += c
					v = x.X
					continue
				}
				if c, ok := constInt(x.X); ok {
					off += c
					v = x.Y
					continue
				}
			}
			if x.Op == token.SUB {
				if c, ok := constInt(x.Y); ok {
					off -= c
					v = x.X
					continue
				}
			}
			return term{tInt, v}, off
		case *ssa.Convert:
			if isIntType(x.X.Type()) && isIntType(x.Type()) {
				v = x.X
				continue
			}
			return term{tInt, v}, off
		case *ssa.Call:
			if b, ok := x.Call.Value.(*ssa.Builtin); ok && b.Name() == "len" {
				lt, lo := f.lenTerm(x.Call.Args[0])
				return lt, off + lo
			}
			return term{tInt, v}, off
		default:
			return term{tInt, v}, off
		}
	}
}

func isIntType(t types.Type) bool {
	b, ok := t.Underlying().(*types.Basic)
	return ok && b.Info()&types.IsInteger != 0
}

// lenTerm: len(v) = term + off (constants and fixed-size arrays fold).
func (f *bpFn) lenTerm(v ssa.Value) (term, int64) {
	v = f.canon(v)
	if s, ok := constString(v); ok {
		return term{k: tZero}, int64(len(s))
	}
	if c, ok := v.(*ssa.Const); ok && c.Value == nil {
		return term{k: tZero}, 0 // nil slice
	}
	switch t := v.Type().Underlying().(type) {
	case *types.Array:
		return term{k: tZero}, t.Len()
	case *types.Pointer:
		if a, ok := t.Elem().Underlying().(*types.Array); ok {
			return term{k: tZero}, a.Len()
		}
	}
	switch x := v.(type) {
	case *ssa.ChangeType:
		return f.lenTerm(x.X)
	case *ssa.Slice:
		// full slice of an array pointer: x[:]
		if x.Low == nil && x.High == nil {
			return f.lenTerm(x.X)
		}
	}
	return term{tLen, v}, 0
}

func (f *bpFn) add(u term, uo int64, v term, vo int64, c int64, why string) {
	// (u+uo) - (v+vo) <= c   =>  u - v <= c - uo + vo
	if f.partialAt != nil {
		f.partial = append(f.partial, pfact{dfact{u, v, c - uo + vo, why}, f.partialAt})
		return
	}
	f.global = append(f.global, dfact{u, v, c - uo + vo, why})
}

func (f *bpFn) eq(u term, uo int64, v term, vo int64, why string) {
	f.add(u, uo, v, vo, 0, why)
	f.add(v, vo, u, uo, 0, why)
}

var zeroT = term{k: tZero}

func (b *bp) forFn(fn *ssa.Function) *bpFn {
	if f, ok := b.fns[fn]; ok {
		return f
	}
	f := &bpFn{bp: b, fn: fn}
	b.fns[fn] = f
	f.initCanon()
	f.collectGlobal()
	f.inferInvariants()
	f.ready = true
	return f
}

// definitional facts: valid wherever the SSA value is defined.
func (f *bpFn) collectGlobal() {
	for _, blk := range f.fn.Blocks {
		for _, ins := range blk.Instrs {
			v, ok := ins.(ssa.Value)
			if !ok {
				continue
			}
			f.defFacts(v)
		}
	}
	for _, par := range f.fn.Params {
		f.defFacts(par)
	}
}

func hasLen(t types.Type) bool {
	switch u := t.Underlying().(type) {
	case *types.Slice:
		return true
	case *types.Basic:
		return u.Info()&types.IsString != 0
	}
	return false
}

func (f *bpFn) defFacts(v ssa.Value) {
	if hasLen(v.Type()) {
		lt, lo := f.lenTerm(v)
		if lt.k == tLen {
			f.add(zeroT, 0, lt, lo, 0, "len>=0")
			// os.Args holds at least the program name (trusted base: the process was started with an
			// argv[0], as every shell and the Go runtime's own tests assume)
			if u, ok := v.(*ssa.UnOp); ok && u.Op == token.MUL {
				if g, ok := u.X.(*ssa.Global); ok && g.Name() == "Args" && g.Pkg != nil && g.Pkg.Pkg.Path() == "os" {
					f.add(zeroT, 0, lt, lo, -1, "os.Args holds the program name")
				}
			}
		}
	}
	switch x := v.(type) {
	case *ssa.Slice:
		rt, ro := f.lenTerm(x)
		if rt.k != tLen {
			return
		}
		f.partialAt = x
		defer func() { f.partialAt = nil }()
		xt, xo := f.lenTerm(x.X)
		var lo term = zeroT
		var loo int64
		if x.Low != nil {
			lo, loo = f.intTerm(x.Low)
		}
		hi, hio := xt, xo
		if x.High != nil {
			hi, hio = f.intTerm(x.High)
		}
		// len(r) = hi - lo
		if lo.k == tZero {
			f.eq(rt, ro, hi, hio-loo, "slice len = hi - const lo")
		} else {
			// len(r) <= hi ; len(r) <= len(X)
			f.add(rt, ro, hi, hio, 0, "slice len <= hi")
			// if hi and lo share the same base term: len = difference of offsets
			if hi == lo {
				f.eq(rt, ro, zeroT, hio-loo, "slice len = offset difference")
			}
		}
		f.add(rt, ro, xt, xo, 0, "slice len <= operand len")
	case *ssa.MakeSlice:
		rt, ro := f.lenTerm(x)
		lt, lo := f.intTerm(x.Len)
		f.eq(rt, ro, lt, lo, "make len")
	case *ssa.Phi:
		// nothing (induction)
	case *ssa.BinOp:
		if x.Op == token.ADD && hasLen(x.Type()) {
			// string concatenation: len >= each operand, exact when one side is constant
			rt, ro := f.lenTerm(x)
			at, ao := f.lenTerm(x.X)
			bt, bo := f.lenTerm(x.Y)
			if at.k == tZero {
				f.eq(rt, ro, bt, bo+ao, "concat const")
			} else if bt.k == tZero {
				f.eq(rt, ro, at, ao+bo, "concat const")
			} else {
				f.add(at, ao, rt, ro, 0, "concat >= operand")
				f.add(bt, bo, rt, ro, 0, "concat >= operand")
			}
		}
		if isIntType(x.Type()) {
			rt, ro := f.intTerm(x)
			if rt.k == tInt && rt.v == x {
				switch x.Op {
				case token.ADD:
					// x + len(..) >= x (lengths are non-negative)
					xt, xo := f.intTerm(x.X)
					yt, yo := f.intTerm(x.Y)
					if yt.k == tLen && yo >= 0 {
						f.add(xt, xo, rt, ro, 0, "sum with a length >= other operand")
					}
					if xt.k == tLen && xo >= 0 {
						f.add(yt, yo, rt, ro, 0, "sum with a length >= other operand")
					}
				case token.REM:
					// x % c in (-c, c); with non-negative dividend in [0,c)
					if c, ok := constInt(x.Y); ok && c > 0 {
						f.add(rt, ro, zeroT, 0, c-1, "rem upper")
						f.add(zeroT, 0, rt, ro, c-1, "rem lower")
					}
				case token.SUB:
					// x - y with y >= 0 handled via generic 3-term? record r <= x when y is a len
					yt, yo := f.intTerm(x.Y)
					xt, xo := f.intTerm(x.X)
					if yt.k == tLen || (yt.k == tZero && yo >= 0) {
						f.add(rt, ro, xt, xo, -yo*btoi(yt.k == tZero), "sub of non-negative")
					}
					_ = yo
				}
			}
		}
	case *ssa.Call:
		f.callFacts(x)
	case *ssa.Extract:
		f.extractFacts(x)
	case *ssa.UnOp:
		if x.Op == token.MUL && hasLen(x.Type()) {
			// load of a struct field with a construction-site length invariant
			if fa, ok := x.X.(*ssa.FieldAddr); ok && f.canon(x) == ssa.Value(x) {
				if _, isAlloc := f.canon(fa.X).(*ssa.Alloc); !isAlloc {
					if pt, ok := fa.X.Type().Underlying().(*types.Pointer); ok {
						if n, ok := pt.Elem().(*types.Named); ok {
							if lb := f.bp.fieldLenLB(n, fa.Field); lb > 0 {
								rt, ro := f.lenTerm(x)
								f.add(zeroT, lb, rt, ro, 0, fmt.Sprintf("field invariant: every constructed %s has len(field) >= %d", n.Obj().Name(), lb))
							}
						}
					}
				}
			}
		}
		if x.Op == token.MUL {
			// element of a FindStringSubmatch result: m[i]
			if ia, ok := x.X.(*ssa.IndexAddr); ok {
				if ci, ok := constInt(ia.Index); ok {
					if ri := f.submatchRegex(ia.X); ri != nil && int(ci) <= ri.NumSub && ci >= 0 && ri.GroupMust[ci] {
						rt, ro := f.lenTerm(x)
						f.add(zeroT, int64(ri.GroupMin[ci]), rt, ro, 0, fmt.Sprintf("capture group %d has min length %d", ci, ri.GroupMin[ci]))
					}
				}
			}
		}
	case *ssa.Convert:
		// []byte(s), []rune(s), string(bytes): byte<->string conversions keep the length
		if hasLen(x.Type()) && hasLen(x.X.Type()) {
			if isByteSliceOrString(x.Type()) && isByteSliceOrString(x.X.Type()) {
				rt, ro := f.lenTerm(x)
				at, ao := f.lenTerm(x.X)
				f.eq(rt, ro, at, ao, "byte/string conversion")
			} else {
				// []rune(s): 0 <= len <= len(s); string(runes): len >= len(runes)
				rt, ro := f.lenTerm(x)
				at, ao := f.lenTerm(x.X)
				if _, isStr := x.X.Type().Underlying().(*types.Basic); isStr {
					f.add(rt, ro, at, ao, 0, "[]rune(s) len <= len(s)")
				} else {
					f.add(at, ao, rt, ro, 0, "string(runes) len >= len(runes)")
				}
			}
		}
	}
}

func btoi(b bool) int64 {
	if b {
		return 1
	}
	return 0
}

func isByteSliceOrString(t types.Type) bool {
	switch u := t.Underlying().(type) {
	case *types.Basic:
		return u.Info()&types.IsString != 0
	case *types.Slice:
		b, ok := u.Elem().Underlying().(*types.Basic)
		return ok && b.Kind() == types.Uint8
	}
	return false
}

// submatchRegex: v is the result of re.FindStringSubmatch for a constant pattern.
func (f *bpFn) submatchRegex(v ssa.Value) *regexInfo {
	c, ok := v.(*ssa.Call)
	if !ok {
		return nil
	}
	fn := c.Call.StaticCallee()
	if fn == nil || fn.String() != "(*regexp.Regexp).FindStringSubmatch" {
		return nil
	}
	return f.bp.p.regexOf(c.Call.Args[0])
}

// submatchRegexSet: like submatchRegex, for a pattern that is one of a local list of compiled patterns
func (f *bpFn) submatchRegexSet(v ssa.Value) []*regexInfo {
	c, ok := v.(*ssa.Call)
	if !ok {
		return nil
	}
	fn := c.Call.StaticCallee()
	if fn == nil || fn.String() != "(*regexp.Regexp).FindStringSubmatch" {
		return nil
	}
	return f.bp.p.regexSetOf(c.Call.Args[0])
}

func (f *bpFn) callFacts(c *ssa.Call) {
	if b, ok := c.Call.Value.(*ssa.Builtin); ok {
		switch b.Name() {
		case "len":
			// folded by intTerm
		case "min", "max":
			rt, ro := f.intTerm(c)
			if rt.k != tInt {
				return
			}
			nonneg := true
			for _, a := range c.Call.Args {
				at, ao := f.intTerm(a)
				if b.Name() == "min" {
					f.add(rt, ro, at, ao, 0, "min <= arg")
				} else {
					f.add(at, ao, rt, ro, 0, "max >= arg")
				}
				isLen := false
				if lc, ok := a.(*ssa.Call); ok {
					if lb, ok := lc.Call.Value.(*ssa.Builtin); ok && (lb.Name() == "len" || lb.Name() == "cap") {
						isLen = true
					}
				}
				if cv, ok := constInt(a); ok && cv >= 0 {
					isLen = true
				}
				nonneg = nonneg && isLen
			}
			if nonneg {
				f.add(zeroT, 0, rt, ro, 0, "min/max of lengths is non-negative")
			}
		case "append":
			rt, ro := f.lenTerm(c)
			at, ao := f.lenTerm(c.Call.Args[0])
			f.add(at, ao, rt, ro, 0, "append len >= base len")
			if len(c.Call.Args) == 2 {
				bt, bo := f.lenTerm(c.Call.Args[1])
				if bt.k == tZero {
					f.eq(rt, ro, at, ao+bo, "append of fixed count")
				} else if at.k == tZero {
					f.eq(rt, ro, bt, bo+ao, "append to fixed")
				} else {
					f.add(bt, bo, rt, ro, 0, "append len >= added len")
				}
			}
		}
		return
	}
	fn := c.Call.StaticCallee()
	if fn == nil {
		return
	}
	args := c.Call.Args
	name := fn.String()
	rlen := func() (term, int64) { return f.lenTerm(c) }
	switch name {
	case "strings.TrimSpace", "strings.TrimPrefix", "strings.TrimSuffix", "strings.Trim", "strings.TrimLeft", "strings.TrimRight", "strings.TrimFunc", "strings.TrimLeftFunc", "strings.TrimRightFunc":
		rt, ro := rlen()
		at, ao := f.lenTerm(args[0])
		f.add(rt, ro, at, ao, 0, name+" shortens")
	case "strings.ToLower", "strings.ToUpper":
		// not length preserving for non-ASCII in general: no fact
	case "strings.Split":
		if sep, ok := constString(args[1]); ok && sep != "" {
			rt, ro := rlen()
			f.add(zeroT, 1, rt, ro, 0, "Split with non-empty separator returns >= 1 element")
		}
	case "strings.SplitN":
		if sep, ok := constString(args[1]); ok && sep != "" {
			if n, ok := constInt(args[2]); ok && n > 0 {
				rt, ro := rlen()
				f.add(zeroT, 1, rt, ro, 0, "SplitN returns >= 1 element")
				f.add(rt, ro, zeroT, n, 0, "SplitN returns <= n elements")
			}
		}
	case "strings.Index", "strings.LastIndex":
		rt, ro := f.intTerm(c)
		st, so := f.lenTerm(args[0])
		bt, bo := f.lenTerm(args[1])
		f.add(zeroT, -1, rt, ro, 0, "Index >= -1")
		if bt.k == tZero {
			f.add(rt, ro, st, so-bo, 0, "Index <= len(s)-len(sub)")
		} else {
			f.add(rt, ro, st, so, 0, "Index <= len(s)")
		}
	case "strings.IndexByte", "strings.IndexRune", "strings.IndexAny", "strings.IndexFunc", "strings.LastIndexByte", "strings.LastIndexAny":
		rt, ro := f.intTerm(c)
		st, so := f.lenTerm(args[0])
		f.add(zeroT, -1, rt, ro, 0, "Index >= -1")
		f.add(rt, ro, st, so-1, 0, "Index <= len(s)-1")
	case "strings.Count":
		rt, ro := f.intTerm(c)
		f.add(zeroT, 0, rt, ro, 0, "Count >= 0")
	case "strings.Repeat":
	case "(*strings.Builder).Len":
		rt, ro := f.intTerm(c)
		f.add(zeroT, 0, rt, ro, 0, "Len >= 0")
	}
	if f.bp.p.IsRepoFn(fn) {
		f.repoCallFacts(c, fn)
	}
}

func (f *bpFn) extractFacts(x *ssa.Extract) {
	if nx, ok := x.Tuple.(*ssa.Next); ok && nx.IsString && x.Index == 1 {
		// byte index of a string range: 0 <= k <= len(s)-1
		if rg, ok := nx.Iter.(*ssa.Range); ok {
			kt, ko := f.intTerm(x)
			st, so := f.lenTerm(rg.X)
			f.add(zeroT, 0, kt, ko, 0, "range index >= 0")
			f.add(kt, ko, st, so-1, 0, "range index < len")
		}
		return
	}
	c, ok := x.Tuple.(*ssa.Call)
	if !ok {
		return
	}
	fn := c.Call.StaticCallee()
	if fn == nil {
		return
	}
	if f.bp.p.IsRepoFn(fn) {
		f.repoExtractFacts(x, c, fn)
	}
}

// path facts ---------------------------------------------------------------------

// condFacts translates a branch condition (taken with truth value tv) into facts.
func (f *bpFn) condFacts(cond ssa.Value, tv bool, out *[]dfact, dq *[]diseq) {
	switch c := cond.(type) {
	case *ssa.UnOp:
		if c.Op == token.NOT {
			f.condFacts(c.X, !tv, out, dq)
		}
	case *ssa.Phi:
		// a boolean built by && / || (ok := i < n && s[i] == c): when it has the value that only one
		// incoming edge can supply, that edge was taken, so the conditions on the way to it held
		// (facts are about immutable SSA values) and its own operand has that value
		if !isBoolType(c.Type()) || f.phiDepth > 1 {
			return
		}
		nconst := 0
		for _, e := range c.Edges {
			if _, ok := e.(*ssa.Const); ok {
				nconst++
			}
		}
		if nconst == 0 {
			return // not the short-circuit shape
		}
		var cand []int
		for i, e := range c.Edges {
			if k, ok := e.(*ssa.Const); ok && k.Value != nil && k.Value.Kind() == constant.Bool {
				if constant.BoolVal(k.Value) != tv {
					continue // this edge supplies the other value
				}
			}
			cand = append(cand, i)
		}
		if len(cand) != 1 {
			return
		}
		i := cand[0]
		ck := phiFactKey{c, tv}
		if f.phiFacts == nil {
			f.phiFacts = map[phiFactKey]phiFactVal{}
		}
		if pv, ok := f.phiFacts[ck]; ok {
			*out = append(*out, pv.facts...)
			*dq = append(*dq, pv.dq...)
			return
		}
		var pf []dfact
		var pq []diseq
		f.phiDepth++
		f.edgeFacts(c.Block().Preds[i], c.Block(), &pf, &pq)
		if _, isConst := c.Edges[i].(*ssa.Const); !isConst {
			f.condFacts(c.Edges[i], tv, &pf, &pq)
		}
		f.phiDepth--
		f.phiFacts[ck] = phiFactVal{pf, pq}
		*out = append(*out, pf...)
		*dq = append(*dq, pq...)
	case *ssa.BinOp:
		op := c.Op
		if !tv {
			switch op {
			case token.LSS:
				op = token.GEQ
			case token.LEQ:
				op = token.GTR
			case token.GTR:
				op = token.LEQ
			case token.GEQ:
				op = token.LSS
			case token.EQL:
				op = token.NEQ
			case token.NEQ:
				op = token.EQL
			default:
				return
			}
		}
		var xt, yt term
		var xo, yo int64
		switch {
		case isIntType(c.X.Type()):
			xt, xo = f.intTerm(c.X)
			yt, yo = f.intTerm(c.Y)
		case hasLen(c.X.Type()):
			// string equality with a constant / nil comparison of slices
			if op != token.EQL && op != token.NEQ {
				return
			}
			var other ssa.Value
			var k int64
			if s, ok := constString(c.Y); ok {
				other, k = c.X, int64(len(s))
			} else if s, ok := constString(c.X); ok {
				other, k = c.Y, int64(len(s))
			} else if isNilConst(c.Y) {
				other, k = c.X, 0
			} else if isNilConst(c.X) {
				other, k = c.Y, 0
			} else {
				// s1 == s2: equal lengths
				if op == token.EQL {
					at, ao := f.lenTerm(c.X)
					bt, bo := f.lenTerm(c.Y)
					*out = append(*out, dfact{at, bt, bo - ao, "equal strings"}, dfact{bt, at, ao - bo, "equal strings"})
				}
				return
			}
			lt, lo := f.lenTerm(other)
			if op == token.EQL {
				*out = append(*out, dfact{lt, zeroT, k - lo, "== const"}, dfact{zeroT, lt, lo - k, "== const"})
			} else if k == 0 {
				if isNilConst(c.X) || isNilConst(c.Y) {
					// non-nil slice: for FindStringSubmatch results the length is 1+NumSubexp
					if ris := f.submatchRegexSet(other); len(ris) > 0 {
						// one of a known set of patterns: the length lies between the smallest
						// and the largest 1+NumSubexp
						mn, mx := int64(ris[0].NumSub+1), int64(ris[0].NumSub+1)
						for _, ri := range ris[1:] {
							n := int64(ri.NumSub + 1)
							if n < mn {
								mn = n
							}
							if n > mx {
								mx = n
							}
						}
						*out = append(*out, dfact{lt, zeroT, mx - lo, "non-nil submatch"}, dfact{zeroT, lt, lo - mn, "non-nil submatch"})
					}
				} else {
					k := int64(1)
					// an element of a submatch list is "" or a string of its capture group's language:
					// when it is not empty it has at least the group's minimal length
					if u, ok := f.canon(other).(*ssa.UnOp); ok && u.Op == token.MUL {
						if ia, ok := u.X.(*ssa.IndexAddr); ok {
							if gi, ok := constInt(ia.Index); ok && gi >= 1 {
								if ris := f.submatchRegexSet(ia.X); len(ris) > 0 {
									mn := int64(-1)
									for _, ri := range ris {
										g := findGroup(ri.Re, int(gi))
										if g == nil {
											mn = 1
											break
										}
										if m := int64(minLenRe(g)); mn < 0 || m < mn {
											mn = m
										}
									}
									if mn > k {
										k = mn
									}
								}
							}
						}
					}
					*out = append(*out, dfact{zeroT, lt, lo - k, `!= ""`})
				}
			}
			return
		default:
			if op == token.EQL || op == token.NEQ {
				f.errNilFacts(c, tv, out)
			}
			return
		}
		switch op {
		case token.LSS: // x < y : x - y <= -1
			*out = append(*out, dfact{xt, yt, -1 - xo + yo, "x<y"})
		case token.LEQ:
			*out = append(*out, dfact{xt, yt, 0 - xo + yo, "x<=y"})
		case token.GTR:
			*out = append(*out, dfact{yt, xt, -1 - yo + xo, "x>y"})
		case token.GEQ:
			*out = append(*out, dfact{yt, xt, 0 - yo + xo, "x>=y"})
		case token.EQL:
			*out = append(*out, dfact{xt, yt, yo - xo, "x==y"}, dfact{yt, xt, xo - yo, "x==y"})
		case token.NEQ:
			if yt.k == tZero {
				*dq = append(*dq, diseq{xt, yo - xo})
			} else if xt.k == tZero {
				*dq = append(*dq, diseq{yt, xo - yo})
			}
		}
	case *ssa.Call:
		fn := c.Call.StaticCallee()
		if fn == nil {
			return
		}
		args := c.Call.Args
		switch fn.String() {
		case "strings.HasPrefix", "strings.HasSuffix", "strings.Contains":
			if tv {
				st, so := f.lenTerm(args[0])
				pt, po := f.lenTerm(args[1])
				*out = append(*out, dfact{pt, st, so - po, fn.Name() + " true"})
				// a suffix test evaluated where a prefix test on the same string has succeeded: the
				// string is at least as long as the shortest text that starts with one literal and ends
				// with the other ("[" ... "]" has two characters)
				if q, ok := constString(args[1]); ok && fn.String() == "strings.HasSuffix" {
					subj := f.canon(args[0])
					best := int64(-1)
					domEdges(c.Block(), func(cond ssa.Value, ctv bool) bool {
						pc, ok := cond.(*ssa.Call)
						if !ok || !ctv {
							return false
						}
						g := pc.Call.StaticCallee()
						if g == nil || g.String() != "strings.HasPrefix" || f.canon(pc.Call.Args[0]) != subj {
							return false
						}
						p, ok := constString(pc.Call.Args[1])
						if !ok {
							return false
						}
						over := 0
						for k := 1; k <= len(p) && k <= len(q); k++ {
							if p[len(p)-k:] == q[:k] {
								over = k
							}
						}
						if n := int64(len(p) + len(q) - over); n > best {
							best = n
						}
						return false
					})
					if best > 0 {
						*out = append(*out, dfact{zeroT, st, so - best, "prefix and suffix literals"})
					}
				}
			}
		case "(*regexp.Regexp).MatchString":
			if tv {
				if ri := f.bp.p.regexOf(args[0]); ri != nil && ri.Err == nil {
					st, so := f.lenTerm(args[1])
					*out = append(*out, dfact{zeroT, st, so - int64(ri.MinLen), "regexp match min length"})
				}
			}
		}
		if f.bp.p.IsRepoFn(fn) {
			f.repoCondFacts(c, fn, tv, out, dq)
		}
	}
}

func isNilConst(v ssa.Value) bool {
	c, ok := v.(*ssa.Const)
	return ok && c.Value == nil
}

// pathFacts: conditions on dominating edges (a block reached only through the true or
// false edge of its immediate dominator's If), plus edge-specific condition when asked
// for "end of pred p on the edge to succ".
func (f *bpFn) pathFacts(b *ssa.BasicBlock, out *[]dfact, dq *[]diseq) {
	for x := b; x != nil; x = x.Idom() {
		id := x.Idom()
		if id == nil {
			break
		}
		if len(x.Preds) != 1 || x.Preds[0] != id {
			// x may still be reached only via one edge of id when its other preds are dominated by x (loop header)
			if !onlyEntryFrom(x, id) {
				continue
			}
		}
		iff, ok := id.Instrs[len(id.Instrs)-1].(*ssa.If)
		if !ok {
			continue
		}
		if id.Succs[0] == x && id.Succs[1] != x {
			f.condFacts(iff.Cond, true, out, dq)
		} else if id.Succs[1] == x && id.Succs[0] != x {
			f.condFacts(iff.Cond, false, out, dq)
		}
	}
}

// onlyEntryFrom: every predecessor of x other than id is dominated by x (back edges).
func onlyEntryFrom(x, id *ssa.BasicBlock) bool {
	found := false
	for _, p := range x.Preds {
		if p == id {
			found = true
			continue
		}
		if !x.Dominates(p) {
			return false
		}
	}
	return found
}

func (f *bpFn) edgeFacts(pred, succ *ssa.BasicBlock, out *[]dfact, dq *[]diseq) {
	f.pathFacts(pred, out, dq)
	if iff, ok := pred.Instrs[len(pred.Instrs)-1].(*ssa.If); ok {
		if pred.Succs[0] == succ && pred.Succs[1] != succ {
			f.condFacts(iff.Cond, true, out, dq)
		} else if pred.Succs[1] == succ && pred.Succs[0] != succ {
			f.condFacts(iff.Cond, false, out, dq)
		}
	}
}

// solver -------------------------------------------------------------------------

type goal struct {
	u, v term
	c    int64 // prove u - v <= c
}

func (g goal) String() string { return fmt.Sprintf("%s - %s <= %d", g.u, g.v, g.c) }

// entails: do the facts imply u - v <= c ? (Bellman-Ford shortest path v -> u)
func entails(facts []dfact, dqs []diseq, g goal) bool {
	if g.u == g.v {
		return g.c >= 0
	}
	for round := 0; round < 3; round++ {
		dist := map[term]int64{g.v: 0}
		// edges: fact u - v <= c is edge v -> u weight c
		changed := true
		for iter := 0; iter < len(facts)+2 && changed; iter++ {
			changed = false
			for _, ft := range facts {
				dv, ok := dist[ft.v]
				if !ok {
					continue
				}
				if du, ok := dist[ft.u]; !ok || dv+ft.c < du {
					dist[ft.u] = dv + ft.c
					changed = true
				}
			}
		}
		if changed {
			return true // negative cycle: facts are contradictory, point unreachable
		}
		if d, ok := dist[g.u]; ok && d <= g.c {
			return true
		}
		// refine with disequalities: t != c with t >= c  =>  t >= c+1 ; t <= c => t <= c-1
		added := false
		for _, dq := range dqs {
			lb, hasLb := bound(facts, dq.t, false)
			ub, hasUb := bound(facts, dq.t, true)
			if hasLb && lb == dq.c {
				facts = append(facts, dfact{zeroT, dq.t, -(dq.c + 1), "diseq"})
				added = true
			}
			if hasUb && ub == dq.c {
				facts = append(facts, dfact{dq.t, zeroT, dq.c - 1, "diseq"})
				added = true
			}
		}
		if !added {
			return false
		}
	}
	return false
}

// bound: best constant upper (t <= k) or lower (t >= k) bound of t implied by facts.
func bound(facts []dfact, t term, upper bool) (int64, bool) {
	src, dst := zeroT, t
	if !upper {
		src, dst = t, zeroT
	}
	dist := map[term]int64{src: 0}
	changed := true
	for iter := 0; iter < len(facts)+2 && changed; iter++ {
		changed = false
		for _, ft := range facts {
			dv, ok := dist[ft.v]
			if !ok {
				continue
			}
			if du, ok := dist[ft.u]; !ok || dv+ft.c < du {
				dist[ft.u] = dv + ft.c
				changed = true
			}
		}
	}
	d, ok := dist[dst]
	if !ok || changed {
		return 0, false
	}
	if upper {
		return d, true
	}
	return -d, true
}

// usableAt: definitional facts everywhere; invariant facts only where the phi is defined.
func usableAt(facts []sfact, b *ssa.BasicBlock) []dfact {
	out := make([]dfact, 0, len(facts))
	for _, ft := range facts {
		if ft.scope == nil || ft.scope.Dominates(b) {
			out = append(out, ft.dfact)
		}
	}
	return out
}

// factsAt: definitional facts plus the invariants in scope at the end of b, and what the slice
// expressions executed on the way there have established.
func (f *bpFn) factsAt(b *ssa.BasicBlock) []dfact {
	out := make([]dfact, 0, len(f.global)+len(f.inv)+32)
	out = append(out, f.global...)
	for _, pf := range f.partial {
		if db := pf.at.Block(); db != nil && db.Dominates(b) {
			out = append(out, pf.dfact)
		}
	}
	return append(out, usableAt(f.inv, b)...)
}

// factsAtPoint: the same strictly before instruction pt.idx of pt.b
func (f *bpFn) factsAtPoint(pt point) []dfact {
	out := make([]dfact, 0, len(f.global)+len(f.inv)+32)
	out = append(out, f.global...)
	for _, pf := range f.partial {
		db := pf.at.Block()
		if db == nil {
			continue
		}
		if db != pt.b {
			if db.Dominates(pt.b) {
				out = append(out, pf.dfact)
			}
			continue
		}
		for i, ins := range db.Instrs {
			if i >= pt.idx {
				break
			}
			if ins == ssa.Instruction(pf.at) {
				out = append(out, pf.dfact)
				break
			}
		}
	}
	return append(out, usableAt(f.inv, pt.b)...)
}

// prove g at point pt with extra hypotheses.
func (f *bpFn) prove(pt point, g goal, hyps []sfact, depth int) bool {
	if g.u == g.v {
		return g.c >= 0
	}
	if g.u.k == tZero && g.v.k == tZero {
		return g.c >= 0
	}
	facts := f.factsAtPoint(pt)
	facts = append(facts, usableAt(hyps, pt.b)...)
	var dqs []diseq
	f.pathFacts(pt.b, &facts, &dqs)
	if entails(facts, dqs, g) {
		return true
	}
	if depth >= 3 {
		return false
	}
	if f.proveSplit(pt.b, g, nil, nil, hyps, 0) {
		return true
	}
	// case split on a merge phi that occurs in the facts (m := max(len(a), len(b)) built by an if)
	if f.proveFactPhiSplit(pt, g, facts, dqs) {
		return true
	}
	// case split on a builtin max/min that occurs in the facts: max(a, b) is a or b
	if f.proveFactMinMaxSplit(g, facts, dqs) {
		return true
	}
	// case split / induction on a phi occurring in the goal
	for _, t := range []term{g.u, g.v} {
		ph, ok := t.v.(*ssa.Phi)
		if !ok {
			continue
		}
		if f.provePhi(ph, g, hyps, depth) {
			return true
		}
	}
	// parameter facts from all call sites
	if f.proveViaCallers(pt, g, facts, dqs, depth) {
		return true
	}
	return false
}

// inconsistent: the difference constraints have a negative cycle somewhere
func inconsistent(facts []dfact) bool {
	dist := map[term]int64{}
	for _, ft := range facts {
		dist[ft.u], dist[ft.v] = 0, 0
	}
	changed := true
	for iter := 0; iter < len(dist)+2 && changed; iter++ {
		changed = false
		for _, ft := range facts {
			if dist[ft.v]+ft.c < dist[ft.u] {
				dist[ft.u] = dist[ft.v] + ft.c
				changed = true
			}
		}
	}
	return changed
}

// proveFactPhiSplit: some fact mentions an integer phi M of a plain merge block (not a loop head)
// that dominates the point. For each incoming edge, replace M by that edge's value, add the
// conditions of the edge, and require the goal (or a contradiction: that edge cannot lead here).
func (f *bpFn) proveFactPhiSplit(pt point, g goal, facts []dfact, dqs []diseq) bool {
	seen := map[*ssa.Phi]bool{}
	var cands []*ssa.Phi
	for _, ft := range facts {
		for _, t := range []term{ft.u, ft.v} {
			ph, ok := t.v.(*ssa.Phi)
			if !ok || t.k != tInt || seen[ph] {
				continue
			}
			seen[ph] = true
			blk := ph.Block()
			if !blk.Dominates(pt.b) {
				continue
			}
			loopHead := false
			for _, pr := range blk.Preds {
				if blk.Dominates(pr) {
					loopHead = true
				}
			}
			if !loopHead {
				cands = append(cands, ph)
			}
		}
	}
	if len(cands) > 4 {
		cands = cands[:4]
	}
	for _, ph := range cands {
		blk := ph.Block()
		all := true
		for i, pred := range blk.Preds {
			et, eo := f.intTerm(ph.Edges[i])
			mt := term{tInt, ph}
			sub := make([]dfact, 0, len(facts)+8)
			for _, ft := range facts {
				nf := ft
				if nf.u == mt {
					nf.u, nf.c = et, nf.c-eo
				}
				if nf.v == mt {
					nf.v, nf.c = et, nf.c+eo
				}
				sub = append(sub, nf)
			}
			var edq []diseq
			f.edgeFacts(pred, blk, &sub, &edq)
			ng := g
			if ng.u == mt {
				ng.u, ng.c = et, ng.c-eo
			}
			if ng.v == mt {
				ng.v, ng.c = et, ng.c+eo
			}
			if inconsistent(sub) || entails(sub, append(append([]diseq{}, dqs...), edq...), ng) {
				continue
			}
			all = false
			break
		}
		if all {
			return true
		}
	}
	return false
}

// proveFactMinMaxSplit: some fact mentions M = max(a, b) (or min): in each of the two cases M = a (with
// b <= a, resp. a <= b for min) and M = b the goal must follow, or the case be contradictory.
func (f *bpFn) proveFactMinMaxSplit(g goal, facts []dfact, dqs []diseq) bool {
	seen := map[*ssa.Call]bool{}
	var cands []*ssa.Call
	for _, ft := range facts {
		for _, t := range []term{ft.u, ft.v} {
			c, ok := t.v.(*ssa.Call)
			if !ok || t.k != tInt || seen[c] {
				continue
			}
			seen[c] = true
			if b, ok := c.Call.Value.(*ssa.Builtin); ok && (b.Name() == "max" || b.Name() == "min") && len(c.Call.Args) == 2 {
				cands = append(cands, c)
			}
		}
	}
	if len(cands) > 3 {
		cands = cands[:3]
	}
	for _, c := range cands {
		isMax := c.Call.Value.(*ssa.Builtin).Name() == "max"
		mt := term{tInt, c}
		all := true
		for k := 0; k < 2; k++ {
			et, eo := f.intTerm(c.Call.Args[k])
			ot, oo := f.intTerm(c.Call.Args[1-k])
			sub := make([]dfact, 0, len(facts)+2)
			for _, ft := range facts {
				nf := ft
				if nf.u == mt {
					nf.u, nf.c = et, nf.c-eo
				}
				if nf.v == mt {
					nf.v, nf.c = et, nf.c+eo
				}
				sub = append(sub, nf)
			}
			// the chosen argument dominates the other one
			if isMax {
				sub = append(sub, dfact{ot, et, eo - oo, "max is this argument"}) // (ot+oo) - (et+eo) <= 0
			} else {
				sub = append(sub, dfact{et, ot, oo - eo, "min is this argument"})
			}
			ng := g
			if ng.u == mt {
				ng.u, ng.c = et, ng.c-eo
			}
			if ng.v == mt {
				ng.v, ng.c = et, ng.c+eo
			}
			if inconsistent(sub) || entails(sub, dqs, ng) {
				continue
			}
			all = false
			break
		}
		if all {
			return true
		}
	}
	return false
}

func (f *bpFn) substTerm(t term, from *ssa.Phi, blk *ssa.BasicBlock, predIdx int) (term, int64) {
	ph, ok := t.v.(*ssa.Phi)
	if !ok || ph.Block() != blk {
		return t, 0
	}
	e := ph.Edges[predIdx]
	if t.k == tInt {
		return f.intTerm(e)
	}
	return f.lenTerm(e)
}

// provePhi: g mentions phi ph; prove g for every incoming edge (simultaneous substitution
// of all phis of that block), assuming g itself (induction hypothesis for back edges).
func (f *bpFn) provePhi(ph *ssa.Phi, g goal, hyps []sfact, depth int) bool {
	blk := ph.Block()
	hy := append(append([]sfact{}, hyps...), sfact{dfact{g.u, g.v, g.c, "induction hypothesis"}, blk})
	for i, pred := range blk.Preds {
		ut, uo := f.substTerm(g.u, ph, blk, i)
		vt, vo := f.substTerm(g.v, ph, blk, i)
		ng := goal{ut, vt, g.c - uo + vo}
		facts := f.factsAt(pred)
		var dqs []diseq
		f.edgeFacts(pred, blk, &facts, &dqs)
		h := hyps
		if blk.Dominates(pred) {
			h = hy // back edge: the hypothesis about the current iteration's phi is available
		}
		facts = append(facts, usableAt(h, pred)...)
		if entails(facts, dqs, ng) {
			continue
		}
		if f.proveSplit(pred, ng, facts[len(facts):], nil, h, 1) {
			continue
		}
		if depth+1 < 3 {
			ok := false
			for _, t := range []term{ng.u, ng.v} {
				if p2, isPhi := t.v.(*ssa.Phi); isPhi && p2 != ph {
					if f.provePhi(p2, ng, h, depth+1) {
						ok = true
						break
					}
				}
			}
			if ok {
				continue
			}
		}
		return false
	}
	return true
}

// inferInvariants: template invariants for phis, proven by induction, added as facts.
func (f *bpFn) inferInvariants() {
	type cand struct {
		g   goal
		why string
	}
	var cands []cand
	for _, blk := range f.fn.Blocks {
		for _, ins := range blk.Instrs {
			ph, ok := ins.(*ssa.Phi)
			if !ok {
				break
			}
			if isIntType(ph.Type()) {
				pt := term{tInt, ph}
				for _, e := range ph.Edges {
					if dependsOn(e, ph, map[ssa.Value]bool{}) && !isSimpleEntry(e) {
						continue
					}
					et, eo := f.intTerm(e)
					cands = append(cands, cand{goal{et, pt, -eo}, "phi >= entry"}, cand{goal{pt, et, eo}, "phi <= entry"})
				}
				// comparisons mentioning the phi
				for _, ref := range *ph.Referrers() {
					f.cmpCands(ph, ref, func(g goal) { cands = append(cands, cand{g, "phi within compared bound"}) })
					if bo, ok := ref.(*ssa.BinOp); ok && (bo.Op == token.ADD || bo.Op == token.SUB) {
						for _, r2 := range *bo.Referrers() {
							f.cmpCands(ph, r2, func(g goal) { cands = append(cands, cand{g, "phi within compared bound"}) })
						}
					}
				}
			} else if hasLen(ph.Type()) {
				pt := term{tLen, ph}
				for _, e := range ph.Edges {
					et, eo := f.lenTerm(e)
					if et == pt {
						continue
					}
					cands = append(cands, cand{goal{et, pt, -eo}, "len(phi) >= len(edge)"}, cand{goal{pt, et, eo}, "len(phi) <= len(edge)"})
				}
			}
		}
	}
	// Houdini: assume all candidates, drop those whose induction step fails, repeat.
	// The surviving set is inductive: each member holds on every incoming edge given the
	// facts and the members (about the pre-state). Members are scoped to the phi's block.
	live := map[int]bool{}
	var uniq []cand
	seen := map[goal]bool{}
	for _, c := range cands {
		if c.g.u == c.g.v || seen[c.g] {
			continue
		}
		seen[c.g] = true
		uniq = append(uniq, c)
	}
	cands = uniq
	phiOf := func(g goal) *ssa.Phi {
		if p, ok := g.u.v.(*ssa.Phi); ok {
			return p
		}
		if p, ok := g.v.v.(*ssa.Phi); ok {
			return p
		}
		return nil
	}
	for i := range cands {
		if phiOf(cands[i].g) != nil {
			live[i] = true
		}
	}
	for changed := true; changed; {
		changed = false
		var hyp []sfact
		for i, c := range cands {
			if live[i] {
				hyp = append(hyp, sfact{dfact{c.g.u, c.g.v, c.g.c, "candidate"}, phiOf(c.g).Block()})
			}
		}
		for i, c := range cands {
			if !live[i] {
				continue
			}
			if !f.provePhiEdges(phiOf(c.g), c.g, hyp) {
				delete(live, i)
				changed = true
			}
		}
	}
	for i, c := range cands {
		if live[i] {
			f.inv = append(f.inv, sfact{dfact{c.g.u, c.g.v, c.g.c, "invariant: " + c.why}, phiOf(c.g).Block()})
		}
	}
}

// provePhiEdges: one induction step of g (about phi ph) on every incoming edge, using
// hyp about pre-state values (scoped) — no nested induction.
func (f *bpFn) provePhiEdges(ph *ssa.Phi, g goal, hyp []sfact) bool {
	blk := ph.Block()
	for i, pred := range blk.Preds {
		ut, uo := f.substTerm(g.u, ph, blk, i)
		vt, vo := f.substTerm(g.v, ph, blk, i)
		ng := goal{ut, vt, g.c - uo + vo}
		facts := f.factsAt(pred)
		var dqs []diseq
		f.edgeFacts(pred, blk, &facts, &dqs)
		facts = append(facts, usableAt(hyp, pred)...)
		if !entails(facts, dqs, ng) {
			return false
		}
	}
	return true
}

func isSimpleEntry(v ssa.Value) bool {
	_, ok := v.(*ssa.Const)
	return ok
}

// cmpCands: for `x < B`, `x <= B` (x = phi + k) propose phi <= B - k etc.
func (f *bpFn) cmpCands(ph *ssa.Phi, ref ssa.Instruction, emit func(goal)) {
	bo, ok := ref.(*ssa.BinOp)
	if !ok {
		return
	}
	switch bo.Op {
	case token.LSS, token.LEQ, token.GTR, token.GEQ:
	default:
		return
	}
	if !isIntType(bo.X.Type()) {
		return
	}
	xt, xo := f.intTerm(bo.X)
	yt, yo := f.intTerm(bo.Y)
	pt := term{tInt, ph}
	// propose non-strict bounds in both directions
	if xt == pt {
		emit(goal{pt, yt, yo - xo})     // phi + xo <= y
		emit(goal{yt, pt, xo - yo})     // phi + xo >= y
		emit(goal{pt, yt, yo - xo + 1}) // phi + xo <= y+1
		emit(goal{yt, pt, xo - yo + 1})
	}
	if yt == pt {
		emit(goal{pt, xt, xo - yo})
		emit(goal{xt, pt, yo - xo})
		emit(goal{pt, xt, xo - yo + 1})
		emit(goal{xt, pt, yo - xo + 1})
	}
}

// interprocedural hooks (filled in bounds_ip.go) -------------------------------------

func (f *bpFn) repoCondFacts(c *ssa.Call, fn *ssa.Function, tv bool, out *[]dfact, dq *[]diseq) {}

// proveViaCallers: if the goal only mentions parameters (or their lengths) and constants,
// prove it at every static call site of this (non-exported-API, address-not-taken) function.
func (f *bpFn) proveViaCallers(pt point, g goal, facts []dfact, dqs []diseq, depth int) bool {
	fn := f.fn
	b := f.bp
	if b.depth >= 3 {
		return false
	}
	// candidate parameter facts: bounds on each parameter term that would make the goal follow
	type pf struct {
		g goal
	}
	var params []term
	for _, par := range fn.Params {
		if isIntType(par.Type()) {
			params = append(params, term{tInt, par})
		} else if hasLen(par.Type()) {
			params = append(params, term{tLen, par})
		}
	}
	if len(params) == 0 {
		return false
	}
	sites := b.calls[fn]
	if len(sites) == 0 || b.addrTaken[fn] || isAPIRoot(b.p, fn) {
		return false
	}
	// try: for each parameter term P, find the weakest constant k such that adding (P >= k) or (P <= k),
	// or (P_i - P_j <= k), makes the goal follow; then prove that at all call sites.
	try := func(extra dfact) bool {
		if !entails(append(append([]dfact{}, facts...), extra), dqs, g) {
			return false
		}
		// prove extra at each call site
		for _, site := range sites {
			caller := site.Parent()
			if caller.Blocks == nil {
				return false
			}
			cf := b.forFn(caller)
			ut, uo := cf.mapParamTerm(extra.u, fn, site)
			vt, vo := cf.mapParamTerm(extra.v, fn, site)
			ng := goal{ut, vt, extra.c - uo + vo}
			b.depth++
			ok := cf.prove(point{site.Block(), 0}, ng, nil, 1)
			b.depth--
			if !ok {
				return false
			}
		}
		return true
	}
	for _, p := range params {
		for k := int64(0); k <= 8; k++ {
			if try(dfact{zeroT, p, -k, "param lower bound from all call sites"}) { // p >= k
				f.global = append(f.global, dfact{zeroT, p, -k, fmt.Sprintf("parameter fact %s >= %d proven at all %d call sites", p, k, len(sites))})
				return true
			}
		}
	}
	for _, p := range params {
		for _, q := range params {
			if p == q {
				continue
			}
			for k := int64(-1); k <= 1; k++ {
				if try(dfact{p, q, k, "param relation from all call sites"}) {
					f.global = append(f.global, dfact{p, q, k, fmt.Sprintf("parameter fact %s - %s <= %d proven at all %d call sites", p, q, k, len(sites))})
					return true
				}
			}
		}
	}
	return false
}

func (f *bpFn) mapParamTerm(t term, fn *ssa.Function, site ssa.CallInstruction) (term, int64) {
	if t.k == tZero {
		return t, 0
	}
	par, ok := t.v.(*ssa.Parameter)
	if !ok {
		return t, 0
	}
	idx := -1
	for i, p := range fn.Params {
		if p == par {
			idx = i
		}
	}
	args := site.Common().Args
	if idx < 0 || idx >= len(args) {
		return t, 0
	}
	if t.k == tInt {
		return f.intTerm(args[idx])
	}
	return f.lenTerm(args[idx])
}

func isAPIRoot(p *Prog, fn *ssa.Function) bool {
	for _, e := range p.Ecos {
		for _, r := range []*ssa.Function{e.NewVer, e.NewRng, e.NameFn, e.Compare, e.VString, e.Contains, e.RString} {
			if r == fn {
				return true
			}
		}
	}
	if fn.Object() != nil && fn.Object().Exported() && fn.Signature.Recv() == nil {
		return true
	}
	if fn.Name() == "main" || fn.Name() == "run" {
		return true
	}
	return false
}

var _ = sort.Strings
