package main

import (
	"fmt"
	"go/constant"
	"go/token"
	"go/types"
	"sort"

	"golang.org/x/tools/go/ssa"
)

// ---- R-SIGN: every int that can flow to Compare's result is in {-1,0,1} -------------------------

type signSet uint8 // bit0: -1, bit1: 0, bit2: +1, bit3: anything else

const (
	sNeg signSet = 1 << iota
	sZero
	sPos
	sTop
)

func (s signSet) String() string {
	if s&sTop != 0 {
		return "unbounded"
	}
	out := "{"
	for i, n := range []string{"-1", "0", "1"} {
		if s&(1<<i) != 0 {
			out += n + " "
		}
	}
	return out + "}"
}

type signAn struct {
	p    *Prog
	memo map[*ssa.Function]signSet
	busy map[*ssa.Function]bool
	vis  map[ssa.Value]bool
}

var stdComparators = map[string]bool{"strings.Compare": true, "bytes.Compare": true, "cmp.Compare": true, "(time.Time).Compare": true, "(*math/big.Int).Cmp": true}

func (a *signAn) fn(f *ssa.Function, idx int) signSet {
	if s, ok := a.memo[f]; ok {
		return s
	}
	if a.busy[f] {
		return 0
	}
	a.busy[f] = true
	var s signSet
	for _, b := range f.Blocks {
		if r, ok := b.Instrs[len(b.Instrs)-1].(*ssa.Return); ok && idx < len(r.Results) {
			s |= a.val(r.Results[idx], map[ssa.Value]bool{})
		}
	}
	a.busy[f] = false
	a.memo[f] = s
	return s
}

func (a *signAn) val(v ssa.Value, seen map[ssa.Value]bool) signSet {
	if seen[v] {
		return 0
	}
	seen[v] = true
	switch x := v.(type) {
	case *ssa.Const:
		if c, ok := constInt(x); ok {
			switch c {
			case -1:
				return sNeg
			case 0:
				return sZero
			case 1:
				return sPos
			}
		}
		return sTop
	case *ssa.Phi:
		var s signSet
		for _, e := range x.Edges {
			s |= a.val(e, seen)
		}
		return s
	case *ssa.UnOp:
		if x.Op == token.SUB {
			in := a.val(x.X, seen)
			var s signSet
			if in&sNeg != 0 {
				s |= sPos
			}
			if in&sPos != 0 {
				s |= sNeg
			}
			return s | in&(sZero|sTop)
		}
	case *ssa.Call:
		if f := x.Call.StaticCallee(); f != nil {
			if stdComparators[extName(f)] {
				return sNeg | sZero | sPos
			}
			if a.p.IsRepoFn(f) && f.Blocks != nil {
				return a.fn(f, 0)
			}
		} else if x.Call.IsInvoke() && x.Call.Method.Name() == "Compare" {
			// V.Compare on a type parameter / interface: the implementations are checked themselves
			return sNeg | sZero | sPos
		}
	case *ssa.Extract:
		if c, ok := x.Tuple.(*ssa.Call); ok {
			if f := c.Call.StaticCallee(); f != nil && a.p.IsRepoFn(f) && f.Blocks != nil {
				return a.fn(f, x.Index)
			}
		}
	}
	return sTop
}

func ruleSign(p *Prog, r *Report) {
	a := &signAn{p: p, memo: map[*ssa.Function]signSet{}, busy: map[*ssa.Function]bool{}}
	for _, e := range p.Ecos {
		s := a.fn(e.Compare, 0)
		key := p.FnKey(e.Compare) + ": result range"
		if s&sTop == 0 && s != 0 {
			r.Ok("R-SIGN", key, p.FnPos(e.Compare), "every value that can flow to the result (through helpers and std comparators) is in "+s.String())
		} else {
			r.Bad("R-SIGN", key, p.FnPos(e.Compare), "a value outside {-1,0,1} (difference, length, unconstrained int) can flow to Compare's result")
		}
	}
	// comparator closures handed to sort functions
	n := 0
	for _, fn := range p.SrcFns {
		for _, b := range fn.Blocks {
			for _, ins := range b.Instrs {
				c, ok := ins.(*ssa.Call)
				if !ok {
					continue
				}
				f := c.Call.StaticCallee()
				if f == nil || (extName(f) != "slices.SortFunc" && extName(f) != "slices.SortStableFunc") {
					continue
				}
				n++
				key := fmt.Sprintf("%s: comparator of %s", p.FnKey(fn), extName(f))
				arg := c.Call.Args[1]
				if mc, ok := arg.(*ssa.MakeClosure); ok {
					arg = mc.Fn
				}
				cf, ok := arg.(*ssa.Function)
				if !ok {
					r.Und("R-SIGN", key, p.Pos(c.Pos()), "comparator is not a function literal or method expression")
					continue
				}
				s := a.fn(cf, 0)
				if cf.Blocks == nil || s&sTop != 0 || s == 0 {
					// synthetic method-expression wrapper V.Compare: resolved to the implementations
					if cf.Synthetic != "" || cf.Blocks == nil {
						r.Ok("R-SIGN", key, p.Pos(c.Pos()), "method expression V.Compare: range is that of the ecosystem Compare methods (checked above)")
						continue
					}
					r.Bad("R-SIGN", key, p.Pos(c.Pos()), "sort comparator may return values outside {-1,0,1}")
					continue
				}
				r.Ok("R-SIGN", key, p.Pos(c.Pos()), "sort comparator returns only "+s.String())
			}
		}
	}
	r.Floor("R-SIGN", 21)
}

// ---- R-BIGDIGITS: ordering decimal strings by length needs leading zeros stripped first -------

// A "digit-run comparator" is found by role: two string parameters, int result, parses them with
// ParseUint/ParseInt/Atoi, and (as a fallback) compares len(x) with len(y). Length order equals
// numeric order only without leading zeros, so both operands of the length comparison must be
// results of a zero-stripping call on the parameters.
func ruleBigDigits(p *Prog, r *Report) {
	n := 0
	var fns []*ssa.Function
	for _, fn := range p.SrcFns {
		if len(fn.Params) == 2 && isStringType(fn.Params[0].Type()) && isStringType(fn.Params[1].Type()) && fn.Signature.Results().Len() == 1 && isIntType(fn.Signature.Results().At(0).Type()) {
			fns = append(fns, fn)
		}
	}
	sort.Slice(fns, func(i, j int) bool { return p.FnKey(fns[i]) < p.FnKey(fns[j]) })
	for _, fn := range fns {
		parses := false
		var lenCmps []*ssa.BinOp
		for _, b := range fn.Blocks {
			for _, ins := range b.Instrs {
				switch x := ins.(type) {
				case *ssa.Call:
					if f := x.Call.StaticCallee(); f != nil {
						switch extName(f) {
						case "strconv.ParseUint", "strconv.ParseInt", "strconv.Atoi":
							if derivesFromStr(x.Call.Args[0], fn.Params[0]) || derivesFromStr(x.Call.Args[0], fn.Params[1]) {
								parses = true
							}
						}
					}
				case *ssa.BinOp:
					switch x.Op {
					case token.LSS, token.GTR, token.LEQ, token.GEQ, token.NEQ, token.EQL:
						if lx, ok1 := lenArg(x.X); ok1 {
							if ly, ok2 := lenArg(x.Y); ok2 {
								_ = lx
								_ = ly
								lenCmps = append(lenCmps, x)
							}
						}
					}
				}
			}
		}
		// also the canonical form without any parse: strip zeros, compare lengths, then text
		strips := false
		for _, bo := range lenCmps {
			lx, _ := lenArg(bo.X)
			ly, _ := lenArg(bo.Y)
			if zeroStripped(lx, fn) && zeroStripped(ly, fn) {
				strips = true
			}
		}
		if !(parses || strips) || len(lenCmps) == 0 {
			continue
		}
		n++
		key := p.FnKey(fn) + ": length order of digit runs"
		bad := ""
		for _, bo := range lenCmps {
			lx, _ := lenArg(bo.X)
			ly, _ := lenArg(bo.Y)
			for _, opnd := range []ssa.Value{lx, ly} {
				if !zeroStripped(opnd, fn) {
					bad = fmt.Sprintf("len(%s) is compared at %s but %s is not the result of stripping leading zeros: \"007\" would order above \"10\" whenever the integer parse overflows for one operand", describeAddr(opnd), p.Pos(bo.Pos()), describeAddr(opnd))
				}
			}
		}
		if bad == "" {
			r.Ok("R-BIGDIGITS", key, p.FnPos(fn), "both operands of the length comparison are zero-stripped")
		} else {
			r.Bad("R-BIGDIGITS", key, p.FnPos(fn), bad)
		}
	}
	r.Extra["digit_run_comparators"] = n
	r.Floor("R-BIGDIGITS", 3)
}

func lenArg(v ssa.Value) (ssa.Value, bool) {
	c, ok := v.(*ssa.Call)
	if !ok {
		return nil, false
	}
	b, ok := c.Call.Value.(*ssa.Builtin)
	if !ok || b.Name() != "len" || !isStringType(c.Call.Args[0].Type()) {
		return nil, false
	}
	return c.Call.Args[0], true
}

func derivesFromStr(v ssa.Value, par *ssa.Parameter) bool {
	for i := 0; i < 6; i++ {
		if v == ssa.Value(par) {
			return true
		}
		switch x := v.(type) {
		case *ssa.Call:
			if f := x.Call.StaticCallee(); f != nil && len(x.Call.Args) > 0 && isStringType(x.Call.Args[0].Type()) {
				v = x.Call.Args[0]
				continue
			}
		case *ssa.Phi:
			for _, e := range x.Edges {
				if derivesFromStr(e, par) {
					return true
				}
			}
		case *ssa.Slice:
			v = x.X
			continue
		}
		return false
	}
	return false
}

// zeroStripped: v is strings.TrimLeft(x, "0") (possibly a phi with a "0" fallback for the all-zero run)
func zeroStripped(v ssa.Value, fn *ssa.Function) bool {
	switch x := v.(type) {
	case *ssa.Call:
		if f := x.Call.StaticCallee(); f != nil && extName(f) == "strings.TrimLeft" {
			if c, ok := x.Call.Args[1].(*ssa.Const); ok && c.Value != nil && c.Value.Kind() == constant.String && constant.StringVal(c.Value) == "0" {
				return true
			}
		}
		// a repo helper whose every return is zero-stripped
		if f := x.Call.StaticCallee(); f != nil && f.Blocks != nil && f.Pkg == fn.Pkg {
			ok := true
			for _, b := range f.Blocks {
				if ret, isRet := b.Instrs[len(b.Instrs)-1].(*ssa.Return); isRet {
					if !zeroStripped(ret.Results[0], f) {
						ok = false
					}
				}
			}
			return ok
		}
	case *ssa.Phi:
		for _, e := range x.Edges {
			if c, ok := e.(*ssa.Const); ok && c.Value != nil && c.Value.Kind() == constant.String {
				s := constant.StringVal(c.Value)
				if s == "" || s == "0" {
					continue
				}
				return false
			}
			if !zeroStripped(e, fn) {
				return false
			}
		}
		return true
	}
	return false
}

var _ = types.Typ

func init() {
	register("C01", "Order laws of Compare in all 20 ecosystems: (R-PREORDER) reflexive / antisymmetric / transitive / range decided exhaustively on the finite order-type abstraction of each Compare's decision table (abstract evaluator over SSA: terms touched only through comparisons, constant tables and pure derived values; zip loops summarised by a position-wise total-preorder check; callee comparators proven separately and composed); (R-SIGN) every value flowing to the result is in {-1,0,1}; (R-BIGDIGITS) the length-ordering fallback of digit-run comparators only applies to zero-stripped operands. The character scanners (debian/rpm/alpm strings, alpine numeric arrays) are outside the evaluator's fragment: their own laws are not decided and the chains above them are conditional.", ruleSign, ruleBigDigits)
}
