package main

import (
	"fmt"
	"go/constant"
	"go/token"
	"go/types"
	"sort"
	"strings"
	"unicode"

	"golang.org/x/tools/go/ssa"
)

// c03b.go: C03 for an ecosystem that keeps its components as text ([]string) and orders them with an
// element comparator (conan's naturalCompare).
//
//	R-NATCMP      the element comparator's decision table: whenever both operands have a leading number,
//	              the parsed values are compared, and when they differ their order is the result.
//	R-DIGITPREFIX the helper that extracts the leading number returns a digits-only string unchanged
//	              (one iteration of its character loop is evaluated for digit representatives: it may
//	              only go on to the next character; after the loop the parameter itself is returned).
//	R-CHAIN       at a position of the zip loop where both parts are present, a smaller parsed value
//	              ends the comparison with -1.
//
// Together: digits-only parts are ordered as integers, position by position.

// charCond evaluates a condition that depends only on the current character for a representative
// rune: 1 true, 0 false, -1 not a function of the character alone.
func charCond(v ssa.Value, isCh func(ssa.Value) bool, r rune) int {
	strip := func(x ssa.Value) ssa.Value {
		for {
			switch c := x.(type) {
			case *ssa.Convert:
				x = c.X
				continue
			case *ssa.ChangeType:
				x = c.X
				continue
			}
			return x
		}
	}
	switch x := v.(type) {
	case *ssa.UnOp:
		if x.Op == token.NOT {
			if c := charCond(x.X, isCh, r); c >= 0 {
				return 1 - c
			}
		}
	case *ssa.BinOp:
		l, rr := strip(x.X), strip(x.Y)
		var k *ssa.Const
		op := x.Op
		switch {
		case isCh(l):
			k, _ = rr.(*ssa.Const)
		case isCh(rr):
			k, _ = l.(*ssa.Const)
			switch op { // mirror
			case token.LSS:
				op = token.GTR
			case token.GTR:
				op = token.LSS
			case token.LEQ:
				op = token.GEQ
			case token.GEQ:
				op = token.LEQ
			}
		}
		if k == nil || k.Value == nil {
			return -1
		}
		kv, ok := constant.Int64Val(constant.ToInt(k.Value))
		if !ok {
			return -1
		}
		b := false
		switch op {
		case token.LSS:
			b = int64(r) < kv
		case token.GTR:
			b = int64(r) > kv
		case token.LEQ:
			b = int64(r) <= kv
		case token.GEQ:
			b = int64(r) >= kv
		case token.EQL:
			b = int64(r) == kv
		case token.NEQ:
			b = int64(r) != kv
		default:
			return -1
		}
		if b {
			return 1
		}
		return 0
	case *ssa.Call:
		f := x.Call.StaticCallee()
		if f == nil || len(x.Call.Args) != 1 || !isCh(strip(x.Call.Args[0])) {
			return -1
		}
		var b bool
		switch extName(f) {
		case "unicode.IsDigit":
			b = unicode.IsDigit(r)
		case "unicode.IsLetter":
			b = unicode.IsLetter(r)
		case "unicode.IsSpace":
			b = unicode.IsSpace(r)
		case "unicode.IsNumber":
			b = unicode.IsNumber(r)
		default:
			return -1
		}
		if b {
			return 1
		}
		return 0
	}
	return -1
}

// digitPrefixHelper: fn(s string) string returns s itself whenever s consists of digits only.
// Returns "" when shown, else the reason.
func digitPrefixHelper(fn *ssa.Function) string {
	if len(fn.Params) != 1 || !isStringType(fn.Params[0].Type()) || fn.Signature.Results().Len() != 1 || !isStringType(fn.Signature.Results().At(0).Type()) {
		return "not a function from string to string"
	}
	s := fn.Params[0]
	ls := findLoops(fn)
	if len(ls) != 1 {
		return fmt.Sprintf("%d loops (want one character loop)", len(ls))
	}
	l := ls[0]
	// the current character: the rune of a range over s, or s[i]
	isCh := func(v ssa.Value) bool {
		switch x := v.(type) {
		case *ssa.Extract:
			if nx, ok := x.Tuple.(*ssa.Next); ok && nx.IsString && x.Index == 2 {
				if rg, ok := nx.Iter.(*ssa.Range); ok && rg.X == ssa.Value(s) {
					return true
				}
			}
		case *ssa.Lookup:
			return x.X == ssa.Value(s)
		case *ssa.Index:
			return x.X == ssa.Value(s)
		}
		return false
	}
	// entry of the iteration: the successor of the header that lies in the body
	var entry *ssa.BasicBlock
	for _, sc := range l.header.Succs {
		if l.body[sc] && sc != l.header {
			entry = sc
		}
	}
	if entry == nil {
		return "loop body not found"
	}
	for _, r := range []rune{'0', '5', '9'} {
		seen := map[*ssa.BasicBlock]bool{}
		var bad string
		var walk func(b *ssa.BasicBlock)
		walk = func(b *ssa.BasicBlock) {
			if bad != "" || seen[b] {
				return
			}
			if b == l.header {
				return // next character
			}
			if !l.body[b] {
				bad = fmt.Sprintf("for the digit %q the iteration can leave the loop (block %d): the digits-only string is cut or replaced", r, b.Index)
				return
			}
			seen[b] = true
			if iff, ok := b.Instrs[len(b.Instrs)-1].(*ssa.If); ok {
				switch charCond(iff.Cond, isCh, r) {
				case 1:
					walk(b.Succs[0])
				case 0:
					walk(b.Succs[1])
				default:
					walk(b.Succs[0])
					walk(b.Succs[1])
				}
				return
			}
			for _, sc := range b.Succs {
				walk(sc)
			}
		}
		walk(entry)
		if bad != "" {
			return bad
		}
	}
	// every return outside the loop body hands back the parameter (or "" in front of the loop)
	n := 0
	for _, b := range fn.Blocks {
		ret, ok := b.Instrs[len(b.Instrs)-1].(*ssa.Return)
		if !ok {
			continue
		}
		// reachable from the loop's exhaustion or from before the loop: only those matter
		afterLoop := false
		for _, sc := range l.header.Succs {
			if !l.body[sc] && (sc == b || sc.Dominates(b)) {
				afterLoop = true
			}
		}
		if !afterLoop {
			continue
		}
		n++
		v := ret.Results[0]
		if sl, ok := v.(*ssa.Slice); ok && sl.X == ssa.Value(s) && (sl.Low == nil || isConstZero(sl.Low)) {
			switch {
			case sl.High == nil:
				v = s
			default:
				// s[:end] where the loop is left, for a digits-only string, only by its guard end < len(s)
				// becoming false: end is len(s) there
				if ph, ok := sl.High.(*ssa.Phi); ok && ph.Block() == l.header {
					if iff, ok := l.header.Instrs[len(l.header.Instrs)-1].(*ssa.If); ok {
						if bo, ok := iff.Cond.(*ssa.BinOp); ok && bo.Op == token.LSS && bo.X == ssa.Value(ph) && !l.body[l.header.Succs[1]] {
							if c, ok := bo.Y.(*ssa.Call); ok {
								if bi, ok := c.Call.Value.(*ssa.Builtin); ok && bi.Name() == "len" && c.Call.Args[0] == ssa.Value(s) {
									v = s
								}
							}
						}
					}
				}
			}
		}
		if v != ssa.Value(s) {
			return "after the last character something other than the parameter is returned"
		}
	}
	if n == 0 {
		return "no return after the character loop"
	}
	return ""
}

func isConstZero(v ssa.Value) bool {
	c, ok := v.(*ssa.Const)
	if !ok || c.Value == nil {
		return false
	}
	k, ok := constant.Int64Val(constant.ToInt(c.Value))
	return ok && k == 0
}

// zipSeqOf: the sequence key of the (single) zip relation among the terms ("" if none)
func zipSeqOf(terms map[string]*termInfo) string {
	var ks []string
	for k := range terms {
		if strings.HasPrefix(k, "zip:") {
			ks = append(ks, k)
		}
	}
	sort.Strings(ks)
	for _, k := range ks {
		i := strings.Index(k, "#loop")
		if i < 0 {
			continue
		}
		j := strings.Index(k[i:], "(")
		if j < 0 {
			continue
		}
		return strings.TrimSuffix(k[i+j+1:], ")")
	}
	return ""
}

// qualifyElem rewrites a term over the element as named inside the loop's own function ("[i]",
// "split(p0)[i]") into the term over the element of the version's sequence (".parts[i]",
// "split(.pkgver)[i]"), which is what an evaluation from Compare creates.
func qualifyElem(k, seq string) string {
	if seq == "" || strings.Contains(k, seq+"[i]") {
		return k
	}
	if strings.Contains(k, "([i])") {
		return strings.ReplaceAll(k, "([i])", "("+seq+"[i])")
	}
	// same derivation applied to p0 instead of the field
	if i := strings.LastIndex(seq, "(."); i >= 0 {
		own := seq[:i] + "(p0)" + seq[i+strings.Index(seq[i:], ")")+1:]
		return strings.ReplaceAll(k, own+"[i]", seq+"[i]")
	}
	return k
}

func ruleNatCmp(p *Prog, r *Report) {
	nInst := 0
	for _, e := range p.Ecos {
		st := e.VerT.Underlying()
		ef := ecoFieldInfo(p, e)
		if ef.st == nil || len(ef.leadG) > 0 {
			continue
		}
		_ = st
		inCompare := map[*ssa.Function]bool{}
		for _, fn := range p.RepoReachable(e.Compare) {
			inCompare[fn] = true
		}
		for i := 0; i < ef.st.NumFields(); i++ {
			f := ef.st.Field(i)
			if !isStringSlice(f.Type()) {
				continue
			}
			cmps := elemComparators(p, e, inCompare, i)
			var cmpFns []*ssa.Function
			for fn := range cmps {
				if len(fn.Params) == 2 && isStringType(fn.Params[0].Type()) && isStringType(fn.Params[1].Type()) && fn.Signature.Results().Len() == 1 && isIntType(fn.Signature.Results().At(0).Type()) {
					cmpFns = append(cmpFns, fn)
				}
			}
			sort.Slice(cmpFns, func(a, b int) bool { return p.FnKey(cmpFns[a]) < p.FnKey(cmpFns[b]) })
			if len(cmpFns) == 0 {
				continue
			}
			nInst++
			seq := "." + f.Name()
			base := fmt.Sprintf("%s: parts of %s that are numbers", e.Name, seq)
			if len(cmpFns) != 1 {
				r.Und("R-NATCMP", base+" compare by value", p.FnPos(e.Compare), fmt.Sprintf("%d element comparators", len(cmpFns)))
				continue
			}
			cf := cmpFns[0]
			// ---- R-NATCMP: the comparator's table
			c := newAECtx(p)
			c.stageMode = false
			type leaf struct {
				w   *world
				got int64
			}
			var leaves []leaf
			oof := c.withRetries(cf, func() {
				leaves = nil
				c.explore(2, 100000, func(w *world) {
					leaves = append(leaves, leaf{w.clone(), c.runPair(cf, w, 0, 1, nil)})
				})
			})
			valK, numK := "", ""
			for _, k := range c.termKeys() {
				ti := c.terms[k]
				if strings.HasPrefix(k, "Atoi(") && strings.HasSuffix(k, "#0") && len(ti.base) == 1 {
					valK, numK = k, ti.base[0]
				}
			}
			errK := strings.TrimSuffix(valK, "#0") + "#1"
			key := base + " compare by value"
			var bad []string
			decided := 0
			for _, lf := range leaves {
				desc := lf.w.describe(c.pools, c.terms)
				if valK == "" {
					break
				}
				// both operands have a number: the leading-number term is not ""
				both := true
				if numK != "p0" {
					for ind := 0; ind < 2; ind++ {
						pv, ok := lf.w.pos[posKey(numK, ind)]
						ei := poolIndexStr(c.pools[numK], "")
						if !ok || ei < 0 || pv == 2*ei+1 {
							both = false
						}
					}
				}
				if !both {
					continue
				}
				if e0, h0 := lf.w.pos[posKey(errK, 0)]; h0 && e0 != 0 {
					continue
				}
				if e1, h1 := lf.w.pos[posKey(errK, 1)]; h1 && e1 != 0 {
					continue
				}
				v, ok := c.cmpAssigned(lf.w, valK, 0, 1)
				if !ok {
					bad = append(bad, "both operands have a leading number but the outcome is decided without comparing the parsed values: ["+desc+"]")
					continue
				}
				if v != 0 {
					decided++
					if lf.got != int64(v) {
						bad = append(bad, fmt.Sprintf("parsed values order as %d, the comparator returns %d [%s]", v, lf.got, desc))
					}
				}
			}
			switch {
			case oof != "":
				r.Und("R-NATCMP", key, p.FnPos(cf), "element comparator outside the fragment: "+oof)
			case valK == "":
				r.Bad("R-NATCMP", key, p.FnPos(cf), "the element comparator "+cf.Name()+" never parses its operands as numbers: 10 and 9 are compared as text")
			case len(bad) > 0:
				sort.Strings(bad)
				r.Bad("R-NATCMP", key, p.FnPos(cf), fmt.Sprintf("%d disagreeing abstract worlds, e.g. %s", len(bad), bad[0]))
			case decided < 2:
				r.Und("R-NATCMP", key, p.FnPos(cf), fmt.Sprintf("only %d worlds in which differing values decide", decided))
			default:
				r.Ok("R-NATCMP", key, p.FnPos(cf), fmt.Sprintf("%s: %d abstract worlds; whenever both operands have a leading number (%s) the parsed values are compared and decide when they differ", cf.Name(), len(leaves), numK))
			}
			// ---- R-DIGITPREFIX
			if numK != "" && numK != "p0" {
				hk := fmt.Sprintf("%s: the leading number of a digits-only part is the whole part", e.Name)
				hname := numK[:strings.Index(numK, "(")]
				var helper *ssa.Function
				for fn := range p.AllFns {
					if p.IsRepoFn(fn) && fn.Name() == hname && fn.Pkg == cf.Pkg {
						helper = fn
					}
				}
				switch {
				case numK != hname+"(p0)" || helper == nil:
					r.Und("R-DIGITPREFIX", hk, p.FnPos(cf), "the number handed to the parser is "+numK+": not the operand or one helper applied to it")
				default:
					if why := digitPrefixHelper(helper); why != "" {
						r.Bad("R-DIGITPREFIX", hk, p.FnPos(helper), helper.Name()+": "+why)
					} else {
						r.Ok("R-DIGITPREFIX", hk, p.FnPos(helper), helper.Name()+": for the digits 0, 5 and 9 an iteration of the character loop only goes on to the next character; after the last one the parameter itself is returned")
					}
				}
			}
			// ---- R-CHAIN: orientation at a position of the zip loop
			ck := fmt.Sprintf("%s: a smaller number at a position of %s gives -1", e.Name, seq)
			c2 := newAECtx(p)
			c2.stageMode = false
			res := c2.queryElemBy(e.Compare, seq, func(terms map[string]*termInfo) (string, []string) {
				// the loop may have been summarised from its own function, where the sequence is a
				// parameter and its element is named "[i]": qualify with the field
				qual := func(k string) string { return strings.ReplaceAll(k, "([i])", "("+seq+"[i])") }
				var ks []string
				for k := range terms {
					ks = append(ks, k)
				}
				sort.Strings(ks)
				// the element comparator as a relation atom on the two elements
				for _, k := range ks {
					for _, pre := range []string{"rank:", "stage:"} {
						if k == pre+cf.Name()+"([i])" || k == pre+cf.Name()+"("+seq+"[i])" {
							return qual(k), nil
						}
					}
				}
				for _, k := range ks {
					ti := terms[k]
					if strings.HasPrefix(k, "Atoi(") && strings.HasSuffix(k, "#0") && (strings.Contains(k, "("+seq+"[i])") || strings.Contains(k, "([i])")) && len(ti.base) == 1 {
						if ti.base[0] == seq+"[i]" || ti.base[0] == "[i]" {
							return qual(k), nil
						}
						return qual(k), []string{qual(ti.base[0])}
					}
				}
				return "", nil
			})
			switch {
			case res.oof != "":
				r.Und("R-CHAIN", ck, p.FnPos(e.Compare), res.oof)
			case res.ok:
				r.Ok("R-CHAIN", ck, p.FnPos(e.Compare), fmt.Sprintf("at a position where both parts are present, the part that %s (R-NATCMP) orders first ends the comparison with -1 (%d abstract worlds)", cf.Name(), res.leaves))
			default:
				r.Bad("R-CHAIN", ck, p.FnPos(e.Compare), "a smaller number does not give -1 at its position: "+res.detail)
			}
		}
	}
	r.Floor("R-NATCMP", 1)
	_ = nInst
}

// ---- a version text cut into segments by a splitter and compared segment by segment (alpm) ----------------
//
//	R-SEGNUM  the segment comparator's decision table, restricted to two segments that start with a digit:
//	          integer order for any length (parsed values when both fit a machine word, otherwise the
//	          zero-stripped runs by length and then text).
//	R-CHAIN   at a position of the zip loop where both segments are present, the smaller parsed value ends the
//	          comparison with -1.
//
// Not decided here: that the splitter cuts a plain dotted number into exactly its digit runs.

// zipSegComparators: repo functions (string, string) int called inside a loop of a function reachable
// from Compare with two elements of []string values (possibly defaulted through a phi).
func zipSegComparators(p *Prog, e *Eco) []*ssa.Function {
	isElem := func(v ssa.Value) bool {
		seen := map[ssa.Value]bool{}
		var walk func(v ssa.Value) bool
		walk = func(v ssa.Value) bool {
			if seen[v] {
				return false
			}
			seen[v] = true
			switch x := v.(type) {
			case *ssa.Phi:
				for _, ed := range x.Edges {
					if walk(ed) {
						return true
					}
				}
			case *ssa.UnOp:
				if ia, ok := x.X.(*ssa.IndexAddr); ok && x.Op == token.MUL {
					return isStringSlice(ia.X.Type())
				}
			case *ssa.Extract:
				return walk(x.Tuple)
			case *ssa.Call:
				// a read helper: segmentAt(list, i) / partOrZero(list, i)
				if g := x.Call.StaticCallee(); g != nil && p.IsRepoFn(g) {
					for _, a := range x.Call.Args {
						if isStringSlice(a.Type()) {
							return true
						}
					}
				}
			}
			return false
		}
		return walk(v)
	}
	set := map[*ssa.Function]bool{}
	for _, fn := range p.RepoReachable(e.Compare) {
		if fn.Blocks == nil {
			continue
		}
		for _, l := range findLoops(fn) {
			for b := range l.body {
				for _, ins := range b.Instrs {
					c, ok := ins.(*ssa.Call)
					if !ok {
						continue
					}
					g := c.Call.StaticCallee()
					if g == nil || !p.IsRepoFn(g) || len(c.Call.Args) != 2 || g.Signature.Results().Len() != 1 || !isIntType(g.Signature.Results().At(0).Type()) {
						continue
					}
					if isStringType(c.Call.Args[0].Type()) && isStringType(c.Call.Args[1].Type()) && isElem(c.Call.Args[0]) && isElem(c.Call.Args[1]) {
						set[g] = true
					}
				}
			}
		}
	}
	var out []*ssa.Function
	for g := range set {
		out = append(out, g)
	}
	sort.Slice(out, func(a, b int) bool { return p.FnKey(out[a]) < p.FnKey(out[b]) })
	return out
}

func ruleSegNum(p *Prog, r *Report) {
	for _, e := range p.Ecos {
		ef := ecoFieldInfo(p, e)
		if ef.st == nil || len(ef.leadG) > 0 {
			continue
		}
		// only ecosystems that keep the version text itself (no component list)
		hasList := false
		for i := 0; i < ef.st.NumFields(); i++ {
			if _, ok := ef.st.Field(i).Type().Underlying().(*types.Slice); ok {
				hasList = true
			}
		}
		if hasList {
			continue
		}
		segs := zipSegComparators(p, e)
		if len(segs) == 0 {
			continue
		}
		key := fmt.Sprintf("%s: segments that start with a digit compare as integers of any length", e.Name)
		if len(segs) != 1 {
			r.Und("R-SEGNUM", key, p.FnPos(e.Compare), fmt.Sprintf("%d segment comparators", len(segs)))
			continue
		}
		sf := segs[0]
		digitLed := func(c *aeCtx, w *world) bool {
			n := 0
			for k, v := range w.pos {
				tk := k[:strings.LastIndex(k, "|")]
				if strings.HasPrefix(tk, "IsDigit(p0[0])") || tk == "Match[^[0-9]](p0)" {
					if v != 1 {
						return false
					}
					n++
				}
			}
			return n == 2
		}
		oof, bad, rows, n := digitsTableIf(p, sf, digitLed)
		switch {
		case oof != "":
			r.Und("R-SEGNUM", key, p.FnPos(sf), "segment comparator outside the fragment: "+oof)
		case len(bad) > 0:
			sort.Strings(bad)
			r.Bad("R-SEGNUM", key, p.FnPos(sf), bad[0])
		case n < 4 || rows["both fit a machine word"] == 0:
			r.Und("R-SEGNUM", key, p.FnPos(sf), fmt.Sprintf("only %d abstract worlds with two digit-led segments (%v)", n, rows))
		default:
			r.Ok("R-SEGNUM", key, p.FnPos(sf), fmt.Sprintf("%s: %d abstract worlds with two digit-led segments: parsed values when both fit, otherwise zero-stripped length then text (%v)", sf.Name(), n, rows))
		}
		// orientation inside the zip loop
		ck := fmt.Sprintf("%s: a smaller number at a position of the segment list gives -1", e.Name)
		c2 := newAECtx(p)
		c2.stageMode = false
		seq := ""
		res := c2.queryElemBy(e.Compare, "", func(terms map[string]*termInfo) (string, []string) {
			var ks []string
			for k := range terms {
				ks = append(ks, k)
			}
			sort.Strings(ks)
			for _, k := range ks {
				if strings.HasPrefix(k, "zip:") && seq == "" {
					seq = strings.TrimSuffix(k[strings.LastIndex(k[:len(k)-1], "#")+1:], ")")
				}
			}
			zs := zipSeqOf(terms)
			for _, k := range ks {
				ti := terms[k]
				if strings.HasPrefix(k, "Atoi(") && strings.HasSuffix(k, "#0") && len(ti.base) == 1 && strings.HasSuffix(ti.base[0], "[i]") {
					return qualifyElem(k, zs), nil
				}
			}
			return "", nil
		})
		switch {
		case res.oof != "":
			r.Und("R-CHAIN", ck, p.FnPos(e.Compare), res.oof)
		case res.ok:
			r.Ok("R-CHAIN", ck, p.FnPos(e.Compare), fmt.Sprintf("at a position where both segments are present and parse, the smaller value ends the comparison with -1 (%d abstract worlds)", res.leaves))
		default:
			r.Bad("R-CHAIN", ck, p.FnPos(e.Compare), "a smaller number does not give -1 at its position: "+res.detail)
		}
	}
	r.Floor("R-SEGNUM", 1)
}

func init() {
	register("C03", "", ruleNatCmp, ruleSegNum)
}

// ---- R-SIBLING-INIT: sibling results of one parser initialise the same fields ---------------------------
//
// A constructor helper that returns a structure from several branches (one per accepted shape) and
// fills a field in some branches but not in others leaves that field at its zero value for the shapes
// of the other branches; when the field carries a component or a marker, versions of that shape lose it
// (a pre-release base that compares equal to its release). The sibling allocation sites of one helper
// must store the same set of fields. The ecosystem's Version type itself is exempt: its constructors
// legitimately build different kinds of version (date-based, dev branch, unparsed text) with different
// fields, which R-KINDGUARD and the marker rules cover.
func ruleSiblingInit(p *Prog, r *Report) {
	n := 0
	for _, e := range p.Ecos {
		for _, fn := range p.RepoReachable(e.NewVer) {
			if fn.Blocks == nil {
				continue
			}
			type site struct {
				a      *ssa.Alloc
				fields map[int]bool
			}
			byType := map[string][]*site{}
			var order []string
			for _, b := range fn.Blocks {
				for _, ins := range b.Instrs {
					a, ok := ins.(*ssa.Alloc)
					if !ok {
						continue
					}
					pt, ok := a.Type().Underlying().(*types.Pointer)
					if !ok {
						continue
					}
					st, ok := pt.Elem().Underlying().(*types.Struct)
					if !ok || types.Identical(pt.Elem(), e.VerT) || a.Comment != "complit" {
						continue
					}
					s := &site{a: a, fields: map[int]bool{}}
					for _, ref := range *a.Referrers() {
						if fa, ok := ref.(*ssa.FieldAddr); ok {
							// text, list and nested-structure fields only: a number or flag left at zero is
							// an ordinary value (X.0.0), whether it is written out or not
							switch st.Field(fa.Field).Type().Underlying().(type) {
							case *types.Basic:
								if !isStringType(st.Field(fa.Field).Type()) {
									continue
								}
							}
							for _, r2 := range *fa.Referrers() {
								if sto, ok := r2.(*ssa.Store); ok && sto.Addr == ssa.Value(fa) {
									if k, isC := sto.Val.(*ssa.Const); isC && (k.Value == nil || k.Value.Kind() == constant.String && constant.StringVal(k.Value) == "") {
										continue // an explicit zero value is the same as none
									}
									s.fields[fa.Field] = true
								}
							}
						}
					}
					k := pt.Elem().String()
					if byType[k] == nil {
						order = append(order, k)
					}
					byType[k] = append(byType[k], s)
				}
			}
			for _, k := range order {
				sites := byType[k]
				if len(sites) < 2 {
					continue
				}
				// only results: the structure (or its address) is returned
				returned := false
				for _, s := range sites {
					for _, ref := range *s.a.Referrers() {
						switch x := ref.(type) {
						case *ssa.Return:
							returned = true
						case *ssa.UnOp:
							for _, r2 := range *x.Referrers() {
								if _, ok := r2.(*ssa.Return); ok {
									returned = true
								}
							}
						}
					}
				}
				if !returned {
					continue
				}
				n++
				st := sites[0].a.Type().Underlying().(*types.Pointer).Elem().Underlying().(*types.Struct)
				union := map[int]bool{}
				for _, s := range sites {
					for f := range s.fields {
						union[f] = true
					}
				}
				var miss []string
				for _, s := range sites {
					for f := range union {
						if !s.fields[f] {
							miss = append(miss, fmt.Sprintf("%s at %s", st.Field(f).Name(), p.Pos(s.a.Pos())))
						}
					}
				}
				sort.Strings(miss)
				key := fmt.Sprintf("%s: %s fills the same fields of its result in every branch", e.Name, fn.Name())
				if len(miss) > 0 {
					r.Bad("R-SIBLING-INIT", key, p.FnPos(fn), fmt.Sprintf("%d sibling results of the same type; left at its zero value: %s. The shapes handled by that branch lose what the other branches record there", len(sites), strings.Join(miss, "; ")))
				} else {
					r.Ok("R-SIBLING-INIT", key, p.FnPos(fn), fmt.Sprintf("%d sibling results, each stores the same %d field(s)", len(sites), len(union)))
				}
			}
		}
	}
	r.Floor("R-SIBLING-INIT", 1)
	_ = n
}

func init() {
	register("C03", "", ruleSiblingInit)
}
