package main

// relang.go: a decision procedure for inclusion between the languages of two sets of Go regular
// expressions, L(sub) ⊆ L(sup_1) ∪ ... ∪ L(sup_n), with "language" meaning the strings for which
// (*regexp.Regexp).MatchString / FindStringSubmatch succeed (unanchored search unless the pattern
// anchors itself). RE2 patterns are regular, so the question is decidable: both sides are compiled to
// their Thompson programs (regexp/syntax.Compile, the program the regexp package itself runs), the
// programs are determinised lazily over the partition of the rune space induced by all rune ranges of
// all programs, and the product automaton is searched for a reachable pair (sub accepts, no sup
// accepts). A counterexample string is rebuilt from the search tree. Nothing of /repo is executed:
// the inputs are pattern constants read from the source.
//
// Supported empty-width assertions: ^ and $ as begin/end of text (also \A, \z). Multi-line anchors and
// word boundaries make the procedure answer "unsupported" (the caller reports the obligation undecided).

import (
	"fmt"
	"regexp/syntax"
	"sort"
	"strings"
	"unicode"
)

type reProg struct {
	prog *syntax.Prog
	pat  string
}

func compileRe(pat string) (*reProg, error) {
	re, err := syntax.Parse(pat, syntax.Perl)
	if err != nil {
		return nil, err
	}
	prog, err := syntax.Compile(re.Simplify())
	if err != nil {
		return nil, err
	}
	for _, in := range prog.Inst {
		if in.Op == syntax.InstEmptyWidth {
			if syntax.EmptyOp(in.Arg)&^(syntax.EmptyBeginText|syntax.EmptyEndText) != 0 {
				return nil, fmt.Errorf("pattern %q uses a line anchor or word boundary", pat)
			}
		}
	}
	return &reProg{prog, pat}, nil
}

// dstate: a determinised state of one program: the pcs waiting to consume a rune (before following
// empty transitions), whether the position is the start of the text, and whether a match has already
// been completed (unanchored search: the rest of the text is irrelevant)
type dstate struct {
	pcs     []uint32
	atStart bool
	matched bool
}

func (d dstate) key() string {
	var sb strings.Builder
	if d.matched {
		return "M"
	}
	if d.atStart {
		sb.WriteByte('^')
	}
	for _, pc := range d.pcs {
		fmt.Fprintf(&sb, "%d,", pc)
	}
	return sb.String()
}

// closure follows the empty transitions from the given pcs; atEnd selects whether $ holds.
// It returns the rune-consuming instructions reached and whether InstMatch was reached.
func (r *reProg) closure(pcs []uint32, atStart, atEnd bool) (runes []uint32, match bool) {
	seen := map[uint32]bool{}
	var visit func(pc uint32)
	visit = func(pc uint32) {
		if seen[pc] {
			return
		}
		seen[pc] = true
		in := &r.prog.Inst[pc]
		switch in.Op {
		case syntax.InstAlt, syntax.InstAltMatch:
			visit(in.Out)
			visit(in.Arg)
		case syntax.InstNop, syntax.InstCapture:
			visit(in.Out)
		case syntax.InstEmptyWidth:
			op := syntax.EmptyOp(in.Arg)
			if op&syntax.EmptyBeginText != 0 && !atStart {
				return
			}
			if op&syntax.EmptyEndText != 0 && !atEnd {
				return
			}
			visit(in.Out)
		case syntax.InstMatch:
			match = true
		case syntax.InstFail:
		default:
			runes = append(runes, pc)
		}
	}
	for _, pc := range pcs {
		visit(pc)
	}
	sort.Slice(runes, func(i, j int) bool { return runes[i] < runes[j] })
	return
}

func (r *reProg) start() dstate {
	return dstate{pcs: []uint32{uint32(r.prog.Start)}, atStart: true}
}

func (r *reProg) accepts(d dstate) bool {
	if d.matched {
		return true
	}
	_, m := r.closure(d.pcs, d.atStart, true)
	return m
}

func (r *reProg) step(d dstate, c rune) dstate {
	if d.matched {
		return d
	}
	runes, m := r.closure(d.pcs, d.atStart, false)
	if m {
		return dstate{matched: true}
	}
	next := map[uint32]bool{}
	for _, pc := range runes {
		in := &r.prog.Inst[pc]
		if in.MatchRune(c) {
			next[in.Out] = true
		}
	}
	// unanchored search: a new attempt starts at every position (a leading ^ fails there by itself)
	next[uint32(r.prog.Start)] = true
	out := dstate{}
	for pc := range next {
		out.pcs = append(out.pcs, pc)
	}
	sort.Slice(out.pcs, func(i, j int) bool { return out.pcs[i] < out.pcs[j] })
	return out
}

// dead: no continuation can make the program accept (only restarts remain and they are anchored)
func (r *reProg) dead(d dstate) bool {
	if d.matched {
		return false
	}
	runes, m := r.closure(d.pcs, d.atStart, true)
	if m {
		return false
	}
	runes2, _ := r.closure(d.pcs, d.atStart, false)
	return len(runes) == 0 && len(runes2) == 0
}

// alphabet: one representative per block of the partition of the rune space by all rune ranges
func reAlphabet(progs []*reProg) []rune {
	cut := map[rune]bool{0: true, '\n': true, '\n' + 1: true}
	add := func(lo, hi rune) {
		cut[lo] = true
		if hi < unicode.MaxRune {
			cut[hi+1] = true
		}
	}
	for _, p := range progs {
		for i := range p.prog.Inst {
			in := &p.prog.Inst[i]
			switch in.Op {
			case syntax.InstRune, syntax.InstRune1:
				rs := in.Rune
				if len(rs) == 1 {
					add(rs[0], rs[0])
					if syntax.Flags(in.Arg)&syntax.FoldCase != 0 {
						for f := unicode.SimpleFold(rs[0]); f != rs[0]; f = unicode.SimpleFold(f) {
							add(f, f)
						}
					}
					continue
				}
				for k := 0; k+1 < len(rs); k += 2 {
					add(rs[k], rs[k+1])
				}
			}
		}
	}
	var out []rune
	for c := range cut {
		out = append(out, c)
	}
	sort.Slice(out, func(i, j int) bool { return out[i] < out[j] })
	return out
}

type reInclusion struct {
	Holds       bool
	Witness     string // a string of L(sub) outside every L(sup) when !Holds
	States      int
	Unsupported string
}

// reSup: the strings s with Prefix+s in L(Pat)
type reSup struct {
	Pat    string
	Prefix string
}

func (s reSup) String() string {
	if s.Prefix == "" {
		return "`" + s.Pat + "`"
	}
	return fmt.Sprintf("`%s` (after %q is put in front)", s.Pat, s.Prefix)
}

// reIncludes decides L(sub) ⊆ ∪ L(sups)
func reIncludes(sub string, sups []reSup) reInclusion {
	a, err := compileRe(sub)
	if err != nil {
		return reInclusion{Unsupported: err.Error()}
	}
	var bs []*reProg
	for _, s := range sups {
		b, err := compileRe(s.Pat)
		if err != nil {
			return reInclusion{Unsupported: err.Error()}
		}
		bs = append(bs, b)
	}
	alpha := reAlphabet(append([]*reProg{a}, bs...))
	type node struct {
		a      dstate
		b      []dstate
		parent int
		via    rune
	}
	keyOf := func(n node) string {
		var sb strings.Builder
		sb.WriteString(n.a.key())
		for _, d := range n.b {
			sb.WriteByte('|')
			sb.WriteString(d.key())
		}
		return sb.String()
	}
	first := node{a: a.start(), parent: -1}
	for k, b := range bs {
		d := b.start()
		for _, c := range sups[k].Prefix {
			d = b.step(d, c)
		}
		first.b = append(first.b, d)
	}
	nodes := []node{first}
	seen := map[string]bool{keyOf(first): true}
	const limit = 400000
	for i := 0; i < len(nodes); i++ {
		n := nodes[i]
		if a.accepts(n.a) {
			any := false
			for k, b := range bs {
				if b.accepts(n.b[k]) {
					any = true
					break
				}
			}
			if !any {
				var rs []rune
				for j := i; nodes[j].parent >= 0; j = nodes[j].parent {
					rs = append(rs, nodes[j].via)
				}
				for l, r := 0, len(rs)-1; l < r; l, r = l+1, r-1 {
					rs[l], rs[r] = rs[r], rs[l]
				}
				return reInclusion{Holds: false, Witness: string(rs), States: len(nodes)}
			}
		}
		if n.a.matched {
			// sub accepts every continuation: every sup must too, which only a completed match gives
			// for all continuations; explore one more level through the ordinary step below
		}
		for _, c := range alpha {
			na := a.step(n.a, c)
			if a.dead(na) {
				continue
			}
			nn := node{a: na, parent: i, via: c}
			for k, b := range bs {
				nn.b = append(nn.b, b.step(n.b[k], c))
			}
			k := keyOf(nn)
			if seen[k] {
				continue
			}
			seen[k] = true
			nodes = append(nodes, nn)
			if len(nodes) > limit {
				return reInclusion{Unsupported: fmt.Sprintf("more than %d product states", limit), States: len(nodes)}
			}
		}
	}
	return reInclusion{Holds: true, States: len(nodes)}
}

// reIntersects decides whether the languages of all the patterns have a string in common, on the
// product of their lazy DFAs, and returns one.
func reIntersects(pats ...string) (bool, string, string) {
	var ps []*reProg
	for _, pt := range pats {
		a, err := compileRe(pt)
		if err != nil {
			return false, "", err.Error()
		}
		ps = append(ps, a)
	}
	alpha := reAlphabet(ps)
	type node struct {
		d      []dstate
		parent int
		via    rune
	}
	keyOf := func(ds []dstate) string {
		var sb strings.Builder
		for _, d := range ds {
			sb.WriteString(d.key())
			sb.WriteByte('|')
		}
		return sb.String()
	}
	first := node{parent: -1}
	for _, a := range ps {
		first.d = append(first.d, a.start())
	}
	nodes := []node{first}
	seen := map[string]bool{keyOf(first.d): true}
	const limit = 400000
	for i := 0; i < len(nodes); i++ {
		n := nodes[i]
		all := true
		for k, a := range ps {
			if !a.accepts(n.d[k]) {
				all = false
				break
			}
		}
		if all {
			var rs []rune
			for j := i; nodes[j].parent >= 0; j = nodes[j].parent {
				rs = append(rs, nodes[j].via)
			}
			for l, r := 0, len(rs)-1; l < r; l, r = l+1, r-1 {
				rs[l], rs[r] = rs[r], rs[l]
			}
			return true, string(rs), ""
		}
		for _, c := range alpha {
			nd := make([]dstate, len(ps))
			dead := false
			for k, a := range ps {
				nd[k] = a.step(n.d[k], c)
				if a.dead(nd[k]) {
					dead = true
					break
				}
			}
			if dead {
				continue
			}
			k := keyOf(nd)
			if seen[k] {
				continue
			}
			seen[k] = true
			nodes = append(nodes, node{d: nd, parent: i, via: c})
			if len(nodes) > limit {
				return false, "", fmt.Sprintf("more than %d product states", limit)
			}
		}
	}
	return false, "", ""
}
