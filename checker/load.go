package main

import (
	"fmt"
	"go/ast"
	"go/constant"
	"go/token"
	"go/types"
	"os"
	"path/filepath"
	"sort"
	"strings"

	"golang.org/x/tools/go/callgraph"
	"golang.org/x/tools/go/callgraph/cha"
	"golang.org/x/tools/go/callgraph/vta"
	"golang.org/x/tools/go/packages"
	"golang.org/x/tools/go/ssa"
	"golang.org/x/tools/go/ssa/ssautil"
)

// Prog is the resolved program: type-checked packages, SSA, call graph and the
// roles discovered from the public API (never from private helper names).
type Prog struct {
	Sizes         types.Sizes // of the target architecture the tree was loaded for
	Root          string
	ModPath       string
	Fset          *token.FileSet
	Pkgs          []*packages.Package // repo packages only, sorted by path
	ByPath        map[string]*packages.Package
	SSA           *ssa.Program
	CG            *callgraph.Graph
	Ecos          []*Eco
	EcoBy         map[string]*Eco // by package name
	Vers          *packages.Package
	Cmd           *packages.Package
	AllFns        map[*ssa.Function]bool // every function incl. anonymous, instances
	SrcFns        []*ssa.Function        // repo source functions (non-instance), sorted
	rx            *regexTable
	aeStages      map[*ssa.Function]*stageInfo
	aeShared      *aeShared
	aeResults     map[string]*aeEcoResult
	keyFieldCache map[string]map[string]bool
	ecoFieldCache map[string]*ecoFields
}

// Eco is one ecosystem package, discovered by shape.
type Eco struct {
	Name     string // package name
	Pkg      *packages.Package
	SPkg     *ssa.Package
	EcoT     *types.Named
	VerT     *types.Named
	RngT     *types.Named
	NewVer   *ssa.Function
	NewRng   *ssa.Function
	NameFn   *ssa.Function
	Compare  *ssa.Function
	VString  *ssa.Function
	Contains *ssa.Function
	RString  *ssa.Function
	NameVal  string // value of the Name constant returned by Name()
}

func fatalf(format string, a ...any) {
	fmt.Fprintf(os.Stderr, "gvcheck: "+format+"\n", a...)
	os.Exit(3)
}

func Load(root string, tags string, goarch string) *Prog {
	env := os.Environ()
	env = append(env, "GOFLAGS=-mod=mod", "GOPROXY=off", "GOWORK=off")
	if goarch != "" {
		env = append(env, "GOARCH="+goarch)
	}
	cfg := &packages.Config{Mode: packages.LoadAllSyntax | packages.NeedModule, Dir: root, Env: env, Tests: false}
	if tags != "" {
		cfg.BuildFlags = []string{"-tags=" + tags}
	}
	pkgs, err := packages.Load(cfg, "./...")
	if err != nil {
		fatalf("load: %v", err)
	}
	if len(pkgs) == 0 {
		fatalf("load: zero packages under %s", root)
	}
	var sizes types.Sizes = types.SizesFor("gc", "amd64")
	if pkgs[0].TypesSizes != nil {
		sizes = pkgs[0].TypesSizes
	}
	nerr := 0
	packages.Visit(pkgs, nil, func(p *packages.Package) {
		for _, e := range p.Errors {
			fmt.Fprintf(os.Stderr, "gvcheck: load error: %v\n", e)
			nerr++
		}
	})
	if nerr > 0 {
		fatalf("%d load/type errors; refusing to analyse", nerr)
	}
	p := &Prog{Sizes: sizes, Root: root, Fset: pkgs[0].Fset, ByPath: map[string]*packages.Package{}, EcoBy: map[string]*Eco{}}
	sort.Slice(pkgs, func(i, j int) bool { return pkgs[i].PkgPath < pkgs[j].PkgPath })
	p.Pkgs = pkgs
	for _, pk := range pkgs {
		p.ByPath[pk.PkgPath] = pk
		if pk.Module != nil && p.ModPath == "" {
			p.ModPath = pk.Module.Path
		}
	}
	if p.ModPath == "" {
		fatalf("no module path")
	}
	prog, _ := ssautil.AllPackages(pkgs, ssa.InstantiateGenerics)
	prog.Build()
	p.SSA = prog
	p.AllFns = ssautil.AllFunctions(prog)
	p.CG = vta.CallGraph(p.AllFns, cha.CallGraph(prog))
	for fn := range p.AllFns {
		if fn.Pkg == nil || fn.Synthetic != "" && fn.Origin() == nil {
			// keep going: wrappers etc. are not source functions
		}
		if p.IsRepoFn(fn) && fn.Origin() == nil && fn.Blocks != nil && (fn.Synthetic == "" || fn.Name() == "init") {
			p.SrcFns = append(p.SrcFns, fn)
		}
	}
	sort.Slice(p.SrcFns, func(i, j int) bool { return p.FnKey(p.SrcFns[i]) < p.FnKey(p.SrcFns[j]) })
	p.discover()
	return p
}

// IsRepoFn reports whether fn belongs to a package of the analysed module.
func (p *Prog) IsRepoFn(fn *ssa.Function) bool {
	pk := fnPkg(fn)
	if pk == nil {
		return false
	}
	return pk.Path() == p.ModPath || strings.HasPrefix(pk.Path(), p.ModPath+"/")
}

func (p *Prog) IsRepoPkg(pk *types.Package) bool {
	return pk != nil && (pk.Path() == p.ModPath || strings.HasPrefix(pk.Path(), p.ModPath+"/"))
}

func fnPkg(fn *ssa.Function) *types.Package {
	for f := fn; f != nil; f = f.Parent() {
		if f.Pkg != nil {
			return f.Pkg.Pkg
		}
		if o := f.Origin(); o != nil && o.Pkg != nil {
			return o.Pkg.Pkg
		}
		if f.Object() != nil && f.Object().Pkg() != nil {
			return f.Object().Pkg()
		}
	}
	return nil
}

// FnKey is a stable, line-free key for a function: shortpkg.(Recv).Name[$n].
func (p *Prog) FnKey(fn *ssa.Function) string {
	if fn == nil {
		return "<nil>"
	}
	if o := fn.Origin(); o != nil {
		fn = o
	}
	pk := fnPkg(fn)
	pp := ""
	if pk != nil {
		pp = strings.TrimPrefix(strings.TrimPrefix(pk.Path(), p.ModPath), "/")
		if pp == "" {
			pp = "."
		}
	}
	name := fn.Name()
	if fn.Parent() != nil {
		// anonymous: parentKey$N
		return p.FnKey(fn.Parent()) + "·" + name[strings.LastIndex(name, "$"):]
	}
	if recv := fn.Signature.Recv(); recv != nil {
		t := recv.Type()
		if pt, ok := t.(*types.Pointer); ok {
			t = pt.Elem()
		}
		if n, ok := t.(*types.Named); ok {
			return pp + ".(" + n.Obj().Name() + ")." + name
		}
	}
	return pp + "." + name
}

func (p *Prog) Pos(pos token.Pos) string {
	if !pos.IsValid() {
		return "-"
	}
	ps := p.Fset.Position(pos)
	rel, err := filepath.Rel(p.Root, ps.Filename)
	if err != nil || strings.HasPrefix(rel, "..") {
		rel = ps.Filename
	}
	return fmt.Sprintf("%s:%d", rel, ps.Line)
}

func (p *Prog) FnPos(fn *ssa.Function) string { return p.Pos(fn.Pos()) }

func (p *Prog) method(t *types.Named, name string) *ssa.Function {
	ms := types.NewMethodSet(types.NewPointer(t))
	sel := ms.Lookup(t.Obj().Pkg(), name)
	if sel == nil {
		return nil
	}
	return p.SSA.MethodValue(sel)
}

func (p *Prog) discover() {
	ecoPrefix := p.ModPath + "/pkg/ecosystem/"
	for _, pk := range p.Pkgs {
		switch {
		case pk.PkgPath == p.ModPath+"/pkg/spec/vers":
			p.Vers = pk
		case pk.Name == "main" && strings.HasPrefix(pk.PkgPath, p.ModPath):
			p.Cmd = pk
		}
		if !strings.HasPrefix(pk.PkgPath, ecoPrefix) {
			continue
		}
		obj, _ := pk.Types.Scope().Lookup("Ecosystem").(*types.TypeName)
		if obj == nil {
			continue
		}
		et, _ := obj.Type().(*types.Named)
		if et == nil {
			continue
		}
		e := &Eco{Name: pk.Name, Pkg: pk, EcoT: et, SPkg: p.SSA.Package(pk.Types)}
		e.NewVer = p.method(et, "NewVersion")
		e.NewRng = p.method(et, "NewVersionRange")
		e.NameFn = p.method(et, "Name")
		if e.NewVer == nil || e.NewRng == nil || e.NameFn == nil {
			fatalf("ecosystem %s: missing NewVersion/NewVersionRange/Name", pk.PkgPath)
		}
		e.VerT = resultNamed(e.NewVer)
		e.RngT = resultNamed(e.NewRng)
		if e.VerT == nil || e.RngT == nil {
			fatalf("ecosystem %s: constructors do not return (*T, error)", pk.PkgPath)
		}
		e.Compare = p.method(e.VerT, "Compare")
		e.VString = p.method(e.VerT, "String")
		e.Contains = p.method(e.RngT, "Contains")
		e.RString = p.method(e.RngT, "String")
		if e.Compare == nil || e.VString == nil || e.Contains == nil || e.RString == nil {
			fatalf("ecosystem %s: missing Compare/String/Contains", pk.PkgPath)
		}
		// Name(): value of the single returned constant
		for _, b := range e.NameFn.Blocks {
			for _, ins := range b.Instrs {
				if r, ok := ins.(*ssa.Return); ok && len(r.Results) == 1 {
					if c, ok := r.Results[0].(*ssa.Const); ok && c.Value != nil && c.Value.Kind() == constant.String {
						e.NameVal = constant.StringVal(c.Value)
					}
				}
			}
		}
		p.Ecos = append(p.Ecos, e)
		p.EcoBy[e.Name] = e
	}
	sort.Slice(p.Ecos, func(i, j int) bool { return p.Ecos[i].Name < p.Ecos[j].Name })
	if p.Vers == nil || p.Cmd == nil {
		fatalf("vers or cmd package not found")
	}
}

func resultNamed(fn *ssa.Function) *types.Named {
	res := fn.Signature.Results()
	if res.Len() != 2 {
		return nil
	}
	pt, ok := res.At(0).Type().(*types.Pointer)
	if !ok {
		return nil
	}
	n, _ := pt.Elem().(*types.Named)
	return n
}

// PkgFunc returns the package-level function by name (used only for API-level
// entry points such as vers.Contains and cmd.run/main).
func (p *Prog) PkgFunc(pk *packages.Package, name string) *ssa.Function {
	sp := p.SSA.Package(pk.Types)
	if sp == nil {
		return nil
	}
	return sp.Func(name)
}

// Reachable computes the set of repo functions reachable from roots through the
// VTA call graph, closures and function-valued operands.
func (p *Prog) Reachable(roots ...*ssa.Function) map[*ssa.Function]bool {
	seen := map[*ssa.Function]bool{}
	var work []*ssa.Function
	push := func(f *ssa.Function) {
		if f == nil || seen[f] {
			return
		}
		seen[f] = true
		work = append(work, f)
	}
	for _, r := range roots {
		push(r)
	}
	for len(work) > 0 {
		f := work[len(work)-1]
		work = work[:len(work)-1]
		if n := p.CG.Nodes[f]; n != nil {
			for _, e := range n.Out {
				push(e.Callee.Func)
			}
		}
		if !p.IsRepoFn(f) {
			continue
		}
		for _, b := range f.Blocks {
			for _, ins := range b.Instrs {
				for _, op := range ins.Operands(nil) {
					if op == nil || *op == nil {
						continue
					}
					switch v := (*op).(type) {
					case *ssa.Function:
						push(v)
					case *ssa.MakeClosure:
						push(v.Fn.(*ssa.Function))
					}
				}
			}
		}
		for _, a := range f.AnonFuncs {
			push(a)
		}
	}
	return seen
}

// RepoReachable filters Reachable to repo functions with bodies, sorted.
func (p *Prog) RepoReachable(roots ...*ssa.Function) []*ssa.Function {
	var out []*ssa.Function
	for f := range p.Reachable(roots...) {
		if p.IsRepoFn(f) && f.Blocks != nil {
			out = append(out, f)
		}
	}
	sort.Slice(out, func(i, j int) bool {
		a, b := p.FnKey(out[i]), p.FnKey(out[j])
		if a != b {
			return a < b
		}
		return out[i].String() < out[j].String()
	})
	return out
}

// Representatives keeps one function per FnKey: generic functions are reachable only as
// instances (20 per generic in cmd/vers); the first instance in sorted order stands for
// the generic body so that each construct yields one obligation.
func (p *Prog) Representatives(fns []*ssa.Function) []*ssa.Function {
	seen := map[string]bool{}
	var out []*ssa.Function
	for _, f := range fns {
		k := p.FnKey(f)
		if f.Origin() == nil && f.Parent() == nil {
			out = append(out, f)
			seen[k] = true
			continue
		}
		if seen[k] {
			continue
		}
		seen[k] = true
		out = append(out, f)
	}
	return out
}

// LibraryRoots are the public operations of all ecosystems plus vers.Contains.
func (p *Prog) LibraryRoots() []*ssa.Function {
	var r []*ssa.Function
	for _, e := range p.Ecos {
		r = append(r, e.NewVer, e.NewRng, e.NameFn, e.Compare, e.VString, e.Contains, e.RString)
	}
	if f := p.PkgFunc(p.Vers, "Contains"); f != nil {
		r = append(r, f)
	} else {
		fatalf("vers.Contains not found")
	}
	for _, pk := range p.Pkgs {
		if sp := p.SSA.Package(pk.Types); sp != nil && pk.Name != "main" {
			if f := sp.Func("init"); f != nil {
				r = append(r, f)
			}
		}
	}
	return r
}

func (p *Prog) CLIRoots() []*ssa.Function {
	var r []*ssa.Function
	for _, n := range []string{"main", "run", "init"} {
		if f := p.PkgFunc(p.Cmd, n); f != nil {
			r = append(r, f)
		}
	}
	if len(r) < 2 {
		fatalf("cmd.main/run not found")
	}
	return r
}

// FuncDecl finds the syntax of a source function (for AST/CFG rules).
func (p *Prog) FuncSyntax(fn *ssa.Function) ast.Node {
	if fn.Syntax() != nil {
		return fn.Syntax()
	}
	if o := fn.Origin(); o != nil {
		return o.Syntax()
	}
	return nil
}

func constString(v ssa.Value) (string, bool) {
	if c, ok := v.(*ssa.Const); ok && c.Value != nil && c.Value.Kind() == constant.String {
		return constant.StringVal(c.Value), true
	}
	return "", false
}

func constInt(v ssa.Value) (int64, bool) {
	if c, ok := v.(*ssa.Const); ok && c.Value != nil && c.Value.Kind() == constant.Int {
		if i, ok := constant.Int64Val(c.Value); ok {
			return i, true
		}
	}
	return 0, false
}
