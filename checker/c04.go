package main

import (
	"fmt"
	"go/constant"
	"go/token"
	"go/types"
	"sort"
	"strings"

	"golang.org/x/tools/go/ssa"
)

// ---- C04: VERS containment is union-of-intervals under the scheme's order --------------------------
//
// contains() = normalise and sort (C16), drop what a '!=' excludes (R-VERS-EXCL), group the sorted
// comparators into intervals (R-VERS-GROUP: the loop body's transition table), write each interval
// in the scheme's native range syntax (R-VERS-EMIT: the translators' tables), and ask the native
// range (C02). Each step is decided on its table; the composition is the property.

// emitterFns: the interval translators with the ecosystem name that selects them in toRanges
func emitterFns(p *Prog) map[string]*ssa.Function {
	out := map[string]*ssa.Function{}
	for fn := range p.AllFns {
		if fn.Name() != "toRanges" || fn.Blocks == nil || !p.IsRepoFn(fn) {
			continue
		}
		for _, b := range fn.Blocks {
			for _, ins := range b.Instrs {
				c, ok := ins.(*ssa.Call)
				if !ok {
					continue
				}
				f := c.Call.StaticCallee()
				if f == nil || !p.IsRepoFn(f) || f.Signature.Params().Len() != 1 || f.Signature.Results().Len() != 1 {
					continue
				}
				if _, ok := f.Signature.Results().At(0).Type().Underlying().(*types.Slice); !ok {
					continue
				}
				if _, ok := f.Signature.Params().At(0).Type().Underlying().(*types.Struct); !ok {
					continue
				}
				// the name constant on the dominating edge
				domEdges(b, func(cond ssa.Value, tv bool) bool {
					bo, ok := cond.(*ssa.BinOp)
					if !ok || bo.Op != token.EQL || !tv {
						return false
					}
					if s, ok := constString(bo.Y); ok {
						if _, seen := out[s]; !seen {
							out[s] = f
						}
						return true
					}
					return false
				})
			}
		}
	}
	return out
}

type comparator struct{ op, bound string }

func (c comparator) String() string { return c.op + c.bound }

// decodeTemplate reads an emitted range string (constant pieces and abstract bounds) as a set of
// comparators, for operator-list syntax ("<op><bound>" joined by spaces/commas) and bracket syntax.
func decodeTemplate(parts []any) ([]comparator, string) {
	type tok struct {
		lit   string
		bound string
	}
	var toks []tok
	for _, p := range parts {
		switch x := p.(type) {
		case avConst:
			toks = append(toks, tok{lit: constant.StringVal(x.v)})
		case avTerm:
			k := x.key
			if i := strings.LastIndex(k, "."); i >= 0 {
				k = strings.TrimRight(k[i:], ")")
			}
			toks = append(toks, tok{bound: k})
		default:
			return nil, fmt.Sprintf("piece %T", p)
		}
	}
	if len(toks) == 0 {
		return nil, "empty"
	}
	first, last := toks[0].lit, toks[len(toks)-1].lit
	if (strings.HasPrefix(first, "[") || strings.HasPrefix(first, "(")) && (strings.HasSuffix(last, "]") || strings.HasSuffix(last, ")")) && toks[0].bound == "" && toks[len(toks)-1].bound == "" {
		// bracket syntax
		flat := ""
		var bounds []string
		for _, t := range toks {
			if t.bound != "" {
				flat += "\x00"
				bounds = append(bounds, t.bound)
			} else {
				flat += t.lit
			}
		}
		open, close := flat[0], flat[len(flat)-1]
		inner := flat[1 : len(flat)-1]
		inner = strings.ReplaceAll(inner, "v\x00", "\x00")
		if !strings.Contains(inner, ",") {
			if inner == "\x00" && open == '[' && close == ']' {
				return []comparator{{"=", bounds[0]}}, ""
			}
			return nil, "bracket form without a comma is not [X]"
		}
		halves := strings.SplitN(inner, ",", 2)
		var out []comparator
		bi := 0
		switch strings.TrimSpace(halves[0]) {
		case "":
		case "\x00":
			op := ">"
			if open == '[' {
				op = ">="
			}
			out = append(out, comparator{op, bounds[bi]})
			bi++
		default:
			return nil, "unexpected text before the comma"
		}
		switch strings.TrimSpace(halves[1]) {
		case "":
		case "\x00":
			op := "<"
			if close == ']' {
				op = "<="
			}
			out = append(out, comparator{op, bounds[bi]})
		default:
			return nil, "unexpected text after the comma"
		}
		return out, ""
	}
	// operator-list syntax
	var out []comparator
	pendingOp := ""
	for _, t := range toks {
		if t.bound != "" {
			op := strings.TrimSuffix(pendingOp, "v")
			if _, ok := opTable[op]; !ok {
				return nil, fmt.Sprintf("bound preceded by %q, not an operator", pendingOp)
			}
			out = append(out, comparator{op, t.bound})
			pendingOp = ""
			continue
		}
		// literal: separators then an operator
		lit := strings.TrimLeft(t.lit, " ,")
		if pendingOp != "" && lit != t.lit {
			return nil, "operator without a bound"
		}
		pendingOp += lit
	}
	if strings.Trim(pendingOp, " ,") != "" {
		return nil, fmt.Sprintf("trailing text %q", pendingOp)
	}
	return out, ""
}

func ruleVersEmit(p *Prog, r *Report) {
	ems := emitterFns(p)
	var names []string
	for n := range ems {
		names = append(names, n)
	}
	sort.Strings(names)
	for _, name := range names {
		fn := ems[name]
		key := fmt.Sprintf("vers %s: interval written in the native range syntax", name)
		c := newAECtx(p)
		c.stageMode = false
		leaves, oof := c.tabulate(fn, paramArgs(fn))
		if oof != "" {
			r.Und("R-VERS-EMIT", key, p.FnPos(fn), "translator outside the evaluator's fragment: "+oof)
			continue
		}
		pk := fn.Params[0].Name()
		var bad []string
		rows := 0
		for _, lf := range leaves {
			desc := lf.w.describe(c.pools, c.terms)
			nonEmpty := func(f string) (bool, bool) {
				k := pk + "." + f
				v, ok := lf.w.pos[posKey(k, 0)]
				if !ok {
					return false, false
				}
				ci := poolIndexStr(c.pools[k], "")
				return !(ci >= 0 && v == 2*ci+1), true
			}
			flag := func(f string) (bool, bool) {
				v, ok := lf.w.pos[posKey(pk+"."+f, 0)]
				return v == 1, ok
			}
			ex, exOK := nonEmpty("exact")
			if xc, ok := nonEmpty("exclude"); ok && xc && !(exOK && ex) {
				continue // the exclude field is never set by the grouping (R-VERS-GROUP)
			}
			var want []comparator
			undet := ""
			if exOK && ex {
				want = []comparator{{"=", ".exact"}}
			} else {
				if !exOK {
					undet = "the exact field is not consulted"
				}
				lo, loOK := nonEmpty("lower")
				up, upOK := nonEmpty("upper")
				if !loOK || !upOK {
					undet = "a bound is not consulted"
				}
				if lo {
					inc, ok := flag("lowerInclusive")
					if !ok {
						undet = "lowerInclusive is not consulted"
					}
					op := ">"
					if inc {
						op = ">="
					}
					want = append(want, comparator{op, ".lower"})
				}
				if up {
					inc, ok := flag("upperInclusive")
					if !ok {
						undet = "upperInclusive is not consulted"
					}
					op := "<"
					if inc {
						op = "<="
					}
					want = append(want, comparator{op, ".upper"})
				}
			}
			if undet != "" {
				bad = append(bad, undet+": ["+desc+"]")
				continue
			}
			// what was emitted
			l, ok := lf.res.(avList)
			if !ok || l.base != nil {
				bad = append(bad, fmt.Sprintf("result is not a list of range strings (%T) [%s]", lf.res, desc))
				continue
			}
			var got []comparator
			derr := ""
			for _, el := range l.elems {
				ps, ok := strParts(el)
				if !ok {
					derr = fmt.Sprintf("range string %v has no model", el)
					break
				}
				cs, why := decodeTemplate(ps)
				if why != "" {
					derr = why
					break
				}
				if len(l.elems) > 1 {
					derr = "several range strings for one interval (they are OR-ed by contains)"
				}
				got = append(got, cs...)
			}
			if derr != "" {
				bad = append(bad, derr+" ["+desc+"]")
				continue
			}
			rows++
			gs, ws := fmt.Sprint(got), fmt.Sprint(want)
			// pypi spells equality ==
			gs = strings.ReplaceAll(gs, "==", "=")
			if gs != ws {
				bad = append(bad, fmt.Sprintf("interval %s is written as %s [%s]", ws, fmt.Sprint(got), desc))
			}
		}
		switch {
		case len(bad) > 0:
			sort.Strings(bad)
			r.Bad("R-VERS-EMIT", key, p.FnPos(fn), fmt.Sprintf("%d of %d abstract worlds: %s", len(bad), len(leaves), bad[0]))
		case rows < 8:
			r.Und("R-VERS-EMIT", key, p.FnPos(fn), fmt.Sprintf("only %d abstract worlds decoded", rows))
		default:
			r.Ok("R-VERS-EMIT", key, p.FnPos(fn), fmt.Sprintf("%s: in all %d abstract worlds the emitted range string denotes exactly the interval's comparators ('>=' iff lowerInclusive, '<=' iff upperInclusive, equality for exact)", fn.Name(), rows))
		}
	}
	r.Floor("R-VERS-EMIT", 11)
}

func init() {
	register("C04", "VERS containment is union-of-intervals under the scheme's order", ruleVersEmit)
}

// ---- R-VERS-GROUP: the grouping loop as a state machine ------------------------------------------------
//
// groupConstraintsIntoIntervals walks the sorted comparators once. Its loop body is evaluated in
// state-machine mode: the loop-carried variables (open lower bound, "previous comparator was an
// upper bound", intervals so far) are abstract states, the current comparator's operator is an
// abstract constant; every abstract world gives a transition (next state, intervals appended).
// The transitions, the initial state and the code after the loop are compared with the pairing the
// VERS specification prescribes for sorted comparators.

type smLeaf struct {
	w    *world
	o    *iterOutcome
	init map[string]any
}

func stateMachineLeaves(c *aeCtx, fn *ssa.Function, l *loop) (leaves []smLeaf, oof string) {
	oof = c.withRetries(fn, func() {
		leaves = nil
		c.explore(1, 100000, func(w *world) {
			run := &aeRun{ctx: c, w: w, ind: [2]int{0, 0}, target: l, targetFn: fn, freePhis: true}
			var out *iterOutcome
			func() {
				defer func() {
					if e := recover(); e != nil {
						if _, ok := e.(returned); ok {
							out = run.outcome
							return
						}
						panic(e)
					}
				}()
				run.call(fn, paramArgs(fn)(run))
			}()
			if out != nil {
				leaves = append(leaves, smLeaf{w.clone(), out, run.stateInit})
			}
		})
	})
	return leaves, oof
}

func ruleVersGroup(p *Prog, r *Report) {
	// the grouping function: ([]constraint) -> ([]interval, error), called from toRanges
	var grp *ssa.Function
	for fn := range p.AllFns {
		if fn.Name() != "toRanges" || fn.Blocks == nil || !p.IsRepoFn(fn) {
			continue
		}
		for _, b := range fn.Blocks {
			for _, ins := range b.Instrs {
				if c, ok := ins.(*ssa.Call); ok {
					f := c.Call.StaticCallee()
					if f == nil || !p.IsRepoFn(f) || f.Signature.Params().Len() != 1 || f.Signature.Results().Len() != 2 {
						continue
					}
					ps, ok1 := f.Signature.Params().At(0).Type().Underlying().(*types.Slice)
					rs, ok2 := f.Signature.Results().At(0).Type().Underlying().(*types.Slice)
					if ok1 && ok2 {
						_, s1 := ps.Elem().Underlying().(*types.Struct)
						_, s2 := rs.Elem().Underlying().(*types.Struct)
						if s1 && s2 && len(findLoops(f)) > 0 {
							grp = f
						}
					}
				}
			}
		}
	}
	key := "vers: sorted comparators are paired into intervals along the version line"
	if grp == nil {
		r.Und("R-VERS-GROUP", key, "", "the grouping function (sorted constraints -> intervals) was not found under toRanges")
		r.Floor("R-VERS-GROUP", 1)
		return
	}
	loops := findLoops(grp)
	if len(loops) != 1 {
		r.Und("R-VERS-GROUP", key, p.FnPos(grp), fmt.Sprintf("%s has %d loops: not a single pass over the sorted comparators", grp.Name(), len(loops)))
		r.Floor("R-VERS-GROUP", 1)
		return
	}
	c := newAECtx(p)
	c.stageMode = false
	leaves, oof := stateMachineLeaves(c, grp, loops[0])
	if oof != "" {
		r.Und("R-VERS-GROUP", key, p.FnPos(grp), "grouping loop outside the evaluator's fragment: "+oof)
		r.Floor("R-VERS-GROUP", 1)
		return
	}
	// names of the state variables by type
	var lowerVar, flagVar, listVar string
	var ivT *types.Struct
	for _, lf := range leaves {
		for name, v := range lf.init {
			switch v.(type) {
			case avNil:
				// pointer or slice
			}
			_ = name
		}
	}
	// the open lower bound is kept either as a pointer (nil = nothing open) or as a value together with a
	// boolean "an interval is open"
	var boolVars []string
	openFlag := ""
	for _, ins := range loops[0].header.Instrs {
		ph, ok := ins.(*ssa.Phi)
		if !ok {
			break
		}
		switch u := ph.Type().Underlying().(type) {
		case *types.Pointer:
			lowerVar = ph.Comment
		case *types.Struct:
			if lowerVar == "" && types.Identical(ph.Type(), grp.Signature.Params().At(0).Type().Underlying().(*types.Slice).Elem()) {
				lowerVar = ph.Comment
				openFlag = "?"
			}
		case *types.Basic:
			if isBoolType(ph.Type()) {
				boolVars = append(boolVars, ph.Comment)
			}
		case *types.Slice:
			listVar = ph.Comment
			ivT, _ = u.Elem().Underlying().(*types.Struct)
		}
	}
	if lowerVar == "" {
		// ... or as a struct local in memory
		for _, al := range loopCarriedAllocs(grp, loops[0]) {
			if types.Identical(al.Type().Underlying().(*types.Pointer).Elem(), grp.Signature.Params().At(0).Type().Underlying().(*types.Slice).Elem()) {
				lowerVar = al.Comment
				openFlag = "?"
			}
		}
	}
	if openFlag == "?" {
		// the flag that becomes true when a lower bound is read
		openFlag = ""
		for _, lf := range leaves {
			if lf.o.kind != "continue" {
				continue
			}
			next, _ := lf.o.val.(map[string]any)
			for _, k := range c.termKeys() {
				ti := c.terms[k]
				_ = ti
				if !strings.HasSuffix(k, "[i].operator") {
					continue
				}
				v, ok := lf.w.pos[posKey(k, 0)]
				if !ok || v%2 == 0 || v/2 >= len(c.pools[k]) {
					continue
				}
				if op := constant.StringVal(c.pools[k][v/2]); op == ">=" || op == ">" {
					for _, bv := range boolVars {
						if cv, ok := next[bv].(avConst); ok && cv.v.Kind() == constant.Bool && constant.BoolVal(cv.v) {
							openFlag = bv
						}
					}
				}
			}
		}
		if openFlag == "" {
			lowerVar = ""
		}
	}
	for _, bv := range boolVars {
		if bv != openFlag {
			flagVar = bv
		}
	}
	if lowerVar == "" || listVar == "" || ivT == nil {
		r.Und("R-VERS-GROUP", key, p.FnPos(grp), fmt.Sprintf("loop state not recognised (open lower bound %q, intervals %q)", lowerVar, listVar))
		r.Floor("R-VERS-GROUP", 1)
		return
	}
	fieldIdx := func(name string) int {
		for i := 0; i < ivT.NumFields(); i++ {
			if ivT.Field(i).Name() == name {
				return i
			}
		}
		return -1
	}
	seq := ""
	for _, k := range c.termKeys() {
		ti := c.terms[k]
		if ti.kind == akPresence {
			seq = strings.TrimPrefix(k, "present:")
		}
	}
	opK := seq + "[i].operator"
	lowK := "state:" + lowerVar
	var bad []string
	rows := map[string]int{}
	strOf := func(v any) string {
		switch x := v.(type) {
		case avTerm:
			return x.key
		case avConst:
			return x.v.ExactString()
		}
		return fmt.Sprintf("%T", v)
	}
	// describe an appended interval
	descIv := func(w *world, s *avStruct) string {
		get := func(n string) any {
			if i := fieldIdx(n); i >= 0 {
				return s.fields[i]
			}
			return nil
		}
		out := ""
		for _, n := range []string{"exact", "lower", "lowerInclusive", "upper", "upperInclusive"} {
			v := get(n)
			if cv, ok := v.(avConst); ok {
				if cv.v.Kind() == constant.String && constant.StringVal(cv.v) == "" {
					continue
				}
				if cv.v.Kind() == constant.Bool && !constant.BoolVal(cv.v) {
					continue
				}
			}
			out += n + "=" + strOf(v) + " "
		}
		return strings.TrimSpace(out)
	}
	opAt := func(w *world, k string) (string, bool) {
		v, ok := w.pos[posKey(k, 0)]
		if !ok || v%2 == 0 || v/2 >= len(c.pools[k]) {
			return "", false
		}
		return constant.StringVal(c.pools[k][v/2]), true
	}
	for _, lf := range leaves {
		w := lf.w
		desc := w.describe(c.pools, c.terms)
		lNonNil := w.pos[posKey(lowK+"?nil", 0)] == 1
		_, lKnown := w.pos[posKey(lowK+"?nil", 0)]
		if openFlag != "" {
			v, ok := w.pos[posKey("state:"+openFlag, 0)]
			lNonNil, lKnown = v == 1, ok
		}
		flag, fKnown := false, false
		if flagVar != "" {
			v, ok := w.pos[posKey("state:"+flagVar, 0)]
			flag, fKnown = v == 1, ok
		}
		switch lf.o.kind {
		case "continue":
			op, ok := opAt(w, opK)
			if !ok {
				continue // an operator outside the parser's table cannot reach the grouping
			}
			next, _ := lf.o.val.(map[string]any)
			// appended intervals
			var added []string
			if l, ok := next[listVar].(avList); ok {
				for _, el := range l.elems {
					if s, ok := el.(*avStruct); ok {
						added = append(added, descIv(w, s))
					} else {
						added = append(added, fmt.Sprintf("?%T", el))
					}
				}
			} else if ref, ok := next[listVar].(avRef); !ok || ref.key != "state:"+listVar {
				added = append(added, fmt.Sprintf("?list %T", next[listVar]))
			}
			nl := "?"
			switch x := next[lowerVar].(type) {
			case avNil:
				nl = "nil"
			case avRef:
				if x.key == lowK {
					nl = "same"
				}
				if x.key == seq+"[i]" {
					nl = "current"
				}
			case avAddr:
				if x.ref != nil && x.ref.key == seq+"[i]" {
					nl = "current"
				}
			}
			if openFlag != "" {
				// value + flag: nothing is open when the flag is false, whatever the value holds
				switch f := next[openFlag].(type) {
				case avConst:
					if f.v.Kind() == constant.Bool && !constant.BoolVal(f.v) {
						nl = "nil"
					} else if nl == "same" && !(lKnown && lNonNil) {
						nl = "?"
					}
				case avTerm:
					if f.key != "state:"+openFlag {
						nl = "?"
					} else if lKnown && !lNonNil {
						nl = "nil"
					}
				default:
					nl = "?"
				}
			}
			cur := seq + "[i].version"
			var wantAdded []string
			wantNL := ""
			row := ""
			loIncl := func() string {
				if _, assigned := w.pos[posKey(lowK+".operator", 0)]; !assigned {
					return "?"
				}
				if lop, ok := opAt(w, lowK+".operator"); ok && lop == ">=" {
					return "lowerInclusive=true "
				}
				return ""
			}
			switch op {
			case "=":
				row, wantAdded, wantNL = "point", []string{"exact=" + cur}, "same"
			case "!=":
				row, wantNL = "exclusion", "same"
			case ">=", ">":
				if lKnown && lNonNil {
					continue // a second lower bound in an open interval: not a valid VERS sequence
				}
				row, wantNL = "lower bound opens an interval", "current"
			case "<=", "<":
				ui := ""
				if op == "<=" {
					ui = " upperInclusive=true"
				}
				switch {
				case lKnown && lNonNil:
					row = "upper bound closes the open interval"
					wantAdded = []string{strings.TrimSpace("lower=" + lowK + ".version " + loIncl() + "upper=" + cur + ui)}
					wantNL = "nil"
				case fKnown && flag:
					continue // an upper bound right after an upper bound: not a valid VERS sequence
				case !lKnown || (flagVar != "" && !fKnown):
					bad = append(bad, "an upper bound is handled without looking at the open lower bound / the previous comparator: ["+desc+"]")
					continue
				default:
					row = "leading upper bound"
					wantAdded = []string{strings.TrimSpace("upper=" + cur + ui)}
					wantNL = "nil|same"
				}
			default:
				continue
			}
			rows[row]++
			if fmt.Sprint(added) != fmt.Sprint(wantAdded) {
				bad = append(bad, fmt.Sprintf("%s (%s): appends %v, the specification requires %v [%s]", row, op, added, wantAdded, desc))
			}
			okNL := false
			for _, alt := range strings.Split(wantNL, "|") {
				if nl == alt || (alt == "same" && nl == "nil" && lKnown && !lNonNil) || (alt == "nil" && nl == "same" && lKnown && !lNonNil) {
					okNL = true
				}
			}
			if !okNL {
				bad = append(bad, fmt.Sprintf("%s (%s): the open lower bound becomes %s, expected %s [%s]", row, op, nl, wantNL, desc))
			}
		case "tail":
			// after the last comparator: a still open lower bound becomes a trailing interval
			tup, ok := lf.o.val.(avTuple)
			if !ok || len(tup) != 2 {
				bad = append(bad, fmt.Sprintf("the function does not return (intervals, error) after the loop (%T)", lf.o.val))
				continue
			}
			if _, isNil := tup[1].(avNil); !isNil {
				bad = append(bad, "an error is returned after the loop ["+desc+"]")
			}
			var added []string
			switch x := tup[0].(type) {
			case avList:
				for _, el := range x.elems {
					if s, ok := el.(*avStruct); ok {
						added = append(added, descIv(w, s))
					}
				}
			case avRef:
			default:
				added = append(added, fmt.Sprintf("?%T", x))
			}
			if !lKnown {
				bad = append(bad, "the open lower bound is not examined after the loop: a trailing lower bound would be lost ["+desc+"]")
				continue
			}
			var want []string
			if lNonNil {
				lop, _ := opAt(w, lowK+".operator")
				li := ""
				if lop == ">=" {
					li = " lowerInclusive=true"
				}
				want = []string{"lower=" + lowK + ".version" + li}
				rows["trailing lower bound"]++
			} else {
				rows["nothing open at the end"]++
			}
			if fmt.Sprint(added) != fmt.Sprint(want) {
				bad = append(bad, fmt.Sprintf("after the loop %v is appended, the specification requires %v [%s]", added, want, desc))
			}
		}
	}
	// initial state
	if len(leaves) > 0 {
		in := leaves[0].init
		if openFlag != "" {
			if cv, ok := in[openFlag].(avConst); !ok || cv.v.Kind() != constant.Bool || constant.BoolVal(cv.v) {
				bad = append(bad, "an interval counts as open before the first comparator")
			}
		} else if _, ok := in[lowerVar].(avNil); !ok {
			bad = append(bad, "the open lower bound is not nil before the first comparator")
		}
		if flagVar != "" {
			if cv, ok := in[flagVar].(avConst); !ok || cv.v.Kind() != constant.Bool || constant.BoolVal(cv.v) {
				bad = append(bad, "the 'previous comparator was an upper bound' flag is not false before the first comparator")
			}
		}
		switch x := in[listVar].(type) {
		case avNil:
		case avList:
			if len(x.elems) > 0 || x.base != nil {
				bad = append(bad, "the interval list is not empty before the first comparator")
			}
		default:
			bad = append(bad, "the interval list is not empty before the first comparator")
		}
	}
	need := []string{"point", "exclusion", "lower bound opens an interval", "upper bound closes the open interval", "leading upper bound", "trailing lower bound", "nothing open at the end"}
	var missing []string
	for _, n := range need {
		if rows[n] == 0 {
			missing = append(missing, n)
		}
	}
	switch {
	case len(bad) > 0:
		sort.Strings(bad)
		r.Bad("R-VERS-GROUP", key, p.FnPos(grp), fmt.Sprintf("%d disagreeing transitions, e.g. %s", len(bad), bad[0]))
	case len(missing) > 0:
		r.Und("R-VERS-GROUP", key, p.FnPos(grp), fmt.Sprintf("transitions not found: %v", missing))
	default:
		r.Ok("R-VERS-GROUP", key, p.FnPos(grp), fmt.Sprintf("%s: %d abstract transitions of the single pass: '=' adds a point, '!=' adds nothing, a lower bound opens an interval, the next upper bound closes it with both bounds and their inclusiveness, a leading upper bound and a trailing lower bound give the two unbounded intervals; the state starts empty (%v)", grp.Name(), len(leaves), rows))
	}
	r.Floor("R-VERS-GROUP", 1)
}

func init() {
	register("C04", "", ruleVersGroup)
}

// ---- R-VERS-EXCL / R-VERS-UNION: the shape of contains ---------------------------------------------------

// callNamed: the call instruction is a call (static or interface/type-parameter method) of the named method
func callNamed(ins ssa.Instruction, name string) (ssa.Value, bool) {
	c, ok := ins.(*ssa.Call)
	if !ok {
		return nil, false
	}
	if c.Call.IsInvoke() {
		return c, c.Call.Method.Name() == name
	}
	if f := c.Call.StaticCallee(); f != nil {
		return c, f.Name() == name
	}
	return nil, false
}

func returnsBool(b *ssa.BasicBlock, want bool) bool {
	ret, ok := b.Instrs[len(b.Instrs)-1].(*ssa.Return)
	if !ok || len(ret.Results) != 2 {
		return false
	}
	cv, ok := ret.Results[0].(*ssa.Const)
	if !ok || cv.Value == nil || cv.Value.Kind() != constant.Bool || constant.BoolVal(cv.Value) != want {
		return false
	}
	ev, ok := ret.Results[1].(*ssa.Const)
	return ok && ev.Value == nil
}

func ruleVersContainsShape(p *Prog, r *Report) {
	// the generic evaluator: the function in the vers package that calls toRanges
	var fns []*ssa.Function
	for fn := range p.AllFns {
		if fn.Name() == "contains" && fn.Blocks != nil && p.IsRepoFn(fn) && p.Vers != nil && fn.Pkg != nil && fn.Pkg.Pkg == p.Vers.Types {
			fns = append(fns, fn)
		}
	}
	fns = p.Representatives(fns)
	if len(fns) == 0 {
		for fn := range p.AllFns {
			if fn.Name() == "contains" && fn.Blocks != nil && p.IsRepoFn(fn) {
				fns = append(fns, fn)
			}
		}
		sort.Slice(fns, func(i, j int) bool { return fns[i].String() < fns[j].String() })
		if len(fns) > 1 {
			fns = fns[:1]
		}
	}
	keyX := "vers: a version equal to a '!=' constraint is rejected before anything is accepted"
	keyU := "vers: after the exclusions the result is membership in any interval"
	if len(fns) == 0 {
		r.Und("R-VERS-EXCL", keyX, "", "the generic VERS evaluator was not found")
		r.Floor("R-VERS-EXCL", 1)
		return
	}
	fn := fns[0]
	loops := findLoops(fn)
	var excl, union *loop
	var exclWhy string
	// the documented answer for the lone "*": 'return true' under the true edge of a predicate over the
	// raw constraint list that compares with "*" ('vers:<scheme>/*' contains every valid version)
	starRet := func(b *ssa.BasicBlock) bool {
		if !returnsBool(b, true) {
			return false
		}
		for _, blk := range fn.Blocks {
			for _, ins := range blk.Instrs {
				c, ok := ins.(*ssa.Call)
				if !ok || len(c.Call.Args) != 1 || !isStringSlice(c.Call.Args[0].Type()) {
					continue
				}
				if _, isParam := c.Call.Args[0].(*ssa.Parameter); !isParam {
					continue
				}
				if g := c.Call.StaticCallee(); g != nil && p.IsRepoFn(g) && comparesWithStar(g) && trueEdgeDominates(c, b) {
					return true
				}
			}
		}
		return false
	}
	for _, l := range loops {
		hasNeq, rejects, accepts := false, false, false
		for b := range l.body {
			for _, ins := range b.Instrs {
				if bo, ok := ins.(*ssa.BinOp); ok && (bo.Op == token.EQL || bo.Op == token.NEQ) {
					if s, ok := constString(bo.Y); ok && s == "!=" {
						hasNeq = true
					}
				}
				if bo, ok := ins.(*ssa.BinOp); ok && bo.Op == token.EQL {
					if v, ok := callNamed(valueInstr(bo.X), "Compare"); ok && v != nil {
						if z, ok := constInt(bo.Y); ok && z == 0 {
							for _, ref := range *bo.Referrers() {
								if iff, ok := ref.(*ssa.If); ok && returnsBool(iff.Block().Succs[0], false) {
									rejects = true
								}
							}
						}
					}
				}
				if v, ok := callNamed(ins, "Contains"); ok && v != nil {
					for _, ref := range *v.Referrers() {
						if iff, ok := ref.(*ssa.If); ok && returnsBool(iff.Block().Succs[0], true) {
							accepts = true
						}
					}
				}
			}
		}
		if hasNeq && rejects {
			excl = l
		} else if hasNeq {
			exclWhy = "a loop tests for '!=' but does not return false when Compare with the excluded version is 0"
		}
		if accepts {
			union = l
		}
	}
	if excl == nil {
		if exclWhy == "" {
			exclWhy = "no loop over the constraints returns (false, nil) when the probe compares equal to a '!=' version"
		}
		r.Bad("R-VERS-EXCL", keyX, p.FnPos(fn), exclWhy)
	} else {
		var early []string
		for _, b := range fn.Blocks {
			if starRet(b) {
				continue
			}
			if returnsBool(b, true) && !excl.header.Dominates(b) {
				early = append(early, p.Pos(b.Instrs[len(b.Instrs)-1].Pos()))
			}
			if returnsBool(b, true) && excl.body[b] {
				early = append(early, p.Pos(b.Instrs[len(b.Instrs)-1].Pos()))
			}
		}
		if len(early) > 0 {
			r.Bad("R-VERS-EXCL", keyX, early[0], "a 'return true' can be reached without passing the exclusion loop")
		} else {
			r.Ok("R-VERS-EXCL", keyX, p.FnPos(fn), "the loop that returns false when Compare(probe, excluded) == 0 for a '!=' constraint dominates every 'return true' (the == 0 test makes the operand order irrelevant)")
		}
	}
	switch {
	case union == nil:
		r.Bad("R-VERS-UNION", keyU, p.FnPos(fn), "no loop returns true when some native range contains the probe")
	case excl != nil && !excl.header.Dominates(union.header):
		r.Bad("R-VERS-UNION", keyU, p.FnPos(fn), "the membership loop is not preceded by the exclusion loop")
	default:
		// leaving the membership loop returns false; an empty list of ranges returns true only under len == 0
		exitFalse := false
		for _, s := range union.header.Succs {
			if !union.body[s] && returnsBool(s, false) {
				exitFalse = true
			}
		}
		onlyEmpty := true
		accept := map[*ssa.BasicBlock]bool{}
		for b := range union.body {
			for _, ins := range b.Instrs {
				if v, ok := callNamed(ins, "Contains"); ok && v != nil {
					for _, ref := range *v.Referrers() {
						if iff, ok := ref.(*ssa.If); ok {
							accept[iff.Block().Succs[0]] = true
						}
					}
				}
			}
		}
		for _, b := range fn.Blocks {
			if !returnsBool(b, true) || union.body[b] || accept[b] || starRet(b) {
				continue
			}
			guarded := false
			domEdges(b, func(cond ssa.Value, tv bool) bool {
				if bo, ok := cond.(*ssa.BinOp); ok && bo.Op == token.EQL && tv {
					if z, ok := constInt(bo.Y); ok && z == 0 {
						if lc, ok := bo.X.(*ssa.Call); ok {
							if bi, ok := lc.Call.Value.(*ssa.Builtin); ok && bi.Name() == "len" {
								guarded = true
							}
						}
					}
				}
				return false
			})
			if !guarded {
				onlyEmpty = false
			}
		}
		// every answer without an error is a constant decided by the two loops: an answer computed elsewhere
		// (a fast path's result variable) has seen neither the exclusions nor the intervals
		computed := ""
		for _, b := range fn.Blocks {
			ret, ok := b.Instrs[len(b.Instrs)-1].(*ssa.Return)
			if !ok || len(ret.Results) != 2 || !isNilConst(ret.Results[1]) {
				continue
			}
			switch v := ret.Results[0].(type) {
			case *ssa.Const:
			case *ssa.Phi:
				for _, ed := range v.Edges {
					if _, isC := ed.(*ssa.Const); !isC {
						computed = p.Pos(ret.Pos())
					}
				}
			default:
				computed = p.Pos(ret.Pos())
			}
		}
		switch {
		case computed != "":
			r.Bad("R-VERS-UNION", keyU, p.FnPos(fn), "the return at "+computed+" answers without an error with a value computed outside the exclusion loop and the membership loop: such an answer has not asked the translated intervals")
		case !exitFalse:
			r.Bad("R-VERS-UNION", keyU, p.FnPos(fn), "when no native range contains the probe the function does not return false")
		case !onlyEmpty:
			r.Bad("R-VERS-UNION", keyU, p.FnPos(fn), "a 'return true' outside the membership loop is not limited to the case of no intervals (only '!=' constraints)")
		default:
			r.Ok("R-VERS-UNION", keyU, p.FnPos(fn), "true iff some translated interval's native range contains the probe; with no intervals at all (only exclusions) every other version is contained")
		}
	}
	r.Floor("R-VERS-EXCL", 1)
	r.Floor("R-VERS-UNION", 1)
}

func valueInstr(v ssa.Value) ssa.Instruction {
	if ins, ok := v.(ssa.Instruction); ok {
		return ins
	}
	return nil
}

// ---- R-VERS-GATE: the pypi pre-release gate looks at the public version only ------------------------------
func ruleVersPypiGate(p *Prog, r *Report) {
	key := "vers pypi: the pre-release gate ignores the local version label"
	var gate *ssa.Function
	for fn := range p.AllFns {
		if fn.Name() == "pypiContains" && fn.Blocks != nil && p.IsRepoFn(fn) {
			gate = fn
		}
	}
	if gate == nil {
		r.Und("R-VERS-GATE", key, "", "pypi's VERS evaluator not found")
		r.Floor("R-VERS-GATE", 1)
		return
	}
	// calls of a text predicate (string -> bool, repo) on text derived from the probe's String()
	n := 0
	for _, fn := range p.RepoReachable(gate) {
		for _, b := range fn.Blocks {
			for _, ins := range b.Instrs {
				c, ok := ins.(*ssa.Call)
				if !ok {
					continue
				}
				f := c.Call.StaticCallee()
				if f == nil || !p.IsRepoFn(f) || len(f.Params) != 1 || !isStringType(f.Params[0].Type()) || f.Signature.Results().Len() != 1 || !isBoolType(f.Signature.Results().At(0).Type()) {
					continue
				}
				arg := c.Call.Args[0]
				fromProbe, cut := false, false
				var walk func(v ssa.Value, d int)
				seen := map[ssa.Value]bool{}
				walk = func(v ssa.Value, d int) {
					if d > 8 || seen[v] {
						return
					}
					seen[v] = true
					switch x := v.(type) {
					case *ssa.Call:
						if x.Call.IsInvoke() && x.Call.Method.Name() == "String" {
							fromProbe = true
							return
						}
						if g := x.Call.StaticCallee(); g != nil {
							if g.Name() == "String" && g.Signature.Recv() != nil {
								fromProbe = true
								return
							}
							if extName(g) == "strings.Split" || extName(g) == "strings.SplitN" || extName(g) == "strings.Cut" {
								if s, ok := constString(x.Call.Args[1]); ok && s == "+" {
									cut = true
								}
							}
							for _, a := range x.Call.Args {
								walk(a, d+1)
							}
						}
					case *ssa.UnOp:
						walk(x.X, d+1)
					case *ssa.IndexAddr:
						if k, ok := constInt(x.Index); ok && k != 0 {
							return // not the part before the '+'
						}
						walk(x.X, d+1)
					case *ssa.Extract:
						if x.Index != 0 {
							return
						}
						walk(x.Tuple, d+1)
					case *ssa.Slice:
						walk(x.X, d+1)
					case *ssa.Phi:
						for _, e := range x.Edges {
							walk(e, d+1)
						}
					}
				}
				walk(arg, 0)
				if !fromProbe {
					continue
				}
				n++
				k := fmt.Sprintf("%s (%s called in %s)", key, f.Name(), fn.Name())
				if cut {
					r.Ok("R-VERS-GATE", k, p.Pos(c.Pos()), "the probe's text is cut at '+' (part before it) before the marker scan: a local label cannot make a final release look like a pre-release")
				} else {
					r.Bad("R-VERS-GATE", k, p.Pos(c.Pos()), "the textual pre-release scan sees the probe's whole text, including the local version label after '+': 1.0+abc.rc1 would be gated as a pre-release")
				}
			}
		}
	}
	if n == 0 {
		r.Und("R-VERS-GATE", key, p.FnPos(gate), "no textual predicate on the probe's String() found in the gate")
	}
	// the constraints side of the gate: "some constraint names a pre-release" asks every constraint.
	// In each loop over a list of strings in the gate's call tree that calls a text predicate, every
	// path through an iteration passes the predicate call: a test of the constraint's comparator (or
	// anything else) in front of it exempts some constraints from the question.
	k2 := "vers pypi: the pre-release gate asks every constraint"
	loopsSeen := 0
	for _, fn := range p.RepoReachable(gate) {
		if fn.Pkg != gate.Pkg || fn.Blocks == nil {
			continue
		}
		for _, l := range findLoops(fn) {
			var predBlocks []*ssa.BasicBlock
			for b := range l.body {
				for _, ins := range b.Instrs {
					c, ok := ins.(*ssa.Call)
					if !ok {
						continue
					}
					f := c.Call.StaticCallee()
					if f == nil || !p.IsRepoFn(f) || len(f.Params) != 1 || !isStringType(f.Params[0].Type()) || f.Signature.Results().Len() != 1 || !isBoolType(f.Signature.Results().At(0).Type()) {
						continue
					}
					predBlocks = append(predBlocks, b)
				}
			}
			// a loop over a []string parameter
			overStrings := false
			for _, ins := range l.header.Instrs {
				if ph, ok := ins.(*ssa.Phi); ok && isIntType(ph.Type()) {
					_ = ph
				}
			}
			for _, prm := range fn.Params {
				if isStringSlice(prm.Type()) {
					overStrings = true
				}
			}
			if len(predBlocks) == 0 || !overStrings {
				continue
			}
			loopsSeen++
			isPred := map[*ssa.BasicBlock]bool{}
			for _, b := range predBlocks {
				isPred[b] = true
			}
			// can an iteration get from the header's body successor back to the header (or out of the
			// loop by falling through) without passing a predicate block?
			var entry *ssa.BasicBlock
			for _, sc := range l.header.Succs {
				if l.body[sc] && sc != l.header {
					entry = sc
				}
			}
			bypass := false
			seen := map[*ssa.BasicBlock]bool{}
			var walk func(b *ssa.BasicBlock)
			walk = func(b *ssa.BasicBlock) {
				if bypass || seen[b] || isPred[b] {
					return
				}
				seen[b] = true
				for _, sc := range b.Succs {
					if sc == l.header {
						bypass = true
						return
					}
					if l.body[sc] {
						walk(sc)
					}
				}
			}
			if entry != nil {
				walk(entry)
			}
			kk := fmt.Sprintf("%s (%s)", k2, fn.Name())
			if bypass {
				r.Bad("R-VERS-GATE", kk, p.FnPos(fn), "an iteration over the constraints can go on to the next one without the text predicate having been applied: constraints with some comparators (or of some shape) are not asked whether they name a pre-release")
			} else {
				r.Ok("R-VERS-GATE", kk, p.FnPos(fn), "every iteration over the constraints applies the text predicate before it goes on")
			}
		}
	}
	if loopsSeen == 0 {
		r.Und("R-VERS-GATE", k2, p.FnPos(gate), "no loop over the constraints that applies a text predicate was found in the gate")
	}
	r.Floor("R-VERS-GATE", 2)
}

// ---- R-VERS-PURE: VERS evaluation keeps no state between calls ------------------------------------------------
func ruleVersPure(p *Prog, r *Report) {
	var roots []*ssa.Function
	for fn := range p.AllFns {
		if fn.Name() == "Contains" && fn.Blocks != nil && p.Vers != nil && fn.Pkg != nil && fn.Pkg.Pkg == p.Vers.Types && fn.Signature.Recv() == nil {
			roots = append(roots, fn)
		}
	}
	if len(roots) == 0 {
		r.Und("R-PURE-CALL", "vers: evaluation keeps no state", "", "vers.Contains not found")
		return
	}
	a := &efAnalysis{p: p, r: r, fresh: map[*ssa.Function]int{}, bindings: map[*ssa.Function][]*ssa.MakeClosure{}, memo: map[ssa.Value]origin{}, busy: map[ssa.Value]bool{}}
	var fns []*ssa.Function
	for _, f := range p.RepoReachable(roots...) {
		if f.Pkg != nil && p.Vers != nil && f.Pkg.Pkg == p.Vers.Types {
			fns = append(fns, f)
		} else if o := f.Origin(); o != nil && o.Pkg != nil && o.Pkg.Pkg == p.Vers.Types {
			fns = append(fns, f)
		}
	}
	for _, f := range fns {
		for _, b := range f.Blocks {
			for _, ins := range b.Instrs {
				if mc, ok := ins.(*ssa.MakeClosure); ok {
					cf := mc.Fn.(*ssa.Function)
					a.bindings[cf] = append(a.bindings[cf], mc)
				}
			}
		}
	}
	for _, f := range p.Representatives(fns) {
		a.checkFn(f)
	}
	r.Floor("R-PURE-CALL", 100)
}

func init() {
	register("C04", "", ruleVersContainsShape, ruleVersPypiGate, ruleVersPure)
}
