package main

import (
	"encoding/json"
	"fmt"
	"os"
	"path/filepath"
	"sort"
	"strings"
	"time"
)

type Verdict string

const (
	OK        Verdict = "discharged"
	Violated  Verdict = "violated"
	Undecided Verdict = "undecided"
)

// Obligation is one instance of one rule on one construct.
type Obligation struct {
	Rule    string  `json:"rule"`
	Key     string  `json:"key"` // line-free construct key: pkg.func + construct [+ witness]
	Pos     string  `json:"pos"` // file:line, for the reader only
	Verdict Verdict `json:"verdict"`
	Detail  string  `json:"detail,omitempty"`
	Trivial bool    `json:"trivial,omitempty"` // discharged syntactically
	Known   string  `json:"known,omitempty"`   // text of the matching known finding
}

type Report struct {
	Prop        string
	Tier        string
	Obls        []*Obligation
	Floors      map[string]int // rule -> minimum instance count confirmed by hand
	Notes       []string
	Assumptions []string
	Trusted     []string
	Explanation string
	Extra       map[string]any
	start       time.Time
}

func NewReport(prop, tier string) *Report {
	return &Report{Prop: prop, Tier: tier, Floors: map[string]int{}, Extra: map[string]any{}, start: time.Now()}
}

func (r *Report) add(rule, key, pos string, v Verdict, detail string) *Obligation {
	o := &Obligation{Rule: rule, Key: key, Pos: pos, Verdict: v, Detail: detail}
	r.Obls = append(r.Obls, o)
	return o
}
func (r *Report) Ok(rule, key, pos, detail string) *Obligation {
	return r.add(rule, key, pos, OK, detail)
}
func (r *Report) Triv(rule, key, pos, detail string) *Obligation {
	o := r.add(rule, key, pos, OK, detail)
	o.Trivial = true
	return o
}
func (r *Report) Bad(rule, key, pos, detail string) *Obligation {
	return r.add(rule, key, pos, Violated, detail)
}
func (r *Report) Und(rule, key, pos, detail string) *Obligation {
	return r.add(rule, key, pos, Undecided, detail)
}
func (r *Report) Floor(rule string, n int) { r.Floors[rule] = n }
func (r *Report) Note(format string, a ...any) {
	r.Notes = append(r.Notes, fmt.Sprintf(format, a...))
}

type KnownFinding struct {
	Status   string `json:"status"` // "known" or "fixed"
	Property string `json:"property"`
	Rule     string `json:"rule"`
	Key      string `json:"key"`
	// alternatively: every finding of the rule whose key starts with KeyPrefix and whose set of
	// differing terms ({...} at the end of the key) includes all of CoreIncludes. This pins a finding
	// to the construct that causes it; a failure that does not involve those terms is still reported.
	KeyPrefix    string   `json:"key_prefix,omitempty"`
	CoreIncludes []string `json:"core_includes,omitempty"`
	What         string   `json:"what"`
	Input        string   `json:"input,omitempty"`
	Commit       string   `json:"commit,omitempty"`
}

type KnownFile struct {
	Findings []KnownFinding `json:"findings"`
}

func (k KnownFinding) matches(key string) bool {
	if k.Key != "" && k.Key == key {
		return true
	}
	if k.KeyPrefix == "" || len(k.CoreIncludes) == 0 || !strings.HasPrefix(key, k.KeyPrefix) {
		return false
	}
	i := strings.LastIndex(key, "{")
	if i < 0 || !strings.HasSuffix(key, "}") {
		return false
	}
	core := "," + key[i+1:len(key)-1] + ","
	for _, t := range k.CoreIncludes {
		if !strings.Contains(core, ","+t+",") {
			return false
		}
	}
	return true
}

func loadKnown(path string) KnownFile {
	var k KnownFile
	b, err := os.ReadFile(path)
	if err != nil {
		return k
	}
	if err := json.Unmarshal(b, &k); err != nil {
		fatalf("known findings file %s: %v", path, err)
	}
	return k
}

// Finish applies floors and known findings, writes evidence and replay files,
// prints the verdict lines and returns the exit code.
func (r *Report) Finish(verifDir string, known KnownFile, only *Obligation) int {
	// floors: a rule matching fewer instances than confirmed by hand fails
	count := map[string]int{}
	for _, o := range r.Obls {
		count[o.Rule]++
	}
	var rules []string
	for rule := range r.Floors {
		rules = append(rules, rule)
	}
	sort.Strings(rules)
	for _, rule := range rules {
		if count[rule] < r.Floors[rule] {
			r.Bad(rule, "floor:"+rule, "-", fmt.Sprintf("rule matched %d instances, hand-confirmed floor is %d: the construct this rule anchors on was not found (anchor unresolved)", count[rule], r.Floors[rule]))
		}
	}
	sort.SliceStable(r.Obls, func(i, j int) bool {
		a, b := r.Obls[i], r.Obls[j]
		if a.Rule != b.Rule {
			return a.Rule < b.Rule
		}
		return a.Key < b.Key
	})
	// duplicate keys within a rule get a numeric suffix so keys are unique
	seen := map[string]int{}
	for _, o := range r.Obls {
		k := o.Rule + "|" + o.Key
		seen[k]++
		if seen[k] > 1 {
			o.Key = fmt.Sprintf("%s#%d", o.Key, seen[k])
		}
	}
	if only != nil {
		var f []*Obligation
		for _, o := range r.Obls {
			if o.Rule == only.Rule && o.Key == only.Key {
				f = append(f, o)
			}
		}
		if len(f) == 0 {
			fmt.Printf("replay: obligation %s %s no longer exists on this tree\n", only.Rule, only.Key)
			return 0
		}
		r.Obls = f
	}
	nviol, nknown, ndis, ntriv := 0, 0, 0, 0
	byRule := map[string]map[string]int{}
	replayDir := filepath.Join(verifDir, "replay")
	var lines []string
	for _, o := range r.Obls {
		m := byRule[o.Rule]
		if m == nil {
			m = map[string]int{}
			byRule[o.Rule] = m
		}
		if o.Verdict == OK {
			ndis++
			m["discharged"]++
			if o.Trivial {
				ntriv++
			}
			if os.Getenv("GVCHECK_LIST") != "" && !o.Trivial {
				fmt.Printf("DISCHARGED %s: %s [%s] %s\n", o.Pos, o.Rule, o.Key, o.Detail)
			}
			continue
		}
		matched := false
		for _, k := range known.Findings {
			if k.Status == "known" && k.Property == r.Prop && k.Rule == o.Rule && k.matches(o.Key) {
				matched = true
				o.Known = k.What
				break
			}
		}
		if matched {
			nknown++
			m["known_finding"]++
			lines = append(lines, fmt.Sprintf("KNOWN-FINDING: property=%s %s %s (%s) %s", r.Prop, o.Rule, o.Key, o.Pos, o.Known))
			continue
		}
		nviol++
		m[string(o.Verdict)]++
		os.MkdirAll(replayDir, 0o755)
		rp := filepath.Join(replayDir, fmt.Sprintf("%s-%03d.json", r.Prop, nviol))
		b, _ := json.MarshalIndent(map[string]any{"property": r.Prop, "obligation": o}, "", " ")
		os.WriteFile(rp, b, 0o644)
		fmt.Printf("%s %s: %s [%s] %s\n", strings.ToUpper(string(o.Verdict)), o.Pos, o.Rule, o.Key, o.Detail)
		lines = append(lines, fmt.Sprintf("VIOLATION property=%s replay=%s", r.Prop, rp))
	}
	// evidence
	samples := []any{}
	perRule := map[string]int{}
	for _, o := range r.Obls {
		if o.Trivial && perRule[o.Rule] >= 1 {
			continue
		}
		if perRule[o.Rule] >= 4 && o.Verdict == OK {
			continue
		}
		perRule[o.Rule]++
		samples = append(samples, o)
		if len(samples) >= 60 {
			break
		}
	}
	distinct := map[string]bool{}
	for _, o := range r.Obls {
		if !o.Trivial {
			distinct[o.Rule+"|"+o.Key] = true
		}
	}
	expl := r.Explanation
	if len(r.Notes) > 0 {
		expl += " NOTES: " + strings.Join(r.Notes, " | ")
	}
	cov := map[string]any{
		"explanation":         expl,
		"obligations":         len(r.Obls),
		"discharged":          ndis,
		"known_findings":      nknown,
		"evaluations":         len(r.Obls),
		"distinct_nontrivial": len(distinct),
		"rule":                "one obligation per (rule, construct) found by role in the resolved program; non-trivial = not discharged by a purely syntactic shape; distinct = distinct rule+construct key",
		"samples":             samples,
		"by_rule":             byRule,
		"floors":              r.Floors,
		"checker_cmd":         fmt.Sprintf("./run.sh %s %s", r.Prop, r.Tier),
		"trusted_base":        r.Trusted,
		"exhaustive":          true,
	}
	for k, v := range r.Extra {
		cov[k] = v
	}
	if r.Assumptions == nil {
		r.Assumptions = []string{}
	}
	r.Assumptions = append(r.Assumptions, "go/packages type-checks /repo's working tree without errors (otherwise the check fails)", "std functions behave as documented; exported operations receive values produced by the repo's constructors")
	if r.Trusted == nil {
		r.Trusted = []string{"Go type checker and go/ssa (x/tools v0.29.0)", "Go standard library"}
		cov["trusted_base"] = r.Trusted
	}
	seed := 0
	fmt.Sscanf(os.Getenv("VERIF_SEED"), "%d", &seed)
	ev := map[string]any{
		"property_id": r.Prop,
		"tier":        r.Tier,
		"seed":        seed,
		"level":       "other",
		"coverage":    cov,
		"assumptions": r.Assumptions,
		"wall_s":      time.Since(r.start).Seconds(),
		"violations":  nviol,
	}
	if only == nil {
		os.MkdirAll(filepath.Join(verifDir, "evidence"), 0o755)
		b, _ := json.MarshalIndent(ev, "", " ")
		if err := os.WriteFile(filepath.Join(verifDir, "evidence", r.Prop+".json"), b, 0o644); err != nil {
			fatalf("write evidence: %v", err)
		}
	}
	// summary
	var rs []string
	for rule := range byRule {
		rs = append(rs, rule)
	}
	sort.Strings(rs)
	fmt.Printf("property %s tier %s: %d obligations, %d discharged (%d syntactically), %d known findings, %d violations/undecided, %.1fs\n",
		r.Prop, r.Tier, len(r.Obls), ndis, ntriv, nknown, nviol, time.Since(r.start).Seconds())
	for _, rule := range rs {
		fmt.Printf("  %-22s %v\n", rule, byRule[rule])
	}
	for _, n := range r.Notes {
		fmt.Printf("  note: %s\n", n)
	}
	for _, l := range lines {
		fmt.Println(l)
	}
	if nviol > 0 {
		return 1
	}
	return 0
}
