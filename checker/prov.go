package main

import (
	"go/constant"
	"go/token"
	"go/types"
	"regexp/syntax"
	"sort"
	"strings"

	"golang.org/x/tools/go/ssa"
)

// ---- field provenance: which capture group / transformation feeds a Version field ---------------

type provGroup struct {
	ri  *regexInfo
	idx int
}

type fieldProv struct {
	groups  []provGroup
	via     map[string]bool
	consts  []constant.Value
	unknown bool
	stack   []*ssa.Call // call sites entered while walking callee results (context for parameters)
	pre     map[string]bool // operations applied to the text before the pattern that feeds a group was matched
	local   bool            // stop at parameters (what the function itself does to its input)
}

func (fp *fieldProv) addGroup(ri *regexInfo, idx int) {
	for _, g := range fp.groups {
		if g.ri.Pattern == ri.Pattern && g.idx == idx {
			return
		}
	}
	fp.groups = append(fp.groups, provGroup{ri, idx})
}

func (p *Prog) provWalk(v ssa.Value, fp *fieldProv, seen map[ssa.Value]bool, depth int) {
	if depth > 28 || seen[v] {
		return
	}
	seen[v] = true
	switch x := v.(type) {
	case *ssa.Const:
		if x.Value != nil {
			fp.consts = append(fp.consts, x.Value)
		}
	case *ssa.Phi:
		for _, e := range x.Edges {
			p.provWalk(e, fp, seen, depth+1)
		}
	case *ssa.Extract:
		p.provWalk(x.Tuple, fp, seen, depth+1)
	case *ssa.Convert:
		p.provWalk(x.X, fp, seen, depth+1)
	case *ssa.ChangeType:
		p.provWalk(x.X, fp, seen, depth+1)
	case *ssa.MakeInterface:
		p.provWalk(x.X, fp, seen, depth+1)
	case *ssa.Slice:
		fp.via["substring"] = true
		p.provWalk(x.X, fp, seen, depth+1)
	case *ssa.BinOp:
		fp.via["arith/concat"] = true
		p.provWalk(x.X, fp, seen, depth+1)
		p.provWalk(x.Y, fp, seen, depth+1)
	case *ssa.MakeSlice:
		// elements stored later
		for _, ref := range *x.Referrers() {
			if ia, ok := ref.(*ssa.IndexAddr); ok {
				for _, r2 := range *ia.Referrers() {
					if st, ok := r2.(*ssa.Store); ok && st.Addr == ssa.Value(ia) {
						fp.via["elem"] = true
						p.provWalk(st.Val, fp, seen, depth+1)
					}
				}
			}
		}
	case *ssa.Alloc:
		for _, ref := range *x.Referrers() {
			switch y := ref.(type) {
			case *ssa.Store:
				if y.Addr == ssa.Value(x) {
					p.provWalk(y.Val, fp, seen, depth+1)
				}
			case *ssa.IndexAddr:
				for _, r2 := range *y.Referrers() {
					if st, ok := r2.(*ssa.Store); ok && st.Addr == ssa.Value(y) {
						fp.via["elem"] = true
						p.provWalk(st.Val, fp, seen, depth+1)
					}
				}
			case *ssa.FieldAddr:
				for _, r2 := range *y.Referrers() {
					if st, ok := r2.(*ssa.Store); ok && st.Addr == ssa.Value(y) {
						p.provWalk(st.Val, fp, seen, depth+1)
					}
				}
			}
		}
	case *ssa.Index:
		fp.via["elem"] = true
		p.provWalk(x.X, fp, seen, depth+1)
	case *ssa.Lookup:
		fp.via["map"] = true
		p.provWalk(x.Index, fp, seen, depth+1)
	case *ssa.UnOp:
		if x.Op != token.MUL {
			return
		}
		switch ad := x.X.(type) {
		case *ssa.IndexAddr:
			if k, ok := constInt(ad.Index); ok {
				if calls := p.resolveSubmatch(ad.X, map[ssa.Value]bool{}, 0); len(calls) > 0 {
					all := true
					for _, call := range calls {
						if ri := p.regexOf(call.Call.Args[0]); ri != nil && ri.Err == nil {
							fp.addGroup(ri, int(k))
							// what was done to the text before it was matched (trimming, case mapping)
							if len(call.Call.Args) > 1 {
								pre := &fieldProv{via: map[string]bool{}, local: true}
								p.provWalk(call.Call.Args[1], pre, map[ssa.Value]bool{}, depth+1)
								if fp.pre == nil {
									fp.pre = map[string]bool{}
								}
								for m := range pre.via {
									fp.pre[m] = true
								}
							}
						} else {
							all = false
						}
					}
					if all {
						return
					}
				}
			}
			fp.via["elem"] = true
			p.provWalk(ad.X, fp, seen, depth+1)
		case *ssa.FieldAddr:
			p.provWalk(ad.X, fp, seen, depth+1)
		case *ssa.Alloc:
			p.provWalk(ad, fp, seen, depth+1)
		}
	case *ssa.Parameter:
		if fp.local && len(fp.stack) == 0 {
			fp.via["input"] = true
			return
		}
		fn := x.Parent()
		idx := -1
		for i, q := range fn.Params {
			if q == x {
				idx = i
			}
		}
		if n := len(fp.stack); n > 0 && fp.stack[n-1].Call.StaticCallee() == fn && idx >= 0 && idx < len(fp.stack[n-1].Call.Args) {
			// reached through this call's result: the parameter is this call's argument
			site := fp.stack[n-1]
			fp.stack = fp.stack[:n-1]
			p.provWalk(site.Call.Args[idx], fp, map[ssa.Value]bool{}, depth+1)
			fp.stack = append(fp.stack, site)
			return
		}
		n := p.CG.Nodes[fn]
		if n == nil || len(n.In) == 0 {
			fp.via["input"] = true
			return
		}
		for _, e := range n.In {
			if e.Site == nil || !p.IsRepoFn(e.Caller.Func) {
				fp.via["input"] = true
				continue
			}
			args := e.Site.Common().Args
			ai := idx
			if e.Site.Common().IsInvoke() {
				ai--
			}
			if ai >= 0 && ai < len(args) {
				p.provWalk(args[ai], fp, seen, depth+1)
			}
		}
	case *ssa.Call:
		if b, ok := x.Call.Value.(*ssa.Builtin); ok {
			if b.Name() == "append" {
				for _, a := range x.Call.Args {
					p.provWalk(a, fp, seen, depth+1)
				}
			}
			return
		}
		f := x.Call.StaticCallee()
		if f == nil {
			fp.unknown = true
			return
		}
		name := extName(f)
		short := name[strings.LastIndex(name, ".")+1:]
		switch {
		case p.IsRepoFn(f) && f.Blocks != nil:
			fp.via[f.Name()] = true
			fp.stack = append(fp.stack, x)
			inner := map[ssa.Value]bool{}
			for _, b := range f.Blocks {
				if ret, ok := b.Instrs[len(b.Instrs)-1].(*ssa.Return); ok {
					for _, rv := range ret.Results {
						p.provWalk(rv, fp, inner, depth+1)
					}
				}
			}
			fp.stack = fp.stack[:len(fp.stack)-1]
			// the text handed to a repo helper feeds whatever the helper builds from it
			for _, a := range x.Call.Args {
				if isStringType(a.Type()) || isStringSlice(a.Type()) {
					p.provWalk(a, fp, seen, depth+1)
				}
			}
		case strings.HasPrefix(name, "(*regexp.Regexp)"):
			fp.via[short] = true
			if len(x.Call.Args) > 1 {
				p.provWalk(x.Call.Args[1], fp, seen, depth+1)
			}
		default:
			fp.via[short] = true
			for _, a := range x.Call.Args {
				if isStringType(a.Type()) || isStringSlice(a.Type()) || isIntType(a.Type()) {
					p.provWalk(a, fp, seen, depth+1)
					break
				}
			}
		}
	}
}

// resolveSubmatch: the FindStringSubmatch calls whose result v may be (through parameters and phis)
func (p *Prog) resolveSubmatch(v ssa.Value, seen map[ssa.Value]bool, depth int) []*ssa.Call {
	if depth > 6 || seen[v] {
		return nil
	}
	seen[v] = true
	switch x := v.(type) {
	case *ssa.Call:
		if f := x.Call.StaticCallee(); f != nil && extName(f) == "(*regexp.Regexp).FindStringSubmatch" {
			return []*ssa.Call{x}
		}
	case *ssa.Phi:
		var out []*ssa.Call
		for _, e := range x.Edges {
			out = append(out, p.resolveSubmatch(e, seen, depth+1)...)
		}
		return out
	case *ssa.Parameter:
		fn := x.Parent()
		idx := -1
		for i, q := range fn.Params {
			if q == x {
				idx = i
			}
		}

		var out []*ssa.Call
		if n := p.CG.Nodes[fn]; n != nil {
			for _, e := range n.In {
				if e.Site == nil || !p.IsRepoFn(e.Caller.Func) {
					return nil
				}
				args := e.Site.Common().Args
				ai := idx
				if e.Site.Common().IsInvoke() {
					ai--
				}
				if ai < 0 || ai >= len(args) {
					return nil
				}
				r := p.resolveSubmatch(args[ai], seen, depth+1)
				if len(r) == 0 {
					return nil
				}
				out = append(out, r...)
			}
		}
		return out
	}
	return nil
}

// fieldProv: provenance of field #f of type t over all construction sites reachable from ctor
func (p *Prog) fieldProvOf(t *types.Named, f int, ctor *ssa.Function) *fieldProv {
	fp := &fieldProv{via: map[string]bool{}}
	n := 0
	for _, fn := range p.RepoReachable(ctor) {
		for _, b := range fn.Blocks {
			for _, ins := range b.Instrs {
				s, ok := ins.(*ssa.Store)
				if !ok {
					continue
				}
				if ia, isIA := s.Addr.(*ssa.IndexAddr); isIA {
					// v.f[i] = x : element store through the reloaded field
					if ld, isLd := ia.X.(*ssa.UnOp); isLd {
						if fa2, isFA := ld.X.(*ssa.FieldAddr); isFA && fa2.Field == f {
							if pt, ok := fa2.X.Type().Underlying().(*types.Pointer); ok && types.Identical(pt.Elem(), t) {
								fp.via["elem"] = true
								p.provWalk(s.Val, fp, map[ssa.Value]bool{}, 0)
							}
						}
					}
					continue
				}
				fa, ok := s.Addr.(*ssa.FieldAddr)
				if !ok || fa.Field != f {
					continue
				}
				pt, ok := fa.X.Type().Underlying().(*types.Pointer)
				if !ok || !types.Identical(pt.Elem(), t) {
					continue
				}
				n++
				p.provWalk(s.Val, fp, map[ssa.Value]bool{}, 0)
			}
		}
	}
	if n == 0 {
		fp.unknown = true
	}
	sort.Slice(fp.groups, func(i, j int) bool {
		if fp.groups[i].ri.Pattern != fp.groups[j].ri.Pattern {
			return fp.groups[i].ri.Pattern < fp.groups[j].ri.Pattern
		}
		return fp.groups[i].idx < fp.groups[j].idx
	})
	return fp
}

// ---- capture-group properties -------------------------------------------------------------------

func findGroup(re *syntax.Regexp, k int) *syntax.Regexp {
	if re.Op == syntax.OpCapture && re.Cap == k {
		return re.Sub[0]
	}
	for _, s := range re.Sub {
		if g := findGroup(s, k); g != nil {
			return g
		}
	}
	return nil
}

// alphabetWithin: every character the subexpression can match belongs to allowed
func alphabetWithin(re *syntax.Regexp, allowed string) bool {
	switch re.Op {
	case syntax.OpLiteral:
		for _, r := range re.Rune {
			if !strings.ContainsRune(allowed, r) {
				return false
			}
		}
		return true
	case syntax.OpCharClass:
		for i := 0; i+1 < len(re.Rune); i += 2 {
			if re.Rune[i+1]-re.Rune[i] > 64 {
				return false
			}
			for c := re.Rune[i]; c <= re.Rune[i+1]; c++ {
				if !strings.ContainsRune(allowed, c) {
					return false
				}
			}
		}
		return true
	case syntax.OpAnyChar, syntax.OpAnyCharNotNL:
		return false
	}
	for _, s := range re.Sub {
		if !alphabetWithin(s, allowed) {
			return false
		}
	}
	return true
}

func (g provGroup) digitsOnly() bool {
	sub := findGroup(g.ri.Re, g.idx)
	return sub != nil && alphabetWithin(sub, "0123456789") && minLenRe(sub) >= 0
}

func (g provGroup) digitsDots() bool {
	sub := findGroup(g.ri.Re, g.idx)
	return sub != nil && alphabetWithin(sub, "0123456789.-")
}

// precedingText: the literal characters just before the group's opening parenthesis in the pattern
// source (skipping non-capturing openers, optional marks and escapes)
func (g provGroup) precedingText() string {
	pat := g.ri.Pattern
	n := 0
	pos := -1
	inClass := false
	for i := 0; i < len(pat); i++ {
		ch := pat[i]
		if ch == '\\' {
			i++
			continue
		}
		if inClass {
			if ch == ']' {
				inClass = false
			}
			continue
		}
		if ch == '[' {
			inClass = true
			continue
		}
		if ch == '(' && !(i+1 < len(pat) && pat[i+1] == '?') {
			n++
			if n == g.idx {
				pos = i
				break
			}
		}
	}
	if pos < 0 {
		return ""
	}
	var out []byte
	for i := pos - 1; i >= 0 && len(out) < 6; i-- {
		ch := pat[i]
		switch {
		case i >= 1 && pat[i-1] == '\\':
			out = append([]byte{ch}, out...)
			i--
		case ch == ':' && i >= 2 && pat[i-1] == '?' && pat[i-2] == '(':
			i -= 2
			continue
		case ch == '?' || ch == '(':
			continue
		case ch == ')' || ch == ']' || ch == '*' || ch == '+' || ch == '}' || ch == '|' || ch == '^':
			i = -1
		case ch == '\\':
			continue
		default:
			out = append([]byte{ch}, out...)
		}
	}
	return string(out)
}
