package main

import (
	"fmt"
	"go/constant"
	"go/token"
	"go/types"
	"os"
	"regexp/syntax"
	"sort"
	"strings"
	"time"

	"golang.org/x/tools/go/ssa"
)

// ---- C03: numbers order numerically; pre-release < release < post-release -------------------------

// marker spellings named by the property statement (compared case-insensitively)
var preMarkers = map[string]bool{"alpha": true, "a": true, "beta": true, "b": true, "pre": true, "rc": true, "c": true, "cr": true, "m": true, "milestone": true, "snapshot": true, "dev": true, "preview": true}
var postMarkers = map[string]bool{"p": true, "post": true, "pl": true, "patch": true, "sp": true, "r": true, "rev": true, "cvs": true, "svn": true, "git": true, "hg": true}

type ecoFields struct {
	e      *Eco
	st     *types.Struct
	prov   []*fieldProv
	main   *regexInfo  // the pattern that feeds most fields
	leadG  []int       // leading numeric capture groups of main, in order
	fieldG map[int]int // field index -> smallest group index of main feeding it (0: none)
}

func ecoFieldInfo(p *Prog, e *Eco) *ecoFields {
	if p.ecoFieldCache == nil {
		p.ecoFieldCache = map[string]*ecoFields{}
	}
	if ef, ok := p.ecoFieldCache[e.Name]; ok {
		return ef
	}
	st, _ := e.VerT.Underlying().(*types.Struct)
	ef := &ecoFields{e: e, st: st, fieldG: map[int]int{}}
	count := map[string]int{}
	infos := map[string]*regexInfo{}
	for i := 0; st != nil && i < st.NumFields(); i++ {
		fp := p.fieldProvOf(e.VerT, i, e.NewVer)
		ef.prov = append(ef.prov, fp)
		seen := map[string]bool{}
		for _, g := range fp.groups {
			if !seen[g.ri.Pattern] {
				seen[g.ri.Pattern] = true
				count[g.ri.Pattern]++
				infos[g.ri.Pattern] = g.ri
			}
		}
	}
	best := ""
	for pat, n := range count {
		if n > count[best] || n == count[best] && pat < best {
			best = pat
		}
	}
	if best != "" {
		ef.main = infos[best]
		for i, fp := range ef.prov {
			for _, g := range fp.groups {
				if g.ri.Pattern == best && (ef.fieldG[i] == 0 || g.idx < ef.fieldG[i]) {
					ef.fieldG[i] = g.idx
				}
			}
		}
		// leading numeric groups: skip literal prefixes, then digit (or digit-and-dot) groups
		started := false
		for k := 1; k <= ef.main.NumSub; k++ {
			g := provGroup{ef.main, k}
			if g.digitsOnly() || g.digitsDots() && minLenRe(findGroup(ef.main.Re, k)) >= 1 {
				ef.leadG = append(ef.leadG, k)
				started = true
				continue
			}
			if !started {
				if lang, fin := groupLanguage(ef.main.Re, k); fin {
					allLit := true
					for _, s := range lang {
						if strings.ContainsAny(s, "0123456789") {
							allLit = false
						}
					}
					if allLit {
						continue // v / release- prefix
					}
				}
			}
			break
		}
	}
	p.ecoFieldCache[e.Name] = ef
	return ef
}

func (ef *ecoFields) fieldOfGroup(k int) int {
	for i := range ef.prov {
		if ef.fieldG[i] == k {
			return i
		}
	}
	return -1
}

// plainPresets: worlds describing plain versions: kind flags false, optional pointers nil, slices non-nil
func (ef *ecoFields) plainPresets(ov map[string]override) map[string]override {
	zero, one := constant.MakeBool(false), constant.MakeBool(true)
	_ = one
	for i := 0; ef.st != nil && i < ef.st.NumFields(); i++ {
		f := ef.st.Field(i)
		k := "." + f.Name()
		if _, has := ov[k]; has {
			continue
		}
		switch f.Type().Underlying().(type) {
		case *types.Basic:
			if isBoolType(f.Type()) {
				ov[k] = override{xConst: &zero, yConst: &zero, boolVal: true}
			}
		case *types.Pointer:
			ov[k+"?nil"] = override{nilVal: 1}
		case *types.Slice:
			ov[k+"?nil"] = override{nilVal: 2}
		}
	}
	return ov
}

func numericVia(fp *fieldProv) bool {
	for _, v := range []string{"Atoi", "ParseInt", "ParseUint", "SetString", "Int64", "ParseFloat"} {
		if fp.via[v] {
			return true
		}
	}
	return false
}

func ruleNumeric(p *Prog, r *Report) {
	for _, e := range p.Ecos {
		ef := ecoFieldInfo(p, e)
		if ef.main == nil || len(ef.leadG) == 0 {
			if !ruleNumericSeq(p, r, e, ef) {
				r.Note("%s: no capture-group fed numeric components (tokenising / scanning parser): numeric order is the subject of R-NATCMP / R-SEGNUM or of the rules taken over from C10-C14, not of R-CHAIN on fields", e.Name)
			}
			continue
		}
		c := newAECtx(p)
		c.stageMode = false
		var keys []string
		for _, k := range ef.leadG {
			fi := ef.fieldOfGroup(k)
			if fi < 0 && e.Name == "composer" && k == 5 {
				r.Ok("R-NUMPARSE", fmt.Sprintf("%s: numeric group %d stored", e.Name, k), p.FnPos(e.NewVer), "named exception: the pattern tolerates a fifth component, outside composer's documented four-component maximum (scoped out by the property)")
				continue
			}
			if fi < 0 {
				r.Bad("R-NUMPARSE", fmt.Sprintf("%s: numeric group %d stored", e.Name, k), p.FnPos(e.NewVer), fmt.Sprintf("capture group %d of the version pattern is a numeric component but feeds no field of Version: the component cannot take part in comparison", k))
				continue
			}
			f := ef.st.Field(fi)
			fp := ef.prov[fi]
			key := fmt.Sprintf("%s: component %s parsed as a number", e.Name, f.Name())
			g := provGroup{ef.main, k}
			switch {
			case isIntType(f.Type()) && g.digitsOnly() && numericVia(fp):
				r.Ok("R-NUMPARSE", key, p.FnPos(e.NewVer), fmt.Sprintf("int field fed by strconv/big parsing of digits-only group %d", k))
				keys = append(keys, "."+f.Name())
			case isSliceOfInt(f.Type()) && numericVia(fp):
				r.Ok("R-NUMPARSE", key, p.FnPos(e.NewVer), fmt.Sprintf("[]int field fed by numeric parsing of the pieces of group %d", k))
				keys = append(keys, "*(."+f.Name()+")")
			case isIntType(f.Type()) || isSliceOfInt(f.Type()):
				r.Bad("R-NUMPARSE", key, p.FnPos(e.NewVer), "numeric component is not produced by strconv/big parsing of its digits")
			default:
				r.Note("%s: component %s (group %d) is kept as %s: its numeric order is decided by the comparator, not by R-CHAIN", e.Name, f.Name(), k, f.Type().String())
				keys = append(keys, "")
			}
		}
		// a field that Compare reads and that the constructor computes from several numeric components (a
		// packed sort key, a checksum) is a second encoding of the component order: the queries below tie
		// or free it independently of the components, so they say nothing about versions for which the
		// two encodings disagree
		{
			lead := map[int]bool{}
			for _, k := range ef.leadG {
				lead[k] = true
			}
			readByCompare := map[int]bool{}
			for _, fn := range p.RepoReachable(e.Compare) {
				for _, b := range fn.Blocks {
					for _, ins := range b.Instrs {
						if fa, ok := ins.(*ssa.FieldAddr); ok {
							if pt, ok := fa.X.Type().Underlying().(*types.Pointer); ok && types.Identical(pt.Elem(), e.VerT) {
								readByCompare[fa.Field] = true
							}
						}
					}
				}
			}
			for i := 0; i < ef.st.NumFields(); i++ {
				if !readByCompare[i] {
					continue
				}
				if _, ok := ef.st.Field(i).Type().Underlying().(*types.Basic); !ok {
					continue
				}
				gs := map[int]bool{}
				for _, g := range ef.prov[i].groups {
					if g.ri.Pattern == ef.main.Pattern && lead[g.idx] {
						gs[g.idx] = true
					}
				}
				if os.Getenv("GVDEBUG") == "prov" {
					fmt.Fprintf(os.Stderr, "prov %s.%s: groups=%v via=%v unknown=%v\n", e.Name, ef.st.Field(i).Name(), len(ef.prov[i].groups), ef.prov[i].via, ef.prov[i].unknown)
				}
				if len(gs) >= 2 {
					var gl []int
					for g := range gs {
						gl = append(gl, g)
					}
					sort.Ints(gl)
					r.Und("R-CHAIN", fmt.Sprintf("%s: field %s is a second encoding of the numeric components", e.Name, ef.st.Field(i).Name()), p.FnPos(e.Compare),
						fmt.Sprintf("Compare reads %s, which the constructor computes from the numeric capture groups %v together: whether the order it induces is the order of the components (for every magnitude) is arithmetic the evaluator does not model", ef.st.Field(i).Name(), gl))
				}
			}
		}
		// R-CHAIN: first differing numeric component decides, in positional order, with numeric orientation
		for i, ki := range keys {
			if ki == "" {
				continue
			}
			ov := ef.plainPresets(map[string]override{ki: {rel: relPtr(-1)}})
			qr := c.queryPair(e.Compare, c.tiedExcept(ov), []string{strings.Trim(ki, "*")})
			key := fmt.Sprintf("%s: component %s decides when earlier components tie", e.Name, strings.Trim(ki, "*()"))
			switch {
			case qr.oof != "":
				r.Und("R-CHAIN", key, p.FnPos(e.Compare), qr.describe())
			case qr.only(-1):
				r.Ok("R-CHAIN", key, p.FnPos(e.Compare), fmt.Sprintf("smaller component (all else equal) gives -1 in all %d abstract worlds", qr.leaves))
			default:
				r.Bad("R-CHAIN", key, p.FnPos(e.Compare), "x."+strings.Trim(ki, "*()")+" < y."+strings.Trim(ki, "*()")+" with everything else equal does not always give -1: "+qr.describe())
			}
			for j := i + 1; j < len(keys); j++ {
				kj := keys[j]
				if kj == "" {
					continue
				}
				ov2 := ef.plainPresets(map[string]override{ki: {rel: relPtr(-1)}, kj: {rel: relPtr(1)}})
				q2 := c.queryPair(e.Compare, c.tiedExcept(ov2), nil)
				key2 := fmt.Sprintf("%s: component %s outranks %s", e.Name, strings.Trim(ki, "*()"), strings.Trim(kj, "*()"))
				switch {
				case q2.oof != "":
					r.Und("R-CHAIN", key2, p.FnPos(e.Compare), q2.describe())
				case q2.only(-1):
					r.Ok("R-CHAIN", key2, p.FnPos(e.Compare), "the earlier component decides against a later one")
				default:
					r.Bad("R-CHAIN", key2, p.FnPos(e.Compare), "an earlier numeric component does not take priority over a later one: "+q2.describe())
				}
			}
		}
		// element orientation of []int components
		for _, ki := range keys {
			if !strings.HasPrefix(ki, "*(") {
				continue
			}
			seq := strings.TrimSuffix(strings.TrimPrefix(ki, "*("), ")")
			res := c.queryElem(e.Compare, seq)
			key := fmt.Sprintf("%s: elements of %s order numerically", e.Name, seq)
			switch {
			case res.oof != "":
				r.Und("R-CHAIN", key, p.FnPos(e.Compare), res.oof)
			case res.ok:
				r.Ok("R-CHAIN", key, p.FnPos(e.Compare), fmt.Sprintf("at a position where both are present a smaller element gives -1 (%d abstract worlds)", res.leaves))
			default:
				r.Bad("R-CHAIN", key, p.FnPos(e.Compare), "a smaller element does not give -1 at its position: "+res.detail)
			}
		}
	}
	r.Floor("R-NUMPARSE", 35)
	r.Floor("R-CHAIN", 60)
}

// ruleNumericSeq: an ecosystem whose constructor splits the text itself (no capture groups) and keeps
// the components as a []int field: the field must be fed by numeric parsing of the pieces, and Compare
// must order two versions by the first position at which the elements differ, smaller element first.
func ruleNumericSeq(p *Prog, r *Report, e *Eco, ef *ecoFields) bool {
	found := false
	for i := 0; ef.st != nil && i < ef.st.NumFields(); i++ {
		f := ef.st.Field(i)
		if !isSliceOfInt(f.Type()) {
			continue
		}
		found = true
		fp := ef.prov[i]
		key := fmt.Sprintf("%s: component %s parsed as a number", e.Name, f.Name())
		if !numericVia(fp) || !fp.via["elem"] {
			r.Bad("R-NUMPARSE", key, p.FnPos(e.NewVer), "the elements of the numeric component list are not produced by strconv/big parsing of the pieces of the text")
			continue
		}
		r.Ok("R-NUMPARSE", key, p.FnPos(e.NewVer), "[]int field whose elements are fed by numeric parsing of the pieces the constructor splits the text into")
		c := newAECtx(p)
		c.stageMode = false
		seq := "." + f.Name()
		res := c.queryElem(e.Compare, seq)
		k2 := fmt.Sprintf("%s: elements of %s order numerically", e.Name, seq)
		switch {
		case res.oof != "":
			r.Und("R-CHAIN", k2, p.FnPos(e.Compare), res.oof)
		case res.ok:
			r.Ok("R-CHAIN", k2, p.FnPos(e.Compare), fmt.Sprintf("at a position where both are present a smaller element gives -1 (%d abstract worlds)", res.leaves))
		default:
			r.Bad("R-CHAIN", k2, p.FnPos(e.Compare), "a smaller element does not give -1 at its position: "+res.detail)
		}
	}
	return found
}

func isSliceOfInt(t types.Type) bool {
	s, ok := t.Underlying().(*types.Slice)
	return ok && isIntType(s.Elem())
}

// ---- R-MARKER ------------------------------------------------------------------------------------------

// semverShaped: the pattern has a '-' pre-release group followed by a '+' build group
func semverShaped(ri *regexInfo) bool {
	dash := false
	for k := 1; k <= ri.NumSub; k++ {
		t := provGroup{ri, k}.precedingText()
		if strings.HasSuffix(t, "-") {
			dash = true
		}
		if dash && strings.HasSuffix(t, "+") {
			return true
		}
	}
	return false
}

func classify(s string) int {
	l := strings.ToLower(s)
	switch {
	case preMarkers[l]:
		return -1
	case postMarkers[l]:
		return 1
	}
	return 0
}

func ruleMarker(p *Prog, r *Report) {
	n := 0
	for _, e := range p.Ecos {
		ef := ecoFieldInfo(p, e)
		if ef.st == nil {
			continue
		}
		c := newAECtx(p)
		c.stageMode = false
		// seed pools/terms with a plain analysis pass so that rank-map keys are in the pools
		c.queryPair(e.Compare, nil, nil)
		laterFree := func(fi int) map[string]override {
			ov := map[string]override{}
			gi := ef.fieldG[fi]
			for j := 0; j < ef.st.NumFields(); j++ {
				if j == fi {
					continue
				}
				gj := ef.fieldG[j]
				if gi > 0 && gj > gi {
					kj := "." + ef.st.Field(j).Name()
					// the statement adds one marker to a plain version: the other optional parts are
					// absent on both sides (the value the constructor stores for an empty group);
					// the marker's own number (next group) and parts with no absent encoding stay free
					if gj != gi+1 {
						if isStringType(ef.st.Field(j).Type()) && poolIndex(c.pools[kj], constant.MakeString("")) >= 0 {
							empty := constant.MakeString("")
							ov[kj] = override{xConst: &empty, yConst: &empty}
							ov["~"+kj] = override{free: true}
							continue
						}
						if isIntType(ef.st.Field(j).Type()) {
							var sent *constant.Value
							for _, cv := range ef.prov[j].consts {
								if cv.Kind() == constant.Int && constant.Sign(cv) < 0 && poolIndex(c.pools[kj], cv) >= 0 {
									v := cv
									sent = &v
								}
							}
							if sent != nil {
								ov[kj] = override{xConst: sent, yConst: sent}
								continue
							}
						}
					}
					ov[kj] = override{free: true}
					ov["len("+kj+")"] = override{free: true}
					ov["*("+kj+")"] = override{free: true}
				}
			}
			return ef.plainPresets(ov)
		}
		for fi := 0; fi < ef.st.NumFields(); fi++ {
			f := ef.st.Field(fi)
			fp := ef.prov[fi]
			tkey := "." + f.Name()
			switch {
			case isStringType(f.Type()):
				ti := c.terms[tkey]
				if ti == nil {
					continue // not read by Compare
				}
				pool := c.pools[tkey]
				if poolIndex(pool, constant.MakeString("")) < 0 {
					continue
				}
				// constants: pool and closed construction-site domain
				cands := map[string]bool{}
				for _, cv := range pool {
					if cv.Kind() == constant.String {
						cands[constant.StringVal(cv)] = true
					}
				}
				if dom := c.fieldDomain(fieldOrigin{t: e.VerT, f: fi}); dom != nil && dom.closed {
					for _, s := range dom.allowed {
						cands[s] = true
					}
				}
				var names []string
				for s := range cands {
					names = append(names, s)
				}
				sort.Strings(names)
				empty := constant.MakeString("")
				for _, s := range names {
					want := classify(s)
					if s == "" || want == 0 {
						continue
					}
					cv := constant.MakeString(s)
					if poolIndex(c.pools[tkey], cv) < 0 {
						c.pools[tkey] = poolInsert(c.pools[tkey], cv)
					}
					ov := laterFree(fi)
					ov[tkey] = override{xConst: &cv, yConst: &empty}
					ov["*("+tkey+")"] = override{free: true}
					ov["ToLower("+tkey+")"] = override{free: true}
					qr := c.queryPair(e.Compare, c.tiedExcept(ov), nil)
					n++
					key := fmt.Sprintf("%s: marker %s=%q against none", e.Name, f.Name(), s)
					what := map[int]string{-1: "pre-release marker must make the version older (-1)", 1: "post-release marker must make the version newer (+1)"}[want]
					switch {
					case qr.oof != "":
						r.Und("R-MARKER", key, p.FnPos(e.Compare), qr.describe())
					case qr.only(int64(want)):
						r.Ok("R-MARKER", key, p.FnPos(e.Compare), fmt.Sprintf("%s: holds in all %d abstract worlds", what, qr.leaves))
					default:
						r.Bad("R-MARKER", key, p.FnPos(e.Compare), what+": "+qr.describe())
					}
				}
				// open-domain pre-release text after '-': non-empty is older than empty
				if len(fp.groups) > 0 {
					g := fp.groups[0]
					if dom := c.fieldDomain(fieldOrigin{t: e.VerT, f: fi}); (dom == nil || !dom.closed) && strings.HasSuffix(g.precedingText(), "-") && len(names) <= 2 && semverShaped(g.ri) {
						ov := laterFree(fi)
						ov[tkey] = override{xGap: true, yConst: &empty}
						ov["*("+tkey+")"] = override{free: true}
						ov["*("+tkey+",\".\"))"] = override{free: true}
						qr := c.queryPair(e.Compare, c.tiedExcept(ov), nil)
						n++
						key := fmt.Sprintf("%s: non-empty %s against none", e.Name, f.Name())
						switch {
						case qr.oof != "":
							r.Und("R-MARKER", key, p.FnPos(e.Compare), qr.describe())
						case qr.only(-1):
							r.Ok("R-MARKER", key, p.FnPos(e.Compare), fmt.Sprintf("a '-' pre-release makes the version older in all %d abstract worlds", qr.leaves))
						default:
							r.Bad("R-MARKER", key, p.FnPos(e.Compare), "a version with a '-' pre-release is not always older than the same version without: "+qr.describe())
						}
					}
				}
			case isIntType(f.Type()):
				// sentinel-coded marker number: the digits group follows a closed alternation of marker words
				if len(fp.groups) != 1 || fp.groups[0].idx < 2 {
					continue
				}
				g := fp.groups[0]
				lang, fin := groupLanguage(g.ri.Re, g.idx-1)
				if !fin || len(lang) == 0 {
					continue
				}
				want := 0
				okc := true
				for _, w := range lang {
					cw := classify(w)
					if cw == 0 || want != 0 && cw != want {
						okc = false
					}
					want = cw
				}
				if !okc {
					continue
				}
				// sentinel: the constant stored when the marker is absent
				var sentinel *constant.Value
				for _, cv := range fp.consts {
					if cv.Kind() == constant.Int {
						v := cv
						if poolIndex(c.pools[tkey], v) >= 0 {
							sentinel = &v
						}
					}
				}
				if sentinel == nil || c.terms[tkey] == nil {
					continue
				}
				// the marker word itself is usually not stored: only fields after the number are free
				ov := laterFree(fi)
				ov[tkey] = override{xGap: true, yConst: sentinel}
				qr := c.queryPair(e.Compare, c.tiedExcept(ov), nil)
				n++
				key := fmt.Sprintf("%s: marker number %s present against absent", e.Name, f.Name())
				what := map[int]string{-1: "a pre-release/dev marker must make the version older (-1)", 1: "a post-release marker must make the version newer (+1)"}[want]
				switch {
				case qr.oof != "":
					r.Und("R-MARKER", key, p.FnPos(e.Compare), qr.describe())
				case qr.only(int64(want)):
					r.Ok("R-MARKER", key, p.FnPos(e.Compare), fmt.Sprintf("%s: holds in all %d abstract worlds (marker words %v)", what, qr.leaves, lang))
				default:
					r.Bad("R-MARKER", key, p.FnPos(e.Compare), fmt.Sprintf("%s (marker words %v): %s", what, lang, qr.describe()))
				}
			case isStringSlice(f.Type()):
				// split pre-release identifiers after '-': non-empty list is older than empty
				if len(fp.groups) == 0 || !strings.HasSuffix(fp.groups[0].precedingText(), "-") || !semverShaped(fp.groups[0].ri) {
					continue
				}
				lk := "len(" + tkey + ")"
				if c.terms[lk] == nil || poolIndex(c.pools[lk], constant.MakeInt64(0)) < 0 {
					continue
				}
				zero := constant.MakeInt64(0)
				ov := laterFree(fi)
				ov[lk] = override{xGap: true, yConst: &zero}
				ov["*("+tkey+")"] = override{free: true}
				ov["present:"+tkey] = override{free: true}
				qr := c.queryPair(e.Compare, c.tiedExcept(ov), nil)
				n++
				key := fmt.Sprintf("%s: non-empty %s against none", e.Name, f.Name())
				switch {
				case qr.oof != "":
					r.Und("R-MARKER", key, p.FnPos(e.Compare), qr.describe())
				case qr.only(-1):
					r.Ok("R-MARKER", key, p.FnPos(e.Compare), fmt.Sprintf("a '-' pre-release makes the version older in all %d abstract worlds", qr.leaves))
				default:
					r.Bad("R-MARKER", key, p.FnPos(e.Compare), "a version with pre-release identifiers is not always older than the same version without: "+qr.describe())
				}
			}
		}
	}
	r.Floor("R-MARKER", 25)
}

func init() {
	register("C03", "Numeric order of components and direction of release markers, read off each Compare's abstract decision table: (R-NUMPARSE) every leading numeric capture group of the version pattern feeds an int/[]int field through strconv/big parsing; (R-CHAIN) with all other terms equal a smaller component gives -1, earlier components outrank later ones, and elements of []int components order numerically at their position; (R-MARKER) for every marker spelling the statement names that the ecosystem's pattern/rank table knows (pre: alpha a beta b pre rc c cr m milestone snapshot dev; post: p post pl patch sp r rev cvs svn git hg) a version with the marker against the same version without it gives -1 / +1, later fields free; '-' pre-release text (SemVer family) makes a version older. (R-ACCEPT-LANG) plain dotted numerics are in the language of the constructor's whole-input patterns (regular-language inclusion on the product automaton); for debian, rpm, alpine, gem and maven the scanner, tokenizer and position-table obligations of C10-C14 that concern numeric components and release markers are taken over. Token-stream markers of alpm/conan/cran and debian/rpm '~' are not decided.", ruleNumeric, ruleMarker)
}

// ---- R-KINDGUARD: a plain dotted-numeric version is never classified as another kind --------------
//
// Compare partitions versions by boolean kind flags (github isDateBased, composer isDev) before it
// looks at the numeric components. Setting such a flag must be guarded by a pattern that cannot match
// plain dotted-numeric text; the one documented exception (C03) is github's date shape, whose first
// component has exactly four digits.

// mustContainOutside: every string matched by re contains a character outside allowed
func mustContainOutside(re *syntax.Regexp, allowed string) bool {
	switch re.Op {
	case syntax.OpLiteral:
		for _, r := range re.Rune {
			if !strings.ContainsRune(allowed, r) {
				return true
			}
		}
		return false
	case syntax.OpCharClass:
		if len(re.Rune) == 0 {
			return false
		}
		for i := 0; i+1 < len(re.Rune); i += 2 {
			for c := re.Rune[i]; c <= re.Rune[i+1] && c-re.Rune[i] < 256; c++ {
				if strings.ContainsRune(allowed, c) {
					return false
				}
			}
			if re.Rune[i+1]-re.Rune[i] >= 256 {
				return false
			}
		}
		return true
	case syntax.OpCapture, syntax.OpPlus:
		return mustContainOutside(re.Sub[0], allowed)
	case syntax.OpRepeat:
		return re.Min >= 1 && mustContainOutside(re.Sub[0], allowed)
	case syntax.OpConcat:
		for _, s := range re.Sub {
			if mustContainOutside(s, allowed) {
				return true
			}
		}
		return false
	case syntax.OpAlternate:
		for _, s := range re.Sub {
			if !mustContainOutside(s, allowed) {
				return false
			}
		}
		return len(re.Sub) > 0
	}
	return false
}

// firstDigitGroupWidth: min and max length of the first digits-only capture group
func firstDigitGroupWidth(ri *regexInfo) (int, int, bool) {
	for k := 1; k <= ri.NumSub; k++ {
		g := provGroup{ri, k}
		if !g.digitsOnly() {
			continue
		}
		sub := findGroup(ri.Re, k)
		mn := minLenRe(sub)
		mx := maxLenRe(sub)
		return mn, mx, true
	}
	return 0, 0, false
}

func maxLenRe(re *syntax.Regexp) int {
	switch re.Op {
	case syntax.OpLiteral:
		return len(string(re.Rune))
	case syntax.OpCharClass, syntax.OpAnyChar, syntax.OpAnyCharNotNL:
		return 1
	case syntax.OpCapture:
		return maxLenRe(re.Sub[0])
	case syntax.OpConcat:
		n := 0
		for _, s := range re.Sub {
			m := maxLenRe(s)
			if m < 0 {
				return -1
			}
			n += m
		}
		return n
	case syntax.OpAlternate:
		n := 0
		for _, s := range re.Sub {
			m := maxLenRe(s)
			if m < 0 {
				return -1
			}
			if m > n {
				n = m
			}
		}
		return n
	case syntax.OpQuest:
		return maxLenRe(re.Sub[0])
	case syntax.OpRepeat:
		if re.Max < 0 {
			return -1
		}
		m := maxLenRe(re.Sub[0])
		if m < 0 {
			return -1
		}
		return re.Max * m
	case syntax.OpStar, syntax.OpPlus:
		return -1
	}
	return 0
}

func ruleKindGuard(p *Prog, r *Report) {
	for _, e := range p.Ecos {
		st, _ := e.VerT.Underlying().(*types.Struct)
		for fi := 0; st != nil && fi < st.NumFields(); fi++ {
			if !isBoolType(st.Field(fi).Type()) {
				continue
			}
			// stores of a non-false value to the flag in the constructor's call tree
			for _, fn := range p.RepoReachable(e.NewVer) {
				for _, b := range fn.Blocks {
					for _, ins := range b.Instrs {
						s, ok := ins.(*ssa.Store)
						if !ok {
							continue
						}
						fa, ok := s.Addr.(*ssa.FieldAddr)
						if !ok || fa.Field != fi {
							continue
						}
						pt, ok := fa.X.Type().Underlying().(*types.Pointer)
						if !ok || !types.Identical(pt.Elem(), e.VerT) {
							continue
						}
						c, isC := s.Val.(*ssa.Const)
						if isC && c.Value != nil && c.Value.Kind() == constant.Bool && !constant.BoolVal(c.Value) {
							continue
						}
						if !isC {
							continue // a computed flag (e.g. presence of a part), not a classification by pattern
						}
						key := fmt.Sprintf("%s: kind flag %s set only for non-plain shapes (%s)", e.Name, st.Field(fi).Name(), p.FnKey(fn))
						pats := p.guardPatterns(b, fn, 0)
						if len(pats) == 0 {
							r.Note("%s: flag %s is set at %s without a dominating regexp match: not decided by R-KINDGUARD", e.Name, st.Field(fi).Name(), p.Pos(s.Pos()))
							continue
						}
						bad := ""
						for _, ri := range pats {
							if ri == nil {
								bad += "a guarding match uses a pattern that could not be resolved; "
								continue
							}
							if mustContainOutside(ri.Re, "0123456789.vV") {
								continue
							}
							mn, mx, ok := firstDigitGroupWidth(ri)
							if e.Name == "github" && ok && mn == 4 && mx == 4 {
								continue // documented date shape: four-digit first component
							}
							bad += fmt.Sprintf("pattern %q can match a plain dotted-numeric version (no character outside digits and dots is required); ", ri.Pattern)
						}
						if bad == "" {
							r.Ok("R-KINDGUARD", key, p.Pos(s.Pos()), "every pattern guarding the flag requires a non-numeric character (or is the documented four-digit date shape)")
						} else {
							r.Bad("R-KINDGUARD", key, p.Pos(s.Pos()), bad+": such versions would no longer compare as integer tuples with their neighbours")
						}
					}
				}
			}
		}
	}
	r.Floor("R-KINDGUARD", 2)
}

// guardPatterns: patterns of FindStringSubmatch/MatchString calls whose success dominates block b,
// following the callers when the function is a helper. A nil entry stands for a dominating match
// whose pattern could not be resolved.
func (p *Prog) guardPatterns(b *ssa.BasicBlock, fn *ssa.Function, depth int) []*regexInfo {
	var out []*regexInfo
	add := func(rx ssa.Value) {
		ris := p.regexSetOf(rx)
		if len(ris) == 0 {
			out = append(out, nil)
		}
		out = append(out, ris...)
	}
	domEdges(b, func(cond ssa.Value, tv bool) bool {
		switch c := cond.(type) {
		case *ssa.BinOp:
			if !(c.Op == token.NEQ && tv || c.Op == token.EQL && !tv) {
				return false
			}
			var v ssa.Value
			if isNilConst(c.Y) {
				v = c.X
			} else if isNilConst(c.X) {
				v = c.Y
			}
			if call, ok := v.(*ssa.Call); ok {
				if f := call.Call.StaticCallee(); f != nil && extName(f) == "(*regexp.Regexp).FindStringSubmatch" {
					add(call.Call.Args[0])
				}
			}
		case *ssa.Call:
			if f := c.Call.StaticCallee(); f != nil && extName(f) == "(*regexp.Regexp).MatchString" && tv {
				add(c.Call.Args[0])
			}
		}
		return false
	})
	if len(out) == 0 && depth < 3 {
		if n := p.CG.Nodes[fn]; n != nil {
			for _, e := range n.In {
				if e.Site != nil && p.IsRepoFn(e.Caller.Func) {
					out = append(out, p.guardPatterns(e.Site.Block(), e.Caller.Func, depth+1)...)
				}
			}
		}
	}
	return out
}

// regexSetOf: the compiled patterns a *regexp.Regexp value can be: a package-level pattern, or an
// element of a local slice/array literal of such patterns (for _, p := range []*regexp.Regexp{a, b}).
func (p *Prog) regexSetOf(v ssa.Value) []*regexInfo {
	if ri := p.regexOf(v); ri != nil {
		if ri.Err != nil {
			return nil
		}
		return []*regexInfo{ri}
	}
	u, ok := v.(*ssa.UnOp)
	if !ok || u.Op != token.MUL {
		return nil
	}
	ia, ok := u.X.(*ssa.IndexAddr)
	if !ok {
		return nil
	}
	var base ssa.Value = ia.X
	if sl, ok := base.(*ssa.Slice); ok {
		base = sl.X
	}
	al, ok := base.(*ssa.Alloc)
	if !ok {
		return nil
	}
	var out []*regexInfo
	for _, ref := range *al.Referrers() {
		switch r := ref.(type) {
		case *ssa.IndexAddr:
			for _, rr := range *r.Referrers() {
				if st, ok := rr.(*ssa.Store); ok && st.Addr == r {
					ri := p.regexOf(st.Val)
					if ri == nil || ri.Err != nil {
						return nil
					}
					out = append(out, ri)
				}
			}
		case *ssa.Slice:
		default:
			return nil
		}
	}
	return out
}

func init() {
	register("C03", "", ruleKindGuard)
}

// ---- R-MARKER-PARSE: a pre-release marker leaves a trace in the parsed version ------------------------
//
// The constructor is evaluated abstractly with the submatch list of the version pattern as an abstract
// value (element k ranges over the language of capture group k). For every capture group that is an
// alternation of marker words, a successful world in which that group holds a pre-release marker must
// build a version whose constant part differs from every version built without any marker: otherwise
// Compare cannot tell them apart and the marker does not make the version older. This is what goes
// wrong when a marker spelling the pattern accepts misses the constructor's word table (case folding).

// markerWords: the literal alternatives of capture group k, case-folded (nil: not an alternation of words)
func markerWords(re *syntax.Regexp, k int) []string {
	g := findGroup(re, k)
	if g == nil {
		return nil
	}
	var out []string
	var walk func(r *syntax.Regexp) bool
	walk = func(r *syntax.Regexp) bool {
		switch r.Op {
		case syntax.OpCapture:
			return walk(r.Sub[0])
		case syntax.OpAlternate:
			for _, s := range r.Sub {
				if !walk(s) {
					return false
				}
			}
			return true
		case syntax.OpLiteral:
			out = append(out, strings.ToLower(string(r.Rune)))
			return true
		case syntax.OpConcat:
			// factored alternation such as a(?:lpha)? is expanded by the finite-language helper
			if lang, fin := reLanguage(r); fin {
				for _, w := range lang {
					out = append(out, strings.ToLower(w))
				}
				return true
			}
		case syntax.OpCharClass:
			if lang, fin := reLanguage(r); fin {
				for _, w := range lang {
					out = append(out, strings.ToLower(w))
				}
				return true
			}
		}
		return false
	}
	if !walk(g) {
		return nil
	}
	return out
}

func ruleMarkerParse(p *Prog, r *Report) {
	n := 0
	for _, e := range p.Ecos {
		ef := ecoFieldInfo(p, e)
		if ef.main == nil {
			continue
		}
		// marker groups of the main pattern
		type mg struct {
			k     int
			words []string
		}
		var groups []mg
		for k := 1; k <= ef.main.NumSub; k++ {
			ws := markerWords(ef.main.Re, k)
			pre := false
			for _, w := range ws {
				if classify(w) == -1 {
					pre = true
				}
			}
			if pre {
				groups = append(groups, mg{k, ws})
			}
		}
		if len(groups) == 0 {
			continue
		}
		key := fmt.Sprintf("%s: a pre-release marker changes the parsed version", e.Name)
		c := newAECtx(p)
		c.stageMode = false
		c.subModel = true
		c.budget = 40 * time.Second
		leaves, oof := c.tabulate(e.NewVer, paramArgs(e.NewVer))
		if oof != "" {
			r.Note("%s: constructor outside the evaluator's fragment (%s): accepted marker spellings are not decided by R-MARKER-PARSE", e.Name, oof)
			continue
		}
		n++
		// the submatch list of the main pattern
		listKey := ""
		for k, ri := range c.subOf {
			if ri == ef.main {
				listKey = k
			}
		}
		if listKey == "" {
			r.Note("%s: the version pattern's submatch list is not used by the constructor: R-MARKER-PARSE does not apply", e.Name)
			continue
		}
		sig := func(v any) string {
			s := renderAV(v)
			// group-derived text is not part of the constant signature
			for {
				i := strings.Index(s, "{")
				if i < 0 {
					break
				}
				j := strings.Index(s[i:], "}")
				if j < 0 {
					break
				}
				s = s[:i] + "*" + s[i+j+1:]
			}
			return s
		}
		plain := map[string]bool{}
		type mleaf struct {
			word, sig, desc string
			k               int
			gap             bool
		}
		var marked []mleaf
		for _, lf := range leaves {
			t, ok := lf.res.(avTuple)
			if !ok || len(t) != 2 {
				continue
			}
			if _, isNil := t[1].(avNil); !isNil {
				continue
			}
			nonEmpty := 0
			var one mleaf
			for _, g := range groups {
				gk := fmt.Sprintf("%s[%d]", listKey, g.k)
				v, has := lf.w.pos[posKey(gk, 0)]
				if !has {
					continue
				}
				if v%2 == 1 {
					w := constant.StringVal(c.pools[gk][v/2])
					if w == "" {
						continue
					}
					nonEmpty++
					one = mleaf{word: w, k: g.k}
				} else {
					nonEmpty++
					one = mleaf{word: "(a spelling outside the constructor's tests)", k: g.k, gap: true}
				}
			}
			s := sig(t[0])
			switch nonEmpty {
			case 0:
				plain[s] = true
			case 1:
				one.sig, one.desc = s, lf.w.describe(c.pools, c.terms)
				marked = append(marked, one)
			}
		}
		var bad []string
		checked := 0
		for _, m := range marked {
			if !m.gap && classify(strings.ToLower(m.word)) != -1 {
				continue // post-release and neutral words may parse like the plain version
			}
			checked++
			if plain[m.sig] {
				bad = append(bad, fmt.Sprintf("group %d = %s builds a version whose constant part equals that of a version without any marker (%s): the marker cannot make it older [%s]", m.k, m.word, m.sig, m.desc))
			}
		}
		switch {
		case len(bad) > 0:
			sort.Strings(bad)
			r.Bad("R-MARKER-PARSE", key, p.FnPos(e.NewVer), fmt.Sprintf("%d abstract worlds, e.g. %s", len(bad), bad[0]))
		case checked == 0 || len(plain) == 0:
			r.Note("%s: no abstract world of the constructor has exactly one pre-release marker group set (%d marked, %d plain): R-MARKER-PARSE decides nothing here", e.Name, len(marked), len(plain))
		default:
			r.Ok("R-MARKER-PARSE", key, p.FnPos(e.NewVer), fmt.Sprintf("%d abstract worlds of the constructor with one pre-release marker group set: each builds a version whose constant part differs from all %d marker-free ones (%d worlds in all)", checked, len(plain), len(leaves)))
		}
	}
	r.Floor("R-MARKER-PARSE", 1)
	_ = n
}

func init() {
	register("C03", "", ruleMarkerParse)
}
