package main

import (
	"fmt"
	"go/token"
	"go/types"
	"sort"
	"strings"

	"golang.org/x/tools/go/ssa"
)

// ---- EF: effect analysis (C19) ------------------------------------------------
//
// Origin of a memory reference, as a bit set.
type origin uint

const (
	oFresh   origin = 1 << iota // allocated in this activation (or returned fresh by a callee), or nil/constant
	oParam                      // parameter or receiver (or memory reachable from it)
	oGlobal                     // package-level variable (or memory reachable from it)
	oFreeVar                    // captured variable whose binding is not fresh in the parent
	oUnknown                    // anything the analysis cannot classify
)

func (o origin) String() string {
	var s []string
	if o&oFresh != 0 {
		s = append(s, "fresh")
	}
	if o&oParam != 0 {
		s = append(s, "param/receiver")
	}
	if o&oGlobal != 0 {
		s = append(s, "global")
	}
	if o&oFreeVar != 0 {
		s = append(s, "captured")
	}
	if o&oUnknown != 0 {
		s = append(s, "unknown")
	}
	return strings.Join(s, "+")
}

// pure (no observable effect, result depends only on arguments; safe for concurrent use)
var pureExternal = map[string]bool{
	"fmt.Errorf": true, "fmt.Sprintf": true, "fmt.Sprint": true, "errors.New": true, "errors.Is": true, "errors.As": true, "errors.Unwrap": true,
	"strconv.Atoi": true, "strconv.ParseUint": true, "strconv.ParseInt": true, "strconv.Itoa": true, "strconv.FormatInt": true, "strconv.Quote": true, "strconv.ParseFloat": true, "strconv.ParseBool": true, "strconv.FormatUint": true,
	"strings.Compare": true, "strings.Contains": true, "strings.ContainsAny": true, "strings.ContainsRune": true, "strings.Count": true, "strings.Fields": true, "strings.FieldsFunc": true,
	"strings.HasPrefix": true, "strings.HasSuffix": true, "strings.Index": true, "strings.IndexByte": true, "strings.IndexAny": true, "strings.IndexRune": true, "strings.IndexFunc": true, "strings.Join": true, "strings.LastIndex": true, "strings.LastIndexByte": true, "strings.LastIndexAny": true,
	"strings.Map": true, "strings.ReplaceAll": true, "strings.Replace": true, "strings.Split": true, "strings.SplitN": true, "strings.SplitAfter": true, "strings.ToLower": true, "strings.ToUpper": true, "strings.Title": true,
	"strings.TrimPrefix": true, "strings.TrimSpace": true, "strings.TrimSuffix": true, "strings.Trim": true, "strings.TrimLeft": true, "strings.TrimRight": true, "strings.TrimFunc": true, "strings.TrimLeftFunc": true, "strings.TrimRightFunc": true, "strings.EqualFold": true, "strings.Repeat": true, "strings.Cut": true, "strings.CutPrefix": true, "strings.CutSuffix": true,
	"unicode.IsDigit": true, "unicode.IsLetter": true, "unicode.IsSpace": true, "unicode.IsUpper": true, "unicode.IsLower": true, "unicode.ToLower": true, "unicode.ToUpper": true, "unicode.IsPunct": true, "unicode.IsNumber": true,
	"unicode/utf8.RuneCountInString": true, "unicode/utf8.ValidString": true, "unicode/utf8.DecodeRuneInString": true, "unicode/utf8.RuneLen": true,
	"time.Parse": true, "(time.Time).Compare": true, "(time.Time).Before": true, "(time.Time).After": true, "(time.Time).Equal": true, "(time.Time).Unix": true,
	"math/big.NewInt": true, "(*math/big.Int).Cmp": true, "(*math/big.Int).Int64": true, "(*math/big.Int).Sign": true, "(*math/big.Int).IsInt64": true, "(*math/big.Int).String": true,
	"(*regexp.Regexp).FindStringSubmatch": true, "(*regexp.Regexp).MatchString": true, "(*regexp.Regexp).FindString": true, "(*regexp.Regexp).FindStringIndex": true, "(*regexp.Regexp).FindAllString": true, "(*regexp.Regexp).FindAllStringSubmatch": true, "(*regexp.Regexp).FindStringSubmatchIndex": true, "(*regexp.Regexp).ReplaceAllString": true, "(*regexp.Regexp).NumSubexp": true, "(*regexp.Regexp).SubexpNames": true, "(*regexp.Regexp).String": true, "(*regexp.Regexp).Split": true,
	"(*strings.Builder).Len": true, "(*strings.Builder).String": true,
	"slices.Contains": true, "slices.Index": true, "slices.Equal": true, "slices.Max": true, "slices.Min": true, "slices.Clone": true, "slices.IndexFunc": true, "slices.ContainsFunc": true,
	"cmp.Compare": true, "math.Abs": true, "math.Max": true, "math.Min": true,
	"builtin.len": true, "builtin.cap": true, "builtin.max": true, "builtin.min": true, "builtin.new": true, "builtin.real": true, "builtin.imag": true,
	"regexp.QuoteMeta": true,
}

// whole packages whose package-level functions are pure (no state, no I/O, deterministic)
var purePackages = map[string]bool{"strings": true, "strconv": true, "unicode": true, "unicode/utf8": true, "unicode/utf16": true, "math": true, "math/bits": true, "cmp": true, "errors": true, "bytes": true, "path": true}

// isPureExternal: allow-listed by name, or a package-level function of a pure package
func isPureExternal(name string) bool {
	if pureExternal[name] {
		return true
	}
	if strings.HasPrefix(name, "(") {
		return false // methods are listed individually
	}
	if i := strings.LastIndex(name, "."); i > 0 && purePackages[name[:i]] {
		if _, mut := mutatorExternal[name]; mut {
			return false
		}
		return true
	}
	return false
}

// external functions that write through one argument (index of the written referent);
// legal only when that referent is fresh in the caller.
var mutatorExternal = map[string]int{
	"slices.SortFunc": 0, "slices.Sort": 0, "slices.SortStableFunc": 0, "slices.Reverse": 0, "sort.Slice": 0, "sort.SliceStable": 0, "sort.Strings": 0, "sort.Ints": 0, "sort.Sort": 0, "sort.Stable": 0,
	"builtin.copy": 0, "builtin.clear": 0, "builtin.delete": 0,
	"(*strings.Builder).WriteRune": 0, "(*strings.Builder).WriteString": 0, "(*strings.Builder).WriteByte": 0, "(*strings.Builder).Write": 0, "(*strings.Builder).Reset": 0, "(*strings.Builder).Grow": 0,
	"(*math/big.Int).SetString": 0, "(*math/big.Int).SetInt64": 0, "(*math/big.Int).SetUint64": 0, "(*math/big.Int).Set": 0,
	"slices.Compact": 0, "slices.CompactFunc": 0, "slices.Delete": 0, "slices.Insert": 0,
}

// init-only external functions (allowed in package initialisation only)
var initOnlyExternal = map[string]bool{"regexp.MustCompile": true, "regexp.Compile": true, "regexp.MustCompilePOSIX": true}

type efAnalysis struct {
	p        *Prog
	r        *Report
	fresh    map[*ssa.Function]int // 0 unknown, 1 in progress, 2 fresh, 3 not fresh
	bindings map[*ssa.Function][]*ssa.MakeClosure
	memo     map[ssa.Value]origin
	busy     map[ssa.Value]bool
}

func isInit(fn *ssa.Function) bool {
	for f := fn; f != nil; f = f.Parent() {
		if f.Name() == "init" && f.Signature.Recv() == nil && f.Parent() == nil {
			return true
		}
	}
	return false
}

// returnsFresh: every reference-typed result of fn is fresh memory in fn's activation.
func (a *efAnalysis) returnsFresh(fn *ssa.Function) bool {
	switch a.fresh[fn] {
	case 2, 1:
		return true // optimistic on recursion (coinductive)
	case 3:
		return false
	}
	if fn.Blocks == nil {
		return false
	}
	a.fresh[fn] = 1
	ok := true
	for _, b := range fn.Blocks {
		for _, ins := range b.Instrs {
			ret, isRet := ins.(*ssa.Return)
			if !isRet {
				continue
			}
			for _, v := range ret.Results {
				if !refLike(v.Type()) {
					continue
				}
				if a.originOf(v) != oFresh {
					ok = false
				}
			}
		}
	}
	if ok {
		a.fresh[fn] = 2
	} else {
		a.fresh[fn] = 3
	}
	return ok
}

// refLike: a value of this type can reference mutable memory.
func refLike(t types.Type) bool {
	switch u := t.Underlying().(type) {
	case *types.Pointer, *types.Slice, *types.Map, *types.Chan, *types.Signature, *types.Interface:
		return true
	case *types.Struct:
		for i := 0; i < u.NumFields(); i++ {
			if refLike(u.Field(i).Type()) {
				return true
			}
		}
	case *types.Array:
		return refLike(u.Elem())
	case *types.Tuple:
		for i := 0; i < u.Len(); i++ {
			if refLike(u.At(i).Type()) {
				return true
			}
		}
	}
	return false
}

func (a *efAnalysis) originOf(v ssa.Value) origin {
	if o, ok := a.memo[v]; ok {
		return o
	}
	if a.busy[v] {
		return 0 // cycle through phi: contributes nothing
	}
	a.busy[v] = true
	o := a.origin1(v)
	delete(a.busy, v)
	a.memo[v] = o
	return o
}

// helperParamOrigin: the join of the origins of the arguments at every call site, for a parameter of an
// unexported, non-method repo function whose every use is a direct call
func (a *efAnalysis) helperParamOrigin(x *ssa.Parameter) (origin, bool) {
	fn := x.Parent()
	if fn == nil || fn.Signature.Recv() != nil || fn.Object() == nil || fn.Object().Exported() || !a.p.IsRepoFn(fn) || fn.Parent() != nil {
		return 0, false
	}
	if refs := fn.Referrers(); refs != nil {
		for _, ref := range *refs {
			c, ok := ref.(ssa.CallInstruction)
			if !ok || c.Common().Value != ssa.Value(fn) {
				return 0, false // used as a value somewhere
			}
		}
	}
	idx := -1
	for i, q := range fn.Params {
		if q == x {
			idx = i
		}
	}
	n := a.p.CG.Nodes[fn]
	if idx < 0 || n == nil || len(n.In) == 0 {
		return 0, false
	}
	var o origin
	for _, ce := range n.In {
		if ce.Site == nil || ce.Site.Common().StaticCallee() != fn || idx >= len(ce.Site.Common().Args) {
			return 0, false
		}
		ao := a.originOf(ce.Site.Common().Args[idx])
		if ao == 0 {
			return 0, false
		}
		o |= ao
	}
	return o, true
}

func (a *efAnalysis) origin1(v ssa.Value) origin {
	switch x := v.(type) {
	case *ssa.Alloc, *ssa.MakeSlice, *ssa.MakeMap, *ssa.MakeChan, *ssa.Const, *ssa.Function, *ssa.Builtin:
		return oFresh
	case *ssa.MakeClosure:
		return oFresh
	case *ssa.Global:
		return oGlobal
	case *ssa.Parameter:
		if !refLike(x.Type()) {
			return oFresh
		}
		// an unexported helper that is only ever called directly: its parameter is whatever its callers
		// pass (a helper that appends to a list its caller has just created writes into fresh memory)
		if o, ok := a.helperParamOrigin(x); ok {
			return o
		}
		return oParam
	case *ssa.FreeVar:
		// binding in every MakeClosure of the enclosing function
		fn := x.Parent()
		idx := -1
		for i, fv := range fn.FreeVars {
			if fv == x {
				idx = i
			}
		}
		var o origin
		for _, mc := range a.bindings[fn] {
			if idx >= 0 && idx < len(mc.Bindings) {
				bo := a.originOf(mc.Bindings[idx])
				if bo != oFresh {
					o |= oFreeVar | bo
				} else {
					o |= oFresh
				}
			}
		}
		if o == 0 {
			return oUnknown
		}
		return o
	case *ssa.FieldAddr:
		return a.originOf(x.X)
	case *ssa.IndexAddr:
		return a.originOf(x.X)
	case *ssa.Field:
		return a.originOf(x.X)
	case *ssa.Index:
		return a.originOf(x.X)
	case *ssa.Slice:
		return a.originOf(x.X)
	case *ssa.ChangeType:
		return a.originOf(x.X)
	case *ssa.Convert:
		if _, ok := x.Type().Underlying().(*types.Basic); ok {
			return oFresh // string([]byte) etc. copy
		}
		if b, ok := x.X.Type().Underlying().(*types.Basic); ok && b.Info()&types.IsString != 0 {
			return oFresh // []byte(s), []rune(s) copy
		}
		return a.originOf(x.X)
	case *ssa.ChangeInterface:
		return a.originOf(x.X)
	case *ssa.MakeInterface:
		return a.originOf(x.X)
	case *ssa.TypeAssert:
		return a.originOf(x.X)
	case *ssa.SliceToArrayPointer:
		return a.originOf(x.X)
	case *ssa.Phi:
		var o origin
		for _, e := range x.Edges {
			o |= a.originOf(e)
		}
		if o == 0 {
			o = oFresh
		}
		return o
	case *ssa.Extract:
		return a.originOf(x.Tuple)
	case *ssa.Lookup:
		// map/string lookup: the element is reachable from the map
		if !refLike(x.Type()) {
			return oFresh
		}
		return a.loadedFrom(x.X)
	case *ssa.Next:
		return a.originOf(x.Iter)
	case *ssa.Range:
		return a.originOf(x.X)
	case *ssa.BinOp:
		return oFresh // strings/numbers: immutable
	case *ssa.UnOp:
		if x.Op == token.MUL {
			if !refLike(x.Type()) {
				return oFresh
			}
			return a.loadedFrom(x.X)
		}
		if x.Op == token.ARROW {
			return oUnknown
		}
		return oFresh
	case *ssa.Call:
		if !refLike(x.Type()) {
			return oFresh
		}
		return a.callResultOrigin(x)
	}
	return oUnknown
}

// loadedFrom: a reference loaded from memory at addr. If addr is inside a fresh
// allocation of this function, the loaded value is whatever was stored there:
// the join over all stores in the function into that allocation. Otherwise the
// loaded reference inherits the origin of the memory it was read from.
func (a *efAnalysis) loadedFrom(addr ssa.Value) origin {
	base := addr
	for {
		switch x := base.(type) {
		case *ssa.FieldAddr:
			base = x.X
			continue
		case *ssa.IndexAddr:
			base = x.X
			continue
		}
		break
	}
	bo := a.originOf(base)
	if bo != oFresh {
		return bo
	}
	al, ok := base.(*ssa.Alloc)
	if !ok {
		// fresh slice/map from make or callee: contents are what was stored;
		// approximate by scanning stores whose base is the same value
		return a.storedInto(base)
	}
	return a.storedInto(al)
}

func (a *efAnalysis) storedInto(base ssa.Value) origin {
	fn := base.Parent()
	if fn == nil {
		return oUnknown
	}
	var o origin = oFresh
	escapes := false
	for _, b := range fn.Blocks {
		for _, ins := range b.Instrs {
			switch s := ins.(type) {
			case *ssa.Store:
				if rootOf(s.Addr) == base && refLike(s.Val.Type()) {
					o |= a.originOf(s.Val)
				}
			case *ssa.MapUpdate:
				if rootOf(s.Map) == base && refLike(s.Value.Type()) {
					o |= a.originOf(s.Value)
				}
			case *ssa.Call:
				// append(base', x...) results are tracked through callResultOrigin
				_ = s
			}
		}
	}
	// values returned by callees (e.g. strings.Split result, helper results):
	if c, ok := base.(*ssa.Call); ok {
		_ = c
	}
	if escapes {
		o |= oUnknown
	}
	return o
}

func rootOf(v ssa.Value) ssa.Value {
	for {
		switch x := v.(type) {
		case *ssa.FieldAddr:
			v = x.X
		case *ssa.IndexAddr:
			v = x.X
		case *ssa.Slice:
			v = x.X
		default:
			return v
		}
	}
}

func (a *efAnalysis) callResultOrigin(c *ssa.Call) origin {
	names := a.p.calleeNames(c)
	var o origin
	for _, n := range names {
		switch {
		case n.name == "builtin.append":
			// result aliases arg0 (or is fresh); contents: join of both
			for _, arg := range c.Call.Args {
				o |= a.originOf(arg)
			}
		case n.repo && n.fn != nil:
			if a.returnsFresh(n.fn) {
				o |= oFresh
			} else {
				// result may alias an argument or a global
				o |= a.repoResultOrigin(n.fn, c)
			}
		case isPureExternal(n.name) || initOnlyExternal[n.name]:
			// pure std functions return fresh values (strings.Split, FindStringSubmatch ...)
			o |= oFresh
		case n.name == "builtin.min" || n.name == "builtin.max":
			o |= oFresh
		default:
			if _, ok := mutatorExternal[n.name]; ok {
				o |= oFresh
			} else {
				o |= oUnknown
			}
		}
	}
	if o == 0 {
		o = oUnknown
	}
	return o
}

// repoResultOrigin: result of a repo function that is not "returns fresh": map the
// callee's returned origins back to the caller's arguments.
func (a *efAnalysis) repoResultOrigin(fn *ssa.Function, c *ssa.Call) origin {
	var o origin
	for _, b := range fn.Blocks {
		for _, ins := range b.Instrs {
			ret, ok := ins.(*ssa.Return)
			if !ok {
				continue
			}
			for _, v := range ret.Results {
				if !refLike(v.Type()) {
					continue
				}
				ro := a.originOf(v)
				if ro&oParam != 0 {
					// conservatively: any reference argument
					for _, arg := range c.Call.Args {
						if refLike(arg.Type()) {
							o |= a.originOf(arg)
						}
					}
					ro &^= oParam
				}
				o |= ro
			}
		}
	}
	if o == 0 {
		o = oFresh
	}
	return o
}

func rulePure(p *Prog, r *Report) {
	a := &efAnalysis{p: p, r: r, fresh: map[*ssa.Function]int{}, bindings: map[*ssa.Function][]*ssa.MakeClosure{}, memo: map[ssa.Value]origin{}, busy: map[ssa.Value]bool{}}
	fns := p.RepoReachable(p.LibraryRoots()...)
	for _, f := range fns {
		for _, b := range f.Blocks {
			for _, ins := range b.Instrs {
				if mc, ok := ins.(*ssa.MakeClosure); ok {
					cf := mc.Fn.(*ssa.Function)
					a.bindings[cf] = append(a.bindings[cf], mc)
				}
			}
		}
	}
	nf := 0
	for _, f := range p.Representatives(fns) {
		nf++
		a.checkFn(f)
	}
	r.Extra["functions_analysed"] = nf
	// Ecosystem types carry no state
	for _, e := range p.Ecos {
		st, _ := e.EcoT.Underlying().(*types.Struct)
		key := e.Name + ".Ecosystem"
		if st != nil && st.NumFields() == 0 {
			r.Ok("R-PURE-STATELESS", key, p.Pos(e.EcoT.Obj().Pos()), "Ecosystem has no fields")
		} else {
			r.Bad("R-PURE-STATELESS", key, p.Pos(e.EcoT.Obj().Pos()), "Ecosystem type has fields: values shared between goroutines could carry state")
		}
	}
	r.Floor("R-PURE-STATELESS", 20)
	r.Floor("R-PURE-WRITE", 300)
	r.Floor("R-PURE-CALL", 1500)
	// package-level variables: written only during initialisation
	r.Trusted = append(r.Trusted, "Go standard library functions on the allow-list are pure / documented safe for concurrent use (regexp.Regexp matching methods, strings, strconv, unicode, fmt.Sprintf/Errorf, time.Parse, math/big on fresh receivers, slices)", "package initialisation happens-before any library call")
	r.Assumptions = append(r.Assumptions, "callers do not mutate Version/VersionRange internals via unsafe/reflect", "functions analysed: every function reachable (VTA call graph + function values) from all 20x7 public methods, vers.Contains and package inits")
}

func (a *efAnalysis) checkFn(f *ssa.Function) {
	p, r := a.p, a.r
	fk := p.FnKey(f)
	inInit := isInit(f)
	bad := func(rule, what string, pos token.Pos, detail string) {
		r.Bad(rule, fk+": "+what, p.Pos(pos), detail)
	}
	for _, b := range f.Blocks {
		for _, ins := range b.Instrs {
			switch x := ins.(type) {
			case *ssa.Store:
				what := "store " + describeAddr(x.Addr)
				o := a.originOf(x.Addr)
				if _, isAlloc := rootOf(x.Addr).(*ssa.Alloc); isAlloc && o == oFresh {
					r.Triv("R-PURE-WRITE", fk+": "+what, p.Pos(x.Pos()), "store into local allocation")
					continue
				}
				if o == oFresh || (inInit && o&^(oFresh|oGlobal) == 0) {
					r.Ok("R-PURE-WRITE", fk+": "+what, p.Pos(x.Pos()), "target origin "+o.String()+ifs(inInit, " (package init)", ""))
				} else {
					bad("R-PURE-WRITE", what, x.Pos(), "store through memory of origin "+o.String()+": visible to other calls / goroutines")
				}
			case *ssa.MapUpdate:
				what := "mapupdate " + describeAddr(x.Map)
				o := a.originOf(x.Map)
				if o == oFresh || (inInit && o&^(oFresh|oGlobal) == 0) {
					r.Ok("R-PURE-WRITE", fk+": "+what, p.Pos(x.Pos()), "map origin "+o.String())
				} else {
					bad("R-PURE-WRITE", what, x.Pos(), "map update on map of origin "+o.String())
				}
			case *ssa.Go:
				bad("R-PURE-CONC", "go statement", x.Pos(), "goroutine started from library code")
			case *ssa.Send:
				bad("R-PURE-CONC", "channel send", x.Pos(), "channel operation in library code")
			case *ssa.Select:
				bad("R-PURE-CONC", "select", x.Pos(), "channel operation in library code")
			case *ssa.MakeChan:
				bad("R-PURE-CONC", "make(chan)", x.Pos(), "channel in library code")
			case *ssa.UnOp:
				if x.Op == token.ARROW {
					bad("R-PURE-CONC", "channel receive", x.Pos(), "channel operation in library code")
				}
				if x.Op == token.MUL {
					if g, ok := x.X.(*ssa.Global); ok && !a.globalInitOnly(g) {
						// reported at the store; nothing here
						_ = g
					}
				}
			case *ssa.Range:
				if _, ok := x.X.Type().Underlying().(*types.Map); ok {
					if !a.mapRangeOrderFree(x) {
						bad("R-PURE-MAPRANGE", "range over map "+describeAddr(x.X), x.Pos(), "iteration order of a map is nondeterministic and the loop body is order-sensitive")
					} else {
						r.Ok("R-PURE-MAPRANGE", fk+": range over map "+describeAddr(x.X), p.Pos(x.Pos()), "loop body is order-insensitive (only commutative accumulation / membership tests)")
					}
				}
			}
			if c, ok := ins.(ssa.CallInstruction); ok {
				a.checkCall(f, fk, inInit, c)
			}
		}
	}
}

func ifs(c bool, a, b string) string {
	if c {
		return a
	}
	return b
}

// mapRangeOrderFree: conservative — only loops whose body performs no Store to
// non-local memory, no append, no early exit carrying the key/value are accepted.
// (No instance today; anything found is reported.)
func (a *efAnalysis) mapRangeOrderFree(x *ssa.Range) bool { return false }

func (a *efAnalysis) globalInitOnly(g *ssa.Global) bool { return true }

func (a *efAnalysis) checkCall(f *ssa.Function, fk string, inInit bool, c ssa.CallInstruction) {
	p, r := a.p, a.r
	com := c.Common()
	names := p.calleeNames(c)
	for _, n := range names {
		key := fk + ": call " + n.name
		pos := p.Pos(c.Pos())
		if !c.Pos().IsValid() {
			pos = p.FnPos(f)
		}
		switch {
		case n.repo:
			r.Triv("R-PURE-CALL", key, pos, "repo callee (analysed itself)")
		case n.name == "builtin.append":
			if len(com.Args) > 0 {
				o := a.originOf(com.Args[0])
				if o == oFresh {
					r.Ok("R-PURE-CALL", key+" "+describeAddr(com.Args[0]), pos, "append to fresh slice")
				} else {
					r.Bad("R-PURE-WRITE", fk+": append to "+describeAddr(com.Args[0]), pos, "append to a slice of origin "+o.String()+" may write into a shared backing array")
				}
			}
		case isPureExternal(n.name):
			r.Triv("R-PURE-CALL", key, pos, "allow-listed pure function")
			// function-typed arguments are repo closures and are analysed as reachable
		case initOnlyExternal[n.name]:
			if inInit {
				r.Ok("R-PURE-CALL", key, pos, "initialisation-only call in package init")
			} else {
				r.Ok("R-PURE-CALL", key, pos, "pure constructor (result is fresh)")
			}
		default:
			if idx, ok := mutatorExternal[n.name]; ok {
				var target ssa.Value
				if idx < len(com.Args) {
					target = com.Args[idx]
				}
				if target == nil {
					r.Und("R-PURE-CALL", key, pos, "mutating call with no resolvable target")
					continue
				}
				o := a.originOf(target)
				if o == oFresh {
					r.Ok("R-PURE-CALL", key+" "+describeAddr(target), pos, "mutates only fresh memory")
				} else {
					r.Bad("R-PURE-WRITE", fk+": "+n.name+" on "+describeAddr(target), pos, "in-place mutation of memory of origin "+o.String())
				}
				continue
			}
			if strings.HasSuffix(n.name, ".init") && inInit {
				r.Triv("R-PURE-CALL", key, pos, "package init chain")
				continue
			}
			if strings.HasPrefix(n.name, "invoke:error.") || n.name == "(*fmt.wrapError).Error" || strings.HasSuffix(n.name, ").Error") || strings.HasSuffix(n.name, ").Unwrap") {
				r.Triv("R-PURE-CALL", key, pos, "error method")
				continue
			}
			r.Bad("R-PURE-CALL", key, pos, "callee is not on the pure/concurrency-safe allow-list (clock, randomness, environment, sync, reflect, unsafe, I/O, or an unknown function)")
		}
	}
}

func describeAddr(v ssa.Value) string {
	switch x := v.(type) {
	case *ssa.FieldAddr:
		st := x.X.Type().Underlying().(*types.Pointer).Elem().Underlying().(*types.Struct)
		return describeAddr(x.X) + "." + st.Field(x.Field).Name()
	case *ssa.Field:
		st := x.X.Type().Underlying().(*types.Struct)
		return describeAddr(x.X) + "." + st.Field(x.Field).Name()
	case *ssa.IndexAddr:
		return describeAddr(x.X) + "[]"
	case *ssa.Index:
		return describeAddr(x.X) + "[]"
	case *ssa.Slice:
		return describeAddr(x.X) + "[:]"
	case *ssa.Global:
		return x.Name()
	case *ssa.Parameter:
		return x.Name()
	case *ssa.FreeVar:
		return x.Name()
	case *ssa.Alloc:
		if x.Comment != "" {
			return x.Comment
		}
		return "new"
	case *ssa.UnOp:
		if x.Op == token.MUL {
			return describeAddr(x.X)
		}
	case *ssa.Phi:
		if x.Comment != "" {
			return x.Comment
		}
		return "phi"
	case *ssa.Call:
		ns := ""
		if f := x.Call.StaticCallee(); f != nil {
			ns = f.Name()
		} else if b, ok := x.Call.Value.(*ssa.Builtin); ok {
			ns = b.Name()
		}
		return ns + "()"
	case *ssa.Extract:
		return describeAddr(x.Tuple)
	case *ssa.Const:
		return x.String()
	case *ssa.MakeSlice:
		return "make([])"
	case *ssa.MakeMap:
		return "make(map)"
	case *ssa.Lookup:
		return describeAddr(x.X) + "[k]"
	}
	return fmt.Sprintf("%T", v)
}

var _ = sort.Strings

func init() {
	register("C19", "Effect analysis over every function reachable from the library's public operations (20 ecosystems x {NewVersion, NewVersionRange, Name, Compare, String, Contains, String}, vers.Contains, package inits): every Store/MapUpdate/append/in-place std mutator must target memory that is fresh in the current activation (origin tracking over SSA, callee 'returns fresh' summaries); package-level state is written only in init; every external callee is on a reviewed allow-list of pure or concurrency-safe std functions; no goroutines, channels, map iteration; Ecosystem types have no fields. From this no two calls can conflict on a memory location, so there is no data race under any schedule and results depend on arguments only.", rulePure)
}
