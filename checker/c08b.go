package main

// c08b.go: R-BUILD-FREE. SemVer ignores build metadata: R-BUILD-IGNORED shows that the field fed by the
// build group is not read from Compare. This rule closes the other door: no text field that Compare does
// read can contain a '+' (and with it the build metadata behind it). It is a character-set analysis of
// the constructor: a stored text is plus-free when it is
//
//   - a constant without '+', or the concatenation / case folding / trimming / cutting / slicing of
//     plus-free texts;
//   - capture group k of a constant pattern whose group k cannot match '+';
//   - a text that has matched, as a whole, an anchored constant pattern that cannot match '+' - directly
//     (the store is dominated by the successful match) or in a callee that returns a nil error only
//     after such a match of its parameter (callee summary).
//
// Everything else - in particular the constructor's raw input - may contain '+'.

import (
	"fmt"
	"go/token"
	"go/types"
	"os"
	"regexp/syntax"
	"sort"
	"strings"

	"golang.org/x/tools/go/ssa"
)

type plusFree struct {
	p    *Prog
	e    *Eco
	memo map[string]string
	sumM map[*ssa.Function]map[int]int // callee -> param index -> 1 validated, -1 not
	lax  string                        // a whole-input pattern that can match '+' (for the report)
}

// anchoredPlusFree: the pattern is anchored at both ends and no part of it can match '+'
func anchoredPlusFree(ri *regexInfo) bool {
	if ri == nil || ri.Re == nil || !ri.Anchored {
		return false
	}
	return !reCanMatchRune(ri.Re, '+')
}

// matchedWhole: block b is dominated by a successful match of v (as a whole) against plus-free anchored
// constant patterns
func (pf *plusFree) matchedWhole(v ssa.Value, b *ssa.BasicBlock, depth int) bool {
	fn := b.Parent()
	for _, blk := range fn.Blocks {
		for _, ins := range blk.Instrs {
			c, ok := ins.(*ssa.Call)
			if !ok {
				continue
			}
			g := c.Call.StaticCallee()
			if g == nil {
				continue
			}
			switch extName(g) {
			case "(*regexp.Regexp).FindStringSubmatch", "(*regexp.Regexp).MatchString", "(*regexp.Regexp).FindString":
				if len(c.Call.Args) < 2 || c.Call.Args[1] != v {
					continue
				}
				ris := pf.p.regexSetOf(c.Call.Args[0])
				if len(ris) == 0 {
					continue
				}
				all := true
				for _, ri := range ris {
					if !anchoredPlusFree(ri) {
						all = false
						if ri.Anchored && pf.lax == "" {
							pf.lax = ri.Pattern
						}
					}
				}
				if !all {
					continue
				}
				if matchSucceededAt(c, b) {
					return true
				}
			default:
				// a repo callee that validates its parameter
				if !pf.p.IsRepoFn(g) || g.Blocks == nil || depth > 2 {
					continue
				}
				for i, a := range c.Call.Args {
					if a == v && i < len(g.Params) && pf.validates(g, i, depth+1) && errNilEdgeDominates(c, b) {
						return true
					}
				}
			}
		}
	}
	return false
}

// matchSucceededAt: b is dominated by the edge on which the match call c succeeded
func matchSucceededAt(c *ssa.Call, b *ssa.BasicBlock) bool {
	name := extName(c.Call.StaticCallee())
	return domEdges(b, func(cond ssa.Value, tv bool) bool {
		if strings.HasSuffix(name, "MatchString") {
			if cond == ssa.Value(c) {
				return tv
			}
			if u, ok := cond.(*ssa.UnOp); ok && u.Op == token.NOT && u.X == ssa.Value(c) {
				return !tv
			}
			return false
		}
		bo, ok := cond.(*ssa.BinOp)
		if !ok {
			return false
		}
		var x ssa.Value
		switch {
		case isNilConst(bo.Y):
			x = bo.X
		case isNilConst(bo.X):
			x = bo.Y
		case isEmptyConst(bo.Y):
			x = bo.X
		default:
			return false
		}
		if x != ssa.Value(c) {
			return false
		}
		return bo.Op == token.NEQ && tv || bo.Op == token.EQL && !tv
	})
}

// validates: g returns a nil error only after its parameter i matched plus-free anchored patterns as a whole
func (pf *plusFree) validates(g *ssa.Function, i int, depth int) bool {
	if pf.sumM[g] == nil {
		pf.sumM[g] = map[int]int{}
	}
	if v, ok := pf.sumM[g][i]; ok {
		return v == 1
	}
	pf.sumM[g][i] = -1
	res := g.Signature.Results()
	if res.Len() == 0 || !isErrorType(res.At(res.Len()-1).Type()) {
		return false
	}
	n := 0
	for _, b := range g.Blocks {
		ret, ok := b.Instrs[len(b.Instrs)-1].(*ssa.Return)
		if !ok {
			continue
		}
		last := ret.Results[len(ret.Results)-1]
		if errNonNilAt(last, b) {
			continue
		}
		if !isNilConst(last) {
			return false
		}
		n++
		if !pf.matchedWhole(g.Params[i], b, depth) {
			return false
		}
	}
	if n == 0 {
		return false
	}
	pf.sumM[g][i] = 1
	return true
}

// free: "" when v cannot contain '+', otherwise the reason
func (pf *plusFree) free(v ssa.Value, at *ssa.BasicBlock, seen map[ssa.Value]bool, depth int) string {
	if seen[v] {
		return ""
	}
	seen[v] = true
	if depth > 10 {
		return "flow too deep"
	}
	if !isStringType(v.Type()) {
		return ""
	}
	if ins, ok := v.(ssa.Instruction); ok && ins.Block() != nil {
		if pf.matchedWhole(v, at, 0) {
			return ""
		}
	} else if pf.matchedWhole(v, at, 0) {
		return ""
	}
	switch x := v.(type) {
	case *ssa.Const:
		if s, ok := constString(x); ok && strings.Contains(s, "+") {
			return fmt.Sprintf("the constant %q", s)
		}
		return ""
	case *ssa.Phi:
		for i, e := range x.Edges {
			if why := pf.free(e, x.Block().Preds[i], seen, depth+1); why != "" {
				return why
			}
		}
		return ""
	case *ssa.BinOp:
		if x.Op == token.ADD {
			if why := pf.free(x.X, at, seen, depth+1); why != "" {
				return why
			}
			return pf.free(x.Y, at, seen, depth+1)
		}
	case *ssa.Slice:
		return pf.free(x.X, at, seen, depth+1)
	case *ssa.UnOp:
		if x.Op == token.MUL {
			switch a := x.X.(type) {
			case *ssa.IndexAddr:
				// matches[k] of a constant pattern; parts[i] of a split
				if c, ok := a.X.(*ssa.Call); ok {
					if g := c.Call.StaticCallee(); g != nil {
						switch extName(g) {
						case "(*regexp.Regexp).FindStringSubmatch":
							ris := pf.p.regexSetOf(c.Call.Args[0])
							k, okk := constInt(a.Index)
							if len(ris) == 0 || !okk {
								return "a capture group that could not be resolved"
							}
							for _, ri := range ris {
								var grp *syntax.Regexp
								if k == 0 {
									grp = ri.Re
								} else {
									grp = findGroup(ri.Re, int(k))
								}
								if grp == nil || reCanMatchRune(grp, '+') {
									return fmt.Sprintf("capture group %d of `%s`, which can match '+'", k, ri.Pattern)
								}
							}
							return ""
						case "strings.Split", "strings.SplitN", "strings.Fields":
							return pf.free(c.Call.Args[0], at, seen, depth+1)
						}
					}
				}
				return "an element of an unrecognised list"
			case *ssa.FieldAddr:
				// another field of a version under construction: all its stores
				if pt, ok := a.X.Type().Underlying().(*types.Pointer); ok && types.Identical(pt.Elem(), pf.e.VerT) {
					return pf.field(a.Field, depth+1)
				}
				return "a field of another structure"
			}
		}
	case *ssa.Extract:
		c, ok := x.Tuple.(*ssa.Call)
		if !ok {
			return "an unrecognised tuple"
		}
		g := c.Call.StaticCallee()
		if g == nil {
			return "the result of a dynamic call"
		}
		switch extName(g) {
		case "strings.Cut", "strings.CutPrefix", "strings.CutSuffix":
			if isStringType(x.Type()) {
				return pf.free(c.Call.Args[0], at, seen, depth+1)
			}
			return ""
		}
		if pf.p.IsRepoFn(g) && g.Blocks != nil {
			for _, b := range g.Blocks {
				if ret, ok := b.Instrs[len(b.Instrs)-1].(*ssa.Return); ok && x.Index < len(ret.Results) {
					if why := pf.free(ret.Results[x.Index], b, seen, depth+1); why != "" {
						return why
					}
				}
			}
			return ""
		}
		return "the result of " + g.String()
	case *ssa.Call:
		g := x.Call.StaticCallee()
		if g == nil {
			return "the result of a dynamic call"
		}
		switch extName(g) {
		case "strings.TrimSpace", "strings.ToLower", "strings.ToUpper", "strings.TrimPrefix", "strings.TrimSuffix", "strings.TrimLeft", "strings.TrimRight", "strings.Trim":
			return pf.free(x.Call.Args[0], at, seen, depth+1)
		case "strings.Join":
			return "a joined list"
		case "strconv.Itoa", "strconv.FormatInt":
			return ""
		}
		if pf.p.IsRepoFn(g) && g.Blocks != nil && g.Signature.Results().Len() == 1 {
			for _, b := range g.Blocks {
				if ret, ok := b.Instrs[len(b.Instrs)-1].(*ssa.Return); ok {
					if why := pf.free(ret.Results[0], b, seen, depth+1); why != "" {
						return why
					}
				}
			}
			return ""
		}
		return "the result of " + g.String()
	case *ssa.Parameter:
		// a parameter of a helper: every call site
		fn := x.Parent()
		idx := -1
		for i, q := range fn.Params {
			if q == x {
				idx = i
			}
		}
		if fn == pf.e.NewVer {
			return "the constructor's raw input"
		}
		n := pf.p.CG.Nodes[fn]
		if n == nil || len(n.In) == 0 || idx < 0 {
			return "a parameter without resolved callers"
		}
		for _, ce := range n.In {
			if ce.Site == nil || idx >= len(ce.Site.Common().Args) {
				return "a parameter without resolved callers"
			}
			if why := pf.free(ce.Site.Common().Args[idx], ce.Site.Block(), seen, depth+1); why != "" {
				return why
			}
		}
		return ""
	}
	return fmt.Sprintf("an unrecognised text source (%T)", v)
}

// field: every store into field fi of the ecosystem's Version, in the constructor's call tree
func (pf *plusFree) field(fi int, depth int) string {
	k := fmt.Sprint(fi)
	if v, ok := pf.memo[k]; ok {
		return v
	}
	pf.memo[k] = ""
	n := 0
	for _, fn := range pf.p.RepoReachable(pf.e.NewVer) {
		for _, b := range fn.Blocks {
			for _, ins := range b.Instrs {
				st, ok := ins.(*ssa.Store)
				if !ok {
					continue
				}
				fa, ok := st.Addr.(*ssa.FieldAddr)
				if !ok || fa.Field != fi {
					continue
				}
				if pt, ok := fa.X.Type().Underlying().(*types.Pointer); !ok || !types.Identical(pt.Elem(), pf.e.VerT) {
					continue
				}
				n++
				if why := pf.free(st.Val, b, map[ssa.Value]bool{}, depth+1); why != "" {
					pf.memo[k] = why + " (stored at " + pf.p.Pos(st.Pos()) + ")"
					return pf.memo[k]
				}
			}
		}
	}
	return ""
}

func ruleBuildFree(p *Prog, r *Report) {
	for _, name := range semverFamily {
		e := ecoByName(p, name)
		if e == nil {
			continue
		}
		st, _ := e.VerT.Underlying().(*types.Struct)
		read := p.fieldsReadFrom(e.Compare, e.VerT)
		var idx []int
		for fi := range read {
			if st != nil && isStringType(st.Field(fi).Type()) {
				idx = append(idx, fi)
			}
		}
		sort.Ints(idx)
		pf := &plusFree{p: p, e: e, memo: map[string]string{}, sumM: map[*ssa.Function]map[int]int{}}
		for _, fi := range idx {
			key := fmt.Sprintf("%s: the text field %s read by Compare cannot contain '+' (build metadata)", name, st.Field(fi).Name())
			if why := pf.field(fi, 0); why != "" {
				if pf.lax != "" {
					why += "; the text is only known to have matched `" + pf.lax + "`, which can match '+'"
				}
				r.Bad("R-BUILD-FREE", key, read[fi], "the field can hold "+why+": build metadata would take part in the order")
			} else {
				r.Ok("R-BUILD-FREE", key, read[fi], "every stored value is built from capture groups that cannot match '+', or from text that matched a plus-free anchored pattern as a whole")
			}
		}
	}
	r.Floor("R-BUILD-FREE", 5)
}

func init() {
	register("C08", "", ruleBuildFree)
}

// ---- R-PRE-TEXT: the pre-release text reaches Compare as written ------------------------------------------
//
// SemVer orders alphanumeric identifiers in ASCII order and compares every identifier of the list. The
// text field(s) of Version that Compare reads must therefore be cut out of the input only: a case mapping
// on the way (ToLower on the whole version to accept "V1.2.3") makes RC and rc the same identifier and
// moves upper-case identifiers behind lower-case ones; a bounded split (SplitN) glues the identifiers
// beyond the bound into one. nuget is exempt from the case clause: NuGet compares release labels without
// regard to case and the property does not claim their case.
func rulePreText(p *Prog, r *Report) {
	for _, name := range semverFamily {
		var e *Eco
		for _, x := range p.Ecos {
			if x.Name == name {
				e = x
			}
		}
		if e == nil {
			continue
		}
		ef := ecoFieldInfo(p, e)
		readByCompare := map[int]bool{}
		inCompare := p.RepoReachable(e.Compare)
		for _, fn := range inCompare {
			for _, b := range fn.Blocks {
				for _, ins := range b.Instrs {
					if fa, ok := ins.(*ssa.FieldAddr); ok {
						if pt, ok := fa.X.Type().Underlying().(*types.Pointer); ok && types.Identical(pt.Elem(), e.VerT) {
							readByCompare[fa.Field] = true
						}
					}
				}
			}
		}
		key := name + ": the pre-release text Compare reads is the text of the input"
		var bad []string
		n := 0
		for i := 0; ef.st != nil && i < ef.st.NumFields(); i++ {
			f := ef.st.Field(i)
			if !readByCompare[i] || !(isStringType(f.Type()) || isStringSlice(f.Type())) {
				continue
			}
			n++
			if os.Getenv("GVDEBUG") == "pre" {
				fmt.Fprintf(os.Stderr, "pre %s.%s via=%v pre=%v\n", name, f.Name(), ef.prov[i].via, ef.prov[i].pre)
			}
			// what the constructor itself does to the text (callers of NewVersion are not followed)
			loc := &fieldProv{via: map[string]bool{}, local: true}
			for _, sv := range fieldStoredValues(p, e.VerT, i) {
				p.provWalk(sv, loc, map[ssa.Value]bool{}, 0)
			}
			for _, m := range []string{"ToLower", "ToUpper", "Title", "ToTitle", "Map"} {
				if (loc.via[m] || loc.pre[m]) && name != "nuget" {
					bad = append(bad, fmt.Sprintf("field %s passes through strings.%s on its way from the input: identifiers that differ in case become equal or change places", f.Name(), m))
				}
			}
		}
		// a bounded split at the identifier separator, in the constructor or in the comparison itself
		for _, fn := range append(append([]*ssa.Function{}, inCompare...), p.RepoReachable(e.NewVer)...) {
			for _, b := range fn.Blocks {
				for _, ins := range b.Instrs {
					if c, ok := ins.(*ssa.Call); ok {
						if g := c.Call.StaticCallee(); g != nil && (extName(g) == "strconv.ParseInt" || extName(g) == "strconv.ParseUint") && len(c.Call.Args) == 3 {
							if bs, ok := constInt(c.Call.Args[2]); ok && bs != 0 && bs < 64 {
								bad = append(bad, fmt.Sprintf("%s parses numbers with a %d-bit limit (%s): an all-digit identifier beyond it is not recognised as a number and is ordered as text", fn.Name(), bs, p.Pos(c.Pos())))
							}
						}
						if g := c.Call.StaticCallee(); g != nil && (extName(g) == "strings.SplitN" || extName(g) == "strings.SplitAfterN") {
							if sep, ok := constString(c.Call.Args[1]); !ok || sep != "." {
								continue
							}
							bad = append(bad, fmt.Sprintf("%s cuts its operand with a bounded split (%s): the identifiers beyond the bound are compared as one", fn.Name(), p.Pos(c.Pos())))
						}
					}
				}
			}
		}
		sort.Strings(bad)
		switch {
		case len(bad) > 0:
			r.Bad("R-PRE-TEXT", key, p.FnPos(e.NewVer), bad[0])
		case n == 0:
			r.Und("R-PRE-TEXT", key, p.FnPos(e.NewVer), "no text field of Version is read by Compare")
		default:
			r.Ok("R-PRE-TEXT", key, p.FnPos(e.NewVer), fmt.Sprintf("%d text field(s) read by Compare, cut out of the input without case mapping or bounded split", n))
		}
	}
	r.Floor("R-PRE-TEXT", 6)
}

func init() {
	register("C08", "", rulePreText)
}

// ---- R-PRE-LEADZERO: a numeric pre-release identifier with a leading zero is rejected (strict semver) ----
//
// SemVer 2.0.0 section 9: numeric identifiers must not include leading zeroes; an identifier is numeric when
// it consists of digits only. The rejection in the strict ecosystem's constructor must therefore be tied to an
// all-digits test of the identifier (a pattern whose language is the digit strings, or a digit loop), not to
// the result of an integer conversion: the conversion fails for digit strings beyond the integer range
// (a 20-digit identifier with a leading zero would pass) and accepts a sign.
// Decided: that tie, on the paths to the error return guarded by the leading-zero test. Not the rest of the grammar.
func rulePreLeadZero(p *Prog, r *Report) {
	e := ecoByName(p, "semver")
	key := "semver: the leading-zero rejection of pre-release identifiers is tied to an all-digits test"
	if e == nil {
		r.Und("R-PRE-LEADZERO", key, "", "ecosystem not found")
		return
	}
	pkg := e.VerT.Obj().Pkg()
	sites, good := 0, 0
	var bad []string
	for _, fn := range p.RepoReachable(e.NewVer) {
		if fn.Pkg == nil || fn.Pkg.Pkg != pkg || fn.Blocks == nil {
			continue
		}
		for _, b := range fn.Blocks {
			iff, ok := b.Instrs[len(b.Instrs)-1].(*ssa.If)
			if !ok {
				continue
			}
			text, tpos := leadZeroTest(p, iff.Cond)
			if text == nil {
				continue
			}
			// the true edge leads to an error return, directly or through further tests
			type ctest struct {
				cond ssa.Value
				tv   bool
			}
			var chain []ctest
			reaches := false
			for x, n := b.Succs[0], 0; x != nil && n < 4; n++ {
				if leadsToError(x, map[*ssa.BasicBlock]bool{}, 0) {
					reaches = true
					break
				}
				i2, ok := x.Instrs[len(x.Instrs)-1].(*ssa.If)
				if !ok {
					break
				}
				e0 := leadsToError(x.Succs[0], map[*ssa.BasicBlock]bool{}, 0)
				e1 := leadsToError(x.Succs[1], map[*ssa.BasicBlock]bool{}, 0)
				switch {
				case e0 && !e1:
					chain = append(chain, ctest{i2.Cond, true})
					reaches = true
				case e1 && !e0:
					chain = append(chain, ctest{i2.Cond, false})
					reaches = true
				}
				break
			}
			if !reaches {
				continue
			}
			sites++
			// what else holds on the way into the error: conditions on the same text
			digits, conv := false, ""
			look := func(cond ssa.Value, tv bool) bool {
				// pattern.MatchString(text) with L(pattern) = digit strings
				if call, ok := cond.(*ssa.Call); ok && tv {
					if g := call.Call.StaticCallee(); g != nil && extName(g) == "(*regexp.Regexp).MatchString" && len(call.Call.Args) == 2 && call.Call.Args[1] == text {
						if ri := p.regexOf(call.Call.Args[0]); ri != nil && ri.Err == nil {
							a := reIncludes(ri.Pattern, []reSup{{Pat: `^[0-9]+$`}})
							bb := reIncludes(`^[0-9]+$`, []reSup{{Pat: ri.Pattern}})
							if a.Unsupported == "" && bb.Unsupported == "" && a.Holds && bb.Holds {
								digits = true
							}
						}
					}
				}
				// err == nil of a conversion of the text
				if eq, ok := cond.(*ssa.BinOp); ok && isNilConst(eq.Y) && (eq.Op == token.EQL && tv || eq.Op == token.NEQ && !tv) {
					if ex, ok := eq.X.(*ssa.Extract); ok {
						if call, ok := ex.Tuple.(*ssa.Call); ok {
							if g := call.Call.StaticCallee(); g != nil && strings.HasPrefix(extName(g), "strconv.") && len(call.Call.Args) > 0 && call.Call.Args[0] == text {
								conv = extName(g)
							}
						}
					}
				}
				return false
			}
			domEdges(b, look)
			// the text of a capture group that holds digits only
			{
				fp := &fieldProv{via: map[string]bool{}, local: true}
				p.provWalk(text, fp, map[ssa.Value]bool{}, 0)
				all := len(fp.groups) > 0 && !fp.unknown
				for _, g := range fp.groups {
					all = all && g.digitsOnly()
				}
				for m := range fp.via {
					if m != "elem" {
						all = false
					}
				}
				if all {
					digits = true
				}
			}
			for _, ct := range chain {
				look(ct.cond, ct.tv)
			}
			switch {
			case conv != "" && !digits:
				bad = append(bad, fmt.Sprintf("%s (%s): an identifier with a leading zero is rejected only when %s succeeds: the conversion fails for digit strings beyond the integer range, so a long numeric identifier with a leading zero is accepted (and it accepts a sign)", fn.Name(), p.Pos(tpos), conv))
			case digits:
				good++
			default:
				bad = append(bad, fmt.Sprintf("%s (%s): the rejection of a leading zero is not tied to an all-digits test of the identifier", fn.Name(), p.Pos(tpos)))
			}
		}
	}
	sort.Strings(bad)
	switch {
	case sites == 0:
		r.Und("R-PRE-LEADZERO", key, p.FnPos(e.NewVer), "no leading-zero test with an error return found in the constructor's call tree")
	case len(bad) > 0:
		r.Bad("R-PRE-LEADZERO", key, p.FnPos(e.NewVer), bad[0])
	default:
		r.Ok("R-PRE-LEADZERO", key, p.FnPos(e.NewVer), fmt.Sprintf("%d leading-zero rejection(s), each under an all-digits test of the same identifier", good))
	}
	r.Floor("R-PRE-LEADZERO", 1)
}

func init() {
	register("C08", "", rulePreLeadZero)
}

// leadZeroTest: cond tests "the first byte of a string is '0'", directly or through a repo predicate of one
// string parameter that does; the string and a position for reports
func leadZeroTest(p *Prog, cond ssa.Value) (ssa.Value, token.Pos) {
	first := func(v ssa.Value) ssa.Value {
		bo, ok := v.(*ssa.BinOp)
		if !ok || bo.Op != token.EQL {
			return nil
		}
		if c, okc := constInt(bo.Y); !okc || c != '0' {
			return nil
		}
		switch x := bo.X.(type) {
		case *ssa.Lookup:
			if i, ok := constInt(x.Index); ok && i == 0 && isStringType(x.X.Type()) {
				return x.X
			}
		case *ssa.Index:
			if i, ok := constInt(x.Index); ok && i == 0 && isStringType(x.X.Type()) {
				return x.X
			}
		}
		return nil
	}
	if t := first(cond); t != nil {
		return t, cond.Pos()
	}
	if c, ok := cond.(*ssa.Call); ok {
		g := c.Call.StaticCallee()
		if g != nil && p.IsRepoFn(g) && g.Blocks != nil && len(g.Params) == 1 && len(c.Call.Args) == 1 && isStringType(g.Params[0].Type()) && g.Signature.Results().Len() == 1 && isBoolType(g.Signature.Results().At(0).Type()) {
			for _, b := range g.Blocks {
				for _, ins := range b.Instrs {
					if v, ok := ins.(ssa.Value); ok {
						if t := first(v); t != nil && t == ssa.Value(g.Params[0]) {
							return c.Call.Args[0], c.Pos()
						}
					}
				}
			}
		}
	}
	return nil, token.NoPos
}
