package main

import (
	"fmt"
	"go/types"
	"os"
	"sort"
	"strings"
	"time"
)

// expectedAssumed: comparator stages that are outside the evaluator's fragment on the pinned
// tree (two-cursor character scanners and one position-dependent loop). R-PREORDER uses them as
// relation atoms. For debian and rpm the assumption is discharged structurally (ruleScannerOrder:
// the scanner is a lexicographic comparison of canonical run sequences by total preorders of
// runs); alpine's numeric list remains an assumption, listed in the evidence and in DESIGN.md as
// "not decided". A stage that newly falls out of fragment is reported. alpm's scanner was on this
// list until its prefix heuristic was repaired (af15ab6); it is evaluated like any comparator now.
var expectedAssumed = map[string][]string{
	"alpine": {"assumed:compareNumericArraysNumeric(.numeric)"},
	"debian": {"rank:compareDebianVersionString(.revision)", "rank:compareDebianVersionString(.upstream)"},
	"rpm":    {"rank:compareRPMVersionString(.release)", "rank:compareRPMVersionString(.version)"},
}

type aeEcoResult struct {
	res    *aeResult
	ctx    *aeCtx
	stages []string
	secs   float64
}

// runAE analyses every ecosystem's Compare once per process (shared by C01, C03, C07, ...).
func runAE(p *Prog) map[string]*aeEcoResult {
	if p.aeResults != nil && len(p.aeResults) == len(p.Ecos) {
		return p.aeResults
	}
	for _, e := range p.Ecos {
		runAEOne(p, e)
	}
	return p.aeResults
}

// runAEOne analyses one ecosystem's Compare (cached per process).
func runAEOne(p *Prog, e *Eco) *aeEcoResult {
	if p.aeResults == nil {
		p.aeResults = map[string]*aeEcoResult{}
	}
	if er, ok := p.aeResults[e.Name]; ok {
		return er
	}
	out := p.aeResults
	{
		c := newAECtx(p)
		if e.Name == "alpm" {
			// C01's only scoped exclusion: triples mixing versions with and without an explicit pkgrel
			// (vercmp deliberately makes a missing pkgrel equal to any pkgrel). The flag is the one
			// boolean field of alpm's Version.
			if st, ok := e.VerT.Underlying().(*types.Struct); ok {
				var flags []string
				for i := 0; i < st.NumFields(); i++ {
					if isBoolType(st.Field(i).Type()) {
						flags = append(flags, "."+st.Field(i).Name())
					}
				}
				if len(flags) == 1 {
					flag := flags[0]
					c.scope = func(w *world) bool {
						first, seen := 0, false
						for i := 0; i < w.n; i++ {
							if v, ok := w.pos[posKey(flag, i)]; ok {
								if seen && v != first {
									return false
								}
								first, seen = v, true
							}
						}
						return true
					}
				}
			}
		}
		t0 := time.Now()
		res := c.analyse(e.Compare)
		er := &aeEcoResult{res: res, ctx: c, secs: time.Since(t0).Seconds()}
		for k := range c.stagesUsed {
			er.stages = append(er.stages, k)
		}
		sort.Strings(er.stages)
		out[e.Name] = er
		if os.Getenv("GVDEBUG") != "" {
			var as []string
			for k, why := range res.assumed {
				as = append(as, k+" <"+why+">")
			}
			sort.Strings(as)
			fmt.Fprintf(os.Stderr, "AE %s (%.1fs): oof=%q worlds=%v steps=%d\n   assumed=%v\n   stages=%v\n   loopsOK=%v\n", e.Name, er.secs, res.oof, res.worlds, c.steps, as, er.stages, res.loopsOK)
			for id, is := range res.loopIssues {
				fmt.Fprintf(os.Stderr, "   loopissue %s: %.300s\n", shortLoopID(id), is[0])
			}
			if os.Getenv("GVDEBUG") == "terms" {
				var tk []string
				for _, k := range c.termKeys() {
					ti := c.terms[k]
					tk = append(tk, fmt.Sprintf("%s:%d pool=%v", k, ti.kind, c.pools[k]))
				}
				sort.Strings(tk)
				for _, k := range tk {
					fmt.Fprintf(os.Stderr, "   term %s\n", k)
				}
			}
			seenLaw := map[string]bool{}
			for _, f := range res.findings {
				if seenLaw[f.law] {
					continue
				}
				seenLaw[f.law] = true
				fmt.Fprintf(os.Stderr, "   finding %s (%d worlds, sig %v): %s [%.400s]\n", f.law, res.nfail[f.law], res.sig[f.law].cores, f.detail, f.world)
			}
		}
	}
	return out[e.Name]
}

// stageTree lists the proven stages reachable from the given stage atoms.
func stageTree(p *Prog, used []string) []string {
	seen := map[string]bool{}
	var out []string
	var walk func(ks []string)
	walk = func(ks []string) {
		for _, k := range ks {
			name := k[strings.Index(k, ":")+1:]
			if i := strings.Index(name, "("); i >= 0 {
				name = name[:i]
			}
			for fn, si := range p.aeStages {
				if si.ok && si.name == name && !seen[fn.String()] {
					seen[fn.String()] = true
					out = append(out, fmt.Sprintf("%s (total preorder on %d abstract triples; loops %v)", p.FnKey(fn), si.worlds, shortIDs(si.loopsOK)))
					walk(si.sub)
				}
			}
		}
	}
	walk(used)
	sort.Strings(out)
	return out
}

func shortIDs(ids []string) []string {
	var out []string
	for _, id := range ids {
		out = append(out, shortLoopID(id))
	}
	return out
}

// R-PREORDER: order laws of every ecosystem's Compare on the abstract domain.
func rulePreorder(p *Prog, r *Report) {
	results := runAE(p)
	assumedAll := map[string][]string{}
	for _, e := range p.Ecos {
		er := results[e.Name]
		res := er.res
		fk := p.FnKey(e.Compare)
		pos := p.FnPos(e.Compare)
		if res.oof != "" {
			r.Und("R-PREORDER", fk+": in fragment", pos, "Compare is outside the evaluator's fragment: "+res.oof)
			continue
		}
		var as []string
		for k := range res.assumed {
			as = append(as, k)
		}
		sort.Strings(as)
		assumedAll[e.Name] = as
		exp := map[string]bool{}
		for _, k := range expectedAssumed[e.Name] {
			exp[k] = true
		}
		for _, k := range as {
			if !exp[k] {
				r.Und("R-PREORDER", fk+": stage "+k, pos, "a comparator stage that was in fragment on the pinned tree is now outside it ("+res.assumed[k]+"): its order laws are no longer decided")
			}
		}
		cond := ""
		if len(as) > 0 {
			cond = " (with the scanner stages " + strings.Join(as, ", ") + " as relation atoms: debian's and rpm's are discharged by R-*-SCAN/NONDIGIT/DIGITS, alpine's position-dependent numeric list stays an assumption)"
		}
		for _, law := range []string{"reflexive", "antisymmetric", "range", "transitive"} {
			if res.nfail[law] > 0 {
				cs := res.sig[law]
				for _, i := range cs.sorted() {
					r.Bad("R-PREORDER", fmt.Sprintf("%s: %s {%s}", fk, law, strings.Join(cs.cores[i], ",")), pos, fmt.Sprintf("%s fails in %d abstract worlds in which x, y, z differ (at least) on these terms, e.g. %s", law, cs.n[i], cs.ex[i]))
				}
			} else if law != "range" {
				r.Ok("R-PREORDER", fk+": "+law, pos, fmt.Sprintf("holds on all %d abstract worlds%s", res.worlds[law], cond))
			}
		}
		var ids []string
		for id := range res.loopIssues {
			ids = append(ids, id)
		}
		sort.Strings(ids)
		for _, id := range ids {
			s := res.loopSums[id]
			if s == nil || s.lawSig == nil {
				continue
			}
			var laws []string
			for law := range s.lawSig {
				laws = append(laws, law)
			}
			sort.Strings(laws)
			for _, law := range laws {
				cs := s.lawSig[law]
				for _, i := range cs.sorted() {
					r.Bad("R-PREORDER", fmt.Sprintf("%s: loop %s %s {%s}", fk, shortLoopID(id), law, strings.Join(cs.cores[i], ",")), pos,
						fmt.Sprintf("the position-wise relation of the zip loop is not a total preorder (so its lexicographic extension is not): %s in %d abstract position worlds that differ (at least) on these terms, e.g. %s", law, cs.n[i], cs.ex[i]))
				}
			}
		}
		for _, id := range res.loopsOK {
			r.Ok("R-PREORDER", fk+": loop "+shortLoopID(id), pos, "position-wise relation is a total preorder; exits only on non-ties with values in {-1,1}: the lexicographic extension is a total preorder")
		}
		for _, s := range stageTree(p, er.stages) {
			r.Ok("R-PREORDER", fk+": stage "+s, pos, "callee comparator proven a total preorder on its own operands; used as a relation atom in the caller")
		}
	}
	r.Extra["assumed_stages"] = assumedAll
	r.Floor("R-PREORDER", 70)
}

func shortLoopID(id string) string {
	if i := strings.LastIndex(id, "/"); i >= 0 {
		return id[i+1:]
	}
	return id
}

func init() {
	register("C01", "", rulePreorder)
}
