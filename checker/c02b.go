package main

import (
	"fmt"
	"go/constant"
	"go/token"
	"go/types"
	"os"
	"regexp"
	"sort"
	"strings"

	"golang.org/x/tools/go/ssa"
)

// ---- R-BOUND-TEXT: the bound's text reaches NewVersion unaltered --------------------------------
//
// A comparator written directly before a valid version must denote that version. On the parse
// side the argument of NewVersion (or the string stored as the bound and re-parsed on the match
// side) may be derived from the range string only by taking substrings (trim, slice, split,
// fields, regexp groups) and separator normalisation; a case mapping or other rewriting changes
// which version the bound denotes in every ecosystem whose comparison is case sensitive. A
// mapping is harmless only if NewVersion applies the same mapping to its own parameter first.

type textStep struct {
	name string
	pos  token.Pos
}

// rewrites collects, walking backwards from v, the calls that rewrite (not merely cut) the text.
func rewrites(p *Prog, v ssa.Value, seen map[ssa.Value]bool, depth int, out *[]textStep) {
	if depth > 12 || seen[v] {
		return
	}
	seen[v] = true
	switch x := v.(type) {
	case *ssa.Phi:
		for _, e := range x.Edges {
			rewrites(p, e, seen, depth+1, out)
		}
	case *ssa.Slice:
		// a cut of leading characters that was chosen by looking at letters or digits of the text
		// (s[0] == 'v', HasPrefix(s, "v")) removes part of the version, not an operator or a separator
		if k, ok := constInt(x.Low); ok && k >= 1 && x.Low != nil {
			alnum := func(c int64) bool {
				return c >= '0' && c <= '9' || c >= 'a' && c <= 'z' || c >= 'A' && c <= 'Z'
			}
			if domEdges(x.Block(), func(cond ssa.Value, tv bool) bool {
				switch c := cond.(type) {
				case *ssa.BinOp:
					if c.Op != token.EQL || !tv {
						return false
					}
					for _, pr := range [][2]ssa.Value{{c.X, c.Y}, {c.Y, c.X}} {
						src := pr[0]
						if cv, isConv := src.(*ssa.Convert); isConv {
							src = cv.X
						}
						var lx, li ssa.Value
						switch y := src.(type) {
						case *ssa.Lookup:
							lx, li = y.X, y.Index
						case *ssa.Index:
							lx, li = y.X, y.Index
						}
						kc, ok2 := constInt(pr[1])
						if lx != nil && ok2 && lx == x.X && alnum(kc) {
							if i, ok := constInt(li); ok && i < k {
								return true
							}
						}
					}
				case *ssa.Call:
					if f := c.Call.StaticCallee(); f != nil && extName(f) == "strings.HasPrefix" && tv && c.Call.Args[0] == x.X {
						if lit, ok := constString(c.Call.Args[1]); ok && int64(len(lit)) == k && strings.ContainsAny(lit, "abcdefghijklmnopqrstuvwxyzABCDEFGHIJKLMNOPQRSTUVWXYZ0123456789") {
							return true
						}
					}
				}
				return false
			}) {
				*out = append(*out, textStep{"a cut of leading letters or digits", x.Pos()})
			}
		}
		rewrites(p, x.X, seen, depth+1, out)
	case *ssa.UnOp:
		if x.Op == token.MUL {
			if ia, ok := x.X.(*ssa.IndexAddr); ok {
				rewrites(p, ia.X, seen, depth+1, out)
			}
			if fa, ok := x.X.(*ssa.FieldAddr); ok {
				// a string field: follow its stores
				if pt, ok := fa.X.Type().Underlying().(*types.Pointer); ok {
					if n, ok := pt.Elem().(*types.Named); ok {
						for _, sv := range fieldStoredValues(p, n, fa.Field) {
							rewrites(p, sv, seen, depth+1, out)
						}
					}
				}
			}
		}
	case *ssa.Extract:
		rewrites(p, x.Tuple, seen, depth+1, out)
	case *ssa.BinOp:
		if x.Op == token.ADD {
			rewrites(p, x.X, seen, depth+1, out)
			rewrites(p, x.Y, seen, depth+1, out)
		}
	case *ssa.Parameter:
		fn := x.Parent()
		idx := -1
		for i, q := range fn.Params {
			if q == x {
				idx = i
			}
		}
		if n := p.CG.Nodes[fn]; n != nil {
			for _, e := range n.In {
				if e.Site == nil || !p.IsRepoFn(e.Caller.Func) {
					continue
				}
				args := e.Site.Common().Args
				ai := idx
				if e.Site.Common().IsInvoke() {
					ai--
				}
				if ai >= 0 && ai < len(args) {
					rewrites(p, args[ai], seen, depth+1, out)
				}
			}
		}
	case *ssa.Alloc:
		// local array / variable: whatever was stored into it
		for _, ref := range *x.Referrers() {
			switch y := ref.(type) {
			case *ssa.Store:
				if y.Addr == ssa.Value(x) {
					rewrites(p, y.Val, seen, depth+1, out)
				}
			case *ssa.IndexAddr:
				for _, r2 := range *y.Referrers() {
					if st, ok := r2.(*ssa.Store); ok && st.Addr == ssa.Value(y) {
						rewrites(p, st.Val, seen, depth+1, out)
					}
				}
			}
		}
	case *ssa.Call:
		if b, ok := x.Call.Value.(*ssa.Builtin); ok {
			if b.Name() == "append" {
				for _, a := range x.Call.Args {
					rewrites(p, a, seen, depth+1, out)
				}
			}
			return
		}
		f := x.Call.StaticCallee()
		if f == nil {
			return
		}
		name := extName(f)
		switch name {
		case "strings.ToLower", "strings.ToUpper", "strings.Title", "strings.ToTitle", "strings.Map", "strings.Replace", "strings.Repeat":
			*out = append(*out, textStep{name, x.Pos()})
		case "strings.TrimPrefix", "strings.TrimSuffix", "strings.TrimLeft", "strings.TrimRight", "strings.Trim", "strings.CutPrefix", "strings.CutSuffix":
			// cutting letters or digits off the bound (a leading v, a trailing suffix) changes the version it denotes
			if lit, ok := constString(x.Call.Args[1]); ok && strings.ContainsAny(lit, "abcdefghijklmnopqrstuvwxyzABCDEFGHIJKLMNOPQRSTUVWXYZ0123456789") {
				*out = append(*out, textStep{name + "(" + lit + ")", x.Pos()})
			}
		case "strings.ReplaceAll":
			// separator normalisation ("," -> " ") is fine; anything touching letters/digits is a rewrite
			old, ok1 := constString(x.Call.Args[1])
			nw, ok2 := constString(x.Call.Args[2])
			if !ok1 || !ok2 || strings.ContainsAny(old+nw, "abcdefghijklmnopqrstuvwxyzABCDEFGHIJKLMNOPQRSTUVWXYZ0123456789") {
				*out = append(*out, textStep{name, x.Pos()})
			}
		}
		if strings.HasPrefix(name, "(*regexp.Regexp)") && len(x.Call.Args) > 1 {
			rewrites(p, x.Call.Args[1], seen, depth+1, out)
		} else if len(x.Call.Args) > 0 && (isStringType(x.Call.Args[0].Type()) || isStringSlice(x.Call.Args[0].Type())) {
			rewrites(p, x.Call.Args[0], seen, depth+1, out)
		}
		if p.IsRepoFn(f) && f.Blocks != nil {
			for _, b := range f.Blocks {
				if ret, ok := b.Instrs[len(b.Instrs)-1].(*ssa.Return); ok && len(ret.Results) > 0 {
					rewrites(p, ret.Results[0], seen, depth+1, out)
				}
			}
		}
	}
}

func fieldStoredValues(p *Prog, t *types.Named, f int) []ssa.Value {
	var out []ssa.Value
	for fn := range p.AllFns {
		if !p.IsRepoFn(fn) || fn.Origin() != nil {
			continue
		}
		for _, b := range fn.Blocks {
			for _, ins := range b.Instrs {
				s, ok := ins.(*ssa.Store)
				if !ok {
					continue
				}
				fa, ok := s.Addr.(*ssa.FieldAddr)
				if !ok || fa.Field != f {
					continue
				}
				if pt, ok := fa.X.Type().Underlying().(*types.Pointer); ok && types.Identical(pt.Elem(), t) {
					out = append(out, s.Val)
				}
			}
		}
	}
	return out
}

// ctorMaps: case maps NewVersion applies to its own parameter before anything else
func ctorMaps(e *Eco) map[string]bool {
	out := map[string]bool{}
	raw := rawParamOf(e.NewVer)
	if raw == nil {
		return out
	}
	var walk func(v ssa.Value, d int)
	walk = func(v ssa.Value, d int) {
		if d > 4 || v.Referrers() == nil {
			return
		}
		for _, ref := range *v.Referrers() {
			if c, ok := ref.(*ssa.Call); ok {
				if f := c.Call.StaticCallee(); f != nil {
					switch extName(f) {
					case "strings.ToLower", "strings.ToUpper":
						out[extName(f)] = true
						walk(c, d+1)
					case "strings.TrimSpace":
						walk(c, d+1)
					case "strings.TrimPrefix", "strings.TrimSuffix", "strings.TrimLeft", "strings.TrimRight", "strings.Trim", "strings.CutPrefix", "strings.CutSuffix":
						if lit, ok := constString(c.Call.Args[1]); ok && c.Call.Args[0] == v {
							out[extName(f)+"("+lit+")"] = true
							walk(c, d+1)
						}
					}
				}
			}
		}
	}
	walk(raw, 0)
	return out
}

func ruleBoundText(p *Prog, r *Report) {
	for _, e := range p.Ecos {
		own := ctorMaps(e)
		reach := map[*ssa.Function]bool{}
		for _, fn := range p.RepoReachable(e.NewRng, e.Contains) {
			reach[fn] = true
		}
		n := 0
		var bad []string
		for fn := range reach {
			if fn == e.NewVer {
				continue
			}
			inCtor := false
			for _, f2 := range p.RepoReachable(e.NewVer) {
				if f2 == fn {
					inCtor = true
				}
			}
			if inCtor {
				continue
			}
			for _, b := range fn.Blocks {
				for _, ins := range b.Instrs {
					c, ok := ins.(*ssa.Call)
					if !ok || c.Call.StaticCallee() != e.NewVer || len(c.Call.Args) < 2 {
						continue
					}
					n++
					var steps []textStep
					rewrites(p, c.Call.Args[1], map[ssa.Value]bool{}, 0, &steps)
					for _, st := range steps {
						if own[st.name] {
							continue
						}
						bad = append(bad, fmt.Sprintf("%s: the version text parsed at %s was rewritten by %s at %s", p.FnKey(fn), p.Pos(c.Pos()), st.name, p.Pos(st.pos)))
					}
				}
			}
		}
		sort.Strings(bad)
		key := e.Name + ": bound text reaches NewVersion unaltered"
		if len(bad) == 0 {
			r.Ok("R-BOUND-TEXT", key, p.FnPos(e.NewRng), fmt.Sprintf("%d NewVersion call(s) on the range side receive substrings of the range text (separator normalisation aside)", n))
		} else {
			r.Bad("R-BOUND-TEXT", key, p.FnPos(e.NewRng), bad[0]+": the bound no longer denotes the version written after the comparator")
		}
	}
	r.Floor("R-BOUND-TEXT", 20)
}

// ---- R-ORSPLIT: OR groups are the pieces of a split on the OR separator ------------------------------

func ruleOrSplit(p *Prog, r *Report) {
	for _, e := range p.Ecos {
		st, _ := e.RngT.Underlying().(*types.Struct)
		hasGroups := false
		for i := 0; st != nil && i < st.NumFields(); i++ {
			if outer, ok := st.Field(i).Type().Underlying().(*types.Slice); ok {
				if _, ok := outer.Elem().Underlying().(*types.Slice); ok {
					hasGroups = true
				}
			}
		}
		if !hasGroups {
			continue
		}
		key := e.Name + ": OR groups come from splitting on the OR separator"
		fns := p.RepoReachable(e.NewRng)
		var split *ssa.Call
		sep := ""
		for _, fn := range fns {
			for _, b := range fn.Blocks {
				for _, ins := range b.Instrs {
					if c, ok := ins.(*ssa.Call); ok {
						if f := c.Call.StaticCallee(); f != nil && extName(f) == "strings.Split" {
							if s, ok := constString(c.Call.Args[1]); ok && strings.Contains(s, "|") {
								split, sep = c, s
							}
						}
					}
				}
			}
		}
		if split == nil {
			r.Bad("R-ORSPLIT", key, p.FnPos(e.NewRng), "the range has OR groups but no strings.Split on an OR separator feeds them: a range with three or more alternatives may be cut wrongly")
			continue
		}
		// the group parser: callee receiving a split element
		var parser *ssa.Function
		isElem := func(v ssa.Value) bool {
			for d := 0; d < 4; d++ {
				switch x := v.(type) {
				case *ssa.Call:
					if f := x.Call.StaticCallee(); f != nil && extName(f) == "strings.TrimSpace" {
						v = x.Call.Args[0]
						continue
					}
				case *ssa.UnOp:
					if ia, ok := x.X.(*ssa.IndexAddr); ok && ia.X == ssa.Value(split) {
						return true
					}
				}
				return false
			}
			return false
		}
		fnOf := split.Parent()
		for _, b := range fnOf.Blocks {
			for _, ins := range b.Instrs {
				if c, ok := ins.(*ssa.Call); ok {
					if f := c.Call.StaticCallee(); f != nil && p.IsRepoFn(f) {
						for _, a := range c.Call.Args {
							if isElem(a) {
								parser = f
							}
						}
					}
				}
			}
		}
		if parser == nil {
			r.Bad("R-ORSPLIT", key, p.Pos(split.Pos()), "the pieces of the OR split are not handed to a group parser")
			continue
		}
		// every other call of the group parser in the splitting function is on the no-separator path
		bad := ""
		for _, b := range fnOf.Blocks {
			for _, ins := range b.Instrs {
				c, ok := ins.(*ssa.Call)
				if !ok || c.Call.StaticCallee() != parser {
					continue
				}
				fromElem := false
				for _, a := range c.Call.Args {
					if isElem(a) {
						fromElem = true
					}
				}
				if fromElem {
					continue
				}
				noSep := domEdges(b, func(cond ssa.Value, tv bool) bool {
					cc, ok := cond.(*ssa.Call)
					if !ok || cc.Call.StaticCallee() == nil || extName(cc.Call.StaticCallee()) != "strings.Contains" {
						return false
					}
					s, ok := constString(cc.Call.Args[1])
					return ok && s == sep && !tv
				})
				if !noSep {
					bad = "the group parser is also called at " + p.Pos(c.Pos()) + " with text that may still contain the OR separator"
				}
			}
		}
		if bad == "" {
			r.Ok("R-ORSPLIT", key, p.Pos(split.Pos()), fmt.Sprintf("every group handed to %s is a piece of strings.Split(_, %q) or the whole string when it has no separator", parser.Name(), sep))
		} else {
			r.Bad("R-ORSPLIT", key, p.Pos(split.Pos()), bad)
		}
	}
	r.Floor("R-ORSPLIT", 3)
}

func init() {
	register("C02", "", ruleBoundText, ruleOrSplit)
}

// ---- R-ROUTE: nothing routes a comparator away before its operator is looked at ------------------------
//
// A single-constraint parser tries its shorthands first and the operator table after them. A shorthand
// test of the form strings.Contains(text, K) that is evaluated before the operator table must use a K
// that no version text can contain (a character outside digits, letters, '.', '+', '-'); otherwise a
// comparator whose bound happens to contain K (">=1.0.0-next.1" contains "x") is taken for the
// shorthand and rejected or mis-read.
func ruleRoute(p *Prog, r *Report) {
	n := 0
	for _, e := range p.Ecos {
		for _, fn := range p.Representatives(sortFns(p, p.RepoReachable(e.NewRng))) {
			if fn.Pkg == nil || fn.Pkg.Pkg != e.VerT.Obj().Pkg() {
				continue
			}
			// the operator table test: HasPrefix(text, op) with op from a constant operator list
			var opBlock *ssa.BasicBlock
			var text ssa.Value
			for _, b := range fn.Blocks {
				for _, ins := range b.Instrs {
					c, ok := ins.(*ssa.Call)
					if !ok {
						continue
					}
					f := c.Call.StaticCallee()
					if f == nil || extName(f) != "strings.HasPrefix" {
						continue
					}
					ops, _ := constArrayOf(c.Call.Args[1])
					k := 0
					for _, o := range ops {
						if _, ok := opTable[o]; ok {
							k++
						}
					}
					if k >= 2 && opBlock == nil {
						opBlock, text = b, c.Call.Args[0]
					}
				}
			}
			if opBlock == nil {
				continue
			}
			// Contains tests on the same text evaluated before the operator table
			for _, b := range fn.Blocks {
				for _, ins := range b.Instrs {
					c, ok := ins.(*ssa.Call)
					if !ok {
						continue
					}
					f := c.Call.StaticCallee()
					if f == nil || c.Call.Args[0] != text || b == opBlock || !b.Dominates(opBlock) {
						continue
					}
					kind := extName(f)
					if kind != "strings.Contains" && kind != "strings.HasPrefix" {
						continue
					}
					ks, ok := constString(c.Call.Args[1])
					if !ok {
						continue
					}
					n++
					versionChar := func(ch rune) bool {
						return ch >= '0' && ch <= '9' || ch >= 'a' && ch <= 'z' || ch >= 'A' && ch <= 'Z' || ch == '.' || ch == '+' || ch == '-'
					}
					if kind == "strings.HasPrefix" {
						key := fmt.Sprintf("%s: shorthand test HasPrefix(·, %q) before the operator table", p.FnKey(fn), ks)
						first := []rune(ks)
						if len(first) > 0 && !versionChar(first[0]) || len(first) > 0 && (first[0] == '+' || first[0] == '-' || first[0] == '.') {
							r.Ok("R-ROUTE", key, p.Pos(c.Pos()), "no comparator and no version starts with this text")
						} else {
							r.Bad("R-ROUTE", key, p.Pos(c.Pos()), fmt.Sprintf("a version can start with %q: an exact-version constraint is taken for the shorthand", ks))
						}
						continue
					}
					key := fmt.Sprintf("%s: shorthand test Contains(·, %q) before the operator table", p.FnKey(fn), ks)
					safe := false
					for _, ch := range ks {
						if !versionChar(ch) {
							safe = true
						}
					}
					if safe {
						r.Ok("R-ROUTE", key, p.Pos(c.Pos()), "the tested text contains a character no version can contain")
					} else {
						r.Bad("R-ROUTE", key, p.Pos(c.Pos()), fmt.Sprintf("%q can occur inside a version (pre-release or build text): a comparator such as >=1.0.0-ne%st.1 is routed to the shorthand parser before its operator is seen", ks, ks))
					}
				}
			}
		}
	}
	r.Floor("R-ROUTE", 4)
	_ = n
	ruleRouteLang(p, r)
}

// ---- R-ROUTE (language form) -------------------------------------------------------------------------------
//
// Any test on the constraint text that is evaluated before the operator table and sends the constraint
// to another parser must be false for "comparator + valid version". The tests that can be read as a
// regular language of the text (contains one of a set of characters, ends with a literal, the part
// before the first / after the last separator does so) are intersected with every whole-input pattern
// of the version constructor on the product automaton; a common string is a valid version that is
// routed away, and it is printed. Tests of other shapes are left to the rules above.

// regexOfValue resolves a *regexp.Regexp value to its constant pattern (set by the rule)
var regexOfValue func(v ssa.Value) string

type routeText struct {
	kind string // "whole", "before", "afterlast"
	sep  string
}

func decodeRouteText(v, text ssa.Value, depth int) (routeText, bool) {
	if v == text {
		return routeText{kind: "whole"}, true
	}
	if depth > 3 {
		return routeText{}, false
	}
	indexOf := func(x ssa.Value, fname string) (string, bool) {
		// x = strings.<fname>(text, sep) possibly + 1
		if bo, ok := x.(*ssa.BinOp); ok && bo.Op == token.ADD {
			if k, ok := constInt(bo.Y); ok && k == 1 {
				x = bo.X
			}
		}
		c, ok := x.(*ssa.Call)
		if !ok {
			return "", false
		}
		f := c.Call.StaticCallee()
		if f == nil || extName(f) != fname || c.Call.Args[0] != text {
			return "", false
		}
		if s, ok := constString(c.Call.Args[1]); ok {
			return s, true
		}
		if k, ok := constInt(c.Call.Args[1]); ok {
			return string(rune(k)), true
		}
		return "", false
	}
	switch x := v.(type) {
	case *ssa.Phi:
		// release := c; if i := Index(c, sep); i >= 0 { release = c[:i] }
		var rt routeText
		found := false
		for _, e := range x.Edges {
			if e == text {
				continue
			}
			t, ok := decodeRouteText(e, text, depth+1)
			if !ok || t.kind != "before" || found && t != rt {
				return routeText{}, false
			}
			rt, found = t, true
		}
		return rt, found
	case *ssa.Slice:
		if x.X != text {
			return routeText{}, false
		}
		if x.Low == nil && x.High != nil {
			for _, fn := range []string{"strings.Index", "strings.IndexByte", "strings.IndexRune"} {
				if sep, ok := indexOf(x.High, fn); ok {
					return routeText{"before", sep}, true
				}
			}
		}
		if x.High == nil && x.Low != nil {
			for _, fn := range []string{"strings.LastIndex", "strings.LastIndexByte"} {
				if sep, ok := indexOf(x.Low, fn); ok {
					return routeText{"afterlast", sep}, true
				}
			}
		}
	case *ssa.Extract:
		if c, ok := x.Tuple.(*ssa.Call); ok && x.Index == 0 {
			if f := c.Call.StaticCallee(); f != nil && extName(f) == "strings.Cut" && c.Call.Args[0] == text {
				if sep, ok := constString(c.Call.Args[1]); ok {
					return routeText{"before", sep}, true
				}
			}
		}
	}
	return routeText{}, false
}

// routeLanguage: the texts for which cond holds, as a pattern ("" when cond has another shape)
func routeLanguage(cond, text ssa.Value) (pat, what string) {
	class := func(set string) string {
		var sb strings.Builder
		for _, r := range set {
			sb.WriteString(regexp.QuoteMeta(string(r)))
		}
		return sb.String()
	}
	wrap := func(t routeText, inner string, suffix bool) string {
		// inner: what the part must look like (unanchored: "contains" form ".*X.*" is given by the caller)
		switch t.kind {
		case "whole":
			if suffix {
				return `^[\s\S]*` + inner + `$`
			}
			return `^[\s\S]*` + inner + `[\s\S]*$`
		case "before":
			if len([]rune(t.sep)) != 1 {
				return ""
			}
			ns := `[^` + class(t.sep) + `]*`
			if suffix {
				return `^` + ns + inner + `(?:` + regexp.QuoteMeta(t.sep) + `[\s\S]*)?$`
			}
			return `^` + ns + inner + `[\s\S]*$`
		case "afterlast":
			if len([]rune(t.sep)) != 1 {
				return ""
			}
			ns := `[^` + class(t.sep) + `]*`
			if suffix {
				return `^[\s\S]*` + regexp.QuoteMeta(t.sep) + ns + inner + `$`
			}
			return `^[\s\S]*` + regexp.QuoteMeta(t.sep) + ns + inner + ns + `$`
		}
		return ""
	}
	switch c := cond.(type) {
	case *ssa.Call:
		f := c.Call.StaticCallee()
		if f == nil {
			return "", ""
		}
		if pt, what := componentHelperLanguage(f, c, text); pt != "" {
			return pt, what
		}
		if len(c.Call.Args) < 2 {
			return "", ""
		}
		if extName(f) == "(*regexp.Regexp).MatchString" && c.Call.Args[1] == text && regexOfValue != nil {
			if pt := regexOfValue(c.Call.Args[0]); pt != "" {
				return pt, "a match of `" + truncPat(pt) + "`"
			}
			return "", ""
		}
		t, ok := decodeRouteText(c.Call.Args[0], text, 0)
		if !ok {
			return "", ""
		}
		switch extName(f) {
		case "strings.ContainsAny":
			if set, ok := constString(c.Call.Args[1]); ok && set != "" {
				in := set
				if t.kind != "whole" {
					in = strings.ReplaceAll(set, t.sep, "")
				}
				if in == "" {
					return "", ""
				}
				return wrap(t, `[`+class(in)+`]`, false), fmt.Sprintf("ContainsAny(%s, %q)", t.describe(), set)
			}
		case "strings.Contains":
			if lit, ok := constString(c.Call.Args[1]); ok && lit != "" && (t.kind == "whole" || !strings.Contains(lit, t.sep)) {
				return wrap(t, regexp.QuoteMeta(lit), false), fmt.Sprintf("Contains(%s, %q)", t.describe(), lit)
			}
		case "strings.ContainsRune":
			if k, ok := constInt(c.Call.Args[1]); ok {
				return wrap(t, regexp.QuoteMeta(string(rune(k))), false), fmt.Sprintf("ContainsRune(%s, %q)", t.describe(), rune(k))
			}
		case "strings.HasSuffix":
			if lit, ok := constString(c.Call.Args[1]); ok && lit != "" && (t.kind == "whole" || !strings.Contains(lit, t.sep)) {
				return wrap(t, regexp.QuoteMeta(lit), true), fmt.Sprintf("HasSuffix(%s, %q)", t.describe(), lit)
			}
		}
	case *ssa.BinOp:
		if c.Op != token.EQL {
			return "", ""
		}
		for _, pr := range [][2]ssa.Value{{c.X, c.Y}, {c.Y, c.X}} {
			lit, ok := constString(pr[1])
			if !ok || lit == "" {
				continue
			}
			t, ok := decodeRouteText(pr[0], text, 0)
			if !ok || t.kind == "whole" || strings.Contains(lit, t.sep) {
				continue // text == literal is an exact spelling, not a routing of versions
			}
			switch t.kind {
			case "afterlast":
				return `^[\s\S]*` + regexp.QuoteMeta(t.sep) + regexp.QuoteMeta(lit) + `$`, fmt.Sprintf("%s == %q", t.describe(), lit)
			case "before":
				return `^` + regexp.QuoteMeta(lit) + `(?:` + regexp.QuoteMeta(t.sep) + `[\s\S]*)?$`, fmt.Sprintf("%s == %q", t.describe(), lit)
			}
		}
	}
	return "", ""
}

// componentHelperLanguage: a repo helper func(s string) bool that ranges over strings.Split(s, sep) and
// returns true as soon as a piece equals one of some literals (false after the loop): "some component
// is one of L".
func componentHelperLanguage(f *ssa.Function, call *ssa.Call, text ssa.Value) (string, string) {
	if f.Blocks == nil || len(f.Params) != 1 || len(call.Call.Args) != 1 || call.Call.Args[0] != text || !isStringType(f.Params[0].Type()) {
		return "", ""
	}
	if f.Signature.Results().Len() != 1 || !isBoolType(f.Signature.Results().At(0).Type()) {
		return "", ""
	}
	var split *ssa.Call
	sep := ""
	for _, b := range f.Blocks {
		for _, ins := range b.Instrs {
			if c, ok := ins.(*ssa.Call); ok {
				if g := c.Call.StaticCallee(); g != nil && extName(g) == "strings.Split" && c.Call.Args[0] == ssa.Value(f.Params[0]) {
					if s, ok := constString(c.Call.Args[1]); ok && len([]rune(s)) == 1 {
						split, sep = c, s
					}
				}
			}
		}
	}
	loops := findLoops(f)
	if split == nil || len(loops) != 1 {
		return "", ""
	}
	l := loops[0]
	isPiece := func(v ssa.Value) bool {
		u, ok := v.(*ssa.UnOp)
		if !ok {
			return false
		}
		ia, ok := u.X.(*ssa.IndexAddr)
		return ok && ia.X == ssa.Value(split)
	}
	var lits []string
	for _, b := range f.Blocks {
		ret, ok := b.Instrs[len(b.Instrs)-1].(*ssa.Return)
		if !ok {
			continue
		}
		k, isC := ret.Results[0].(*ssa.Const)
		if !isC || k.Value == nil {
			return "", ""
		}
		if !constant.BoolVal(k.Value) {
			if l.body[b] {
				return "", "" // a false answer from inside the loop: another shape
			}
			continue
		}
		// a true answer: every edge into b compares a piece with a literal
		for _, pr := range b.Preds {
			iff, ok := pr.Instrs[len(pr.Instrs)-1].(*ssa.If)
			if !ok || pr.Succs[0] != b {
				return "", ""
			}
			bo, ok := iff.Cond.(*ssa.BinOp)
			if !ok || bo.Op != token.EQL {
				return "", ""
			}
			lit, okL := constString(bo.Y)
			if !okL || !isPiece(bo.X) || strings.Contains(lit, sep) {
				return "", ""
			}
			lits = append(lits, regexp.QuoteMeta(lit))
		}
	}
	if len(lits) == 0 {
		return "", ""
	}
	sort.Strings(lits)
	qs := regexp.QuoteMeta(sep)
	return `(?:^|` + qs + `)(?:` + strings.Join(lits, "|") + `)(?:` + qs + `|$)`, fmt.Sprintf("%s (a %q-separated component is one of %v)", f.Name(), sep, lits)
}

func (t routeText) describe() string {
	switch t.kind {
	case "before":
		return fmt.Sprintf("the text before the first %q", t.sep)
	case "afterlast":
		return fmt.Sprintf("the text after the last %q", t.sep)
	}
	return "the constraint"
}

func ruleRouteLang(p *Prog, r *Report) {
	for _, e := range p.Ecos {
		pats, unresolved := p.ecoGate(e)
		if os.Getenv("GVDEBUG") == "route" {
			for _, gp := range pats {
				fmt.Fprintf(os.Stderr, "route %s: gate %q fold=%v prefixes=%q\n", e.Name, truncPat(gp.ri.Pattern), gp.fold, gp.prefixes)
			}
			fmt.Fprintf(os.Stderr, "route %s: unresolved=%v\n", e.Name, unresolved)
		}
		if len(pats) == 0 || len(unresolved) > 0 {
			continue
		}
		for _, fn := range p.Representatives(sortFns(p, p.RepoReachable(e.NewRng))) {
			if fn.Pkg == nil || fn.Pkg.Pkg != e.VerT.Obj().Pkg() {
				continue
			}
			var opBlock *ssa.BasicBlock
			var text ssa.Value
			for _, b := range fn.Blocks {
				for _, ins := range b.Instrs {
					c, ok := ins.(*ssa.Call)
					if !ok {
						continue
					}
					f := c.Call.StaticCallee()
					if f == nil || extName(f) != "strings.HasPrefix" {
						continue
					}
					ops, _ := constArrayOf(c.Call.Args[1])
					k := 0
					for _, o := range ops {
						if _, ok := opTable[o]; ok {
							k++
						}
					}
					if k >= 2 && opBlock == nil {
						opBlock, text = b, c.Call.Args[0]
					}
				}
			}
			if opBlock == nil {
				continue
			}
			// blocks from which the operator table can still be reached
			reach := map[*ssa.BasicBlock]bool{}
			var back func(b *ssa.BasicBlock)
			back = func(b *ssa.BasicBlock) {
				if reach[b] {
					return
				}
				reach[b] = true
				for _, pr := range b.Preds {
					back(pr)
				}
			}
			back(opBlock)
			afterOp := map[*ssa.BasicBlock]bool{}
			var fwd func(b *ssa.BasicBlock)
			fwd = func(b *ssa.BasicBlock) {
				if afterOp[b] {
					return
				}
				afterOp[b] = true
				for _, sc := range b.Succs {
					fwd(sc)
				}
			}
			fwd(opBlock)
			for _, b := range fn.Blocks {
				if !reach[b] || afterOp[b] {
					continue
				}
				iff, ok := b.Instrs[len(b.Instrs)-1].(*ssa.If)
				if !ok {
					continue
				}
				// the true edge leaves for good
				if reach[b.Succs[0]] {
					continue
				}
				regexOfValue = func(v ssa.Value) string {
					if ris := p.regexSetOf(v); len(ris) == 1 && ris[0].Err == nil {
						return ris[0].Pattern
					}
					return ""
				}
				pat, what := routeLanguage(iff.Cond, text)
				if pat == "" {
					continue
				}
				// tests on the whole text that are known to have failed on the way here narrow the texts
				// that reach this one ("contains none of these characters")
				var narrowed []string
				domEdges(b, func(cond ssa.Value, tv bool) bool {
					if tv {
						return false
					}
					if c, ok := cond.(*ssa.Call); ok && len(c.Call.Args) == 2 && c.Call.Args[0] == text {
						if f := c.Call.StaticCallee(); f != nil {
							set := ""
							switch extName(f) {
							case "strings.ContainsAny":
								set, _ = constString(c.Call.Args[1])
							case "strings.Contains":
								if l, ok := constString(c.Call.Args[1]); ok && len([]rune(l)) == 1 {
									set = l
								}
							case "strings.ContainsRune":
								if k, ok := constInt(c.Call.Args[1]); ok {
									set = string(rune(k))
								}
							}
							if set != "" {
								var sb strings.Builder
								for _, ch := range set {
									sb.WriteString(regexp.QuoteMeta(string(ch)))
								}
								narrowed = append(narrowed, "^[^"+sb.String()+"]*$")
							}
						}
					}
					return false
				})
				key := fmt.Sprintf("%s: routing test %s before the operator table", p.FnKey(fn), what)
				bad, und := "", ""
				for _, gp := range pats {
					if len(gp.prefixes) != 1 || gp.prefixes[0] != "" {
						continue
					}
					vp := gp.ri.Pattern
					if gp.fold {
						vp = "(?i:" + vp + ")"
					}
					hit, w, why := reIntersects(append([]string{vp, pat}, narrowed...)...)
					if why != "" {
						und = why
					} else if hit {
						bad = fmt.Sprintf("the valid version %q satisfies the test: a comparator written before it (>=%s) is sent to the other parser before its operator is seen", w, w)
						break
					}
				}
				at := p.Pos(iff.Cond.Pos())
				if at == "-" {
					at = p.FnPos(fn)
				}
				switch {
				case bad != "":
					r.Bad("R-ROUTE", key, at, bad)
				case und != "":
					r.Und("R-ROUTE", key, at, "intersection not decided: "+und)
				default:
					r.Ok("R-ROUTE", key, at, "no string the version constructor accepts satisfies the test (product automaton)")
				}
			}
		}
	}
}

func init() {
	register("C02", "", ruleRoute)
}

// ---- R-QUANT: Contains is ALL over a constraint list and ANY over groups ---------------------------------
//
// Every loop on the path from Contains to the per-constraint predicate is classified as a boolean fold:
//   AND: predicate false -> result false (return false, or flag := false and leave); otherwise go on;
//        falling out of the loop gives true;
//   OR:  predicate true -> result true; otherwise go on; falling out of the loop gives false.
// A range whose data is a list of constraints must be one AND fold; a list of lists an OR of ANDs.

type foldInfo struct {
	kind string // "AND", "OR" or ""
	why  string
	cond ssa.Value // the per-element boolean
}

// boolOutcome: what leaving block b along edge (b -> s) yields for the enclosing computation:
// "true"/"false" for a returned constant, "flag:<v>" when a phi at the loop exit takes constant v,
// "continue" when the edge stays in the loop, "" otherwise.
func edgeOutcome(l *loop, from, to *ssa.BasicBlock, depth int) string {
	if l.body[to] {
		// staying in the loop (possibly through a block that only sets a flag and breaks)
		if len(to.Instrs) == 1 {
			if _, ok := to.Instrs[0].(*ssa.Jump); ok && depth < 3 {
				return edgeOutcome(l, to, to.Succs[0], depth+1)
			}
		}
		return "continue"
	}
	// leaving the loop
	if ret, ok := to.Instrs[len(to.Instrs)-1].(*ssa.Return); ok && len(to.Instrs) <= 2 && len(ret.Results) == 1 {
		if cv, ok := ret.Results[0].(*ssa.Const); ok && cv.Value != nil && cv.Value.Kind() == constant.Bool {
			if constant.BoolVal(cv.Value) {
				return "true"
			}
			return "false"
		}
	}
	for _, ins := range to.Instrs {
		ph, ok := ins.(*ssa.Phi)
		if !ok {
			break
		}
		if !isBoolType(ph.Type()) {
			continue
		}
		for i, pb := range to.Preds {
			if pb == from {
				if cv, ok := ph.Edges[i].(*ssa.Const); ok && cv.Value != nil && cv.Value.Kind() == constant.Bool {
					if constant.BoolVal(cv.Value) {
						return "flag:true"
					}
					return "flag:false"
				}
			}
		}
	}
	if len(to.Instrs) == 1 && depth < 3 {
		if _, ok := to.Instrs[0].(*ssa.Jump); ok {
			return edgeOutcome(l, to, to.Succs[0], depth+1)
		}
	}
	return ""
}

func classifyFold(l *loop) foldInfo {
	// the branch on the per-element boolean: the only If in the body (besides the header guard) one of
	// whose edges does not simply continue
	var fi foldInfo
	var tOut, fOut string
	n := 0
	for b := range l.body {
		if b == l.header {
			continue
		}
		iff, ok := b.Instrs[len(b.Instrs)-1].(*ssa.If)
		if !ok {
			continue
		}
		t, f := edgeOutcome(l, b, b.Succs[0], 0), edgeOutcome(l, b, b.Succs[1], 0)
		if t == "continue" && f == "continue" {
			continue
		}
		n++
		fi.cond, tOut, fOut = iff.Cond, t, f
	}
	if n != 1 {
		fi.why = fmt.Sprintf("%d deciding branches in the loop body (want one test of the per-element predicate)", n)
		return fi
	}
	// through a negation
	neg := false
	if u, ok := fi.cond.(*ssa.UnOp); ok && u.Op == token.NOT {
		fi.cond, neg = u.X, true
		tOut, fOut = fOut, tOut
	}
	_ = neg
	// falling out of the loop
	exit := ""
	for _, s := range l.header.Succs {
		if !l.body[s] {
			exit = edgeOutcome(l, l.header, s, 0)
		}
	}
	val := func(s string) string { return strings.TrimPrefix(s, "flag:") }
	switch {
	case val(fOut) == "false" && tOut == "continue" && val(exit) == "true":
		fi.kind = "AND"
	case val(tOut) == "true" && fOut == "continue" && val(exit) == "false":
		fi.kind = "OR"
	default:
		fi.why = fmt.Sprintf("predicate true -> %q, predicate false -> %q, end of list -> %q: neither an ALL nor an ANY fold", tOut, fOut, exit)
	}
	return fi
}

// classifyLabelled: exactly two loops, one inside the other; in the inner one the per-element predicate being
// false leaves for the outer loop's next iteration (nothing else happens on the way), the predicate being
// true goes on, and falling out of the inner loop returns true; falling out of the outer loop returns false.
func classifyLabelled(loops []*loop) (outer, inner foldInfo, ok bool) {
	if len(loops) != 2 {
		return
	}
	lo, li := loops[0], loops[1]
	if len(li.body) > len(lo.body) {
		lo, li = li, lo
	}
	for b := range li.body {
		if !lo.body[b] {
			return
		}
	}
	// the deciding branch of the inner loop
	var cond ssa.Value
	n := 0
	var tTo, fTo *ssa.BasicBlock
	for b := range li.body {
		if b == li.header {
			continue
		}
		iff, isIf := b.Instrs[len(b.Instrs)-1].(*ssa.If)
		if !isIf {
			continue
		}
		if li.body[b.Succs[0]] && li.body[b.Succs[1]] {
			continue
		}
		n++
		cond, tTo, fTo = iff.Cond, b.Succs[0], b.Succs[1]
	}
	if n != 1 {
		return
	}
	if u, isNot := cond.(*ssa.UnOp); isNot && u.Op == token.NOT {
		cond = u.X
		tTo, fTo = fTo, tTo
	}
	// predicate true stays in the inner loop; predicate false reaches the outer header through empty blocks
	if !li.body[tTo] {
		return
	}
	reachesOuterHeader := func(b *ssa.BasicBlock) bool {
		for i := 0; i < 4; i++ {
			if b == lo.header {
				return true
			}
			if li.body[b] || !lo.body[b] || len(b.Instrs) != 1 {
				// the latch of a range loop increments nothing here: the outer header holds the counter phi
				if lo.body[b] && !li.body[b] && len(b.Succs) == 1 && onlyPure(b) {
					b = b.Succs[0]
					continue
				}
				return false
			}
			if _, isJump := b.Instrs[0].(*ssa.Jump); !isJump {
				return false
			}
			b = b.Succs[0]
		}
		return false
	}
	if !reachesOuterHeader(fTo) {
		return
	}
	// falling out of the inner loop returns true, out of the outer loop false
	innerExit, outerExit := "", ""
	for _, s := range li.header.Succs {
		if !li.body[s] {
			innerExit = edgeOutcome(lo, li.header, s, 0)
		}
	}
	for _, s := range lo.header.Succs {
		if !lo.body[s] {
			outerExit = edgeOutcome(lo, lo.header, s, 0)
		}
	}
	if innerExit != "true" || outerExit != "false" {
		return
	}
	return foldInfo{kind: "OR"}, foldInfo{kind: "AND", cond: cond}, true
}

// onlyPure: the block has no effect (arithmetic and a jump)
func onlyPure(b *ssa.BasicBlock) bool {
	for _, ins := range b.Instrs {
		switch ins.(type) {
		case *ssa.BinOp, *ssa.Jump, *ssa.DebugRef, *ssa.Phi:
		default:
			return false
		}
	}
	return true
}

func ruleQuant(p *Prog, r *Report) {
	for _, e := range p.Ecos {
		key := fmt.Sprintf("%s: Contains quantifies over its constraints as the range's data shape says", e.Name)
		// the data shape: a field of the range type that is a (nested) slice
		depthOf := func(t types.Type) int {
			d := 0
			for {
				s, ok := t.Underlying().(*types.Slice)
				if !ok {
					return d
				}
				d++
				t = s.Elem()
			}
		}
		shape := 0
		if st, ok := e.RngT.Underlying().(*types.Struct); ok {
			for i := 0; i < st.NumFields(); i++ {
				if d := depthOf(st.Field(i).Type()); d > shape && !isStringType(st.Field(i).Type()) {
					shape = d
				}
			}
		}
		// folds met from Contains down to the predicate
		var folds []string
		var problems []string
		seen := map[*ssa.Function]bool{}
		var visit func(fn *ssa.Function, depth int)
		visit = func(fn *ssa.Function, depth int) {
			if seen[fn] || depth > 3 {
				return
			}
			seen[fn] = true
			loops := findLoops(fn)
			// outer loops first
			sort.Slice(loops, func(i, j int) bool { return len(loops[i].body) > len(loops[j].body) })
			// ANY of ALL written with a labelled continue: the inner loop leaves for the next group as soon as
			// a constraint fails and falling out of it returns true; falling out of the outer loop returns false
			if fiO, fiI, ok := classifyLabelled(loops); ok {
				folds = append(folds, fiO.kind, fiI.kind)
				if c, ok := fiI.cond.(*ssa.Call); ok {
					if f := c.Call.StaticCallee(); f != nil && p.IsRepoFn(f) && len(findLoops(f)) > 0 {
						visit(f, depth+1)
					}
				}
				return
			}
			for _, l := range loops {
				fi := classifyFold(l)
				if fi.kind == "" {
					// a loop nested in another whose flag it computes is classified on its own; anything else
					// on this path is a problem only if it contains a predicate call
					calls := false
					for b := range l.body {
						for _, ins := range b.Instrs {
							if c, ok := ins.(*ssa.Call); ok {
								if f := c.Call.StaticCallee(); f != nil && p.IsRepoFn(f) && f.Signature.Results().Len() == 1 && isBoolType(f.Signature.Results().At(0).Type()) {
									calls = true
								}
							}
						}
					}
					if calls {
						problems = append(problems, fmt.Sprintf("%s: %s", p.FnKey(fn), fi.why))
					}
					continue
				}
				folds = append(folds, fi.kind)
				// the per-element boolean: a call into a helper that folds again?
				if c, ok := fi.cond.(*ssa.Call); ok {
					if f := c.Call.StaticCallee(); f != nil && p.IsRepoFn(f) && len(findLoops(f)) > 0 {
						visit(f, depth+1)
					}
				}
			}
		}
		visit(e.Contains, 0)
		want := map[int]string{1: "AND", 2: "OR AND"}[shape]
		got := strings.Join(folds, " ")
		switch {
		case len(problems) > 0:
			r.Bad("R-QUANT", key, p.FnPos(e.Contains), strings.Join(problems, "; "))
		case want == "":
			r.Und("R-QUANT", key, p.FnPos(e.Contains), fmt.Sprintf("range data shape not recognised (slice depth %d)", shape))
		case got != want:
			r.Bad("R-QUANT", key, p.FnPos(e.Contains), fmt.Sprintf("the range holds a %s of constraints, so Contains must be %s; the loops found fold as [%s]", map[int]string{1: "list", 2: "list of lists"}[shape], map[string]string{"AND": "ALL of them", "OR AND": "ANY group of ALL its constraints"}[want], got))
		default:
			r.Ok("R-QUANT", key, p.FnPos(e.Contains), fmt.Sprintf("folds: %s (predicate false ends an ALL with false, predicate true ends an ANY with true, the end of the list gives the neutral result)", got))
		}
	}
	r.Floor("R-QUANT", 20)
	ruleQuantPre(p, r)
}

func init() {
	register("C02", "", ruleQuant)
}

// ---- R-ALLSTORED: every comparator that was parsed is kept in the range -----------------------------------
//
// R-QUANT and R-OPSWITCH decide how Contains folds the stored comparators; they say nothing about a
// constructor that stores fewer comparators than were written. The value stored in the range's list
// field(s) must be built by appending parse results: phis, appends, literals and the results of parse
// helpers are followed; a function that takes the parsed list (a parameter of the field's type) and returns
// a list that is not that parameter itself or an append to it is a list transformer and is reported -
// it can drop, merge or replace comparators ("tighten", "simplify", "dedupe").
func ruleAllStored(p *Prog, r *Report) {
	n := 0
	for _, e := range p.Ecos {
		if e.NewRng == nil || e.RngT == nil {
			continue
		}
		st, ok := e.RngT.Underlying().(*types.Struct)
		if !ok {
			continue
		}
		key := e.Name + ": every parsed comparator is stored in the range"
		var bad []string
		checked := 0
		var okVal func(v ssa.Value, ft types.Type, seen map[ssa.Value]bool, depth int) string
		okFn := func(g *ssa.Function, k int, ft types.Type, seen map[ssa.Value]bool, depth int) string {
			// a list transformer: a parameter of the field's own type
			for _, prm := range g.Params {
				if types.Identical(prm.Type(), ft) {
					onlyAppends := true
					for _, b := range g.Blocks {
						ret, ok := b.Instrs[len(b.Instrs)-1].(*ssa.Return)
						if !ok || k >= len(ret.Results) {
							continue
						}
						rv := ret.Results[k]
						for {
							if rv == ssa.Value(prm) {
								break
							}
							base, _, isApp := appendOfOne(rv)
							if isApp {
								rv = base
								continue
							}
							if c, ok := rv.(*ssa.Call); ok {
								if bi, ok := c.Call.Value.(*ssa.Builtin); ok && bi.Name() == "append" {
									rv = c.Call.Args[0]
									continue
								}
							}
							if ph, ok := rv.(*ssa.Phi); ok && len(ph.Edges) > 0 {
								// accumulator phi: follow the edge from outside the loop
								next := ssa.Value(nil)
								for _, ed := range ph.Edges {
									if ed == ssa.Value(prm) {
										next = ed
									}
								}
								if next != nil {
									rv = next
									continue
								}
							}
							onlyAppends = false
							break
						}
					}
					if !onlyAppends {
						return fmt.Sprintf("the list passes through %s, which takes the parsed list and returns another one: comparators can be dropped or replaced there", g.Name())
					}
				}
			}
			for _, b := range g.Blocks {
				if ret, ok := b.Instrs[len(b.Instrs)-1].(*ssa.Return); ok && k < len(ret.Results) {
					if w := okVal(ret.Results[k], ft, seen, depth+1); w != "" {
						return w
					}
				}
			}
			return ""
		}
		okVal = func(v ssa.Value, ft types.Type, seen map[ssa.Value]bool, depth int) string {
			if seen[v] || depth > 8 {
				return ""
			}
			seen[v] = true
			switch x := v.(type) {
			case *ssa.Const, *ssa.MakeSlice, *ssa.Slice, *ssa.Alloc:
				return ""
			case *ssa.Phi:
				for _, ed := range x.Edges {
					if w := okVal(ed, ft, seen, depth+1); w != "" {
						return w
					}
				}
				return ""
			case *ssa.Call:
				if bi, ok := x.Call.Value.(*ssa.Builtin); ok && bi.Name() == "append" {
					return okVal(x.Call.Args[0], ft, seen, depth+1)
				}
				if g := x.Call.StaticCallee(); g != nil && p.IsRepoFn(g) && g.Blocks != nil {
					return okFn(g, 0, ft, seen, depth)
				}
				return ""
			case *ssa.Extract:
				if c, ok := x.Tuple.(*ssa.Call); ok {
					if g := c.Call.StaticCallee(); g != nil && p.IsRepoFn(g) && g.Blocks != nil {
						return okFn(g, x.Index, ft, seen, depth)
					}
				}
				return ""
			case *ssa.Parameter:
				fn := x.Parent()
				idx := -1
				for i, q := range fn.Params {
					if q == x {
						idx = i
					}
				}
				if nd := p.CG.Nodes[fn]; nd != nil && idx >= 0 {
					for _, ce := range nd.In {
						if ce.Site != nil && idx < len(ce.Site.Common().Args) && p.IsRepoFn(ce.Caller.Func) {
							if w := okVal(ce.Site.Common().Args[idx], ft, seen, depth+1); w != "" {
								return w
							}
						}
					}
				}
				return ""
			case *ssa.UnOp:
				if al, ok := x.X.(*ssa.Alloc); ok && x.Op == token.MUL {
					for _, ref := range *al.Referrers() {
						if sto, ok := ref.(*ssa.Store); ok && sto.Addr == ssa.Value(al) {
							if w := okVal(sto.Val, ft, seen, depth+1); w != "" {
								return w
							}
						}
					}
				}
				return ""
			}
			return ""
		}
		for _, fn := range p.RepoReachable(e.NewRng) {
			if fn.Pkg == nil || fn.Pkg.Pkg != e.RngT.Obj().Pkg() {
				continue
			}
			for _, b := range fn.Blocks {
				for _, ins := range b.Instrs {
					sto, ok := ins.(*ssa.Store)
					if !ok {
						continue
					}
					fa, ok := sto.Addr.(*ssa.FieldAddr)
					if !ok {
						continue
					}
					pt, ok := fa.X.Type().Underlying().(*types.Pointer)
					if !ok || !types.Identical(pt.Elem(), e.RngT) {
						continue
					}
					ft := st.Field(fa.Field).Type()
					if _, isSlice := ft.Underlying().(*types.Slice); !isSlice {
						continue
					}
					checked++
					if w := okVal(sto.Val, ft, map[ssa.Value]bool{}, 0); w != "" {
						bad = append(bad, w+" (stored at "+p.Pos(sto.Pos())+")")
					}
				}
			}
		}
		if checked == 0 {
			continue
		}
		n++
		if len(bad) > 0 {
			sort.Strings(bad)
			r.Bad("R-ALLSTORED", key, p.FnPos(e.NewRng), bad[0])
		} else {
			r.Ok("R-ALLSTORED", key, p.FnPos(e.NewRng), fmt.Sprintf("%d stored list(s) are built by appending parse results; no function takes the parsed list and returns another", checked))
		}
	}
	r.Floor("R-ALLSTORED", 20)
}

func init() {
	register("C02", "", ruleAllStored)
}

// ---- R-QUANT-PRE: Contains does not answer from the candidate alone ------------------------------------------
//
// R-QUANT classifies the loops of Contains. An answer given in front of them - a return that no loop
// reaches - is part of the range's meaning too: if it is taken or not depending on the candidate (a
// pre-release filter, a fast reject against precomputed bounds), the range is no longer the
// intersection / union of its comparators. Such a return may depend on the range alone (no comparators)
// or on the candidate being nil.
func ruleQuantPre(p *Prog, r *Report) {
	for _, e := range p.Ecos {
		fn := e.Contains
		key := fmt.Sprintf("%s: Contains answers only through its comparators", e.Name)
		if fn == nil || len(fn.Params) != 2 || fn.Blocks == nil {
			continue
		}
		// values derived from the candidate
		taint := map[ssa.Value]bool{fn.Params[1]: true}
		for changed := true; changed; {
			changed = false
			for _, b := range fn.Blocks {
				for _, ins := range b.Instrs {
					v, ok := ins.(ssa.Value)
					if !ok || taint[v] {
						continue
					}
					for _, op := range ins.Operands(nil) {
						if *op != nil && taint[*op] {
							taint[v] = true
							changed = true
							break
						}
					}
				}
			}
		}
		loops := findLoops(fn)
		inLoop := map[*ssa.BasicBlock]bool{}
		for _, l := range loops {
			for b := range l.body {
				inLoop[b] = true
			}
		}
		// blocks reachable from a loop
		after := map[*ssa.BasicBlock]bool{}
		var mark func(b *ssa.BasicBlock)
		mark = func(b *ssa.BasicBlock) {
			if after[b] {
				return
			}
			after[b] = true
			for _, s := range b.Succs {
				mark(s)
			}
		}
		for _, l := range loops {
			mark(l.header)
		}
		var bad []string
		n := 0
		for _, b := range fn.Blocks {
			if _, ok := b.Instrs[len(b.Instrs)-1].(*ssa.Return); !ok || after[b] || inLoop[b] {
				continue
			}
			n++
			if len(loops) == 0 {
				continue // no fold in this function (it forwards to one): R-QUANT's subject
			}
			if domEdges(b, func(cond ssa.Value, tv bool) bool {
				if !taint[cond] {
					return false
				}
				// candidate == nil / != nil is not a property of the version
				if bo, ok := cond.(*ssa.BinOp); ok && (isNilConst(bo.X) || isNilConst(bo.Y)) {
					return false
				}
				return true
			}) {
				bad = append(bad, p.Pos(b.Instrs[len(b.Instrs)-1].Pos()))
			}
		}
		sort.Strings(bad)
		if len(bad) > 0 {
			r.Und("R-QUANT-PRE", key, p.FnPos(fn), fmt.Sprintf("the return at %s is taken in front of the loop over the comparators, on a condition computed from the candidate version: that answer does not come from the comparators; whether it agrees with their intersection (union) for every candidate is not decided", bad[0]))
		} else {
			r.Ok("R-QUANT-PRE", key, p.FnPos(fn), fmt.Sprintf("%d return(s) in front of the comparator loop, none conditional on the candidate", n))
		}
	}
	r.Floor("R-QUANT-PRE", 20)
}
