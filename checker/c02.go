package main

import (
	"fmt"
	"go/constant"
	"go/token"
	"go/types"
	"sort"
	"strings"

	"golang.org/x/tools/go/ssa"
)

// ---- C02: comparator ranges contain exactly what Compare says -----------------------------------

// expected relation per operator spelling: which signs of Compare(probe, bound) satisfy it
var opTable = map[string][3]bool{ // index 0: cmp<0, 1: cmp==0, 2: cmp>0
	"=": {false, true, false}, "==": {false, true, false},
	"!=": {true, false, true}, "<>": {true, false, true},
	"<": {true, false, false}, "<<": {true, false, false},
	"<=": {true, true, false},
	">":  {false, false, true}, ">>": {false, false, true},
	">=": {false, true, true},
}

type tabLeaf struct {
	w   *world
	res any
}

// tabulate evaluates fn once per abstract world of a single individual; Compare calls of the
// ecosystem are replaced by an opaque sign term.
func (c *aeCtx) tabulate(fn *ssa.Function, args func(r *aeRun) []any) (leaves []tabLeaf, oof string) {
	for i := 0; i < 200; i++ {
		retry := false
		func() {
			defer func() {
				if e := recover(); e != nil {
					switch x := e.(type) {
					case poolMiss:
						c.pools[x.key] = poolInsert(c.pools[x.key], x.c)
						retry = true
					case orderedMiss:
						c.orderedConst[x.key] = true
						retry = true
					case restartAnalysis:
						retry = true
					case needStage:
						c.stages[x.fn] = &stageInfo{}
						retry = true
					case needLoop:
						c.lsum[loopID(x.fn, x.l)] = &loopSummary{why: "loops are not summarised in tabulation"}
						retry = true
					case outOfFragment:
						oof = x.why
					case tooLarge:
						oof = "table too large"
					default:
						panic(e)
					}
				}
			}()
			leaves = nil
			c.explore(1, 200000, func(w *world) {
				r := &aeRun{ctx: c, w: w, ind: [2]int{0, 0}}
				res := r.call(fn, args(r))
				leaves = append(leaves, tabLeaf{w, res})
			})
		}()
		if !retry {
			return
		}
	}
	return nil, "tabulation did not converge"
}

func paramArgs(fn *ssa.Function) func(r *aeRun) []any {
	return func(r *aeRun) []any {
		out := make([]any, len(fn.Params))
		for i, p := range fn.Params {
			key := p.Name()
			if _, ok := p.Type().Underlying().(*types.Basic); ok {
				out[i] = r.mkTerm(key, 0, p.Type(), kindOfType(p.Type()), nil)
			} else {
				out[i] = avRef{key: key, side: 0, t: p.Type()}
			}
		}
		return out
	}
}

// predicateFns: bool functions reachable from Contains that call the ecosystem's Compare.
func predicateFns(p *Prog, e *Eco) []*ssa.Function {
	var out []*ssa.Function
	for _, fn := range p.RepoReachable(e.Contains) {
		if fn.Signature.Results().Len() != 1 || !isBoolType(fn.Signature.Results().At(0).Type()) {
			continue
		}
		calls := false
		for _, b := range fn.Blocks {
			for _, ins := range b.Instrs {
				if c, ok := ins.(*ssa.Call); ok && c.Call.StaticCallee() == e.Compare {
					calls = true
				}
			}
		}
		if calls {
			out = append(out, fn)
		}
	}
	return out
}

func ruleOpSwitch(p *Prog, r *Report) {
	for _, e := range p.Ecos {
		found := false
		probeT := types.NewPointer(e.VerT)
		for _, fn := range predicateFns(p, e) {
			if e.Name != "maven" && countOpConsts(fn) < 3 {
				continue // a shorthand predicate (caret, tilde, ...), not the operator switch: C05 / C20
			}
			c := newAECtx(p)
			c.stageMode = false
			c.compareHook = e.Compare
			c.allowCrossTerm = true
			c.opaqueFns[e.NewVer] = "constructor"
			c.opaqueFns[e.NewRng] = "constructor"
			leaves, oof := c.tabulate(fn, paramArgs(fn))
			fk := p.FnKey(fn)
			// operator term: a string term whose pool contains comparator spellings
			opKey := ""
			var cmpKeys []string
			for _, k := range c.termKeys() {
				if strings.HasPrefix(k, "cmp(") {
					cmpKeys = append(cmpKeys, k)
				}
			}
			nbest := 0
			for k, pool := range c.pools {
				n := 0
				for _, cv := range pool {
					if cv.Kind() == constant.String {
						if _, ok := opTable[constant.StringVal(cv)]; ok {
							n++
						}
					}
				}
				if n > nbest {
					nbest, opKey = n, k
				}
			}
			if oof != "" {
				r.Und("R-OPSWITCH", fk+": tabulated", p.FnPos(fn), "the matching predicate is outside the evaluator's fragment: "+oof)
				found = true
				continue
			}
			// probe parameter: the *Version parameter
			probe := ""
			for _, par := range fn.Params {
				if types.Identical(par.Type(), probeT) {
					probe = par.Name()
					break
				}
			}
			if nbest < 3 {
				// maven-style: two boolean discriminators
				if e.Name == "maven" || nbest == 0 {
					if ok := checkBoolSwitch(p, r, c, fn, leaves, probe); ok {
						found = true
					}
				}
				continue
			}
			found = true
			sort.Strings(cmpKeys)
			pool := c.pools[opKey]
			for ci, cv := range pool {
				if cv.Kind() != constant.String {
					continue
				}
				op := constant.StringVal(cv)
				want, isCmp := opTable[op]
				if !isCmp {
					continue
				}
				key := fmt.Sprintf("%s: operator %q", fk, op)
				got := [3]int{} // 0 unseen, 1 true, 2 false, 3 both
				bad := ""
				for _, lf := range leaves {
					if v, ok := lf.w.pos[posKey(opKey, 0)]; !ok || v != 2*ci+1 {
						continue
					}
					if skipLeaf(c, lf.w) {
						continue
					}
					res, ok := lf.res.(avConst)
					if !ok || res.v.Kind() != constant.Bool {
						bad = "predicate result is not a constant in the abstract domain"
						continue
					}
					val := constant.BoolVal(res.v)
					// cmp position
					signs := []int{0, 1, 2}
					for _, ck := range cmpKeys {
						if cp, ok := lf.w.pos[posKey(ck, 0)]; ok {
							zero := poolIndex(c.pools[ck], constant.MakeInt64(0))
							s := 1
							if cp < 2*zero+1 {
								s = 0
							} else if cp > 2*zero+1 {
								s = 2
							}
							// orientation: cmp(probe,bound) or cmp(bound,probe)
							if !strings.HasPrefix(ck, "cmp("+probe+",") {
								s = 2 - s
							}
							signs = []int{s}
						}
					}
					for _, s := range signs {
						if val {
							got[s] |= 1
						} else {
							got[s] |= 2
						}
					}
				}
				if got == [3]int{} && bad == "" {
					if o, ok := c.originOf[opKey]; ok {
						if dom := c.fieldDomain(o); dom != nil && !domainAllows(dom, pool, 2*ci+1) {
							r.Ok("R-OPSWITCH", key, p.FnPos(fn), "row is unreachable: the parser never stores this operator")
							continue
						}
					}
				}
				names := []string{"Compare(probe,bound) < 0", "== 0", "> 0"}
				for s := 0; s < 3; s++ {
					switch {
					case got[s] == 0:
						bad += fmt.Sprintf("no abstract world reaches %s; ", names[s])
					case got[s] == 3:
						bad += fmt.Sprintf("result for %s depends on something other than the comparison; ", names[s])
					case (got[s] == 1) != want[s]:
						bad += fmt.Sprintf("returns %v when %s, the operator requires %v; ", got[s] == 1, names[s], want[s])
					}
				}
				if bad == "" {
					r.Ok("R-OPSWITCH", key, p.FnPos(fn), "holds exactly for the signs of Compare(probe, bound) the operator denotes")
				} else {
					r.Bad("R-OPSWITCH", key, p.FnPos(fn), bad)
				}
			}
			// R-OPAGREE: every operator the parse side can store has a row here
			if o, ok := c.originOf[opKey]; ok {
				dom := c.fieldDomain(o)
				key := fmt.Sprintf("%s: operators stored by the parser", fk)
				switch {
				case dom == nil || !dom.closed:
					r.Und("R-OPAGREE", key, p.FnPos(fn), "the set of operator strings the parse side can store in "+o.t.Obj().Name()+" is not a finite set of constants (table, regexp alternation, normaliser image)")
				default:
					var missing []string
					for _, s := range dom.allowed {
						if poolIndex(pool, constant.MakeString(s)) < 0 {
							missing = append(missing, s)
						}
					}
					if len(missing) == 0 {
						r.Ok("R-OPAGREE", key, p.FnPos(fn), fmt.Sprintf("parser stores %v; the predicate has a case for each", dom.allowed))
					} else {
						r.Bad("R-OPAGREE", key, p.FnPos(fn), fmt.Sprintf("the parser can store operator(s) %q for which the matching predicate has no case (they match nothing)", missing))
					}
				}
			} else {
				r.Und("R-OPAGREE", fk+": operators stored by the parser", p.FnPos(fn), "operator is not read from a struct field")
			}
			// unknown operator text: must not match
			okUnknown, seenUnknown := true, false
			for _, lf := range leaves {
				v, ok := lf.w.pos[posKey(opKey, 0)]
				if !ok || v%2 == 1 {
					continue
				}
				seenUnknown = true
				if res, ok := lf.res.(avConst); !ok || res.v.Kind() != constant.Bool || constant.BoolVal(res.v) {
					okUnknown = false
				}
			}
			if seenUnknown {
				if okUnknown {
					r.Ok("R-OPSWITCH", fk+": unknown operator", p.FnPos(fn), "an operator outside the table matches nothing")
				} else {
					r.Bad("R-OPSWITCH", fk+": unknown operator", p.FnPos(fn), "an operator string outside the table can match")
				}
			}
		}
		if !found {
			r.Und("R-OPSWITCH", e.Name+": predicate found", p.FnPos(e.Contains), "no matching predicate (a bool function reachable from Contains that calls Compare and switches on an operator) was found")
		}
	}
	r.Floor("R-OPSWITCH", 100)
	r.Floor("R-OPAGREE", 19)
}

// countOpConsts: distinct comparator spellings the function compares a string with
func countOpConsts(fn *ssa.Function) int {
	seen := map[string]bool{}
	for _, b := range fn.Blocks {
		for _, ins := range b.Instrs {
			bo, ok := ins.(*ssa.BinOp)
			if !ok || bo.Op != token.EQL {
				continue
			}
			for _, v := range []ssa.Value{bo.X, bo.Y} {
				if s, ok := constString(v); ok {
					if _, isOp := opTable[s]; isOp {
						seen[s] = true
					}
				}
			}
		}
	}
	return len(seen)
}

// skipLeaf: worlds in which the bound is absent (nil) or failed to re-parse are not rows of
// the operator table (bound presence per operator: C06 R-PANIC-NIL; deferred validation: noted).
func skipLeaf(c *aeCtx, w *world) bool {
	for k, v := range w.pos {
		key := k[:strings.LastIndex(k, "|")]
		ti := c.terms[key]
		if ti == nil || ti.kind != akNil {
			continue
		}
		if strings.HasSuffix(key, "?nil") && v == 0 {
			return true // bound pointer nil
		}
		if strings.Contains(key, "NewVersion(") && strings.HasSuffix(key, "#1") && v == 1 {
			return true // re-parse error
		}
	}
	return false
}

// checkBoolSwitch: maven-style predicate: two boolean discriminators select among >=, >, <=, <.
func checkBoolSwitch(p *Prog, r *Report, c *aeCtx, fn *ssa.Function, leaves []tabLeaf, probe string) bool {
	var bools []string
	for _, k := range c.termKeys() {
		ti := c.terms[k]
		if ti.kind == akBool {
			bools = append(bools, k)
		}
	}
	sort.Strings(bools)
	var cmpKey string
	for _, k := range c.termKeys() {
		if strings.HasPrefix(k, "cmp(") {
			cmpKey = k
		}
	}
	if len(bools) != 2 || cmpKey == "" {
		return false
	}
	fk := p.FnKey(fn)
	rels := map[[2]int][3]int{}
	for _, lf := range leaves {
		if skipLeaf(c, lf.w) {
			continue
		}
		b0, ok0 := lf.w.pos[posKey(bools[0], 0)]
		b1, ok1 := lf.w.pos[posKey(bools[1], 0)]
		res, okr := lf.res.(avConst)
		if !okr || res.v.Kind() != constant.Bool {
			continue
		}
		cands0, cands1 := []int{0, 1}, []int{0, 1}
		if ok0 {
			cands0 = []int{b0}
		}
		if ok1 {
			cands1 = []int{b1}
		}
		signs := []int{0, 1, 2}
		if cp, ok := lf.w.pos[posKey(cmpKey, 0)]; ok {
			zero := poolIndex(c.pools[cmpKey], constant.MakeInt64(0))
			s := 1
			if cp < 2*zero+1 {
				s = 0
			} else if cp > 2*zero+1 {
				s = 2
			}
			if !strings.HasPrefix(cmpKey, "cmp("+probe+",") {
				s = 2 - s
			}
			signs = []int{s}
		}
		for _, x := range cands0 {
			for _, y := range cands1 {
				g := rels[[2]int{x, y}]
				for _, s := range signs {
					if constant.BoolVal(res.v) {
						g[s] |= 1
					} else {
						g[s] |= 2
					}
				}
				rels[[2]int{x, y}] = g
			}
		}
	}
	name := func(g [3]int) string {
		t := [3]bool{g[0] == 1, g[1] == 1, g[2] == 1}
		for op, w := range opTable {
			if w == t && len(op) <= 2 && op != "==" && op != "<>" && op != "<<" && op != ">>" {
				return op
			}
		}
		return "?"
	}
	seen := map[string][2]int{}
	for x := 0; x < 2; x++ {
		for y := 0; y < 2; y++ {
			g := rels[[2]int{x, y}]
			key := fmt.Sprintf("%s: %s=%v %s=%v", fk, bools[0], x == 1, bools[1], y == 1)
			ok := true
			for s := 0; s < 3; s++ {
				if g[s] != 1 && g[s] != 2 {
					ok = false
				}
			}
			op := name(g)
			if !ok || op == "?" || op == "=" || op == "!=" {
				r.Bad("R-OPSWITCH", key, p.FnPos(fn), "bound kind does not denote one of >=, >, <=, < on the sign of Compare(probe, bound)")
				continue
			}
			if prev, dup := seen[op]; dup {
				r.Bad("R-OPSWITCH", key, p.FnPos(fn), fmt.Sprintf("same relation %s as valuation %v: the two flags do not distinguish four bound kinds", op, prev))
				continue
			}
			seen[op] = [2]int{x, y}
			r.Ok("R-OPSWITCH", key, p.FnPos(fn), "denotes "+op)
		}
	}
	// one flag toggles direction, the other strictness
	if len(seen) == 4 {
		dirOf := func(op string) byte { return op[0] }
		strict := func(op string) bool { return len(op) == 1 }
		opAt := map[[2]int]string{}
		for op, v := range seen {
			opAt[v] = op
		}
		okShape := false
		for _, dirFlag := range []int{0, 1} {
			good := true
			for x := 0; x < 2; x++ {
				for y := 0; y < 2; y++ {
					v := [2]int{x, y}
					o := v
					o[dirFlag] = 1 - o[dirFlag]
					if dirOf(opAt[v]) == dirOf(opAt[o]) || strict(opAt[v]) != strict(opAt[o]) {
						good = false
					}
					o2 := v
					o2[1-dirFlag] = 1 - o2[1-dirFlag]
					if dirOf(opAt[v]) != dirOf(opAt[o2]) || strict(opAt[v]) == strict(opAt[o2]) {
						good = false
					}
				}
			}
			if good {
				okShape = true
			}
		}
		if okShape {
			r.Ok("R-OPSWITCH", fk+": flag roles", p.FnPos(fn), "one flag selects lower/upper bound, the other inclusive/exclusive")
		} else {
			r.Bad("R-OPSWITCH", fk+": flag roles", p.FnPos(fn), "the two flags do not act as (direction, inclusiveness)")
		}
	}
	return true
}

// ---- R-OPPREFIX: operator tables scanned with HasPrefix are prefix-safe -----------------------

// constArrayOf: v is an element load from a slice literal of string constants in the same function
func constArrayOf(v ssa.Value) ([]string, *ssa.Alloc) {
	u, ok := v.(*ssa.UnOp)
	if !ok || u.Op != token.MUL {
		return nil, nil
	}
	ia, ok := u.X.(*ssa.IndexAddr)
	if !ok {
		return nil, nil
	}
	sl, ok := ia.X.(*ssa.Slice)
	if !ok {
		return nil, nil
	}
	al, ok := sl.X.(*ssa.Alloc)
	if !ok {
		return nil, nil
	}
	arr, ok := al.Type().Underlying().(*types.Pointer).Elem().Underlying().(*types.Array)
	if !ok {
		return nil, nil
	}
	out := make([]string, arr.Len())
	n := 0
	for _, ref := range *al.Referrers() {
		if ia2, ok := ref.(*ssa.IndexAddr); ok {
			ci, okc := constInt(ia2.Index)
			for _, r2 := range *ia2.Referrers() {
				if s, ok := r2.(*ssa.Store); ok && s.Addr == ia2 {
					cs, oks := constString(s.Val)
					if !okc || !oks || ci < 0 || ci >= arr.Len() {
						return nil, nil
					}
					out[ci] = cs
					n++
				}
			}
		}
	}
	if int64(n) != arr.Len() {
		return nil, nil
	}
	return out, al
}

func ruleOpPrefix(p *Prog, r *Report) {
	fns := map[*ssa.Function]bool{}
	for _, e := range p.Ecos {
		for _, fn := range p.RepoReachable(e.NewRng) {
			fns[fn] = true
		}
	}
	for _, fn := range p.RepoReachable(p.PkgFunc(p.Vers, "Contains")) {
		fns[fn] = true
	}
	var list []*ssa.Function
	for fn := range fns {
		list = append(list, fn)
	}
	list = p.Representatives(sortFns(p, list))
	for _, fn := range list {
		seen := map[*ssa.Alloc]bool{}
		for _, b := range fn.Blocks {
			for _, ins := range b.Instrs {
				c, ok := ins.(*ssa.Call)
				if !ok {
					continue
				}
				f := c.Call.StaticCallee()
				if f == nil || extName(f) != "strings.HasPrefix" {
					continue
				}
				ops, al := constArrayOf(c.Call.Args[1])
				if ops == nil || seen[al] {
					continue
				}
				seen[al] = true
				isOps := 0
				for _, o := range ops {
					if _, ok := opTable[o]; ok {
						isOps++
					}
				}
				if isOps < 2 {
					continue
				}
				key := fmt.Sprintf("%s: operator table %v", p.FnKey(fn), ops)
				bad := ""
				for i := range ops {
					for j := i + 1; j < len(ops); j++ {
						if ops[i] != ops[j] && strings.HasPrefix(ops[j], ops[i]) {
							bad += fmt.Sprintf("%q is tried before %q and is a prefix of it, so %q can never be recognised; ", ops[i], ops[j], ops[j])
						}
					}
				}
				if bad == "" {
					r.Ok("R-OPPREFIX", key, p.Pos(c.Pos()), "no operator is a proper prefix of a later one (first match wins)")
				} else {
					r.Bad("R-OPPREFIX", key, p.Pos(c.Pos()), bad)
				}
			}
		}
	}
	r.Floor("R-OPPREFIX", 12)
}

func sortFns(p *Prog, fns []*ssa.Function) []*ssa.Function {
	sort.Slice(fns, func(i, j int) bool {
		a, b := p.FnKey(fns[i]), p.FnKey(fns[j])
		if a != b {
			return a < b
		}
		return fns[i].String() < fns[j].String()
	})
	return fns
}

// ---- R-OPREGEX: ordered operator alternations of constraint patterns are prefix-safe --------------

// rawGroup: source text of the k-th capture group of a pattern and its top-level alternatives
func rawGroup(pat string, k int) ([]string, bool) {
	depth, n := 0, 0
	start := -1
	inClass := false
	var alts []string
	cur := 0
	for i := 0; i < len(pat); i++ {
		ch := pat[i]
		if ch == '\\' {
			i++
			continue
		}
		if inClass {
			if ch == ']' {
				inClass = false
			}
			continue
		}
		switch ch {
		case '[':
			inClass = true
		case '(':
			capturing := !(i+1 < len(pat) && pat[i+1] == '?')
			if capturing {
				n++
				if n == k && start < 0 {
					start = i + 1
					cur = start
					depth = 1
					continue
				}
			}
			if start >= 0 {
				depth++
			}
		case ')':
			if start >= 0 {
				depth--
				if depth == 0 {
					alts = append(alts, pat[cur:i])
					return alts, true
				}
			}
		case '|':
			if start >= 0 && depth == 1 {
				alts = append(alts, pat[cur:i])
				cur = i + 1
			}
		}
	}
	return nil, false
}

func unescapeLiteral(s string) (string, bool) {
	var sb strings.Builder
	for i := 0; i < len(s); i++ {
		ch := s[i]
		if ch == '\\' && i+1 < len(s) {
			i++
			sb.WriteByte(s[i])
			continue
		}
		if strings.ContainsRune("[](){}.*+?|^$", rune(ch)) {
			return "", false
		}
		sb.WriteByte(ch)
	}
	return sb.String(), true
}

func ruleOpRegex(p *Prog, r *Report) {
	t := p.regexes()
	type item struct {
		pat string
		pos token.Pos
		pkg string
	}
	var items []item
	for g, ri := range t.byGlobal {
		items = append(items, item{ri.Pattern, g.Pos(), g.Pkg.Pkg.Name()})
	}
	sort.Slice(items, func(i, j int) bool { return items[i].pkg+items[i].pat < items[j].pkg+items[j].pat })
	for _, it := range items {
		ri := analyseRegex(it.pat)
		for k := 1; k <= ri.NumSub; k++ {
			alts, ok := rawGroup(it.pat, k)
			if !ok || len(alts) < 2 {
				continue
			}
			var lits []string
			nOps := 0
			for _, a := range alts {
				l, ok := unescapeLiteral(a)
				if !ok {
					lits = nil
					break
				}
				lits = append(lits, l)
				if _, isOp := opTable[l]; isOp {
					nOps++
				}
			}
			if lits == nil || nOps < 2 {
				continue
			}
			key := fmt.Sprintf("%s: pattern group %d alternatives %v", it.pkg, k, lits)
			bad := ""
			for i := range lits {
				for j := i + 1; j < len(lits); j++ {
					if lits[i] != lits[j] && strings.HasPrefix(lits[j], lits[i]) {
						bad += fmt.Sprintf("alternative %q precedes %q and is a prefix of it: leftmost-first matching never selects %q; ", lits[i], lits[j], lits[j])
					}
				}
			}
			if bad == "" {
				r.Ok("R-OPREGEX", key, p.Pos(it.pos), "ordered alternation is prefix-safe")
			} else {
				r.Bad("R-OPREGEX", key, p.Pos(it.pos), bad)
			}
		}
	}
	r.Floor("R-OPREGEX", 6)
}

func init() {
	register("C02", "Comparator semantics of native ranges: (R-OPSWITCH) the matching predicate of every ecosystem, tabulated by the abstract evaluator over (operator, sign of Compare(probe,bound)), equals the fixed operator table (=,== -> 0; !=,<> -> !=0; <,<< -> <0; <= ; >,>> ; >=), orientation included; maven's two flags select exactly >=,>,<=,<; unknown operators match nothing; (R-OPPREFIX / R-OPREGEX) operator tables scanned first-match-wins and ordered regexp alternations are prefix-safe; (R-OPAGREE) every operator the parse side can store has a row on the match side; (R-QUANT) Contains is ALL over []constraint and ANY-of-ALL over [][]constraint.", ruleOpSwitch, ruleOpPrefix, ruleOpRegex)
}
