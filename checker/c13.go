package main

import (
	"fmt"
	"go/constant"
	"go/token"
	"go/types"
	"sort"
	"strings"

	"golang.org/x/tools/go/ssa"
)

// ---- C13: RubyGems versions order as Gem::Version does ---------------------------------------------------
//
// After the repair of Compare (one position-wise pass over the segment list) the element rules of the
// property statement are a table of the code: R-GEM-TABLE reads the abstract position table of the zip
// loop, R-GEM-TRIM the trailing-zero trimming, R-GEM-PRE the meaning of '-'.

func ruleGem(p *Prog, r *Report) {
	e := ecoByName(p, "gem")
	if e == nil {
		r.Und("R-GEM-TABLE", "gem: ecosystem", "", "ecosystem not found")
		return
	}
	pos := p.FnPos(e.Compare)
	// ---- R-GEM-TABLE -------------------------------------------------------------------------------
	{
		key := "gem: segments compare position by position: numbers as integers, strings as text, string < number, missing = 0"
		c := newAECtx(p)
		c.stageMode = false
		leaves, loopFn, seq, oof := zipWorlds(c, e.Compare)
		if oof != "" {
			r.Und("R-GEM-TABLE", key, pos, "Compare's position-wise loop: "+oof)
		} else {
			isNumK, intK, strK, presK := "", "", "", "present:"+seq
			for _, k := range c.termKeys() {
				ti := c.terms[k]
				if !strings.HasPrefix(k, seq+"[i].") || len(ti.base) != 0 {
					continue
				}
				switch {
				case ti.kind == akBool:
					isNumK = k
				case isIntType(ti.t):
					intK = k
				case isStringType(ti.t):
					strK = k
				}
			}
			type item struct {
				kind int // 0 absent, 1 number, 2 string
				zero bool
			}
			get := func(w *world, ind int) (item, bool) {
				if w.pos[posKey(presK, ind)] == 0 {
					return item{kind: 0}, true
				}
				nv, ok := w.pos[posKey(isNumK, ind)]
				if !ok {
					return item{}, false
				}
				if nv == 1 {
					it := item{kind: 1}
					if v, ok := w.pos[posKey(intK, ind)]; ok {
						z := poolIndexInt(c.pools[intK], 0)
						if z >= 0 && v < 2*z+1 {
							return it, false // negative: segments are parsed from digits
						}
						it.zero = z >= 0 && v == 2*z+1
					}
					return it, true
				}
				return item{kind: 2}, true
			}
			var bad []string
			rows := map[string]int{}
			skipped := 0
			for _, lf := range leaves {
				w := lf.w
				if w.pos[posKey(presK, 0)] == 0 && w.pos[posKey(presK, 1)] == 0 {
					continue
				}
				desc := w.describe(c.pools, c.terms)
				x, okx := get(w, 0)
				y, oky := get(w, 1)
				got, why := outcomeValue(lf.o)
				if why == "TAIL0" {
					why = ""
				}
				if !okx || !oky {
					_, ax := w.pos[posKey(isNumK, 0)]
					_, ay := w.pos[posKey(isNumK, 1)]
					if (w.pos[posKey(presK, 0)] == 1 && !ax) || (w.pos[posKey(presK, 1)] == 1 && !ay) {
						bad = append(bad, "segments are ordered without asking whether they are numbers: ["+desc+"]")
					} else {
						skipped++
					}
					continue
				}
				exp, row, decided := int64(0), "", true
				numVsZero := func(it item, ind int) (int64, bool) {
					if _, has := w.pos[posKey(intK, ind)]; !has {
						return 0, false
					}
					if it.zero {
						return 0, true
					}
					return 1, true
				}
				switch {
				case x.kind == 1 && y.kind == 1:
					row = "number vs number"
					v, ok := c.cmpAssigned(w, intK, 0, 1)
					exp, decided = int64(v), ok
				case x.kind == 2 && y.kind == 2:
					row = "string vs string"
					v, ok := c.cmpAssigned(w, strK, 0, 1)
					exp, decided = int64(v), ok
				case x.kind == 2 && y.kind == 1:
					exp, row = -1, "string vs number"
				case x.kind == 1 && y.kind == 2:
					exp, row = 1, "number vs string"
				case x.kind == 0 && y.kind == 1:
					row = "missing vs number"
					v, ok := numVsZero(y, 1)
					exp, decided = -v, ok
				case x.kind == 1 && y.kind == 0:
					row = "number vs missing"
					exp, decided = numVsZero(x, 0)
				case x.kind == 0 && y.kind == 2:
					exp, row = 1, "missing vs string"
				case x.kind == 2 && y.kind == 0:
					exp, row = -1, "string vs missing"
				}
				if !decided {
					bad = append(bad, fmt.Sprintf("row %s is decided without comparing the values: [%s]", row, desc))
					continue
				}
				rows[row]++
				if why != "" || got != exp {
					bad = append(bad, fmt.Sprintf("row %s: Gem::Version gives %d, the position gives %d %s [%s]", row, exp, got, why, desc))
				}
			}
			var rk []string
			for k, n := range rows {
				rk = append(rk, fmt.Sprintf("%s ×%d", k, n))
			}
			sort.Strings(rk)
			switch {
			case isNumK == "" || intK == "" || strK == "":
				r.Und("R-GEM-TABLE", key, p.FnPos(loopFn), "segment terms (isNumeric, number, text) not found")
			case len(bad) > 0:
				sort.Strings(bad)
				r.Bad("R-GEM-TABLE", key, p.FnPos(loopFn), fmt.Sprintf("%d disagreeing abstract position worlds, e.g. %s", len(bad), bad[0]))
			case len(rows) < 8:
				r.Und("R-GEM-TABLE", key, p.FnPos(loopFn), fmt.Sprintf("rows not all exercised: %v", rk))
			default:
				r.Ok("R-GEM-TABLE", key, p.FnPos(loopFn), fmt.Sprintf("%d abstract position worlds agree (%s)", len(leaves)-skipped, strings.Join(rk, "; ")))
			}
			if len(bad) == 0 {
				c2 := newAECtx(p)
				c2.stageMode = false
				n, zbad, zoof := zipDecides(c2, e.Compare, nil)
				k2 := "gem: Compare is exactly the position-wise comparison of the whole segment lists"
				switch {
				case zoof != "":
					r.Und("R-GEM-TABLE", k2, pos, zoof)
				case len(zbad) > 0:
					r.Bad("R-GEM-TABLE", k2, pos, zbad[0])
				default:
					r.Ok("R-GEM-TABLE", k2, pos, fmt.Sprintf("in all %d abstract worlds the result is the sign of the zip relation over .segments", n))
				}
			}
			// the zipped sequence is the version's whole segment list
			zipped := ""
			c3 := newAECtx(p)
			c3.stageMode = false
			c3.queryPair(e.Compare, nil, nil)
			for k := range c3.terms {
				if strings.HasPrefix(k, "zip:") {
					zipped = strings.TrimSuffix(k[strings.LastIndex(k, "(")+1:], ")")
				}
			}
			if !strings.HasPrefix(zipped, ".") || strings.Contains(zipped, "(") {
				r.Bad("R-GEM-TABLE", "gem: the zipped sequence is the stored segment list", pos, fmt.Sprintf("Compare zips %q, not a field of Version: numbers and strings would lose their positions", zipped))
			} else {
				r.Ok("R-GEM-TABLE", "gem: the zipped sequence is the stored segment list", pos, "Compare zips the field "+zipped+" of both versions")
			}
			_ = seq
		}
	}

	// ---- R-GEM-TRIM: trailing zero segments are ignored ---------------------------------------------------
	{
		key := "gem: trailing zero segments are trimmed from the complete list"
		var trimFn *ssa.Function
		for _, fn := range p.RepoReachable(e.NewVer) {
			if fn.Pkg == nil || fn.Pkg.Pkg != e.VerT.Obj().Pkg() || fn.Signature.Params().Len() != 1 || fn.Signature.Results().Len() != 1 {
				continue
			}
			if _, ok := fn.Signature.Params().At(0).Type().Underlying().(*types.Slice); !ok || !types.Identical(fn.Signature.Params().At(0).Type(), fn.Signature.Results().At(0).Type()) {
				continue
			}
			if trailingTrimShape(fn) {
				trimFn = fn
			}
		}
		if trimFn == nil {
			r.Bad("R-GEM-TRIM", key, p.FnPos(e.NewVer), "no function that drops trailing segments in a loop is reachable from the constructor: 1.0 and 1.0.0 would differ only through the 'missing = 0' rule")
		} else {
			// the loop guard: last segment is numeric and its value is 0
			l := findLoops(trimFn)[0]
			numeric, zero := false, false
			for b := range l.body {
				for _, ins := range b.Instrs {
					if bo, ok := ins.(*ssa.BinOp); ok && (bo.Op == token.EQL || bo.Op == token.NEQ) {
						if n, ok := constInt(bo.Y); ok && n == 0 && isIntType(bo.X.Type()) {
							zero = true
						}
					}
					if iff, ok := ins.(*ssa.If); ok {
						if ld, ok := iff.Cond.(*ssa.UnOp); ok && isBoolType(ld.Type()) {
							numeric = true
						}
					}
				}
			}
			var inLoop []string
			sites := 0
			for _, fn := range p.RepoReachable(e.NewVer) {
				loops := findLoops(fn)
				for _, b := range fn.Blocks {
					for _, ins := range b.Instrs {
						if c, ok := ins.(*ssa.Call); ok && c.Call.StaticCallee() == trimFn {
							sites++
							for _, lp := range loops {
								if lp.body[b] {
									inLoop = append(inLoop, p.Pos(c.Pos()))
								}
							}
						}
					}
				}
			}
			switch {
			case !numeric || !zero:
				r.Bad("R-GEM-TRIM", key, p.FnPos(trimFn), "the trimming loop does not test 'last segment is numeric and equals 0'")
			case sites == 0:
				r.Bad("R-GEM-TRIM", key, p.FnPos(trimFn), trimFn.Name()+" is never applied on the way to the stored segments")
			case len(inLoop) > 0:
				r.Bad("R-GEM-TRIM", key, inLoop[0], trimFn.Name()+" is applied inside a loop, to a list still being built: zeros in front of a later segment would be dropped")
			default:
				r.Ok("R-GEM-TRIM", key, p.FnPos(trimFn), fmt.Sprintf("%s drops trailing segments while the last one is numeric and 0; applied %d time(s), never inside a loop", trimFn.Name(), sites))
			}
		}
	}

	// ---- R-GEM-ONLYTRIM: nothing but the trailing-zero trimming removes segments ---------------------------
	{
		key := "gem: the stored list loses segments only through the trailing-zero trimming"
		var segT types.Type
		if st, ok := e.VerT.Underlying().(*types.Struct); ok {
			for i := 0; i < st.NumFields(); i++ {
				if sl, ok := st.Field(i).Type().Underlying().(*types.Slice); ok {
					if _, isStruct := sl.Elem().Underlying().(*types.Struct); isStruct {
						segT = st.Field(i).Type()
					}
				}
			}
		}
		var trim *ssa.Function
		for _, fn := range p.RepoReachable(e.NewVer) {
			if fn.Signature.Params().Len() == 1 && fn.Signature.Results().Len() == 1 && segT != nil && types.Identical(fn.Signature.Params().At(0).Type(), segT) && types.Identical(fn.Signature.Results().At(0).Type(), segT) && trailingTrimShape(fn) {
				trim = fn
			}
		}
		var cuts []string
		var leadCuts []*ssa.Slice
		for _, fn := range p.RepoReachable(e.NewVer) {
			if fn == trim || fn.Blocks == nil || segT == nil {
				continue
			}
			for _, b := range fn.Blocks {
				for _, ins := range b.Instrs {
					if sl, ok := ins.(*ssa.Slice); ok && types.Identical(sl.X.Type(), segT) && (sl.High != nil || sl.Low != nil) {
						if leadRunCut(sl) {
							// the list taken apart where its leading numeric segments end (R-GEM-CANON looks at what happens to the parts)
							leadCuts = append(leadCuts, sl)
							continue
						}
						cuts = append(cuts, fn.Name()+" ("+p.Pos(sl.Pos())+")")
					}
				}
			}
		}
		sort.Strings(cuts)
		switch {
		case segT == nil:
			r.Und("R-GEM-ONLYTRIM", key, p.FnPos(e.NewVer), "segment list field not identified")
		case len(cuts) > 0:
			r.Bad("R-GEM-ONLYTRIM", key, p.FnPos(e.NewVer), "the segment list is cut outside the trailing-zero trimming, in "+cuts[0]+": segments in front of a later one can be dropped, and a version then no longer sorts with the versions that share its leading segments")
		default:
			r.Ok("R-GEM-ONLYTRIM", key, p.FnPos(e.NewVer), fmt.Sprintf("no function of the constructor's call tree other than the trimming takes a sub-slice of a segment list (%d cut(s) where the leading numeric segments end: R-GEM-CANON)", len(leadCuts)))
		}
		// ---- R-GEM-CANON: the zeros that end the leading numeric segments are dropped too ---------------------
		// Gem::Version#<=> compares canonical segments: trailing zeros are dropped from the segments in front of
		// the first string segment and from the rest, so 1.0.rc1 and 1.rc1 are the same version. Position by
		// position with "missing = 0" the zeros at the end of the list take care of themselves; those in front of
		// the first letter do not. The constructor has to hand the leading numeric run to the trimming on its own.
		{
			key := "gem: zero segments that end the leading numeric segments are dropped"
			var head, tail *ssa.Slice
			for _, sl := range leadCuts {
				if sl.Low == nil && sl.High != nil {
					for _, ref := range *sl.Referrers() {
						if c, ok := ref.(*ssa.Call); ok && trim != nil && c.Call.StaticCallee() == trim {
							head = sl
						}
					}
				}
				if sl.Low != nil && sl.High == nil {
					tail = sl
				}
			}
			switch {
			case trim == nil:
				r.Und("R-GEM-CANON", key, p.FnPos(e.NewVer), "trailing-zero trimming not identified")
			case head == nil:
				r.Bad("R-GEM-CANON", key, p.FnPos(e.NewVer), "the trimming is never applied to the leading numeric segments on their own (list[:k] with k the end of the leading run of numeric segments): zeros in front of the first letter stay, so 1.0.rc1 and 1.rc1 compare unequal where Gem::Version#<=> compares canonical segments and gives 0")
			case tail == nil || tail.X != head.X || tail.Low != head.High:
				r.Bad("R-GEM-CANON", key, p.Pos(head.Pos()), "the segments from the first string segment on (list[k:]) are not kept next to the trimmed leading numeric segments")
			case !inConstructorPath(p, e.NewVer, head.Parent()):
				r.Bad("R-GEM-CANON", key, p.Pos(head.Pos()), head.Parent().Name()+" is not applied on the way to the stored segments")
			default:
				r.Ok("R-GEM-CANON", key, p.Pos(head.Pos()), fmt.Sprintf("%s hands list[:k] (k = end of the leading numeric run) to %s and keeps list[k:] behind it", head.Parent().Name(), trim.Name()))
			}
		}
	}

	// ---- R-GEM-PRE: '-' means '.pre.' ------------------------------------------------------------------------
	{
		key := "gem: a hyphen introduces the segment \"pre\" followed by ordinary segments"
		// in the constructor's call tree: a call of the segment constructor on the constant "pre"
		var mk *ssa.Function // string -> segment
		for _, fn := range p.RepoReachable(e.NewVer) {
			if fn.Pkg != nil && fn.Pkg.Pkg == e.VerT.Obj().Pkg() && fn.Signature.Params().Len() == 1 && isStringType(fn.Signature.Params().At(0).Type()) && fn.Signature.Results().Len() == 1 {
				if _, ok := fn.Signature.Results().At(0).Type().Underlying().(*types.Struct); ok {
					mk = fn
				}
			}
		}
		preSite, forced, conditional := "", "", ""
		perHyphen := false
		skipped := ""
		for _, fn := range p.RepoReachable(e.NewVer) {
			for _, b := range fn.Blocks {
				for _, ins := range b.Instrs {
					if c, ok := ins.(*ssa.Call); ok && mk != nil && c.Call.StaticCallee() == mk {
						if s, ok := constString(c.Call.Args[0]); ok && s == "pre" {
							preSite = p.Pos(c.Pos())
							// the insertion may depend on the presence of the hyphen part only, not on its content
							loops := findLoops(fn)
							domEdges(b, func(cond ssa.Value, tv bool) bool {
								// leaving an earlier loop is not a condition on the hyphen part
								if refs := cond.Referrers(); refs != nil {
									for _, ref := range *refs {
										if iff, ok := ref.(*ssa.If); ok {
											for _, l := range loops {
												if l.header == iff.Block() && !l.body[b] {
													return false
												}
											}
										}
									}
								}
								// the iteration test of a loop around the insertion: fine when the loop runs over the
								// hyphen-separated groups (every '-' gets its "pre")
								if bo, ok := cond.(*ssa.BinOp); ok && bo.Op == token.LSS {
									for _, l := range loops {
										if l.body[b] && l.header == iffBlockOf(cond) {
											if lv, ok := lenArgAny(bo.Y); ok {
												if sc, ok := lv.(*ssa.Call); ok {
													if g := sc.Call.StaticCallee(); g != nil && extName(g) == "strings.Split" {
														if sep, ok := constString(sc.Call.Args[1]); ok && sep == "-" {
															perHyphen = true
															// and in every iteration: the insertion dominates the way back to the loop head
															for _, back := range l.backs {
																if !b.Dominates(back) {
																	skipped = p.Pos(c.Pos())
																}
															}
															return false
														}
													}
												}
											}
										}
									}
								}
								if !presenceTest(cond) {
									conditional = p.Pos(cond.Pos()) + " " + cond.String()
								}
								return false
							})
						}
					}
					// a segment literal with isNumeric forced to false outside the segment constructor
					if st, ok := ins.(*ssa.Store); ok && fn != mk {
						if fa, ok := st.Addr.(*ssa.FieldAddr); ok {
							if pt, ok := fa.X.Type().Underlying().(*types.Pointer); ok {
								if sst, ok := pt.Elem().Underlying().(*types.Struct); ok && fa.Field < sst.NumFields() && isBoolType(sst.Field(fa.Field).Type()) {
									if cv, ok := st.Val.(*ssa.Const); ok && cv.Value != nil && cv.Value.Kind() == constant.Bool && !constant.BoolVal(cv.Value) && fn.Pkg != nil && fn.Pkg.Pkg == e.VerT.Obj().Pkg() && fn.Name() != "init" {
										forced = p.Pos(st.Pos())
									}
								}
							}
						}
					}
				}
			}
		}
		switch {
		case mk == nil:
			r.Und("R-GEM-PRE", key, p.FnPos(e.NewVer), "segment constructor (string -> segment) not found")
		case preSite == "":
			r.Bad("R-GEM-PRE", key, p.FnPos(e.NewVer), "no segment \"pre\" is inserted for a hyphen: 1.0.0-1 would not be a pre-release of 1.0.0")
		case conditional != "":
			r.Bad("R-GEM-PRE", key, preSite, "the segment \"pre\" is inserted only under the condition "+conditional+", which looks at more than the presence of the hyphen part: Gem::Version replaces every '-' by '.pre.'")
		case forced != "":
			r.Bad("R-GEM-PRE", key, forced, "a segment is built with isNumeric forced to false outside the segment constructor: numbers after a hyphen would compare as text (alpha.10 < alpha.2)")
		default:
			r.Ok("R-GEM-PRE", key, preSite, fmt.Sprintf("the hyphen branch appends %s(\"pre\") and builds the following parts with %s like any other segment", mk.Name(), mk.Name()))
		}
		// every hyphen: Gem::Version replaces each '-' by '.pre.', and RubyGems' pattern allows several
		if mk != nil && preSite != "" {
			key := "gem: every hyphen introduces the segment \"pre\""
			if perHyphen && skipped != "" {
				r.Bad("R-GEM-PRE", key, skipped, "inside the loop over the hyphen-separated groups there is a path through an iteration that does not append the segment \"pre\": the insertion depends on the content of the group, where Gem::Version replaces every '-' by '.pre.' (1.0.0-pre is 1.0.0.pre.pre, below 1.0.0.pre)")
			} else if perHyphen {
				r.Ok("R-GEM-PRE", key, preSite, "the segment is appended once per group of strings.Split(hyphen part, \"-\")")
			} else {
				r.Bad("R-GEM-PRE", key, preSite, "the segment \"pre\" is appended once, not once per '-': after the first hyphen a further '-' stays inside a segment (1.0-a-b gets the segment \"a-b\"), where Gem::Version reads 1.0.pre.a.pre.b; 1.0-a-b then sorts above 1.0-a instead of below")
			}
		}
	}
	r.Floor("R-GEM-TABLE", 3)
	r.Floor("R-GEM-CANON", 1)
	r.Floor("R-GEM-TRIM", 1)
	r.Floor("R-GEM-PRE", 1)
}

// presenceTest: the condition only tests whether a text is empty or whether a separator was found
func presenceTest(cond ssa.Value) bool {
	switch x := cond.(type) {
	case *ssa.BinOp:
		switch x.Op {
		case token.EQL, token.NEQ, token.LSS, token.GTR, token.GEQ, token.LEQ:
		default:
			return false
		}
		if isEmptyConst(x.X) || isEmptyConst(x.Y) {
			return true
		}
		for _, side := range []ssa.Value{x.X, x.Y} {
			other := x.Y
			if side == x.Y {
				other = x.X
			}
			if _, ok := constInt(other); !ok {
				continue
			}
			if c, ok := side.(*ssa.Call); ok {
				if b, ok := c.Call.Value.(*ssa.Builtin); ok && b.Name() == "len" {
					return true
				}
				if f := c.Call.StaticCallee(); f != nil {
					switch extName(f) {
					case "strings.Index", "strings.IndexByte", "strings.IndexRune", "strings.LastIndex", "strings.Count":
						return true
					}
				}
			}
			if _, ok := side.(*ssa.Phi); ok {
				return true // an index kept in a variable
			}
		}
		return false
	case *ssa.Extract:
		if c, ok := x.Tuple.(*ssa.Call); ok {
			if f := c.Call.StaticCallee(); f != nil && extName(f) == "strings.Cut" && x.Index == 2 {
				return true
			}
		}
	case *ssa.Call:
		if f := x.Call.StaticCallee(); f != nil && extName(f) == "strings.Contains" {
			return true
		}
	case *ssa.UnOp:
		if x.Op == token.NOT {
			return presenceTest(x.X)
		}
	}
	return false
}

func init() {
	register("C13", "RubyGems versions order as Gem::Version does", ruleGem)
}

func init() {
	if false {
		_ = fmt.Sprint
	}
}

// trailingTrimShape: fn(xs) xs drops elements from the end of its parameter in a loop, in either
// spelling: `for ... { xs = xs[:len(xs)-1] }` or `end := len(xs); for ... { end-- }; return xs[:end]`.
func trailingTrimShape(fn *ssa.Function) bool {
	if fn.Blocks == nil || len(fn.Params) != 1 {
		return false
	}
	for _, l := range findLoops(fn) {
		for b := range l.body {
			for _, ins := range b.Instrs {
				if sl, ok := ins.(*ssa.Slice); ok && sl.Low == nil && sl.High != nil {
					if bo, ok := sl.High.(*ssa.BinOp); ok && bo.Op == token.SUB {
						if n, ok := constInt(bo.Y); ok && n == 1 {
							return true
						}
					}
				}
			}
		}
		for _, ins := range l.header.Instrs {
			ph, ok := ins.(*ssa.Phi)
			if !ok {
				break
			}
			if !isIntType(ph.Type()) {
				continue
			}
			startsAtLen, stepsDown := false, false
			for i, ed := range ph.Edges {
				if l.body[l.header.Preds[i]] {
					if bo, ok := ed.(*ssa.BinOp); ok && bo.Op == token.SUB && bo.X == ssa.Value(ph) {
						if n, ok := constInt(bo.Y); ok && n == 1 {
							stepsDown = true
						}
					}
				} else if lv, ok := lenArgAny(ed); ok && lv == ssa.Value(fn.Params[0]) {
					startsAtLen = true
				}
			}
			returned := false
			for _, b := range fn.Blocks {
				if ret, ok := b.Instrs[len(b.Instrs)-1].(*ssa.Return); ok && len(ret.Results) == 1 {
					if sl, ok := ret.Results[0].(*ssa.Slice); ok && sl.X == ssa.Value(fn.Params[0]) && sl.Low == nil && sl.High == ssa.Value(ph) {
						returned = true
					}
				}
			}
			if startsAtLen && stepsDown && returned {
				return true
			}
		}
	}
	return false
}

// leadRunCut: the slice expression cuts list X at k, where k counts the leading run of numeric segments:
// a loop counter that starts at 0, steps by 1 and goes on while k < len(X) and the bool field of X[k] holds.
func leadRunCut(sl *ssa.Slice) bool {
	var k ssa.Value
	for _, b := range []ssa.Value{sl.Low, sl.High, sl.Max} {
		if b == nil {
			continue
		}
		if k != nil && k != b {
			return false
		}
		k = b
	}
	ph, ok := k.(*ssa.Phi)
	if !ok || !isIntType(ph.Type()) {
		return false
	}
	var l *loop
	for _, x := range findLoops(ph.Parent()) {
		if x.header == ph.Block() {
			l = x
		}
	}
	if l == nil || len(ph.Edges) != 2 {
		return false
	}
	zero, step := false, false
	for i, ed := range ph.Edges {
		if l.body[l.header.Preds[i]] {
			if bo, ok := ed.(*ssa.BinOp); ok && bo.Op == token.ADD && bo.X == ssa.Value(ph) {
				if n, ok := constInt(bo.Y); ok && n == 1 {
					step = true
				}
			}
		} else if n, ok := constInt(ed); ok && n == 0 {
			zero = true
		}
	}
	if !zero || !step {
		return false
	}
	bound, flag := false, false
	for b := range l.body {
		iff, ok := b.Instrs[len(b.Instrs)-1].(*ssa.If)
		if !ok {
			continue
		}
		if bo, ok := iff.Cond.(*ssa.BinOp); ok && bo.Op == token.LSS && bo.X == ssa.Value(ph) && isLenOf(bo.Y, sl.X) {
			bound = true
		}
		if ld, ok := iff.Cond.(*ssa.UnOp); ok && ld.Op == token.MUL && isBoolType(ld.Type()) {
			if fa, ok := ld.X.(*ssa.FieldAddr); ok {
				if ia, ok := fa.X.(*ssa.IndexAddr); ok && ia.X == sl.X && ia.Index == ssa.Value(ph) {
					flag = true
				}
			}
		}
	}
	// the cut is taken after the loop
	return bound && flag && !l.body[sl.Block()]
}

// inConstructorPath: fn is called (outside loops) by a function of the constructor's call tree
func inConstructorPath(p *Prog, ctor, fn *ssa.Function) bool {
	for _, g := range p.RepoReachable(ctor) {
		loops := findLoops(g)
		for _, b := range g.Blocks {
			for _, ins := range b.Instrs {
				if c, ok := ins.(*ssa.Call); ok && c.Call.StaticCallee() == fn {
					in := false
					for _, lp := range loops {
						in = in || lp.body[b]
					}
					if !in {
						return true
					}
				}
			}
		}
	}
	return false
}

// iffBlockOf: the block whose If tests cond (nil when it is not tested by exactly one If)
func iffBlockOf(cond ssa.Value) *ssa.BasicBlock {
	refs := cond.Referrers()
	if refs == nil {
		return nil
	}
	var out *ssa.BasicBlock
	for _, ref := range *refs {
		if iff, ok := ref.(*ssa.If); ok {
			if out != nil {
				return nil
			}
			out = iff.Block()
		}
	}
	return out
}
