package main

import (
	"fmt"
	"go/token"
	"go/types"
	"sort"
	"strings"

	"golang.org/x/tools/go/ssa"
)

// ---- C18: parsed values keep their text; outer whitespace changes nothing -----------------------

// stringField: the field returned by a String() method (single return of a field load of the receiver)
func stringField(fn *ssa.Function) (int, bool) {
	field := -1
	for _, b := range fn.Blocks {
		ret, ok := b.Instrs[len(b.Instrs)-1].(*ssa.Return)
		if !ok {
			continue
		}
		u, ok := ret.Results[0].(*ssa.UnOp)
		if !ok || u.Op != token.MUL {
			return 0, false
		}
		fa, ok := u.X.(*ssa.FieldAddr)
		if !ok || fa.X != ssa.Value(fn.Params[0]) {
			return 0, false
		}
		if field >= 0 && field != fa.Field {
			return 0, false
		}
		field = fa.Field
	}
	return field, field >= 0
}

// textChain walks a stored string value back to the constructor's raw parameter.
// Returns the transformations met on the way, or a reason why the value is not the input text.
type chainResult struct {
	trimmed bool   // passed through strings.TrimSpace
	bad     string // non-empty: not (a trim of) the input text
}

func (p *Prog) textChain(v ssa.Value, raw *ssa.Parameter, depth int, seen map[ssa.Value]bool) chainResult {
	if depth > 8 {
		return chainResult{bad: "derivation too deep"}
	}
	if seen[v] {
		return chainResult{trimmed: true} // cycle through a phi: neutral
	}
	seen[v] = true
	switch x := v.(type) {
	case *ssa.Parameter:
		if x == raw {
			return chainResult{}
		}
		// helper parameter: every call site must pass (a trim of) the input text
		fn := x.Parent()
		idx := -1
		for i, q := range fn.Params {
			if q == x {
				idx = i
			}
		}
		n := p.CG.Nodes[fn]
		if n == nil || len(n.In) == 0 {
			return chainResult{bad: "helper parameter " + x.Name() + " without call sites"}
		}
		res := chainResult{trimmed: true}
		for _, e := range n.In {
			if e.Site == nil || idx >= len(e.Site.Common().Args) {
				return chainResult{bad: "unresolved call site"}
			}
			// the caller's raw parameter
			cr := rawParamOf(e.Caller.Func)
			if cr == nil {
				return chainResult{bad: "helper called from a function without a string parameter"}
			}
			r := p.textChain(e.Site.Common().Args[idx], cr, depth+1, seen)
			if r.bad != "" {
				return r
			}
			res.trimmed = res.trimmed && r.trimmed
		}
		return res
	case *ssa.Phi:
		res := chainResult{trimmed: true}
		for _, e := range x.Edges {
			r := p.textChain(e, raw, depth+1, seen)
			if r.bad != "" {
				return r
			}
			res.trimmed = res.trimmed && r.trimmed
		}
		return res
	case *ssa.Call:
		if f := x.Call.StaticCallee(); f != nil && extName(f) == "strings.TrimSpace" {
			r := p.textChain(x.Call.Args[0], raw, depth+1, seen)
			r.trimmed = true
			return r
		}
		if f := x.Call.StaticCallee(); f != nil {
			return chainResult{bad: "text is transformed by " + extName(f)}
		}
	case *ssa.BinOp:
		return chainResult{bad: "text is rebuilt by concatenation"}
	case *ssa.Slice:
		return chainResult{bad: "text is a substring of the input"}
	case *ssa.Const:
		return chainResult{bad: "text is a constant"}
	}
	return chainResult{bad: fmt.Sprintf("text derives from %T", v)}
}

func rawParamOf(fn *ssa.Function) *ssa.Parameter {
	for _, par := range fn.Params {
		if isStringType(par.Type()) {
			return par
		}
	}
	return nil
}

type textInfo struct {
	field        int
	mayUntrimmed bool
}

func ruleOriginal(p *Prog, r *Report) map[*types.Named]*textInfo {
	info := map[*types.Named]*textInfo{}
	for _, e := range p.Ecos {
		for _, it := range []struct {
			t    *types.Named
			str  *ssa.Function
			ctor *ssa.Function
		}{{e.VerT, e.VString, e.NewVer}, {e.RngT, e.RString, e.NewRng}} {
			key := p.FnKey(it.str) + ": returns stored input"
			f, ok := stringField(it.str)
			if !ok {
				r.Bad("R-ORIGINAL", key, p.FnPos(it.str), "String() does not simply return one stored field")
				continue
			}
			ti := &textInfo{field: f}
			info[it.t] = ti
			raw := rawParamOf(it.ctor)
			// every construction of the type reachable from the constructor
			n := 0
			bad := ""
			for _, fn := range p.RepoReachable(it.ctor) {
				for _, b := range fn.Blocks {
					for _, ins := range b.Instrs {
						s, ok := ins.(*ssa.Store)
						if !ok {
							continue
						}
						fa, ok := s.Addr.(*ssa.FieldAddr)
						if !ok || fa.Field != f {
							continue
						}
						pt, ok := fa.X.Type().Underlying().(*types.Pointer)
						if !ok || !types.Identical(pt.Elem(), it.t) {
							continue
						}
						n++
						rp := raw
						if fn != it.ctor {
							rp = rawParamOf(fn)
						}
						var cr chainResult
						if rp == nil {
							cr = chainResult{bad: "constructed in a helper without a string parameter"}
						} else if fn == it.ctor {
							cr = p.textChain(s.Val, raw, 0, map[ssa.Value]bool{})
						} else {
							// helper: chain to its parameter, then through call sites to the constructor's
							cr = p.textChain(s.Val, nil, 0, map[ssa.Value]bool{})
						}
						if cr.bad != "" {
							bad = fmt.Sprintf("%s: the text stored at %s is not the input: %s", p.FnKey(fn), p.Pos(s.Pos()), cr.bad)
						}
						if !cr.trimmed {
							ti.mayUntrimmed = true
						}
					}
				}
			}
			switch {
			case bad != "":
				r.Bad("R-ORIGINAL", key, p.FnPos(it.str), bad)
			case n == 0:
				r.Bad("R-ORIGINAL", key, p.FnPos(it.str), "no construction stores the text field")
			default:
				r.Ok("R-ORIGINAL", key, p.FnPos(it.str), fmt.Sprintf("field %s is stored at %d construction site(s) from the constructor's parameter through nothing but strings.TrimSpace (untrimmed possible: %v)", it.t.Underlying().(*types.Struct).Field(f).Name(), n, ti.mayUntrimmed))
			}
		}
	}
	r.Floor("R-ORIGINAL", 40)
	return info
}

// ---- R-TRIM: the untrimmed parameter reaches nothing but TrimSpace, the text field, == "", messages

type trimAn struct {
	p    *Prog
	r    *Report
	done map[*ssa.Parameter]string
}

// rawUses checks every use of a raw (untrimmed) string value v inside fn.
func (a *trimAn) rawUses(fn *ssa.Function, v ssa.Value, textT *types.Named, textF int, seen map[ssa.Value]bool, depth int) string {
	if seen[v] {
		return ""
	}
	seen[v] = true
	refs := v.Referrers()
	if refs == nil {
		return ""
	}
	for _, ref := range *refs {
		switch x := ref.(type) {
		case *ssa.DebugRef:
		case *ssa.Phi:
			if why := a.rawUses(fn, x, textT, textF, seen, depth); why != "" {
				return why
			}
		case *ssa.BinOp:
			if (x.Op == token.EQL || x.Op == token.NEQ) && (isEmptyConst(x.X) || isEmptyConst(x.Y)) {
				continue
			}
			return "untrimmed input is used in " + x.Op.String() + " at " + a.p.Pos(x.Pos())
		case *ssa.Store:
			if fa, ok := x.Addr.(*ssa.FieldAddr); ok && x.Val == v {
				if pt, ok := fa.X.Type().Underlying().(*types.Pointer); ok && types.Identical(pt.Elem(), textT) && fa.Field == textF {
					continue
				}
			}
			// vararg packing for a message
			if ia, ok := x.Addr.(*ssa.IndexAddr); ok {
				if al, ok := ia.X.(*ssa.Alloc); ok && messageArgsOnly(al) {
					continue
				}
			}
			return "untrimmed input is stored at " + a.p.Pos(x.Pos())
		case *ssa.MakeInterface:
			// only as an operand of a message
			ok := true
			for _, r2 := range *x.Referrers() {
				st, isSt := r2.(*ssa.Store)
				if !isSt {
					ok = false
					break
				}
				ia, isIA := st.Addr.(*ssa.IndexAddr)
				if !isIA {
					ok = false
					break
				}
				al, isAl := ia.X.(*ssa.Alloc)
				if !isAl || !messageArgsOnly(al) {
					ok = false
				}
			}
			if !ok {
				return "untrimmed input escapes through an interface value at " + a.p.Pos(x.Pos())
			}
		case *ssa.Call:
			f := x.Call.StaticCallee()
			if f == nil {
				return "untrimmed input is passed to a dynamic call at " + a.p.Pos(x.Pos())
			}
			switch extName(f) {
			case "strings.TrimSpace":
				continue
			case "strings.ToLower", "strings.ToUpper":
				// length- and whitespace-preserving map: the result is still untrimmed
				if why := a.rawUses(fn, x, textT, textF, seen, depth); why != "" {
					return why
				}
				continue
			}
			if a.p.IsRepoFn(f) && depth < 4 {
				for i, arg := range x.Call.Args {
					if arg == v && i < len(f.Params) {
						if why := a.rawUses(f, f.Params[i], textT, textF, map[ssa.Value]bool{}, depth+1); why != "" {
							return why
						}
					}
				}
				continue
			}
			return "untrimmed input is passed to " + extName(f) + " at " + a.p.Pos(x.Pos())
		default:
			return fmt.Sprintf("untrimmed input is used by %T at %s", ref, a.p.Pos(ref.Pos()))
		}
	}
	return ""
}

func isEmptyConst(v ssa.Value) bool {
	s, ok := constString(v)
	return ok && s == ""
}

// messageArgsOnly: a local array used only as the variadic operand of fmt.Errorf/Sprintf
func messageArgsOnly(al *ssa.Alloc) bool {
	for _, ref := range *al.Referrers() {
		switch x := ref.(type) {
		case *ssa.IndexAddr:
		case *ssa.Slice:
			for _, r2 := range *x.Referrers() {
				c, ok := r2.(*ssa.Call)
				if !ok {
					return false
				}
				f := c.Call.StaticCallee()
				if f == nil {
					return false
				}
				switch extName(f) {
				case "fmt.Errorf", "fmt.Sprintf":
				default:
					return false
				}
			}
		case *ssa.DebugRef:
		default:
			return false
		}
	}
	return true
}

func ruleTrim(p *Prog, r *Report, info map[*types.Named]*textInfo) {
	a := &trimAn{p: p, r: r}
	for _, e := range p.Ecos {
		for _, it := range []struct {
			t    *types.Named
			ctor *ssa.Function
		}{{e.VerT, e.NewVer}, {e.RngT, e.NewRng}} {
			key := p.FnKey(it.ctor) + ": trims before parsing"
			ti := info[it.t]
			raw := rawParamOf(it.ctor)
			if ti == nil || raw == nil {
				r.Und("R-TRIM", key, p.FnPos(it.ctor), "text field or string parameter not identified")
				continue
			}
			if why := a.rawUses(it.ctor, raw, it.t, ti.field, map[ssa.Value]bool{}, 0); why != "" {
				r.Bad("R-TRIM", key, p.FnPos(it.ctor), why+": surrounding whitespace can change acceptance or the parsed value")
			} else {
				r.Ok("R-TRIM", key, p.FnPos(it.ctor), "the untrimmed parameter reaches only strings.TrimSpace, the stored text, an emptiness test and error messages")
			}
		}
	}
	r.Floor("R-TRIM", 40)
}

// ---- R-ORIG-NOCMP: possibly-untrimmed text of an operand / probe is never compared --------------

// derivesFromParams: values that are (copies of) the given pointer parameters, through phis and
// argument passing to repo callees. Returns, per function, the set of tainted pointer values.
func taintPointers(p *Prog, roots map[ssa.Value]bool) map[ssa.Value]bool {
	out := map[ssa.Value]bool{}
	var work []ssa.Value
	for v := range roots {
		out[v] = true
		work = append(work, v)
	}
	for len(work) > 0 {
		v := work[len(work)-1]
		work = work[:len(work)-1]
		refs := v.Referrers()
		if refs == nil {
			continue
		}
		for _, ref := range *refs {
			switch x := ref.(type) {
			case *ssa.Phi, *ssa.ChangeType, *ssa.MakeInterface, *ssa.ChangeInterface:
				if !out[x.(ssa.Value)] {
					out[x.(ssa.Value)] = true
					work = append(work, x.(ssa.Value))
				}
			case *ssa.Call:
				for _, cn := range p.calleeNames(x) {
					if !cn.repo || cn.fn == nil {
						continue
					}
					args := x.Call.Args
					params := cn.fn.Params
					if x.Call.IsInvoke() {
						if x.Call.Value == v && len(params) > 0 && !out[params[0]] {
							out[params[0]] = true
							work = append(work, params[0])
						}
						params = params[1:]
					}
					for i, arg := range args {
						if arg == v && i < len(params) && !out[params[i]] {
							out[params[i]] = true
							work = append(work, params[i])
						}
					}
				}
			}
		}
	}
	return out
}

func ruleOrigNoCmp(p *Prog, r *Report, info map[*types.Named]*textInfo) {
	for _, e := range p.Ecos {
		ti := info[e.VerT]
		key := e.Name + ": comparison and containment never read untrimmed version text"
		if ti == nil {
			r.Und("R-ORIG-NOCMP", key, p.FnPos(e.Compare), "text field not identified")
			continue
		}
		if !ti.mayUntrimmed {
			r.Ok("R-ORIG-NOCMP", key, p.FnPos(e.Compare), "the stored text is always trimmed")
			continue
		}
		roots := map[ssa.Value]bool{}
		for _, par := range e.Compare.Params {
			roots[par] = true
		}
		if len(e.Contains.Params) == 2 {
			roots[e.Contains.Params[1]] = true // the probe
		}
		tainted := taintPointers(p, roots)
		var bad []string
		for v := range tainted {
			refs := v.Referrers()
			if refs == nil {
				continue
			}
			for _, ref := range *refs {
				var text ssa.Value
				switch x := ref.(type) {
				case *ssa.FieldAddr:
					if pt, ok := x.X.Type().Underlying().(*types.Pointer); ok && types.Identical(pt.Elem(), e.VerT) && x.Field == ti.field {
						for _, r2 := range *x.Referrers() {
							if u, ok := r2.(*ssa.UnOp); ok && u.Op == token.MUL {
								if u.Parent() == e.VString {
									continue
								}
								text = u
							}
						}
					}
				case *ssa.Call:
					if x.Call.StaticCallee() == e.VString && len(x.Call.Args) > 0 && x.Call.Args[0] == v {
						text = x
					}
				}
				if text == nil {
					continue
				}
				// every use of the text must be a trim
				for _, use := range *text.Referrers() {
					if c, ok := use.(*ssa.Call); ok {
						if f := c.Call.StaticCallee(); f != nil && extName(f) == "strings.TrimSpace" {
							continue
						}
					}
					if _, ok := use.(*ssa.DebugRef); ok {
						continue
					}
					bad = append(bad, fmt.Sprintf("%s reads the possibly untrimmed text of an operand at %s", p.FnKey(text.(ssa.Instruction).Parent()), p.Pos(use.Pos())))
				}
			}
		}
		sort.Strings(bad)
		if len(bad) == 0 {
			r.Ok("R-ORIG-NOCMP", key, p.FnPos(e.Compare), "the text field may hold surrounding whitespace but is not read on any path from Compare or from Contains' probe")
		} else {
			seen := map[string]bool{}
			for _, b := range bad {
				fnk := b[:strings.Index(b, " reads")]
				if seen[fnk] {
					continue
				}
				seen[fnk] = true
				r.Bad("R-ORIG-NOCMP", e.Name+": "+fnk+" reads untrimmed text", p.FnPos(e.Compare), b+": padding the input with whitespace can change a comparison or containment result")
			}
		}
	}
	r.Floor("R-ORIG-NOCMP", 20)
}

func init() {
	register("C18", "Text preservation and whitespace insensitivity, by value-flow rules on SSA: (R-ORIGINAL) String() of all 40 Version/VersionRange types returns one field, and every construction stores in it the constructor's parameter through nothing but strings.TrimSpace; (R-TRIM) the untrimmed parameter of all 40 constructors reaches only TrimSpace (possibly after a case map), the text field, an emptiness test and error messages, interprocedurally; (R-ORIG-NOCMP) where the text field can hold surrounding whitespace it is never read on a path from Compare's operands or Contains' probe except through TrimSpace. Re-parse stability then follows with C19's determinism.", func(p *Prog, r *Report) {
		info := ruleOriginal(p, r)
		ruleTrim(p, r, info)
		ruleOrigNoCmp(p, r, info)
	})
}
