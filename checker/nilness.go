package main

import (
	"fmt"
	"go/token"
	"go/types"
	"golang.org/x/tools/go/callgraph"
	"os"
	"strings"

	"golang.org/x/tools/go/ssa"
)

// ---- R-PANIC-NIL: every pointer dereference is on a provably non-nil pointer ------------

type nilAn struct {
	p         *Prog
	bp        *bp
	memo      map[nilKey]int // 0 unknown, 1 in progress, 2 holds, 3 fails
	retNN     map[retKey]int
	extStores map[fieldKey]bool // (T,f) stored through a non-local base somewhere
	extInit   bool
}

type nilKey struct {
	v    ssa.Value
	b    *ssa.BasicBlock
	path string
}
type retKey struct {
	fn   *ssa.Function
	idx  int
	path string
}

// access path step: element of a slice/array, or field #n of a struct (through pointer or by value)
type step struct {
	elem  bool
	field int
	cond  *fieldCond // only struct instances satisfying this sibling-field condition matter
}

// fieldCond: sibling field #field (a string) is != k (neq) or == k.
type fieldCond struct {
	field int
	k     string
	neq   bool
}

func pathKey(p []step) string {
	var sb strings.Builder
	for _, s := range p {
		if s.elem {
			sb.WriteString("e")
		} else {
			fmt.Fprintf(&sb, "f%d", s.field)
			if s.cond != nil {
				fmt.Fprintf(&sb, "[f%d,%q,%v]", s.cond.field, s.cond.k, s.cond.neq)
			}
		}
		sb.WriteByte('.')
	}
	return sb.String()
}

func push(s step, p []step) []step { return append([]step{s}, p...) }

func isPtr(t types.Type) bool {
	_, ok := t.Underlying().(*types.Pointer)
	return ok
}

func nillable(t types.Type) bool {
	switch t.Underlying().(type) {
	case *types.Pointer, *types.Slice, *types.Map, *types.Signature, *types.Interface, *types.Chan:
		return true
	}
	return false
}

// zeroOK: does the zero value of t satisfy "every reference reachable by path is non-nil"?
func zeroOK(t types.Type, path []step) bool {
	if len(path) == 0 {
		return !nillable(t)
	}
	switch u := t.Underlying().(type) {
	case *types.Struct:
		if !path[0].elem && path[0].field < u.NumFields() {
			return zeroOK(u.Field(path[0].field).Type(), path[1:])
		}
		return false
	case *types.Array:
		if path[0].elem {
			return zeroOK(u.Elem(), path[1:])
		}
		return false
	case *types.Pointer, *types.Slice, *types.Map:
		return true // nil: nothing is reachable through it
	}
	return false
}

// nonNil: v is non-nil at block b.
func (a *nilAn) nonNil(v ssa.Value, b *ssa.BasicBlock) bool { return a.nnp(v, nil, b) }

// nnp(v, path, b): every reference reached from v by following path (fields through
// pointers or struct values, elements of slices/arrays) is non-nil; with an empty path:
// v itself is non-nil at block b. Loads push steps, constructions pop them.
func (a *nilAn) nnp(v ssa.Value, path []step, b *ssa.BasicBlock) bool {
	if len(path) > 6 {
		return false
	}
	kb := b
	if len(path) > 0 {
		kb = nil
	}
	k := nilKey{v, kb, pathKey(path)}
	switch a.memo[k] {
	case 2:
		return true
	case 3:
		return false
	case 1:
		return true // coinductive (phi / recursion cycles)
	}
	a.memo[k] = 1
	r := a.nnp1(v, path, b)
	if r {
		a.memo[k] = 2
	} else {
		a.memo[k] = 3
		if os.Getenv("GVDEBUG") == "2" {
			fmt.Fprintf(os.Stderr, "nnp-fail: %s in %s path=%s (%T)\n", v.Name(), b.Parent(), pathKey(path), v)
		}
	}
	return r
}

func (a *nilAn) nnp1(v ssa.Value, path []step, b *ssa.BasicBlock) bool {
	if len(path) == 0 && a.guardedNonNil(v, b) {
		return true
	}
	bf := a.bp.forFn(b.Parent())
	if c := bf.canon(v); c != v {
		return a.nnp(c, path, b)
	}
	switch x := v.(type) {
	case *ssa.Const:
		if x.Value == nil {
			return zeroOK(x.Type(), path)
		}
		return len(path) == 0
	case *ssa.Alloc:
		return a.allocNNP(x, path, b)
	case *ssa.MakeSlice:
		if len(path) == 0 {
			return true
		}
		if !path[0].elem {
			return false
		}
		if c, ok := constInt(x.Len); !ok || c != 0 {
			if !zeroOK(x.Type().Underlying().(*types.Slice).Elem(), path[1:]) {
				return false
			}
		}
		// later element stores s[i] = v
		for _, ref := range *x.Referrers() {
			if ia, ok := ref.(*ssa.IndexAddr); ok {
				for _, r2 := range *ia.Referrers() {
					if st, ok := r2.(*ssa.Store); ok && st.Addr == ia && !a.nnp(st.Val, path[1:], st.Block()) {
						return false
					}
				}
			}
		}
		return true
	case *ssa.Global, *ssa.MakeClosure, *ssa.Function, *ssa.MakeInterface, *ssa.MakeMap:
		return len(path) == 0
	case *ssa.FieldAddr:
		if len(path) == 0 {
			return true
		}
		return a.nnp(x.X, push(step{field: x.Field}, path), b)
	case *ssa.IndexAddr:
		if len(path) == 0 {
			return true
		}
		return a.nnp(x.X, push(step{elem: true}, path), b)
	case *ssa.Parameter:
		return a.paramNNP(x, path)
	case *ssa.FreeVar:
		fn := x.Parent()
		idx := -1
		for i, fv := range fn.FreeVars {
			if fv == x {
				idx = i
			}
		}
		found := false
		for f2 := range a.p.AllFns {
			if !a.p.IsRepoFn(f2) {
				continue
			}
			for _, blk := range f2.Blocks {
				for _, ins := range blk.Instrs {
					if mc, ok := ins.(*ssa.MakeClosure); ok && mc.Fn == fn {
						found = true
						if idx < 0 || !a.nnp(mc.Bindings[idx], path, blk) {
							return false
						}
					}
				}
			}
		}
		return found
	case *ssa.Phi:
		for i, e := range x.Edges {
			pred := x.Block().Preds[i]
			if len(path) == 0 {
				if !a.nonNilOnEdge(e, pred, x.Block()) {
					return false
				}
			} else if !a.nnp(e, path, pred) {
				return false
			}
		}
		return true
	case *ssa.ChangeType:
		return a.nnp(x.X, path, b)
	case *ssa.Convert:
		return a.nnp(x.X, path, b)
	case *ssa.Slice:
		if len(path) == 0 {
			return true
		}
		return a.nnp(x.X, path, b)
	case *ssa.Extract:
		if c, ok := x.Tuple.(*ssa.Call); ok {
			return a.callNNP(c, x.Index, path, b)
		}
		return false
	case *ssa.Call:
		return a.callNNP(x, 0, path, b)
	case *ssa.UnOp:
		if x.Op == token.MUL {
			return a.loadNNP(x, path, b)
		}
	case *ssa.Field:
		return a.nnp(x.X, push(step{field: x.Field}, path), b)
	case *ssa.Index:
		return a.nnp(x.X, push(step{elem: true}, path), b)
	}
	return false
}

// excludedBy: the struct under construction (field stores rooted at base) has a discriminator
// value that the condition rules out, so this construction site is irrelevant.
func (a *nilAn) excludedBy(c *fieldCond, fieldStores func(field int) []*ssa.Store) bool {
	if c == nil {
		return false
	}
	sts := fieldStores(c.field)
	if len(sts) > 1 {
		return false
	}
	if len(sts) == 0 {
		// zero value ""
		return c.neq == (c.k == "")
	}
	sv := sts[0].Val
	if k, ok := constString(sv); ok {
		return c.neq == (k == c.k)
	}
	// a dominating branch condition at the store fixes the value
	eq, known := false, false
	domEdges(sts[0].Block(), func(cond ssa.Value, tv bool) bool {
		bo, ok := cond.(*ssa.BinOp)
		if !ok || (bo.Op != token.EQL && bo.Op != token.NEQ) {
			return false
		}
		var k string
		var okc bool
		if bo.X == sv {
			k, okc = constString(bo.Y)
		} else if bo.Y == sv {
			k, okc = constString(bo.X)
		}
		if !okc || k != c.k {
			return false
		}
		isEq := (bo.Op == token.EQL) == tv
		eq, known = isEq, true
		return true
	})
	if !known {
		return false
	}
	return c.neq == eq
}

// siblingCond: a dominating condition at b comparing another string field of the same
// struct base with a constant.
func (a *nilAn) siblingCond(base ssa.Value, exclude int, b *ssa.BasicBlock) *fieldCond {
	f := b.Parent()
	var out *fieldCond
	domEdges(b, func(cond ssa.Value, tv bool) bool {
		bo, ok := cond.(*ssa.BinOp)
		if !ok || (bo.Op != token.EQL && bo.Op != token.NEQ) {
			return false
		}
		var ld ssa.Value
		var k string
		var okc bool
		if k, okc = constString(bo.Y); okc {
			ld = bo.X
		} else if k, okc = constString(bo.X); okc {
			ld = bo.Y
		} else {
			return false
		}
		u, ok := ld.(*ssa.UnOp)
		if !ok || u.Op != token.MUL {
			return false
		}
		fa, ok := u.X.(*ssa.FieldAddr)
		if !ok || fa.Field == exclude || !a.sameVal(f, fa.X, base) {
			return false
		}
		out = &fieldCond{field: fa.Field, k: k, neq: (bo.Op == token.NEQ) == tv}
		return out.neq // prefer an exclusion
	})
	return out
}

// sortCallbackSource: fn is passed as the comparator of slices.SortFunc / sort.Slice at a repo
// call site; its element parameters are elements of the sorted slice.
func (a *nilAn) sortCallbackSource(fn *ssa.Function) (ssa.Value, *ssa.BasicBlock) {
	if v, b := a.sortCallbackSource1(fn, true); v != nil {
		return v, b
	}
	return a.sortCallbackSource1(fn, false)
}

func (a *nilAn) sortCallbackSource1(fn *ssa.Function, exact bool) (ssa.Value, *ssa.BasicBlock) {
	for f2 := range a.p.AllFns {
		if !a.p.IsRepoFn(f2) {
			continue
		}
		for _, blk := range f2.Blocks {
			for _, ins := range blk.Instrs {
				c, ok := ins.(*ssa.Call)
				if !ok {
					continue
				}
				cal := c.Call.StaticCallee()
				if cal == nil {
					continue
				}
				name := extName(cal)
				if name != "slices.SortFunc" && name != "slices.SortStableFunc" {
					continue
				}
				if len(c.Call.Args) != 2 {
					continue
				}
				arg := c.Call.Args[1]
				if mc, ok := arg.(*ssa.MakeClosure); ok {
					arg = mc.Fn
				}
				if ct, ok := arg.(*ssa.ChangeType); ok {
					arg = ct.X
				}
				if af, ok := arg.(*ssa.Function); ok && (af == fn || !exact && (af.Origin() != nil && af.Origin() == fn || fn.Origin() != nil && fn.Origin() == af)) {
					return c.Call.Args[0], blk
				}
			}
		}
	}
	return nil, nil
}

// allocNNP: al is a local allocation (pointer to a struct, array or variable).
func (a *nilAn) allocNNP(al *ssa.Alloc, path []step, b *ssa.BasicBlock) bool {
	if len(path) == 0 {
		return true
	}
	et := al.Type().Underlying().(*types.Pointer).Elem()
	var whole []*ssa.Store
	for _, ref := range *al.Referrers() {
		if s, ok := ref.(*ssa.Store); ok && s.Addr == al {
			whole = append(whole, s)
		}
	}
	if path[0].elem {
		arr, ok := et.Underlying().(*types.Array)
		if !ok || len(whole) > 0 {
			return false
		}
		covered := map[int64]bool{}
		for _, ref := range *al.Referrers() {
			ia, ok := ref.(*ssa.IndexAddr)
			if !ok {
				continue
			}
			ci, isC := constInt(ia.Index)
			direct := false
			for _, r2 := range *ia.Referrers() {
				switch s := r2.(type) {
				case *ssa.Store:
					if s.Addr == ia {
						if !isC || !a.nnp(s.Val, path[1:], s.Block()) {
							return false
						}
						direct = true
					}
				}
			}
			if direct {
				covered[ci] = true
				continue
			}
			// element built in place through &arr[i].f stores
			if !isC {
				// dynamic index into a local array: only loads are fine
				for _, r2 := range *ia.Referrers() {
					if _, isStore := r2.(*ssa.Store); isStore {
						return false
					}
					if fa, isFA := r2.(*ssa.FieldAddr); isFA {
						for _, r3 := range *fa.Referrers() {
							if _, isStore := r3.(*ssa.Store); isStore {
								return false
							}
						}
					}
				}
				continue
			}
			if len(path) >= 2 && !path[1].elem {
				if a.excludedBy(path[1].cond, func(field int) []*ssa.Store {
					var out []*ssa.Store
					for _, r2 := range *ia.Referrers() {
						if fa, isFA := r2.(*ssa.FieldAddr); isFA && fa.Field == field {
							for _, r3 := range *fa.Referrers() {
								if s, isStore := r3.(*ssa.Store); isStore && s.Addr == fa {
									out = append(out, s)
								}
							}
						}
					}
					return out
				}) {
					covered[ci] = true
					continue
				}
				stored := false
				for _, r2 := range *ia.Referrers() {
					if fa, isFA := r2.(*ssa.FieldAddr); isFA && fa.Field == path[1].field {
						for _, r3 := range *fa.Referrers() {
							if s, isStore := r3.(*ssa.Store); isStore && s.Addr == fa {
								stored = true
								if !a.nnp(s.Val, path[2:], s.Block()) {
									return false
								}
							}
						}
					}
				}
				if stored {
					covered[ci] = true
				}
			}
		}
		if int64(len(covered)) < arr.Len() {
			return zeroOK(arr.Elem(), path[1:])
		}
		return true
	}
	// field step on a struct allocation
	if _, ok := et.Underlying().(*types.Struct); !ok {
		// local variable holding a pointer to a struct: follow the stored pointers
		if len(whole) == 0 {
			return false
		}
		for _, s := range whole {
			if !a.nnp(s.Val, path, s.Block()) {
				return false
			}
		}
		return true
	}
	var stores []*ssa.Store
	for _, ref := range *al.Referrers() {
		if fa, ok := ref.(*ssa.FieldAddr); ok && fa.Field == path[0].field {
			for _, r2 := range *fa.Referrers() {
				if s, ok := r2.(*ssa.Store); ok && s.Addr == fa {
					stores = append(stores, s)
				}
			}
		}
	}
	if len(whole) > 0 {
		if len(stores) > 0 {
			return false
		}
		for _, s := range whole {
			if !a.nnp(s.Val, path, s.Block()) {
				return false
			}
		}
		return true
	}
	if a.excludedBy(path[0].cond, func(field int) []*ssa.Store {
		var out []*ssa.Store
		for _, ref := range *al.Referrers() {
			if fa, ok := ref.(*ssa.FieldAddr); ok && fa.Field == field {
				for _, r2 := range *fa.Referrers() {
					if s, ok := r2.(*ssa.Store); ok && s.Addr == fa {
						out = append(out, s)
					}
				}
			}
		}
		return out
	}) {
		return true
	}
	st := et.Underlying().(*types.Struct)
	ft := st.Field(path[0].field).Type()
	for _, s := range stores {
		if !a.nnp(s.Val, path[1:], s.Block()) {
			return false
		}
	}
	if zeroOK(ft, path[1:]) {
		return true
	}
	if len(stores) == 0 {
		return false
	}
	// the zero value is not acceptable: every use of the allocation as a value must be
	// dominated by a store to the field
	for _, ref := range *al.Referrers() {
		if _, ok := ref.(*ssa.FieldAddr); ok {
			continue
		}
		if _, ok := ref.(*ssa.DebugRef); ok {
			continue
		}
		dominated := false
		for _, s := range stores {
			if instrDominates(s, ref) {
				dominated = true
			}
		}
		if !dominated {
			return false
		}
	}
	return true
}

func (a *nilAn) nonNilOnEdge(v ssa.Value, pred, succ *ssa.BasicBlock) bool {
	if a.nnp(v, nil, pred) {
		return true
	}
	if iff, ok := pred.Instrs[len(pred.Instrs)-1].(*ssa.If); ok {
		if pred.Succs[0] == succ && pred.Succs[1] != succ && condImpliesNonNil(a, iff.Cond, true, v, pred.Parent()) {
			return true
		}
		if pred.Succs[1] == succ && pred.Succs[0] != succ && condImpliesNonNil(a, iff.Cond, false, v, pred.Parent()) {
			return true
		}
	}
	return false
}

func (a *nilAn) sameVal(f *ssa.Function, x, y ssa.Value) bool {
	if x == y {
		return true
	}
	bf := a.bp.forFn(f)
	return bf.canon(x) == bf.canon(y)
}

func condImpliesNonNil(a *nilAn, cond ssa.Value, tv bool, v ssa.Value, f *ssa.Function) bool {
	switch c := cond.(type) {
	case *ssa.UnOp:
		if c.Op == token.NOT {
			return condImpliesNonNil(a, c.X, !tv, v, f)
		}
	case *ssa.BinOp:
		var other ssa.Value
		if isNilConst(c.Y) {
			other = c.X
		} else if isNilConst(c.X) {
			other = c.Y
		} else {
			return false
		}
		if !a.sameVal(f, other, v) {
			return false
		}
		return c.Op == token.NEQ && tv || c.Op == token.EQL && !tv
	}
	return false
}

// domEdges calls fn(cond, truth) for every branch condition known at b.
func domEdges(b *ssa.BasicBlock, fn func(cond ssa.Value, tv bool) bool) bool {
	for x := b; x != nil; x = x.Idom() {
		id := x.Idom()
		if id == nil {
			break
		}
		if !(len(x.Preds) == 1 && x.Preds[0] == id) && !onlyEntryFrom(x, id) {
			continue
		}
		iff, ok := id.Instrs[len(id.Instrs)-1].(*ssa.If)
		if !ok {
			continue
		}
		if id.Succs[0] == x && id.Succs[1] != x && fn(iff.Cond, true) {
			return true
		}
		if id.Succs[1] == x && id.Succs[0] != x && fn(iff.Cond, false) {
			return true
		}
	}
	return false
}

func (a *nilAn) guardedNonNil(v ssa.Value, b *ssa.BasicBlock) bool {
	f := b.Parent()
	return domEdges(b, func(cond ssa.Value, tv bool) bool { return condImpliesNonNil(a, cond, tv, v, f) })
}

// errNilAt: b is dominated by the edge where the error result of call c is nil.
func (a *nilAn) errNilAt(c *ssa.Call, b *ssa.BasicBlock) bool {
	res := c.Call.Signature().Results()
	if res.Len() < 2 || !isErrorType(res.At(res.Len()-1).Type()) {
		return false
	}
	var errv ssa.Value
	for _, ref := range *c.Referrers() {
		if ex, ok := ref.(*ssa.Extract); ok && ex.Index == res.Len()-1 {
			errv = ex
		}
	}
	if errv == nil {
		return false
	}
	return domEdges(b, func(cond ssa.Value, tv bool) bool {
		bo, ok := cond.(*ssa.BinOp)
		if !ok || !(bo.X == errv && isNilConst(bo.Y) || bo.Y == errv && isNilConst(bo.X)) {
			return false
		}
		return bo.Op == token.NEQ && !tv || bo.Op == token.EQL && tv
	})
}

func (a *nilAn) callNNP(c *ssa.Call, idx int, path []step, b *ssa.BasicBlock) bool {
	if bi, ok := c.Call.Value.(*ssa.Builtin); ok {
		switch bi.Name() {
		case "new":
			if len(path) == 0 {
				return true
			}
			return zeroOK(c.Type().Underlying().(*types.Pointer).Elem(), path)
		case "append":
			if len(path) == 0 {
				return true
			}
			for _, arg := range c.Call.Args {
				if !a.nnp(arg, path, b) {
					return false
				}
			}
			return true
		}
		return false
	}
	names := a.p.calleeNames(c)
	if len(names) == 0 {
		return false
	}
	for _, n := range names {
		if n.fn == nil {
			return false
		}
		if !n.repo {
			if len(path) == 0 {
				switch n.name {
				case "regexp.MustCompile", "math/big.NewInt":
					continue
				}
			}
			return false
		}
		fn := n.fn
		res := fn.Signature.Results()
		hasErr := res.Len() >= 2 && isErrorType(res.At(res.Len()-1).Type()) && idx < res.Len()-1
		if hasErr {
			if a.retWhenErrNil(fn, idx, path) && (a.errNilAt(c, b) || a.zeroResultOK(fn, idx, path)) {
				continue
			}
			if a.retAlways(fn, idx, path) {
				continue
			}
			return false
		}
		if !a.retAlways(fn, idx, path) {
			return false
		}
	}
	return true
}

// zeroResultOK: on error paths the callee returns a zero value that itself satisfies the
// path (e.g. a nil slice has no elements), so the err == nil guard is not needed.
func (a *nilAn) zeroResultOK(fn *ssa.Function, idx int, path []step) bool {
	for _, blk := range fn.Blocks {
		r, isRet := blk.Instrs[len(blk.Instrs)-1].(*ssa.Return)
		if !isRet {
			continue
		}
		ev := r.Results[len(r.Results)-1]
		if isNilConst(ev) {
			continue
		}
		if !a.nnp(r.Results[idx], path, blk) {
			return false
		}
	}
	return true
}

func (a *nilAn) retAlways(fn *ssa.Function, idx int, path []step) bool {
	k := retKey{fn, idx, pathKey(path)}
	switch a.retNN[k] {
	case 2, 1:
		return true
	case 3:
		return false
	}
	a.retNN[k] = 1
	ok := fn.Blocks != nil
	for _, blk := range fn.Blocks {
		if r, isRet := blk.Instrs[len(blk.Instrs)-1].(*ssa.Return); isRet {
			if !a.nnp(r.Results[idx], path, blk) {
				ok = false
			}
		}
	}
	if ok {
		a.retNN[k] = 2
	} else {
		a.retNN[k] = 3
	}
	return ok
}

// retWhenErrNil: at every return, result idx satisfies the path or the error is definitely non-nil.
func (a *nilAn) retWhenErrNil(fn *ssa.Function, idx int, path []step) bool {
	k := retKey{fn, idx + 100, pathKey(path)}
	switch a.retNN[k] {
	case 2, 1:
		return true
	case 3:
		return false
	}
	a.retNN[k] = 1
	ok := fn.Blocks != nil
	bf := a.bp.forFn(fn)
	for _, blk := range fn.Blocks {
		r, isRet := blk.Instrs[len(blk.Instrs)-1].(*ssa.Return)
		if !isRet {
			continue
		}
		ev := r.Results[len(r.Results)-1]
		if definitelyNonNilErr(ev) || (!isNilConst(ev) && bf.nonNilAt(blk, ev)) {
			continue
		}
		if a.nnp(r.Results[idx], path, blk) {
			continue
		}
		// forwarding both results of a call that satisfies the same rule
		if ex, isEx := r.Results[idx].(*ssa.Extract); isEx {
			if c, isCall := ex.Tuple.(*ssa.Call); isCall {
				if ex2, isEx2 := ev.(*ssa.Extract); isEx2 && ex2.Tuple == c {
					good := true
					for _, n := range a.p.calleeNames(c) {
						if !n.repo || n.fn == nil || !a.retWhenErrNil(n.fn, ex.Index, path) {
							good = false
						}
					}
					if good {
						continue
					}
				}
			}
		}
		ok = false
	}
	if ok {
		a.retNN[k] = 2
	} else {
		a.retNN[k] = 3
	}
	return ok
}

// apiValueSource: parameters of the exported operations are, by the API contract, values
// produced by the ecosystem's constructors: *Version from NewVersion, *VersionRange from
// NewVersionRange (with a nil error).
func (a *nilAn) apiValueSource(par *ssa.Parameter) *ssa.Function {
	pt, ok := par.Type().Underlying().(*types.Pointer)
	if !ok {
		return nil
	}
	n, ok := pt.Elem().(*types.Named)
	if !ok {
		return nil
	}
	for _, e := range a.p.Ecos {
		if n == e.VerT {
			return e.NewVer
		}
		if n == e.RngT {
			return e.NewRng
		}
	}
	return nil
}

func (a *nilAn) paramNNP(par *ssa.Parameter, path []step) bool {
	fn := par.Parent()
	if isAPIRoot(a.p, fn) || fn.Name() == "init" {
		if len(path) == 0 {
			// contract: external callers pass non-nil values; call sites inside the repo are checked
			for _, n := range a.cgNodesOf(fn) {
				for _, e := range n.In {
					if e.Site == nil || !a.p.IsRepoFn(e.Caller.Func) {
						continue
					}
					args := e.Site.Common().Args
					idx := -1
					for i, p := range fn.Params {
						if p == par {
							idx = i
						}
					}
					if e.Site.Common().IsInvoke() {
						if idx == 0 {
							if !a.nnp(e.Site.Common().Value, nil, e.Site.Block()) {
								return false
							}
							continue
						}
						idx--
					}
					if idx < 0 || idx >= len(args) || !a.nnp(args[idx], nil, e.Site.Block()) {
						if os.Getenv("GVDEBUG") != "" {
							fmt.Fprintf(os.Stderr, "nil-debug: %s param %s: call site %s in %s passes possibly-nil\n", a.p.FnKey(fn), par.Name(), a.p.Pos(e.Site.Pos()), e.Caller.Func)
						}
						return false
					}
				}
			}
			return true
		}
		if src := a.apiValueSource(par); src != nil {
			return a.retWhenErrNil(src, 0, path)
		}
		return false
	}
	idx := -1
	for i, p := range fn.Params {
		if p == par {
			idx = i
		}
	}
	if idx < 0 {
		return false
	}
	total := 0
	for _, n := range a.cgNodesOf(fn) {
		for _, e := range n.In {
			total++
			if e.Site == nil {
				return false
			}
			if !a.p.IsRepoFn(e.Caller.Func) {
				// called back from std (strings.Map, slices.SortFunc closures)
				if len(path) == 0 && !nillable(par.Type()) {
					continue
				}
				if src, blk := a.sortCallbackSource(fn); src != nil {
					if !a.nnp(src, push(step{elem: true}, path), blk) {
						return false
					}
					continue
				}
				return false
			}
			args := e.Site.Common().Args
			ai := idx
			if e.Site.Common().IsInvoke() {
				if idx == 0 {
					if !a.nnp(e.Site.Common().Value, path, e.Site.Block()) {
						return false
					}
					continue
				}
				ai = idx - 1
			}
			if ai >= len(args) {
				return false
			}
			if !a.nnp(args[ai], path, e.Site.Block()) {
				return false
			}
		}
	}
	return total > 0
}

// cgNodesOf: call-graph nodes of fn and of its generic instances.
func (a *nilAn) cgNodesOf(fn *ssa.Function) []*callgraphNode {
	var out []*callgraphNode
	if n := a.p.CG.Nodes[fn]; n != nil {
		out = append(out, n)
	}
	for f2, n := range a.p.CG.Nodes {
		if f2 != nil && f2.Origin() == fn {
			out = append(out, n)
		}
	}
	return out
}

func (a *nilAn) initExtStores() {
	if a.extInit {
		return
	}
	a.extInit = true
	a.extStores = map[fieldKey]bool{}
	for fn := range a.p.AllFns {
		if !a.p.IsRepoFn(fn) {
			continue
		}
		bf := a.bp.forFn(fn)
		for _, blk := range fn.Blocks {
			for _, ins := range blk.Instrs {
				s, ok := ins.(*ssa.Store)
				if !ok {
					continue
				}
				fa, ok := s.Addr.(*ssa.FieldAddr)
				if !ok {
					continue
				}
				base := bf.canon(fa.X)
				if _, isAlloc := base.(*ssa.Alloc); isAlloc {
					continue
				}
				if ia, isIA := base.(*ssa.IndexAddr); isIA {
					if _, isAlloc := ia.X.(*ssa.Alloc); isAlloc {
						continue
					}
				}
				if pt, ok := fa.X.Type().Underlying().(*types.Pointer); ok {
					if n, ok := pt.Elem().(*types.Named); ok {
						a.extStores[fieldKey{n, fa.Field}] = true
					}
				}
			}
		}
	}
}

// loadNNP: value loaded from memory.
func (a *nilAn) loadNNP(u *ssa.UnOp, path []step, b *ssa.BasicBlock) bool {
	switch ad := u.X.(type) {
	case *ssa.FieldAddr:
		// a field written through a non-local pointer somewhere defeats construction-site reasoning
		a.initExtStores()
		if pt, ok := ad.X.Type().Underlying().(*types.Pointer); ok {
			if n, ok := pt.Elem().(*types.Named); ok && a.extStores[fieldKey{n, ad.Field}] {
				return false
			}
		}
		return a.nnp(ad.X, push(step{field: ad.Field, cond: a.siblingCond(ad.X, ad.Field, b)}, path), b)
	case *ssa.IndexAddr:
		return a.nnp(ad.X, push(step{elem: true}, path), b)
	case *ssa.Global:
		n := 0
		for fn := range a.p.AllFns {
			if !a.p.IsRepoFn(fn) {
				continue
			}
			for _, blk := range fn.Blocks {
				for _, ins := range blk.Instrs {
					if s, isS := ins.(*ssa.Store); isS && s.Addr == ad {
						n++
						if !isInit(fn) || !a.nnp(s.Val, path, blk) {
							return false
						}
					}
				}
			}
		}
		return n >= 1
	case *ssa.Alloc:
		et := ad.Type().Underlying().(*types.Pointer).Elem()
		if _, isStruct := et.Underlying().(*types.Struct); isStruct && len(path) > 0 && !path[0].elem {
			return a.allocNNP(ad, path, b)
		}
		if _, isArr := et.Underlying().(*types.Array); isArr && len(path) > 0 && path[0].elem {
			return a.allocNNP(ad, path, b)
		}
		n := 0
		for _, ref := range *ad.Referrers() {
			if s, ok := ref.(*ssa.Store); ok && s.Addr == ad {
				n++
				if !a.nnp(s.Val, path, s.Block()) {
					return false
				}
			}
		}
		return n > 0
	}
	return false
}

func rulePanicNil(p *Prog, r *Report) {
	roots := append(p.LibraryRoots(), p.CLIRoots()...)
	fns := p.RepoReachable(roots...)
	a := &nilAn{p: p, bp: newBP(p), memo: map[nilKey]int{}, retNN: map[retKey]int{}}
	for _, fn := range p.Representatives(fns) {
		fk := p.FnKey(fn)
		for _, blk := range fn.Blocks {
			for _, ins := range blk.Instrs {
				var ptr ssa.Value
				what := ""
				switch x := ins.(type) {
				case *ssa.FieldAddr:
					ptr, what = x.X, "field access "+describeAddr(x)
				case *ssa.IndexAddr:
					if isPtr(x.X.Type()) {
						ptr, what = x.X, "array index "+describeAddr(x)
					}
				case *ssa.UnOp:
					if x.Op == token.MUL {
						ptr, what = x.X, "load *"+describeAddr(x.X)
					}
				case *ssa.Store:
					ptr, what = x.Addr, "store *"+describeAddr(x.Addr)
				case *ssa.MapUpdate:
					ptr, what = x.Map, "map update "+describeAddr(x.Map)
				case ssa.CallInstruction:
					com := x.Common()
					if com.IsInvoke() {
						// method call on a nil interface panics
						if !isErrorType(com.Value.Type()) {
							ptr, what = com.Value, "interface method call "+com.Method.Name()
						} else {
							ptr, what = com.Value, "error method call "+com.Method.Name()
						}
					} else if _, isB := com.Value.(*ssa.Builtin); !isB && com.StaticCallee() == nil {
						ptr, what = com.Value, "dynamic call "+describeAddr(com.Value)
					}
				}
				if ptr == nil {
					continue
				}
				key := fk + ": " + what
				pos := p.Pos(ins.Pos())
				if !ins.Pos().IsValid() {
					pos = p.FnPos(fn)
				}
				switch ptr.(type) {
				case *ssa.Alloc, *ssa.Global, *ssa.FieldAddr, *ssa.IndexAddr:
					r.Triv("R-PANIC-NIL", key, pos, "address of a variable/field/element")
					continue
				}
				if a.derefOK(ptr, blk, ins) {
					r.Ok("R-PANIC-NIL", key, pos, "non-nil: allocation, guarded by != nil / err == nil, constructor invariant, or all call sites pass non-nil")
				} else {
					r.Bad("R-PANIC-NIL", key, pos, fmt.Sprintf("possible nil dereference: cannot prove %s non-nil here", describeAddr(ptr)))
				}
			}
		}
	}
	r.Floor("R-PANIC-NIL", 1500)
}

func (a *nilAn) derefOK(ptr ssa.Value, blk *ssa.BasicBlock, at ssa.Instruction) bool {
	if _, isMap := ptr.Type().Underlying().(*types.Map); isMap {
		return a.mapNonNil(ptr, blk)
	}
	if _, isIface := ptr.Type().Underlying().(*types.Interface); isIface {
		return a.ifaceNonNil(ptr, blk)
	}
	if _, isSig := ptr.Type().Underlying().(*types.Signature); isSig {
		return a.funcNonNil(ptr, blk)
	}
	return a.nonNil(ptr, blk)
}

func (a *nilAn) mapNonNil(v ssa.Value, b *ssa.BasicBlock) bool {
	switch x := v.(type) {
	case *ssa.MakeMap:
		return true
	case *ssa.UnOp:
		if _, ok := x.X.(*ssa.Global); ok {
			return a.nnp(x, nil, b)
		}
	case *ssa.Phi:
		for i, e := range x.Edges {
			if !a.mapNonNil(e, x.Block().Preds[i]) {
				return false
			}
		}
		return true
	}
	return false
}

func (a *nilAn) ifaceNonNil(v ssa.Value, b *ssa.BasicBlock) bool {
	switch x := v.(type) {
	case *ssa.MakeInterface:
		return true
	case *ssa.Parameter:
		return a.paramNNP(x, nil)
	case *ssa.Call, *ssa.Extract:
		if definitelyNonNilErr(v) {
			return true
		}
		if a.guardedNonNil(v, b) {
			return true
		}
	case *ssa.Phi:
		if a.guardedNonNil(v, b) {
			return true
		}
		for i, e := range x.Edges {
			if !a.ifaceNonNil(e, x.Block().Preds[i]) {
				return false
			}
		}
		return true
	}
	return a.guardedNonNil(v, b)
}

func (a *nilAn) funcNonNil(v ssa.Value, b *ssa.BasicBlock) bool {
	switch x := v.(type) {
	case *ssa.Function, *ssa.MakeClosure:
		return true
	case *ssa.Parameter:
		return a.paramNNP(x, nil)
	case *ssa.Extract:
		// comma-ok map lookup of a func value: non-nil if ok is true on a dominating edge and all stored values non-nil
		if lk, ok := x.Tuple.(*ssa.Lookup); ok && lk.CommaOk && x.Index == 0 {
			return a.lookupOkGuard(lk, b) && a.mapValuesNonNil(lk.X)
		}
	case *ssa.ChangeType:
		return a.funcNonNil(x.X, b)
	case *ssa.Phi:
		// tables consulted in turn (fn, ok := t1[k]; if !ok { fn, ok = t2[k] }; if !ok { return }): the found
		// flag is a phi over the same edges, its true edge dominates the use, and on every edge the flag is the
		// lookup's own ok (or that lookup's ok holds on the edge)
		if a.lookupPhiOk(x, b) {
			return true
		}
		// a function chosen by a switch: every edge a non-nil function
		if funcPhiBusy[x] {
			return false // a loop-carried function variable: not decided
		}
		funcPhiBusy[x] = true
		defer delete(funcPhiBusy, x)
		for i, e := range x.Edges {
			if !a.funcNonNil(e, x.Block().Preds[i]) {
				return false
			}
		}
		return len(x.Edges) > 0
	}
	return false
}

var funcPhiBusy = map[*ssa.Phi]bool{}

// lookupOkGuard: b dominated by the true edge of the ok result of lk.
func (a *nilAn) lookupOkGuard(lk *ssa.Lookup, b *ssa.BasicBlock) bool {
	var okv ssa.Value
	for _, ref := range *lk.Referrers() {
		if ex, isEx := ref.(*ssa.Extract); isEx && ex.Index == 1 {
			okv = ex
		}
	}
	if okv == nil {
		return false
	}
	for x := b; x != nil; x = x.Idom() {
		id := x.Idom()
		if id == nil {
			break
		}
		if len(x.Preds) != 1 {
			continue
		}
		iff, ok := id.Instrs[len(id.Instrs)-1].(*ssa.If)
		if ok && iff.Cond == okv && id.Succs[0] == x {
			return true
		}
	}
	// the call may be in the same block as the If's true successor start
	return false
}

func (a *nilAn) mapValuesNonNil(m ssa.Value) bool {
	if ld, ok := m.(*ssa.UnOp); ok && ld.Op == token.MUL {
		if g, ok := ld.X.(*ssa.Global); ok {
			return a.globalMapValuesNonNil(g)
		}
	}
	if c, ok := m.(*ssa.Call); ok {
		// a repo function that returns a map it has just built by a literal: every return is such a map
		g := c.Call.StaticCallee()
		if g == nil || !a.p.IsRepoFn(g) || !freshMapResult(g) {
			return false
		}
		for _, b := range g.Blocks {
			if ret, ok := b.Instrs[len(b.Instrs)-1].(*ssa.Return); ok {
				if !a.mapValuesNonNil(ret.Results[0]) {
					return false
				}
			}
		}
		return true
	}
	mk, ok := m.(*ssa.MakeMap)
	if !ok {
		return false
	}
	for _, ref := range *mk.Referrers() {
		if mu, ok := ref.(*ssa.MapUpdate); ok {
			if !a.funcNonNil(mu.Value, mu.Block()) {
				return false
			}
		}
	}
	return true
}

// globalMapValuesNonNil: a package-level map that is built once by the package initialiser from a
// literal whose values are all non-nil functions, and is never written or handed out afterwards.
func (a *nilAn) globalMapValuesNonNil(g *ssa.Global) bool {
	inits := 0
	for fn := range a.p.AllFns {
		if !a.p.IsRepoFn(fn) || fn.Blocks == nil {
			continue
		}
		for _, b := range fn.Blocks {
			for _, ins := range b.Instrs {
				uses := false
				for _, op := range ins.Operands(nil) {
					if *op == ssa.Value(g) {
						uses = true
					}
				}
				if !uses {
					continue
				}
				switch x := ins.(type) {
				case *ssa.Store:
					if x.Addr != ssa.Value(g) || fn.Name() != "init" || fn.Synthetic == "" {
						return false
					}
					mk, ok := x.Val.(*ssa.MakeMap)
					if !ok {
						return false
					}
					for _, ref := range *mk.Referrers() {
						switch y := ref.(type) {
						case *ssa.MapUpdate:
							if !a.funcNonNil(y.Value, y.Block()) {
								return false
							}
						case *ssa.Store:
						default:
							return false
						}
					}
					inits++
				case *ssa.UnOp:
					// a load: the loaded map may only be looked up, ranged over or measured
					for _, ref := range *x.Referrers() {
						switch y := ref.(type) {
						case *ssa.Lookup, *ssa.Range, *ssa.DebugRef:
						case *ssa.Call:
							if bi, ok := y.Call.Value.(*ssa.Builtin); !ok || bi.Name() != "len" {
								return false
							}
						default:
							return false
						}
					}
				default:
					return false
				}
			}
		}
	}
	return inits == 1
}

func init() {
	register("C06", "", rulePanicNil)
}

type callgraphNode = callgraph.Node

// lookupPhiOk: see funcNonNil. fn = phi(extract0(lk_i)); some bool phi okp of the same block with
// okp.Edges[i] = extract1(lk_i) (or lk_i's ok true on the way into the edge); b dominated by okp's true edge.
func (a *nilAn) lookupPhiOk(fn *ssa.Phi, b *ssa.BasicBlock) bool {
	blk := fn.Block()
	for _, ins := range blk.Instrs {
		okp, isPhi := ins.(*ssa.Phi)
		if !isPhi {
			break
		}
		if okp == fn || !isBoolType(okp.Type()) || len(okp.Edges) != len(fn.Edges) {
			continue
		}
		if !domEdges(b, func(cond ssa.Value, tv bool) bool {
			if cond == ssa.Value(okp) {
				return tv
			}
			if u, ok := cond.(*ssa.UnOp); ok && u.Op == token.NOT && u.X == ssa.Value(okp) {
				return !tv
			}
			return false
		}) {
			continue
		}
		all := true
		for i, e := range fn.Edges {
			ex, ok := e.(*ssa.Extract)
			if !ok || ex.Index != 0 {
				all = false
				break
			}
			lk, ok := ex.Tuple.(*ssa.Lookup)
			if !ok || !lk.CommaOk || !a.mapValuesNonNil(lk.X) {
				all = false
				break
			}
			own := false
			if oe, ok := okp.Edges[i].(*ssa.Extract); ok && oe.Index == 1 && oe.Tuple == ssa.Value(lk) {
				own = true
			}
			if !own && !a.lookupOkEdge(lk, blk.Preds[i], blk) {
				all = false
				break
			}
		}
		if all {
			return true
		}
	}
	return false
}

// lookupOkEdge: the edge pred -> blk is taken only when lk's ok is true (pred ends in the If on it, or is
// dominated by its true edge)
func (a *nilAn) lookupOkEdge(lk *ssa.Lookup, pred, blk *ssa.BasicBlock) bool {
	var okv ssa.Value
	for _, ref := range *lk.Referrers() {
		if ex, isEx := ref.(*ssa.Extract); isEx && ex.Index == 1 {
			okv = ex
		}
	}
	if okv == nil {
		return false
	}
	if iff, ok := pred.Instrs[len(pred.Instrs)-1].(*ssa.If); ok {
		if iff.Cond == okv && pred.Succs[0] == blk && pred.Succs[1] != blk {
			return true
		}
		if u, ok := iff.Cond.(*ssa.UnOp); ok && u.Op == token.NOT && u.X == okv && pred.Succs[1] == blk && pred.Succs[0] != blk {
			return true
		}
	}
	return a.lookupOkGuard(lk, pred)
}
