package main

// c12b.go: R-MAVEN-TOKEN. ComparableVersion splits a version at '.', at '-' and at every transition
// between a digit and a letter, and at nothing else. The tokenizer is a loop over the characters of
// the version; one iteration is evaluated here for every feasible valuation of the facts the
// documented rule may depend on:
//
//	r=='.'  r=='-'  i>0  IsDigit(prev) IsLetter(prev) IsDigit(r) IsLetter(r)  Len(current)>0
//
// where r is the loop's character, i its index and prev the character at i-1. Conditions over
// anything else (a flag carried around the loop, another character) are unknown: the iteration is
// followed both ways and the outcomes must agree. The outcome of an iteration is the sequence of its
// events, F (the current token is appended to the token list) and W (r is written to the current
// token); it must be: separator -> F when the token is non-empty, nothing written; otherwise W,
// preceded by F exactly when i>0 and (prev,r) is a digit/letter or letter/digit pair. After the loop a
// non-empty token must be appended. This decides the shape of the tokenizer only, not what is done
// with the tokens.

import (
	"fmt"
	"go/constant"
	"go/token"
	"go/types"
	"sort"
	"strings"

	"golang.org/x/tools/go/ssa"
)

type tokLoop struct {
	fn         *ssa.Function
	next       *ssa.Next
	idx, ch    ssa.Value
	body, done *ssa.BasicBlock
	header     *ssa.BasicBlock
	subst      map[ssa.Value]ssa.Value // parameters of a helper being evaluated -> the caller's values
}

func findStringRangeLoop(fn *ssa.Function) *tokLoop {
	for _, b := range fn.Blocks {
		for _, ins := range b.Instrs {
			nx, ok := ins.(*ssa.Next)
			if !ok || !nx.IsString {
				continue
			}
			tl := &tokLoop{fn: fn, next: nx, header: b}
			var okv ssa.Value
			for _, ref := range *nx.Referrers() {
				if ex, ok := ref.(*ssa.Extract); ok {
					switch ex.Index {
					case 0:
						okv = ex
					case 1:
						tl.idx = ex
					case 2:
						tl.ch = ex
					}
				}
			}
			iff, ok := b.Instrs[len(b.Instrs)-1].(*ssa.If)
			if !ok || iff.Cond != okv || tl.ch == nil {
				continue
			}
			tl.body, tl.done = b.Succs[0], b.Succs[1]
			return tl
		}
	}
	return nil
}

// tokAtom names the fact a boolean SSA value states, "" when it is not one of the documented facts
func (tl *tokLoop) tokAtom(v ssa.Value) (name string, neg bool) {
	isPrev := func(x ssa.Value) bool {
		if c, ok := x.(*ssa.Convert); ok {
			x = c.X
		}
		var base, index ssa.Value
		switch lk := x.(type) {
		case *ssa.Lookup:
			base, index = lk.X, lk.Index
		case *ssa.Index:
			base, index = lk.X, lk.Index
		default:
			return false
		}
		if _, isParam := base.(*ssa.Parameter); !isParam || !isStringType(base.Type()) {
			return false
		}
		bo, ok := index.(*ssa.BinOp)
		if !ok || bo.Op != token.SUB || bo.X != tl.idx {
			return false
		}
		n, ok := constInt(bo.Y)
		return ok && n == 1
	}
	who := func(x ssa.Value) string {
		if y, ok := tl.subst[x]; ok {
			x = y
		}
		if c, ok := x.(*ssa.Convert); ok {
			if _, isBasic := c.Type().Underlying().(*types.Basic); isBasic && c.X == tl.ch {
				x = c.X
			}
		}
		switch {
		case x == tl.ch:
			return "r"
		case isPrev(x):
			return "prev"
		}
		return ""
	}
	switch x := v.(type) {
	case *ssa.BinOp:
		switch x.Op {
		case token.EQL, token.NEQ:
			if n, ok := constInt(x.Y); ok {
				if who(x.X) == "r" && (n == '.' || n == '-') {
					return fmt.Sprintf("r=='%c'", rune(n)), x.Op == token.NEQ
				}
				if x.X == tl.idx && n == 0 {
					return "i>0", x.Op == token.EQL
				}
				if isBuilderLen(x.X) && n == 0 {
					return "len>0", x.Op == token.EQL
				}
			}
		case token.GTR:
			if n, ok := constInt(x.Y); ok && n == 0 {
				if x.X == tl.idx {
					return "i>0", false
				}
				if isBuilderLen(x.X) {
					return "len>0", false
				}
			}
		case token.GEQ:
			if n, ok := constInt(x.Y); ok && n == 1 {
				if x.X == tl.idx {
					return "i>0", false
				}
				if isBuilderLen(x.X) {
					return "len>0", false
				}
			}
		}
	case *ssa.Call:
		if f := x.Call.StaticCallee(); f != nil && len(x.Call.Args) == 1 {
			w := who(x.Call.Args[0])
			if w != "" {
				switch f.String() {
				case "unicode.IsDigit":
					return "digit(" + w + ")", false
				case "unicode.IsLetter":
					return "letter(" + w + ")", false
				}
			}
		}
	}
	return "", false
}

func isBuilderLen(v ssa.Value) bool {
	c, ok := v.(*ssa.Call)
	if !ok {
		return false
	}
	f := c.Call.StaticCallee()
	return f != nil && (f.String() == "(*strings.Builder).Len" || f.String() == "(*bytes.Buffer).Len")
}

var tokAtoms = []string{"r=='.'", "r=='-'", "i>0", "digit(prev)", "letter(prev)", "digit(r)", "letter(r)", "len>0"}

func tokFeasible(m map[string]bool) bool {
	sep := m["r=='.'"] || m["r=='-'"]
	if m["r=='.'"] && m["r=='-'"] {
		return false
	}
	if sep && (m["digit(r)"] || m["letter(r)"]) {
		return false
	}
	if m["digit(r)"] && m["letter(r)"] || m["digit(prev)"] && m["letter(prev)"] {
		return false
	}
	if !m["i>0"] && (m["digit(prev)"] || m["letter(prev)"]) {
		return false // prev does not exist: fix its facts to false to avoid duplicates
	}
	return true
}

// tokRun evaluates the blocks from 'from' until 'stop' is entered under the valuation and returns the
// set of event sequences (one per way the unknown conditions can go) and the unknown conditions met
func (tl *tokLoop) tokRun(p *Prog, from, fromPred *ssa.BasicBlock, stop func(*ssa.BasicBlock) bool, val map[string]bool, lenAfterFlush bool) (outcomes map[string]bool, unknown map[string]bool, why string) {
	outcomes, unknown = map[string]bool{}, map[string]bool{}
	takenPred := map[*ssa.BasicBlock]*ssa.BasicBlock{} // block -> the predecessor it was entered from on the current path
	var evalV func(v ssa.Value, at, pred *ssa.BasicBlock, env map[string]bool, depth int) int
	evalV = func(v ssa.Value, at, pred *ssa.BasicBlock, env map[string]bool, depth int) int {
		if depth > 8 {
			return -1
		}
		if c, ok := v.(*ssa.Const); ok && c.Value != nil && isBoolType(c.Type()) {
			if c.Value.String() == "true" {
				return 1
			}
			return 0
		}
		if name, neg := tl.tokAtom(v); name != "" {
			b, known := env[name]
			if !known {
				return -1
			}
			if b != neg {
				return 1
			}
			return 0
		}
		switch x := v.(type) {
		case *ssa.Call:
			// a boolean helper of the repository applied to the loop's values: evaluate its body
			if g := x.Call.StaticCallee(); g != nil && p.IsRepoFn(g) && g.Blocks != nil && isBoolType(x.Type()) && depth < 4 {
				saved := tl.subst
				ns := map[ssa.Value]ssa.Value{}
				for k, v := range saved {
					ns[k] = v
				}
				for i, a := range x.Call.Args {
					if i < len(g.Params) {
						if y, ok := saved[a]; ok {
							a = y
						}
						ns[g.Params[i]] = a
					}
				}
				tl.subst = ns
				res := -2
				var run func(b, pr *ssa.BasicBlock, n int)
				run = func(b, pr *ssa.BasicBlock, n int) {
					if n > 40 || res == -1 {
						res = -1
						return
					}
					old, had := takenPred[b]
					takenPred[b] = pr
					defer func() {
						if had {
							takenPred[b] = old
						} else {
							delete(takenPred, b)
						}
					}()
					switch t := b.Instrs[len(b.Instrs)-1].(type) {
					case *ssa.Return:
						v := evalV(t.Results[0], b, pr, env, depth+1)
						if v < 0 || res >= 0 && res != v {
							res = -1
						} else {
							res = v
						}
					case *ssa.Jump:
						run(b.Succs[0], b, n+1)
					case *ssa.If:
						switch evalV(t.Cond, b, pr, env, depth+1) {
						case 1:
							run(b.Succs[0], b, n+1)
						case 0:
							run(b.Succs[1], b, n+1)
						default:
							res = -1
						}
					default:
						res = -1
					}
				}
				run(g.Blocks[0], nil, 0)
				tl.subst = saved
				if res >= 0 {
					return res
				}
				return -1
			}
		case *ssa.UnOp:
			if x.Op == token.NOT {
				if r := evalV(x.X, at, pred, env, depth+1); r >= 0 {
					return 1 - r
				}
			}
		case *ssa.Phi:
			if tp, ok := takenPred[x.Block()]; ok && tp != nil {
				for i, pb := range x.Block().Preds {
					if pb == tp {
						return evalV(x.Edges[i], tp, nil, env, depth+1)
					}
				}
			}
			if x.Block() == at && pred != nil {
				for i, pb := range at.Preds {
					if pb == pred {
						return evalV(x.Edges[i], pred, nil, env, depth+1)
					}
				}
			}
		}
		return -1
	}
	steps := 0
	type resume struct {
		b, pred *ssa.BasicBlock
		idx     int
	}
	var walkAt func(b, pred *ssa.BasicBlock, start int, ev string, env map[string]bool, visited map[*ssa.BasicBlock]int, stack []resume)
	walkAt = func(b, pred *ssa.BasicBlock, start int, ev string, env map[string]bool, visited map[*ssa.BasicBlock]int, stack []resume) {
		steps++
		if steps > 20000 || why != "" {
			why = "iteration too large to evaluate"
			return
		}
		if start == 0 {
			if len(stack) == 0 && stop(b) {
				outcomes[ev] = true
				return
			}
			if visited[b] > 1 {
				why = "the iteration contains an inner loop"
				return
			}
			visited[b]++
			defer func() { visited[b]-- }()
			oldp, hadp := takenPred[b]
			takenPred[b] = pred
			defer func() {
				if hadp {
					takenPred[b] = oldp
				} else {
					delete(takenPred, b)
				}
			}()
		}
		for i := start; i < len(b.Instrs); i++ {
			ins := b.Instrs[i]
			call, ok := ins.(*ssa.Call)
			if !ok {
				if st, ok := ins.(*ssa.Store); ok {
					// stores into fresh varargs arrays and the store of an append result back into its slice
					// variable are part of the append; anything else is an effect
					if ia, ok := st.Addr.(*ssa.IndexAddr); ok {
						if _, ok := ia.X.(*ssa.Alloc); ok {
							continue
						}
					}
					if c, ok := st.Val.(*ssa.Call); ok {
						if bi, ok := c.Call.Value.(*ssa.Builtin); ok && bi.Name() == "append" {
							continue
						}
					}
					ev += "S"
				}
				continue
			}
			if bi, ok := call.Call.Value.(*ssa.Builtin); ok {
				if bi.Name() == "append" {
					ev += "F"
				}
				continue
			}
			f := call.Call.StaticCallee()
			if f == nil {
				ev += "X"
				continue
			}
			switch f.String() {
			case "(*strings.Builder).WriteRune", "(*strings.Builder).WriteByte":
				if len(call.Call.Args) == 2 && (call.Call.Args[1] == tl.ch || isConvOf(call.Call.Args[1], tl.ch)) {
					ev += "W"
				} else {
					ev += "w"
				}
			case "(*strings.Builder).Reset":
				ev += "R"
				env = copyEnv(env)
				env["len>0"] = false
			case "(*strings.Builder).String", "(*strings.Builder).Len", "unicode.IsDigit", "unicode.IsLetter", "unicode.IsSpace", "unicode.ToLower", "unicode.IsUpper", "unicode.IsLower":
			default:
				if p.IsRepoFn(f) && f.Blocks != nil {
					if isBoolType(call.Type()) {
						continue // a predicate: evaluated where its result is branched on
					}
					if f.Signature.Results().Len() == 0 && len(stack) < 3 {
						// a local closure or helper without a result (flush): its body is part of the iteration
						ns := append(append([]resume{}, stack...), resume{b, pred, i + 1})
						walkAt(f.Blocks[0], nil, 0, ev, env, visited, ns)
						return
					}
				}
				ev += "X"
			}
		}
		last := b.Instrs[len(b.Instrs)-1]
		switch t := last.(type) {
		case *ssa.If:
			switch evalV(t.Cond, b, pred, env, 0) {
			case 1:
				walkAt(b.Succs[0], b, 0, ev, env, visited, stack)
			case 0:
				walkAt(b.Succs[1], b, 0, ev, env, visited, stack)
			default:
				unknown[p.Pos(t.Cond.Pos())+" "+t.Cond.String()] = true
				walkAt(b.Succs[0], b, 0, ev, env, visited, stack)
				walkAt(b.Succs[1], b, 0, ev, env, visited, stack)
			}
		case *ssa.Jump:
			walkAt(b.Succs[0], b, 0, ev, env, visited, stack)
		case *ssa.Return:
			if n := len(stack); n > 0 {
				top := stack[n-1]
				walkAt(top.b, top.pred, top.idx, ev, env, visited, stack[:n-1])
				return
			}
			outcomes[ev+"$"] = true
		default:
			why = "unexpected terminator"
		}
	}
	walkAt(from, fromPred, 0, "", copyEnv(val), map[*ssa.BasicBlock]int{}, nil)
	return
}

func isConvOf(v, x ssa.Value) bool {
	c, ok := v.(*ssa.Convert)
	return ok && c.X == x
}

func copyEnv(m map[string]bool) map[string]bool {
	out := make(map[string]bool, len(m))
	for k, v := range m {
		out[k] = v
	}
	return out
}

func ruleMavenToken(p *Prog, r *Report) {
	key := "maven: tokens are split at '.', '-' and digit/letter transitions, decided by the two adjacent characters only"
	e := ecoByName(p, "maven")
	if e == nil {
		r.Und("R-MAVEN-TOKEN", key, "", "ecosystem not found")
		return
	}
	var tl *tokLoop
	var fns []*ssa.Function
	for _, fn := range p.RepoReachable(e.NewVer) {
		if p.IsRepoFn(fn) {
			fns = append(fns, fn)
		}
	}
	sort.Slice(fns, func(i, j int) bool { return fns[i].String() < fns[j].String() })
	for _, fn := range fns {
		if l := findStringRangeLoop(fn); l != nil {
			// the tokenizer is the character loop that tests for both separators
			dot, dash := false, false
			for _, b := range fn.Blocks {
				for _, ins := range b.Instrs {
					if n, _ := l.tokAtom(valueOf(ins)); n == "r=='.'" {
						dot = true
					} else if n == "r=='-'" {
						dash = true
					}
				}
			}
			if dot && dash {
				tl = l
				break
			}
		}
	}
	if tl == nil {
		r.Und("R-MAVEN-TOKEN", key, p.FnPos(e.NewVer), "no loop over the characters of the version that tests for '.' and '-' found in the constructor's call tree")
		r.Floor("R-MAVEN-TOKEN", 1)
		return
	}
	pos := p.FnPos(tl.fn)
	var bad []string
	undecided := ""
	n := 0
	for mask := 0; mask < 1<<len(tokAtoms); mask++ {
		val := map[string]bool{}
		for i, a := range tokAtoms {
			val[a] = mask&(1<<i) != 0
		}
		if !tokFeasible(val) {
			continue
		}
		n++
		outs, unknown, why := tl.tokRun(p, tl.body, tl.header, func(b *ssa.BasicBlock) bool { return b == tl.header }, val, false)
		if why != "" {
			undecided = why
			break
		}
		sep := val["r=='.'"] || val["r=='-'"]
		trans := val["i>0"] && (val["digit(prev)"] && val["letter(r)"] || val["letter(prev)"] && val["digit(r)"])
		var want string
		switch {
		case sep && val["len>0"]:
			want = "FR"
		case sep:
			want = ""
		case trans && val["len>0"]:
			want = "FRW"
		default:
			want = "W"
		}
		var got []string
		for o := range outs {
			got = append(got, o)
		}
		sort.Strings(got)
		desc := tokDescribe(val)
		if len(got) != 1 {
			var us []string
			for u := range unknown {
				us = append(us, u)
			}
			sort.Strings(us)
			bad = append(bad, fmt.Sprintf("for %s the iteration does %v depending on %s: the split is not decided by the two adjacent characters", desc, tokEvents(got), strings.Join(us, "; ")))
			continue
		}
		if got[0] != want {
			bad = append(bad, fmt.Sprintf("for %s the iteration does %s, ComparableVersion's tokenizer %s", desc, tokEvents(got[:1]), tokEvents([]string{want})))
		}
	}
	// after the loop: a non-empty token is appended
	if undecided == "" {
		for _, lenPos := range []bool{true, false} {
			outs, _, why := tl.tokRun(p, tl.done, tl.header, func(b *ssa.BasicBlock) bool { return false }, map[string]bool{"len>0": lenPos}, false)
			if why != "" {
				undecided = why
				break
			}
			for o := range outs {
				flushed := strings.Contains(o, "F")
				if flushed != lenPos {
					bad = append(bad, fmt.Sprintf("after the last character (token non-empty: %v) the function does %s", lenPos, tokEvents([]string{o})))
				}
			}
		}
	}
	switch {
	case undecided != "":
		r.Und("R-MAVEN-TOKEN", key, pos, undecided)
	case len(bad) > 0:
		sort.Strings(bad)
		r.Bad("R-MAVEN-TOKEN", key, pos, fmt.Sprintf("%d of %d valuations: %s", len(bad), n, bad[0]))
	default:
		r.Ok("R-MAVEN-TOKEN", key, pos, fmt.Sprintf("%s: one iteration evaluated for all %d feasible valuations of (r=='.', r=='-', i>0, digit/letter of prev and r, token non-empty): separator -> append non-empty token; otherwise write r, after appending the token exactly at a digit/letter transition; the last token is appended after the loop", tl.fn.Name(), n))
	}
	r.Floor("R-MAVEN-TOKEN", 1)
}

func valueOf(ins ssa.Instruction) ssa.Value {
	v, _ := ins.(ssa.Value)
	return v
}

func tokDescribe(val map[string]bool) string {
	var parts []string
	for _, a := range tokAtoms {
		if val[a] {
			parts = append(parts, a)
		}
	}
	if len(parts) == 0 {
		return "(first character, neither separator, digit nor letter)"
	}
	return strings.Join(parts, " & ")
}

func tokEvents(os []string) string {
	var out []string
	for _, o := range os {
		if o == "" {
			out = append(out, "nothing")
			continue
		}
		var ev []string
		for _, c := range o {
			switch c {
			case 'F':
				ev = append(ev, "append token")
			case 'R':
				ev = append(ev, "reset")
			case 'W':
				ev = append(ev, "write r")
			case 'w':
				ev = append(ev, "write another character")
			case 'S':
				ev = append(ev, "store")
			case 'X':
				ev = append(ev, "other call")
			case '$':
				ev = append(ev, "return")
			}
		}
		out = append(out, "["+strings.Join(ev, ", ")+"]")
	}
	return strings.Join(out, " or ")
}

// ---- R-MAVEN-NUMTOK: a token is a number item exactly when strconv parses the whole token ---------------
//
// ComparableVersion makes every run of digits a number item, whatever its length. In the code an
// element is marked as a number by storing the constant true in its flag; that store must be dominated
// by the error-free edge of a strconv parse of the token (Atoi, ParseInt, ParseUint), and the element
// built on the other side must be dominated by its failing edge. A hand-written recogniser in between
// (which can add conditions of its own, such as a maximal length) is not decided and reported.
func ruleMavenNumTok(p *Prog, r *Report) {
	var e *Eco
	for _, x := range p.Ecos {
		if x.Name == "maven" {
			e = x
		}
	}
	if e == nil {
		return
	}
	key := "maven: a token is a number item exactly when strconv parses it"
	st, _ := e.VerT.Underlying().(*types.Struct)
	var elemT *types.Struct
	for i := 0; st != nil && i < st.NumFields(); i++ {
		if sl, ok := st.Field(i).Type().Underlying().(*types.Slice); ok {
			if es, ok := sl.Elem().Underlying().(*types.Struct); ok {
				elemT = es
			}
		}
	}
	if elemT == nil {
		r.Und("R-MAVEN-NUMTOK", key, p.FnPos(e.NewVer), "element type of the item list not found")
		r.Floor("R-MAVEN-NUMTOK", 1)
		return
	}
	nTrue, nOK := 0, 0
	var bad []string
	for _, fn := range p.RepoReachable(e.NewVer) {
		for _, b := range fn.Blocks {
			for _, ins := range b.Instrs {
				s, ok := ins.(*ssa.Store)
				if !ok {
					continue
				}
				fa, ok := s.Addr.(*ssa.FieldAddr)
				if !ok {
					continue
				}
				pt, ok := fa.X.Type().Underlying().(*types.Pointer)
				if !ok || !types.Identical(pt.Elem().Underlying(), elemT) || !isBoolType(elemT.Field(fa.Field).Type()) {
					continue
				}
				c, isC := s.Val.(*ssa.Const)
				if !isC || c.Value == nil || !constant.BoolVal(c.Value) {
					if !isC {
						bad = append(bad, fn.Name()+": the number flag of an item is computed ("+p.Pos(s.Pos())+"), not set where a parse of the token has succeeded")
					}
					continue
				}
				nTrue++
				found := false
				for _, b2 := range fn.Blocks {
					for _, i2 := range b2.Instrs {
						call, ok := i2.(*ssa.Call)
						if !ok {
							continue
						}
						g := call.Call.StaticCallee()
						if g == nil {
							continue
						}
						switch extName(g) {
						case "strconv.Atoi", "strconv.ParseInt", "strconv.ParseUint":
							if errNilEdgeDominates(call, b) {
								found = true
							}
						}
					}
				}
				if found {
					nOK++
				} else {
					bad = append(bad, fn.Name()+": an item is marked as a number ("+p.Pos(s.Pos())+") where no strconv parse of the token is known to have succeeded: a recogniser of its own can refuse digit runs that are numbers (long ones, for instance), which then rank as qualifiers below every number")
				}
			}
		}
	}
	sort.Strings(bad)
	switch {
	case len(bad) > 0:
		r.Und("R-MAVEN-NUMTOK", key, p.FnPos(e.NewVer), bad[0])
	case nTrue == 0:
		r.Und("R-MAVEN-NUMTOK", key, p.FnPos(e.NewVer), "no store of the number flag found in the constructor's call tree")
	default:
		r.Ok("R-MAVEN-NUMTOK", key, p.FnPos(e.NewVer), fmt.Sprintf("%d store(s) of the number flag, each dominated by the error-free edge of a strconv parse", nOK))
	}
	r.Floor("R-MAVEN-NUMTOK", 1)
}

func init() {
	register("C12", "", ruleMavenToken, ruleMavenNumTok)
}
