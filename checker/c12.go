package main

import (
	"fmt"
	"go/constant"
	"go/token"
	"go/types"
	"sort"
	"strings"

	"golang.org/x/tools/go/ssa"
)

// ---- C12: Maven versions order as ComparableVersion does --------------------------------------------
//
// R-MAVEN-RANK reads the abstract position table of maven's Compare and compares every world with
// the item rules of ComparableVersion as the property statement gives them; R-MAVEN-ALIAS reads the
// normaliser's table; R-MAVEN-SEP is the structural necessary condition for "'.' and '-' are not
// interchangeable before a number".

var mavenRank = map[string]int{"alpha": 1, "beta": 2, "milestone": 3, "rc": 4, "snapshot": 5, "": 6, "sp": 7}

type mvItem struct {
	kind   int // 0 absent, 1 number, 2 qualifier
	zero   bool
	word   string
	known  bool // qualifier is one of the ranked words
	unread bool // the qualifier's text was not consulted in this world
}

func ruleMaven(p *Prog, r *Report) {
	e := ecoByName(p, "maven")
	if e == nil {
		r.Und("R-MAVEN-RANK", "maven: ecosystem", "", "ecosystem not found")
		return
	}
	pos := p.FnPos(e.Compare)

	// ---- R-MAVEN-RANK ---------------------------------------------------------------------------
	{
		key := "maven: item rules of ComparableVersion at every position"
		c := newAECtx(p)
		c.stageMode = false
		leaves, loopFn, seq, oof := zipWorlds(c, e.Compare)
		if oof != "" {
			r.Und("R-MAVEN-RANK", key, pos, "Compare's position-wise loop: "+oof)
		} else {
			isNumK, intK, strK, presK := "", "", "", "present:"+seq
			for _, k := range c.termKeys() {
				ti := c.terms[k]
				if !strings.HasPrefix(k, seq+"[i].") || len(ti.base) != 0 {
					continue
				}
				switch {
				case ti.kind == akBool:
					isNumK = k
				case strings.HasSuffix(k, "#int"):
					intK = k
				case strings.HasSuffix(k, "#string"):
					strK = k
				}
			}
			item := func(w *world, ind int) (mvItem, bool) {
				if w.pos[posKey(presK, ind)] == 0 {
					return mvItem{kind: 0}, true
				}
				nv, ok := w.pos[posKey(isNumK, ind)]
				if !ok {
					return mvItem{}, false
				}
				if nv == 1 {
					it := mvItem{kind: 1}
					if v, ok := w.pos[posKey(intK, ind)]; ok {
						z := poolIndexInt(c.pools[intK], 0)
						if z >= 0 && v < 2*z+1 {
							return it, false // negative: no token parses to a negative number
						}
						it.zero = z >= 0 && v == 2*z+1
						return it, true
					}
					return it, true
				}
				it := mvItem{kind: 2, unread: true}
				v, ok := w.pos[posKey(strK, ind)]
				if !ok {
					return it, true // the word was not consulted
				}
				it.unread = false
				if v%2 == 1 {
					it.word = constant.StringVal(c.pools[strK][v/2])
					_, it.known = mavenRank[it.word]
				}
				return it, true
			}
			var bad []string
			rows := map[string]int{}
			skipped := 0
			for _, lf := range leaves {
				w := lf.w
				if w.pos[posKey(presK, 0)] == 0 && w.pos[posKey(presK, 1)] == 0 {
					continue
				}
				desc := w.describe(c.pools, c.terms)
				x, okx := item(w, 0)
				y, oky := item(w, 1)
				got, why := outcomeValue(lf.o)
				if why == "TAIL0" {
					why = ""
				}
				if !okx || !oky {
					_, ax := w.pos[posKey(isNumK, 0)]
					_, ay := w.pos[posKey(isNumK, 1)]
					if (w.pos[posKey(presK, 0)] == 1 && !ax) || (w.pos[posKey(presK, 1)] == 1 && !ay) {
						bad = append(bad, "items are ordered without asking whether they are numbers: ["+desc+"]")
					} else {
						skipped++
					}
					continue
				}
				if x.kind == 2 && x.word == "" && x.known || y.kind == 2 && y.word == "" && y.known {
					skipped++ // a release marker in the middle of a version: not claimed
					continue
				}
				exp, row, decided := int64(0), "", true
				cmpRank := func(a, b mvItem) (int64, bool) {
					if a.unread || b.unread {
						return 0, false
					}
					ra, rb := 8, 8
					if a.known {
						ra = mavenRank[a.word]
					}
					if b.known {
						rb = mavenRank[b.word]
					}
					switch {
					case ra < rb:
						return -1, true
					case ra > rb:
						return 1, true
					case ra == 8:
						v, ok := c.cmpAssigned(w, strK, 0, 1)
						return int64(v), ok
					}
					return 0, true
				}
				switch {
				case x.kind == 1 && y.kind == 1:
					row = "number vs number"
					v, ok := c.cmpAssigned(w, intK, 0, 1)
					exp, decided = int64(v), ok
				case x.kind == 1 && y.kind == 2:
					exp, row = 1, "number vs qualifier"
				case x.kind == 2 && y.kind == 1:
					exp, row = -1, "qualifier vs number"
				case x.kind == 2 && y.kind == 2:
					row = "qualifier vs qualifier"
					exp, decided = cmpRank(x, y)
				case x.kind == 0 && y.kind == 1:
					row = "missing vs number"
					if _, has := w.pos[posKey(intK, 1)]; !has {
						decided = false
					} else if !y.zero {
						exp = -1
					}
				case x.kind == 1 && y.kind == 0:
					row = "number vs missing"
					if _, has := w.pos[posKey(intK, 0)]; !has {
						decided = false
					} else if !x.zero {
						exp = 1
					}
				case x.kind == 0 && y.kind == 2:
					row = "missing vs qualifier"
					exp, decided = cmpRank(mvItem{kind: 2, word: "", known: true}, y)
				case x.kind == 2 && y.kind == 0:
					row = "qualifier vs missing"
					exp, decided = cmpRank(x, mvItem{kind: 2, word: "", known: true})
				}
				if !decided {
					bad = append(bad, fmt.Sprintf("row %s is decided without comparing the values: [%s]", row, desc))
					continue
				}
				rows[row]++
				if why != "" || got != exp {
					bad = append(bad, fmt.Sprintf("row %s: ComparableVersion gives %d, the position gives %d %s [%s]", row, exp, got, why, desc))
				}
			}
			var rk []string
			for k, n := range rows {
				rk = append(rk, fmt.Sprintf("%s ×%d", k, n))
			}
			sort.Strings(rk)
			switch {
			case isNumK == "" || intK == "" || strK == "":
				r.Und("R-MAVEN-RANK", key, p.FnPos(loopFn), "item terms (isNumber, int value, string value) not found")
			case len(bad) > 0:
				sort.Strings(bad)
				r.Bad("R-MAVEN-RANK", key, p.FnPos(loopFn), fmt.Sprintf("%d disagreeing abstract position worlds, e.g. %s", len(bad), bad[0]))
			case len(rows) < 8:
				r.Und("R-MAVEN-RANK", key, p.FnPos(loopFn), fmt.Sprintf("rows not all exercised: %v", rk))
			default:
				r.Ok("R-MAVEN-RANK", key, p.FnPos(loopFn), fmt.Sprintf("%d abstract position worlds agree with alpha<beta<milestone<rc<snapshot<(release)<sp<other qualifiers (alphabetical)<any number, a missing item comparing as 0 / the release qualifier (%s; %d worlds outside the claimed shapes skipped)", len(leaves)-skipped, strings.Join(rk, "; "), skipped))
			}
			// the whole of Compare is the loop
			if len(bad) == 0 {
				c2 := newAECtx(p)
				c2.stageMode = false
				n, zbad, zoof := zipDecides(c2, e.Compare, nil)
				k2 := "maven: Compare is exactly the position-wise comparison"
				switch {
				case zoof != "":
					r.Und("R-MAVEN-RANK", k2, pos, zoof)
				case len(zbad) > 0:
					r.Bad("R-MAVEN-RANK", k2, pos, zbad[0])
				default:
					r.Ok("R-MAVEN-RANK", k2, pos, fmt.Sprintf("in all %d abstract worlds the result is the sign of the zip relation", n))
				}
			}
		}
	}

	// ---- R-MAVEN-ALIAS: the normaliser's table ------------------------------------------------------
	{
		key := "maven: qualifier normalisation (case, aliases, release markers)"
		var norm *ssa.Function
		viaNames := map[string]bool{}
		for _, fp := range ecoFieldInfo(p, e).prov {
			for n := range fp.via {
				viaNames[n] = true
			}
		}
		for _, fn := range p.RepoReachable(e.NewVer) {
			sg := fn.Signature
			if fn.Pkg == nil || fn.Pkg.Pkg != e.VerT.Obj().Pkg() || sg.Recv() != nil || sg.Params().Len() != 1 || sg.Results().Len() != 1 {
				continue
			}
			if !isStringType(sg.Params().At(0).Type()) || !isStringType(sg.Results().At(0).Type()) {
				continue
			}
			// a string->string function through which the stored elements pass
			if viaNames[fn.Name()] && (norm == nil || fn.Name() < norm.Name()) {
				norm = fn
			}
		}
		if norm == nil {
			r.Und("R-MAVEN-ALIAS", key, p.FnPos(e.NewVer), "no string normaliser with a constant table is reachable from the constructor")
		} else {
			c := newAECtx(p)
			c.stageMode = false
			leaves, oof := c.tabulate(norm, paramArgs(norm))
			want := map[string]string{"a": "alpha", "b": "beta", "m": "milestone", "cr": "rc", "ga": "", "final": "", "release": "", "alpha": "alpha", "beta": "beta", "milestone": "milestone", "rc": "rc", "snapshot": "snapshot", "sp": "sp"}
			var bad []string
			seen := map[string]bool{}
			lowerKey := ""
			for _, k := range c.termKeys() {
				ti := c.terms[k]
				if strings.HasPrefix(k, "ToLower(") && len(ti.base) == 1 {
					lowerKey = k
				}
			}
			for _, lf := range leaves {
				if lowerKey == "" {
					break
				}
				v, ok := lf.w.pos[posKey(lowerKey, 0)]
				if !ok {
					bad = append(bad, "a result is produced without looking at the lower-cased text")
					continue
				}
				if v%2 == 0 {
					// not one of the table's words: must come back lower-cased and otherwise unchanged
					if t, isT := lf.res.(avTerm); !isT || t.key != lowerKey {
						bad = append(bad, fmt.Sprintf("a word outside the table is not returned as its lower-cased text (%v)", lf.res))
					}
					continue
				}
				word := constant.StringVal(c.pools[lowerKey][v/2])
				seen[word] = true
				got := ""
				switch x := lf.res.(type) {
				case avConst:
					got = constant.StringVal(x.v)
				case avTerm:
					if x.key == lowerKey {
						got = word
					} else {
						got = "?" + x.key
					}
				default:
					got = fmt.Sprintf("?%v", lf.res)
				}
				exp, listed := want[word]
				if !listed {
					exp = word
				}
				if got != exp {
					bad = append(bad, fmt.Sprintf("%q is normalised to %q, ComparableVersion treats it as %q", word, got, exp))
				}
			}
			for _, w := range []string{"a", "b", "m", "cr", "ga", "final", "release"} {
				if !seen[w] && oof == "" && lowerKey != "" {
					bad = append(bad, fmt.Sprintf("alias %q has no row in the normaliser", w))
				}
			}
			switch {
			case oof != "":
				r.Und("R-MAVEN-ALIAS", key, p.FnPos(norm), "normaliser outside the evaluator's fragment: "+oof)
			case lowerKey == "":
				r.Bad("R-MAVEN-ALIAS", key, p.FnPos(norm), "the normaliser does not lower-case its input before looking it up: qualifiers would be case-sensitive")
			case len(bad) > 0:
				sort.Strings(bad)
				var uniq []string
				for i, b := range bad {
					if i == 0 || b != bad[i-1] {
						uniq = append(uniq, b)
					}
				}
				r.Bad("R-MAVEN-ALIAS", key, p.FnPos(norm), strings.Join(uniq, "; "))
			default:
				r.Ok("R-MAVEN-ALIAS", key, p.FnPos(norm), fmt.Sprintf("%s looks up the lower-cased token: a→alpha, b→beta, m→milestone, cr→rc, ga/final/release→release; every other word is returned lower-cased (%d abstract worlds)", norm.Name(), len(leaves)))
			}
			// the normaliser is applied to every token that becomes an element
			ef := ecoFieldInfo(p, e)
			applied := false
			for _, fp := range ef.prov {
				if fp.via[norm.Name()] {
					applied = true
				}
			}
			k2 := "maven: every stored element passes through the normaliser"
			if applied {
				r.Ok("R-MAVEN-ALIAS", k2, p.FnPos(e.NewVer), "the elements field is fed through "+norm.Name())
			} else {
				r.Bad("R-MAVEN-ALIAS", k2, p.FnPos(e.NewVer), "the elements stored in Version do not pass through "+norm.Name())
			}
		}
	}

	// ---- R-MAVEN-TRIM: trailing zero-like items are dropped, from the complete list only ------------
	{
		key := "maven: trailing null items are trimmed from the complete list"
		// the trimming function: returns its slice parameter shortened inside a loop whose guard is a
		// predicate on the last element
		var trimFn, predFn *ssa.Function
		for _, fn := range p.RepoReachable(e.NewVer) {
			if fn.Pkg == nil || fn.Pkg.Pkg != e.VerT.Obj().Pkg() || fn.Signature.Params().Len() != 1 || fn.Signature.Results().Len() != 1 {
				continue
			}
			if _, ok := fn.Signature.Params().At(0).Type().Underlying().(*types.Slice); !ok || !types.Identical(fn.Signature.Params().At(0).Type(), fn.Signature.Results().At(0).Type()) {
				continue
			}
			for _, l := range findLoops(fn) {
				for b := range l.body {
					for _, ins := range b.Instrs {
						if sl, ok := ins.(*ssa.Slice); ok && sl.Low == nil && sl.High != nil {
							if bo, ok := sl.High.(*ssa.BinOp); ok && bo.Op == token.SUB {
								if n, ok := constInt(bo.Y); ok && n == 1 {
									trimFn = fn
								}
							}
						}
						if c, ok := ins.(*ssa.Call); ok {
							if cf := c.Call.StaticCallee(); cf != nil && p.IsRepoFn(cf) && cf.Signature.Results().Len() == 1 && isBoolType(cf.Signature.Results().At(0).Type()) {
								predFn = cf
							}
						}
					}
				}
			}
			// the other spelling: end := len(xs); for end > 0 && pred(xs[end-1]) { end-- }; return xs[:end]
			if trimFn != fn {
				for _, l := range findLoops(fn) {
					for _, ins := range l.header.Instrs {
						ph, ok := ins.(*ssa.Phi)
						if !ok {
							break
						}
						if !isIntType(ph.Type()) {
							continue
						}
						startsAtLen, stepsDown := false, false
						for i, ed := range ph.Edges {
							if l.body[l.header.Preds[i]] {
								if bo, ok := ed.(*ssa.BinOp); ok && bo.Op == token.SUB && bo.X == ssa.Value(ph) {
									if n, ok := constInt(bo.Y); ok && n == 1 {
										stepsDown = true
									}
								}
							} else if lv, ok := lenArgAny(ed); ok && lv == ssa.Value(fn.Params[0]) {
								startsAtLen = true
							}
						}
						returned := false
						for _, b := range fn.Blocks {
							if ret, ok := b.Instrs[len(b.Instrs)-1].(*ssa.Return); ok {
								if sl, ok := ret.Results[0].(*ssa.Slice); ok && sl.X == ssa.Value(fn.Params[0]) && sl.Low == nil && sl.High == ssa.Value(ph) {
									returned = true
								}
							}
						}
						if startsAtLen && stepsDown && returned {
							trimFn = fn
						}
					}
				}
			}
			if trimFn == fn {
				break
			}
			predFn = nil
		}
		switch {
		case trimFn == nil || predFn == nil:
			r.Bad("R-MAVEN-TRIM", key, p.FnPos(e.NewVer), "no function that drops trailing items while a predicate holds is reachable from the constructor: 1.0 and 1 would differ")
		default:
			// call sites: outside every loop, and the result feeds the stored elements
			var inLoop []string
			sites := 0
			for _, fn := range p.RepoReachable(e.NewVer) {
				loops := findLoops(fn)
				for _, b := range fn.Blocks {
					for _, ins := range b.Instrs {
						c, ok := ins.(*ssa.Call)
						if !ok || c.Call.StaticCallee() != trimFn {
							continue
						}
						sites++
						for _, l := range loops {
							if l.body[b] {
								inLoop = append(inLoop, p.Pos(c.Pos()))
							}
						}
					}
				}
			}
			ef := ecoFieldInfo(p, e)
			feeds := false
			for _, fp := range ef.prov {
				if fp.via[trimFn.Name()] {
					feeds = true
				}
			}
			// the predicate: number 0 or the empty (release) qualifier
			c := newAECtx(p)
			c.stageMode = false
			leaves, oof := c.tabulate(predFn, paramArgs(predFn))
			var pbad []string
			for _, lf := range leaves {
				res, isC := lf.res.(avConst)
				if !isC || res.v.Kind() != constant.Bool {
					pbad = append(pbad, "the predicate's result is not a constant in the abstract domain")
					continue
				}
				isNull := constant.BoolVal(res.v)
				desc := lf.w.describe(c.pools, c.terms)
				num, zero, str, empty := false, false, false, false
				for k, v := range lf.w.pos {
					key := k[:strings.LastIndex(k, "|")]
					ti := c.terms[key]
					switch {
					case ti != nil && ti.kind == akBool:
						num = v == 1
						str = v == 0
					case strings.HasSuffix(key, "#int"):
						z := poolIndexInt(c.pools[key], 0)
						zero = z >= 0 && v == 2*z+1
					case strings.HasSuffix(key, "#string"):
						if v%2 == 1 {
							wd := constant.StringVal(c.pools[key][v/2])
							empty = wd == "" || wd == "final" || wd == "ga" || wd == "release"
						}
					}
				}
				want := num && zero || str && empty
				if isNull != want {
					pbad = append(pbad, fmt.Sprintf("null-ness is %v, ComparableVersion's is %v [%s]", isNull, want, desc))
				}
			}
			switch {
			case oof != "":
				r.Und("R-MAVEN-TRIM", key, p.FnPos(predFn), "null predicate outside the fragment: "+oof)
			case len(pbad) > 0:
				sort.Strings(pbad)
				r.Bad("R-MAVEN-TRIM", key, p.FnPos(predFn), pbad[0])
			case !feeds || sites == 0:
				r.Bad("R-MAVEN-TRIM", key, p.FnPos(e.NewVer), "the stored elements do not pass through "+trimFn.Name())
			case len(inLoop) > 0:
				r.Bad("R-MAVEN-TRIM", key, inLoop[0], trimFn.Name()+" is applied inside a loop, to a list that is still being built: zeros in front of a later item are dropped too (1.0.rc1 would equal 1-rc1; ComparableVersion keeps zeros that a '.'-joined item follows)")
			default:
				r.Ok("R-MAVEN-TRIM", key, p.FnPos(trimFn), fmt.Sprintf("%s drops trailing items while %s holds (number 0 or release qualifier, %d abstract worlds); it is applied %d time(s), never inside a loop, and feeds the stored elements", trimFn.Name(), predFn.Name(), len(leaves), sites))
			}
		}
	}

	// ---- R-MAVEN-SEP: '.' and '-' must be told apart by the tokenizer --------------------------------
	{
		key := "maven: '.' and '-' are distinguished when tokenizing"
		// the character variable: the value compared with both '.' and '-'
		type cmpSite struct {
			fn *ssa.Function
			x  ssa.Value
		}
		seenCh := map[cmpSite]map[rune]string{}
		for _, fn := range p.RepoReachable(e.NewVer) {
			if !p.IsRepoFn(fn) {
				continue
			}
			for _, b := range fn.Blocks {
				for _, ins := range b.Instrs {
					bo, ok := ins.(*ssa.BinOp)
					if !ok || (bo.Op != token.EQL && bo.Op != token.NEQ) {
						continue
					}
					if n, ok := constInt(bo.Y); ok && (n == '.' || n == '-') {
						if bt, ok := bo.X.Type().Underlying().(*types.Basic); ok && bt.Info()&types.IsInteger != 0 {
							k := cmpSite{fn, bo.X}
							if seenCh[k] == nil {
								seenCh[k] = map[rune]string{}
							}
							seenCh[k][rune(n)] = p.Pos(bo.Pos())
						}
					}
				}
			}
		}
		var sites []cmpSite
		for k, m := range seenCh {
			if len(m) == 2 {
				sites = append(sites, k)
			}
		}
		sort.Slice(sites, func(i, j int) bool {
			return sites[i].fn.Name()+sites[i].x.Name() < sites[j].fn.Name()+sites[j].x.Name()
		})
		if len(sites) == 0 {
			r.Und("R-MAVEN-SEP", key, p.FnPos(e.NewVer), "no character is compared with both '.' and '-' in the constructor's call tree")
		}
		for _, st := range sites {
			// blocks that can execute when the character is ch (every other test unknown), path-sensitively
			// through boolean phis
			visit := func(ch rune) map[*ssa.BasicBlock]bool {
				type state struct{ b, pred *ssa.BasicBlock }
				seen := map[state]bool{}
				out := map[*ssa.BasicBlock]bool{}
				var eval func(v ssa.Value, at, pred *ssa.BasicBlock, depth int) int // 1 true, 0 false, -1 unknown
				eval = func(v ssa.Value, at, pred *ssa.BasicBlock, depth int) int {
					if depth > 6 {
						return -1
					}
					switch x := v.(type) {
					case *ssa.Const:
						if x.Value != nil && x.Value.Kind() == constant.Bool {
							if constant.BoolVal(x.Value) {
								return 1
							}
							return 0
						}
					case *ssa.BinOp:
						if x.X == st.x && (x.Op == token.EQL || x.Op == token.NEQ) {
							if n, ok := constInt(x.Y); ok {
								eq := rune(n) == ch
								if eq == (x.Op == token.EQL) {
									return 1
								}
								return 0
							}
						}
					case *ssa.UnOp:
						if x.Op == token.NOT {
							if r := eval(x.X, at, pred, depth+1); r >= 0 {
								return 1 - r
							}
						}
					case *ssa.Phi:
						if x.Block() == at && pred != nil {
							for i, pb := range at.Preds {
								if pb == pred {
									return eval(x.Edges[i], pred, nil, depth+1)
								}
							}
						}
					}
					return -1
				}
				var walk func(b, pred *ssa.BasicBlock)
				walk = func(b, pred *ssa.BasicBlock) {
					if seen[state{b, pred}] {
						return
					}
					seen[state{b, pred}] = true
					out[b] = true
					if iff, ok := b.Instrs[len(b.Instrs)-1].(*ssa.If); ok {
						switch eval(iff.Cond, b, pred, 0) {
						case 1:
							walk(b.Succs[0], b)
						case 0:
							walk(b.Succs[1], b)
						default:
							walk(b.Succs[0], b)
							walk(b.Succs[1], b)
						}
						return
					}
					for _, s := range b.Succs {
						walk(s, b)
					}
				}
				walk(st.fn.Blocks[0], nil)
				return out
			}
			// only blocks that do something (not the tests themselves) matter
			effectful := func(m map[*ssa.BasicBlock]bool) map[*ssa.BasicBlock]bool {
				out := map[*ssa.BasicBlock]bool{}
				for b := range m {
					for _, ins := range b.Instrs {
						switch ins.(type) {
						case *ssa.BinOp, *ssa.If, *ssa.Jump, *ssa.Phi, *ssa.DebugRef, *ssa.UnOp:
						default:
							out[b] = true
						}
					}
				}
				return out
			}
			dot, dash := effectful(visit('.')), effectful(visit('-'))
			same := len(dot) == len(dash)
			for b := range dot {
				if !dash[b] {
					same = false
				}
			}
			k := fmt.Sprintf("%s (%s)", key, p.FnKey(st.fn))
			if same {
				r.Bad("R-MAVEN-SEP", k, seenCh[st]['-'], "the same code runs whether the separator is '.' or '-' (every branch on the character treats them alike) and the element type records no separator: 1-1 and 1.1 parse to the same elements and compare equal, where ComparableVersion orders 1-1 < 1.0.1 < 1.1")
			} else {
				r.Ok("R-MAVEN-SEP", k, seenCh[st]['-'], "'.' and '-' lead to different code in the tokenizer")
			}
		}
	}
	r.Floor("R-MAVEN-RANK", 2)
	r.Floor("R-MAVEN-ALIAS", 2)
	r.Floor("R-MAVEN-SEP", 1)
	r.Floor("R-MAVEN-TRIM", 1)
}

func init() {
	register("C12", "Maven versions order as Maven's ComparableVersion does", ruleMaven)
}
