package main

import (
	"fmt"
	"go/constant"
	"go/token"
	"go/types"
	"regexp"

	"golang.org/x/tools/go/ssa"
)

// ---- R-PAIR: value xor error ----------------------------------------------------------

func newNilAn(p *Prog) *nilAn {
	return &nilAn{p: p, bp: newBP(p), memo: map[nilKey]int{}, retNN: map[retKey]int{}}
}

// forwardedCall: results[i] and results[j] are Extract i' / last of the same call.
func forwardedCall(r *ssa.Return, vi, ei int) (*ssa.Call, int) {
	ex, ok := r.Results[vi].(*ssa.Extract)
	if !ok {
		return nil, 0
	}
	ee, ok := r.Results[ei].(*ssa.Extract)
	if !ok || ee.Tuple != ex.Tuple {
		return nil, 0
	}
	c, ok := ex.Tuple.(*ssa.Call)
	if !ok {
		return nil, 0
	}
	if ee.Index != c.Call.Signature().Results().Len()-1 {
		return nil, 0
	}
	return c, ex.Index
}

func rulePair(p *Prog, r *Report) {
	a := newNilAn(p)
	roots := append(p.LibraryRoots(), p.CLIRoots()...)
	fns := p.Representatives(p.RepoReachable(roots...))
	inSet := map[*ssa.Function]bool{}
	isPairFn := func(fn *ssa.Function) bool {
		res := fn.Signature.Results()
		return res.Len() == 2 && isPtr(res.At(0).Type()) && isErrorType(res.At(1).Type())
	}
	for fn := range p.AllFns {
		if p.IsRepoFn(fn) && fn.Blocks != nil && isPairFn(fn) {
			inSet[fn] = true
		}
	}
	n := 0
	for _, fn := range fns {
		if !isPairFn(fn) {
			continue
		}
		bf := a.bp.forFn(fn)
		fk := p.FnKey(fn)
		ri := 0
		for _, blk := range fn.Blocks {
			ret, ok := blk.Instrs[len(blk.Instrs)-1].(*ssa.Return)
			if !ok {
				continue
			}
			ri++
			n++
			key := fmt.Sprintf("%s: return#%d (%s, %s)", fk, ri, retDesc(ret.Results[0]), retDesc(ret.Results[1]))
			pos := p.Pos(ret.Pos())
			v, e := ret.Results[0], ret.Results[1]
			errNil := isNilConst(e)
			errNonNil := definitelyNonNilErr(e) || (!errNil && bf.nonNilAt(blk, e))
			switch {
			case errNil && a.nonNil(v, blk):
				r.Ok("R-PAIR", key, pos, "non-nil value with nil error")
			case errNonNil && isNilConst(v):
				r.Ok("R-PAIR", key, pos, "nil value with non-nil error")
			default:
				if c, idx := forwardedCall(ret, 0, 1); c != nil && idx == 0 {
					good := true
					for _, cn := range p.calleeNames(c) {
						if cn.fn == nil || !inSet[cn.fn] && !(cn.fn.Origin() != nil && inSet[cn.fn.Origin()]) {
							good = false
						}
					}
					if good {
						r.Ok("R-PAIR", key, pos, "forwards both results of a callee that obeys the same rule")
						continue
					}
				}
				// the value handed on from a callee whose own error is non-nil here: that callee returned nil
				// with it (same rule), so nil is what escapes
				if errNonNil {
					if ex, ok := v.(*ssa.Extract); ok && ex.Index == 0 {
						if c, ok := ex.Tuple.(*ssa.Call); ok {
							var cerr ssa.Value
							for _, ref := range *c.Referrers() {
								if e2, ok := ref.(*ssa.Extract); ok && e2.Index == 1 {
									cerr = e2
								}
							}
							good := cerr != nil && bf.nonNilAt(blk, cerr)
							for _, cn := range p.calleeNames(c) {
								if cn.fn == nil || !inSet[cn.fn] && !(cn.fn.Origin() != nil && inSet[cn.fn.Origin()]) {
									good = false
								}
							}
							if good {
								r.Ok("R-PAIR", key, pos, "the value is the result of a callee that failed on this path (nil by the same rule), returned with a non-nil error")
								continue
							}
						}
					}
				}
				why := "returns a value together with a possibly non-nil error, or a nil value with a nil error"
				if errNil {
					why = "nil error but the value is not provably non-nil"
				} else if errNonNil {
					why = "non-nil error but the value is not the nil constant (partial result escapes)"
				}
				r.Bad("R-PAIR", key, pos, why)
			}
		}
	}
	r.Floor("R-PAIR", 150)
	// every one of the 40 public constructors is in the checked set (by shape)
	for _, e := range p.Ecos {
		for _, fn := range []*ssa.Function{e.NewVer, e.NewRng} {
			if isPairFn(fn) {
				r.Triv("R-PAIR-API", p.FnKey(fn), p.FnPos(fn), "public constructor has the (*T, error) shape and is covered by R-PAIR")
			} else {
				r.Bad("R-PAIR-API", p.FnKey(fn), p.FnPos(fn), "public constructor does not return (*T, error)")
			}
		}
	}
	r.Floor("R-PAIR-API", 40)
}

func retDesc(v ssa.Value) string {
	switch x := v.(type) {
	case *ssa.Const:
		if x.Value == nil {
			return "nil"
		}
		return x.String()
	case *ssa.Alloc:
		return "&" + types.TypeString(x.Type().Underlying().(*types.Pointer).Elem(), func(*types.Package) string { return "" }) + "{}"
	case *ssa.Call:
		if f := x.Call.StaticCallee(); f != nil {
			return f.Name() + "()"
		}
	case *ssa.Extract:
		return retDesc(x.Tuple) + fmt.Sprintf("#%d", x.Index)
	case *ssa.Phi:
		return "phi:" + x.Comment
	case *ssa.Parameter:
		return x.Name()
	}
	return describeAddr(v)
}

// ---- R-ERRFALSE: (bool, error) functions return false whenever the error may be non-nil ----

func ruleErrFalse(p *Prog, r *Report) {
	roots := append(p.LibraryRoots(), p.CLIRoots()...)
	fns := p.Representatives(p.RepoReachable(roots...))
	isBE := func(fn *ssa.Function) bool {
		res := fn.Signature.Results()
		if res.Len() != 2 || !isErrorType(res.At(1).Type()) {
			return false
		}
		b, ok := res.At(0).Type().Underlying().(*types.Basic)
		return ok && b.Kind() == types.Bool
	}
	for _, fn := range fns {
		if !isBE(fn) {
			continue
		}
		fk := p.FnKey(fn)
		ri := 0
		for _, blk := range fn.Blocks {
			ret, ok := blk.Instrs[len(blk.Instrs)-1].(*ssa.Return)
			if !ok {
				continue
			}
			ri++
			key := fmt.Sprintf("%s: return#%d (%s, %s)", fk, ri, retDesc(ret.Results[0]), retDesc(ret.Results[1]))
			pos := p.Pos(ret.Pos())
			v, e := ret.Results[0], ret.Results[1]
			if isNilConst(e) {
				r.Ok("R-ERRFALSE", key, pos, "nil error")
				continue
			}
			if c, ok := v.(*ssa.Const); ok && c.Value != nil && c.Value.Kind() == constant.Bool && !constant.BoolVal(c.Value) {
				r.Ok("R-ERRFALSE", key, pos, "false with the error")
				continue
			}
			if c, _ := forwardedCall(ret, 0, 1); c != nil {
				good := true
				for _, cn := range p.calleeNames(c) {
					if cn.fn == nil || !cn.repo || !isBE(cn.fn) {
						good = false
					}
				}
				if good {
					r.Ok("R-ERRFALSE", key, pos, "forwards (bool, error) of callees that obey the same rule")
					continue
				}
			}
			r.Bad("R-ERRFALSE", key, pos, "may return true (or an unknown boolean) together with a non-nil error")
		}
	}
	r.Floor("R-ERRFALSE", 25)
}

// ---- R-EXIT: CLI exit codes ---------------------------------------------------------------

func ruleExit(p *Prog, r *Report) {
	sp := p.SSA.Package(p.Cmd.Types)
	isSI := func(fn *ssa.Function) bool {
		res := fn.Signature.Results()
		if res.Len() != 2 {
			return false
		}
		b0, ok0 := res.At(0).Type().Underlying().(*types.Basic)
		b1, ok1 := res.At(1).Type().Underlying().(*types.Basic)
		return ok0 && ok1 && b0.Kind() == types.String && b1.Kind() == types.Int
	}
	fns := p.Representatives(p.RepoReachable(p.CLIRoots()...))
	for _, fn := range fns {
		if fnPkg(fn) != p.Cmd.Types || !isSI(fn) {
			continue
		}
		fk := p.FnKey(fn)
		ri := 0
		// error values produced in this function
		var errVals []ssa.Value
		for _, blk := range fn.Blocks {
			for _, ins := range blk.Instrs {
				if ex, ok := ins.(*ssa.Extract); ok && isErrorType(ex.Type()) {
					if _, isCall := ex.Tuple.(*ssa.Call); isCall {
						errVals = append(errVals, ex)
					}
				}
				if c, ok := ins.(*ssa.Call); ok && isErrorType(c.Type()) {
					errVals = append(errVals, c)
				}
			}
		}
		for _, blk := range fn.Blocks {
			ret, ok := blk.Instrs[len(blk.Instrs)-1].(*ssa.Return)
			if !ok {
				continue
			}
			ri++
			key := fmt.Sprintf("%s: return#%d code %s", fk, ri, retDesc(ret.Results[1]))
			pos := p.Pos(ret.Pos())
			code, isConst := constInt(ret.Results[1])
			if !isConst {
				if c, idx := forwardedCall2(ret); c != nil && idx == 0 {
					good := true
					for _, cn := range p.calleeNames(c) {
						if cn.fn == nil || !cn.repo || !isSI(cn.fn) {
							good = false
						}
					}
					if good {
						r.Ok("R-EXIT", key, pos, "forwards (output, code) of a runner that obeys the same rule")
						continue
					}
				}
				r.Bad("R-EXIT", key, pos, "exit code is not a constant 0/1 and not forwarded from a checked runner")
				continue
			}
			if code == 1 {
				r.Ok("R-EXIT", key, pos, "failure path returns 1")
				continue
			}
			if code != 0 {
				r.Bad("R-EXIT", key, pos, "exit code outside {0,1}")
				continue
			}
			// success: every error produced in this function is established nil here
			okAll := true
			why := ""
			for _, ev := range errVals {
				if !errNilEstablished(blk, ev) {
					okAll = false
					why = "error result of " + retDesc(ev) + " is not established nil before returning code 0"
				}
			}
			if okAll {
				r.Ok("R-EXIT", key, pos, fmt.Sprintf("code 0 only after all %d error results are established nil", len(errVals)))
			} else {
				r.Bad("R-EXIT", key, pos, why)
			}
		}
	}
	// run: int results are constant 1 or the forwarded code of a checked runner
	run := sp.Func("run")
	if run == nil {
		r.Bad("R-EXIT", "cmd.run", "-", "run not found")
	} else {
		ri := 0
		for _, blk := range run.Blocks {
			ret, ok := blk.Instrs[len(blk.Instrs)-1].(*ssa.Return)
			if !ok {
				continue
			}
			ri++
			key := fmt.Sprintf("cmd.run: return#%d %s", ri, retDesc(ret.Results[0]))
			pos := p.Pos(ret.Pos())
			if c, ok := constInt(ret.Results[0]); ok {
				if c == 1 {
					r.Ok("R-EXIT", key, pos, "usage / unknown ecosystem returns 1")
				} else {
					r.Bad("R-EXIT", key, pos, fmt.Sprintf("run returns constant %d on a path that ran no command", c))
				}
				continue
			}
			ex, ok := ret.Results[0].(*ssa.Extract)
			good := ok && ex.Index == 1
			if good {
				c, isCall := ex.Tuple.(*ssa.Call)
				good = isCall
				if isCall {
					names := p.calleeNames(c)
					if len(names) == 0 {
						good = false
					}
					for _, cn := range names {
						if cn.fn == nil || !cn.repo || !isSI(cn.fn) {
							good = false
						}
					}
				}
			}
			if good {
				r.Ok("R-EXIT", key, pos, "forwards the code of the dispatched runner")
			} else {
				r.Bad("R-EXIT", key, pos, "run's result is neither 1 nor the code returned by a checked runner")
			}
		}
	}
	// main: os.Exit(run(...)) and nothing else
	mainFn := sp.Func("main")
	okMain := false
	if mainFn != nil {
		for _, blk := range mainFn.Blocks {
			for _, ins := range blk.Instrs {
				if c, ok := ins.(*ssa.Call); ok {
					if f := c.Call.StaticCallee(); f != nil && f.String() == "os.Exit" && len(c.Call.Args) == 1 {
						if rc, ok := c.Call.Args[0].(*ssa.Call); ok && rc.Call.StaticCallee() == run {
							okMain = true
						}
					}
				}
			}
		}
	}
	if okMain {
		r.Ok("R-EXIT", "cmd.main: os.Exit(run(...))", p.FnPos(mainFn), "process exit status is run's result")
	} else {
		r.Bad("R-EXIT", "cmd.main: os.Exit(run(...))", "-", "main does not pass run's result to os.Exit")
	}
	r.Floor("R-EXIT", 12)
}

func forwardedCall2(r *ssa.Return) (*ssa.Call, int) {
	ex, ok := r.Results[0].(*ssa.Extract)
	if !ok {
		return nil, 0
	}
	ee, ok := r.Results[1].(*ssa.Extract)
	if !ok || ee.Tuple != ex.Tuple || ee.Index != 1 {
		return nil, 0
	}
	c, ok := ex.Tuple.(*ssa.Call)
	if !ok {
		return nil, 0
	}
	return c, ex.Index
}

// errNilEstablished: blk is dominated by an edge on which g == nil where g is ev or a phi
// that merges ev.
func errNilEstablished(blk *ssa.BasicBlock, ev ssa.Value) bool {
	return domEdges(blk, func(cond ssa.Value, tv bool) bool {
		bo, ok := cond.(*ssa.BinOp)
		if !ok || (bo.Op != token.EQL && bo.Op != token.NEQ) {
			return false
		}
		var g ssa.Value
		if isNilConst(bo.Y) {
			g = bo.X
		} else if isNilConst(bo.X) {
			g = bo.Y
		} else {
			return false
		}
		if (bo.Op == token.EQL) != tv {
			return false
		}
		return flowsInto(ev, g, map[ssa.Value]bool{})
	})
}

func flowsInto(ev, g ssa.Value, seen map[ssa.Value]bool) bool {
	if ev == g {
		return true
	}
	if seen[g] {
		return false
	}
	seen[g] = true
	if ph, ok := g.(*ssa.Phi); ok {
		for _, e := range ph.Edges {
			if flowsInto(ev, e, seen) {
				return true
			}
		}
	}
	return false
}

// ---- R-PANIC-MISC: remaining panic-capable instructions ------------------------------------

func rulePanicMisc(p *Prog, r *Report) {
	roots := append(p.LibraryRoots(), p.CLIRoots()...)
	fns := p.Representatives(p.RepoReachable(roots...))
	b := newBP(p)
	for _, fn := range fns {
		fk := p.FnKey(fn)
		f := b.forFn(fn)
		for _, blk := range fn.Blocks {
			for idx, ins := range blk.Instrs {
				pos := p.Pos(ins.Pos())
				switch x := ins.(type) {
				case *ssa.Panic:
					r.Bad("R-PANIC-MISC", fk+": explicit panic", pos, "panic statement reachable from an entry point")
				case *ssa.BinOp:
					if (x.Op == token.QUO || x.Op == token.REM) && isIntType(x.Type()) {
						key := fk + ": integer division by " + describeAddr(x.Y)
						if c, ok := constInt(x.Y); ok && c != 0 {
							r.Triv("R-PANIC-MISC", key, pos, "constant non-zero divisor")
						} else {
							yt, yo := f.intTerm(x.Y)
							if f.prove(point{blk, idx}, goal{zeroT, yt, yo - 1}, nil, 0) {
								r.Ok("R-PANIC-MISC", key, pos, "divisor proven >= 1")
							} else {
								r.Bad("R-PANIC-MISC", key, pos, "divisor not proven non-zero")
							}
						}
					}
					if x.Op == token.SHL || x.Op == token.SHR {
						if _, ok := constInt(x.Y); !ok {
							if b, ok := x.Y.Type().Underlying().(*types.Basic); ok && b.Info()&types.IsUnsigned == 0 {
								if !proveNonNeg(f, point{blk, idx}, x.Y, 0) {
									r.Bad("R-PANIC-MISC", fk+": shift by "+describeAddr(x.Y), pos, "signed shift count not proven non-negative")
								}
							}
						}
					}
				case *ssa.MakeSlice:
					key := fk + ": make([]T, " + idxDesc(f, x.Len) + ")"
					lt, lo := f.intTerm(x.Len)
					if f.prove(point{blk, idx}, goal{zeroT, lt, lo}, nil, 0) {
						r.Ok("R-PANIC-MISC", key, pos, "length proven >= 0")
					} else {
						r.Bad("R-PANIC-MISC", key, pos, "make with a length not proven non-negative")
					}
				case *ssa.SliceToArrayPointer:
					r.Bad("R-PANIC-MISC", fk+": slice to array pointer conversion", pos, "conversion panics on short slices; no rule for it")
				case *ssa.Call:
					fnc := x.Call.StaticCallee()
					if fnc == nil {
						continue
					}
					switch fnc.String() {
					case "regexp.MustCompile":
						pat, ok := constString(x.Call.Args[0])
						key := fk + ": regexp.MustCompile"
						if !ok {
							r.Bad("R-PANIC-MISC", key, pos, "MustCompile of a non-constant pattern may panic")
						} else if _, err := regexp.Compile(pat); err != nil {
							r.Bad("R-PANIC-MISC", key+" "+pat, pos, "constant pattern does not compile: "+err.Error())
						} else {
							r.Ok("R-PANIC-MISC", key+" "+truncate(pat, 40), pos, "constant pattern compiles (checked in the analyser)")
						}
					case "strings.Repeat":
						ct, co := f.intTerm(x.Call.Args[1])
						key := fk + ": strings.Repeat count"
						if f.prove(point{blk, idx}, goal{zeroT, ct, co}, nil, 0) {
							r.Ok("R-PANIC-MISC", key, pos, "count proven >= 0")
						} else {
							r.Bad("R-PANIC-MISC", key, pos, "negative count panics")
						}
					}
				}
			}
		}
	}
	r.Floor("R-PANIC-MISC", 37)
}

func truncate(s string, n int) string {
	if len(s) > n {
		return s[:n] + "…"
	}
	return s
}

func init() {
	register("C06", "Panic-freedom, termination and result discipline decided for every function reachable from the 20x7 public operations, vers.Contains and the CLI: (R-PANIC-BOUNDS) every index/slice expression proven in range by a difference-constraint prover over SSA (dominating conditions, std postconditions incl. constant-regexp group counts, Houdini loop invariants, path splitting, constructor field invariants, callee summaries); (R-PANIC-NIL) every dereference proven non-nil by an access-path analysis rooted at construction sites; (R-PANIC-ASSERT) tagged-union discipline for unchecked type assertions; (R-PANIC-MISC) no explicit panic, division, bad make/Repeat/MustCompile; (R-TERM) every loop in a terminating class, recursion guarded; (R-PAIR) value xor error at every return of every (*T, error) function; (R-ERRFALSE) (bool, error) returns false with an error; (R-EXIT) CLI exit codes.", rulePair, ruleErrFalse, ruleExit, rulePanicMisc)
}

// proveNonNeg: v >= 0, looking through multiplication by a positive constant and "constant - x"
func proveNonNeg(f *bpFn, pt point, v ssa.Value, depth int) bool {
	if b, ok := v.(*ssa.BinOp); ok && depth < 3 {
		switch b.Op {
		case token.MUL:
			if c, ok := constInt(b.X); ok && c > 0 {
				return proveNonNeg(f, pt, b.Y, depth+1)
			}
			if c, ok := constInt(b.Y); ok && c > 0 {
				return proveNonNeg(f, pt, b.X, depth+1)
			}
		case token.SUB:
			if c, ok := constInt(b.X); ok {
				// c - y >= 0  <=>  y <= c
				yt, yo := f.intTerm(b.Y)
				return f.prove(pt, goal{yt, zeroT, c - yo}, nil, 0)
			}
		}
	}
	yt, yo := f.intTerm(v)
	return f.prove(pt, goal{zeroT, yt, yo}, nil, 0)
}
