package main

// accept.go: grammar inclusion rules. A constructor that gates its whole input on constant regular
// expressions accepts at most the union of their languages in its structured form. The rules below
// decide, with the inclusion procedure of relang.go, that a grammar the property names (plain dotted
// numerics of the arities the ecosystem takes today, SemVer 2.0.0, the Alpine form) is included in
// that union. They decide the grammar clause only: what the constructor does with the matched groups
// is the business of the other rules.

import (
	"fmt"
	"go/token"
	"sort"
	"strings"

	"golang.org/x/tools/go/ssa"
)

type gatePattern struct {
	ri        *regexInfo
	fn        *ssa.Function
	pos       token.Pos
	fold      bool     // the input is case-folded before the match
	prefixes  []string // literal prefixes the constructor may put in front of the input ("" = none)
	mandatory bool     // a failed match makes fn return a non-nil error
}

var identityOnInput = map[string]bool{
	"strings.TrimSpace": true, "strings.TrimPrefix": true, "strings.TrimSuffix": true, "strings.TrimLeft": true,
	"strings.TrimRight": true, "strings.Trim": true, "strings.ToLower": true, "strings.ToUpper": true,
}

// wholeInput: v is the constructor's input up to trimming, prefix stripping and case folding
type inputXform struct {
	fold     bool
	prefixes map[string]bool
}

func (x *inputXform) prefixList() []string {
	if len(x.prefixes) == 0 {
		return []string{""}
	}
	var out []string
	for s := range x.prefixes {
		out = append(out, s)
	}
	sort.Strings(out)
	return out
}

func wholeInput(p *Prog, v ssa.Value, param *ssa.Parameter, xf *inputXform, seen map[ssa.Value]bool) bool {
	ok := wholeInput1(p, v, param, xf, seen, "")
	return ok
}

func wholeInput1(p *Prog, v ssa.Value, param *ssa.Parameter, xf *inputXform, seen map[ssa.Value]bool, prefix string) bool {
	if _, isPhi := v.(*ssa.Phi); isPhi {
		if seen[v] {
			return true
		}
		seen[v] = true
	}
	switch x := v.(type) {
	case *ssa.Parameter:
		if x == param {
			if xf.prefixes == nil {
				xf.prefixes = map[string]bool{}
			}
			xf.prefixes[prefix] = true
			return true
		}
		return false
	case *ssa.Call:
		f := x.Call.StaticCallee()
		if f == nil {
			return false
		}
		if !identityOnInput[f.String()] {
			// a repo helper string -> string every result of which is its own parameter up to the same
			// operations (a clean-up helper)
			if p != nil && p.IsRepoFn(f) && f.Blocks != nil && len(f.Params) == 1 && isStringType(f.Params[0].Type()) && f.Signature.Results().Len() == 1 && isStringType(f.Signature.Results().At(0).Type()) && len(seen) < 64 {
				for _, b := range f.Blocks {
					if ret, ok := b.Instrs[len(b.Instrs)-1].(*ssa.Return); ok {
						if !wholeInput1(p, ret.Results[0], f.Params[0], xf, seen, prefix) {
							return false
						}
					}
				}
				// the helper's parameter stands for the argument
				return wholeInput1(p, x.Call.Args[0], param, xf, seen, prefix)
			}
			return false
		}
		if f.String() == "strings.ToLower" || f.String() == "strings.ToUpper" {
			xf.fold = true
		}
		return wholeInput1(p, x.Call.Args[0], param, xf, seen, prefix)
	case *ssa.Phi:
		for _, e := range x.Edges {
			if !wholeInput1(p, e, param, xf, seen, prefix) {
				return false
			}
		}
		return true
	case *ssa.BinOp:
		// "v" + s: a literal put in front of the input
		if x.Op == token.ADD {
			if c, ok := constString(x.X); ok {
				return wholeInput1(p, x.Y, param, xf, seen, prefix+c)
			}
		}
	case *ssa.Slice:
		// s[k:]: a stripped prefix
		if x.High == nil {
			return wholeInput1(p, x.X, param, xf, seen, prefix)
		}
	}
	return false
}

// errorOnNoMatch: the branch taken when the match fails returns a non-nil error
func errorOnNoMatch(call *ssa.Call) bool {
	var conds []ssa.Value
	var failOnTrue []bool
	name := extName(call.Call.StaticCallee())
	for _, ref := range *call.Referrers() {
		switch r := ref.(type) {
		case *ssa.BinOp:
			if (r.Op == token.EQL || r.Op == token.NEQ) && (isNilConst(r.X) || isNilConst(r.Y)) {
				conds = append(conds, r)
				failOnTrue = append(failOnTrue, r.Op == token.EQL)
			}
		case *ssa.UnOp:
			if r.Op == token.NOT {
				conds = append(conds, r)
				failOnTrue = append(failOnTrue, true)
			}
		case *ssa.If:
			if strings.HasSuffix(name, "MatchString") {
				conds = append(conds, call)
				failOnTrue = append(failOnTrue, false)
			}
		}
	}
	for i, c := range conds {
		refs := c.Referrers()
		if refs == nil {
			continue
		}
		for _, ref := range *refs {
			iff, ok := ref.(*ssa.If)
			if !ok {
				continue
			}
			b := iff.Block().Succs[1]
			if failOnTrue[i] {
				b = iff.Block().Succs[0]
			}
			for steps := 0; steps < 4; steps++ {
				last := b.Instrs[len(b.Instrs)-1]
				if ret, ok := last.(*ssa.Return); ok {
					n := len(ret.Results)
					if n > 0 && isErrorType(ret.Results[n-1].Type()) && !isNilConst(ret.Results[n-1]) {
						return true
					}
					break
				}
				if _, ok := last.(*ssa.Jump); ok {
					b = b.Succs[0]
					continue
				}
				break
			}
		}
	}
	return false
}

var regexGateMethods = map[string]bool{
	"(*regexp.Regexp).FindStringSubmatch": true, "(*regexp.Regexp).MatchString": true,
	"(*regexp.Regexp).FindString": true, "(*regexp.Regexp).FindStringSubmatchIndex": true,
	"(*regexp.Regexp).FindStringIndex": true,
}

// gatePatterns: the constant patterns the input of fn (its parameter param) is matched against as a
// whole, in fn and in the repo functions it hands the input to
func (p *Prog) gatePatterns(fn *ssa.Function, param *ssa.Parameter, depth int, unresolved *[]string) []gatePattern {
	var out []gatePattern
	if fn == nil || fn.Blocks == nil || depth > 3 {
		return nil
	}
	for _, b := range fn.Blocks {
		for _, ins := range b.Instrs {
			call, ok := ins.(*ssa.Call)
			if !ok {
				continue
			}
			f := call.Call.StaticCallee()
			if f == nil {
				continue
			}
			if regexGateMethods[extName(f)] && len(call.Call.Args) >= 2 {
				xf := &inputXform{}
				if !wholeInput(p, call.Call.Args[1], param, xf, map[ssa.Value]bool{}) {
					continue
				}
				ris := p.regexSetOf(call.Call.Args[0])
				if len(ris) == 0 {
					*unresolved = append(*unresolved, p.Pos(call.Pos()))
					continue
				}
				for _, ri := range ris {
					out = append(out, gatePattern{ri, fn, call.Pos(), xf.fold, xf.prefixList(), errorOnNoMatch(call)})
				}
				continue
			}
			if !p.IsRepoFn(f) || f.Blocks == nil {
				continue
			}
			for i, a := range call.Call.Args {
				xf := &inputXform{}
				if i < len(f.Params) && isStringType(a.Type()) && wholeInput(p, a, param, xf, map[ssa.Value]bool{}) {
					for _, g := range p.gatePatterns(f, f.Params[i], depth+1, unresolved) {
						g.fold = g.fold || xf.fold
						var pf []string
						for _, outer := range xf.prefixList() {
							for _, inner := range g.prefixes {
								pf = append(pf, inner+outer)
							}
						}
						g.prefixes = pf
						out = append(out, g)
					}
				}
			}
		}
	}
	return out
}

func (p *Prog) ecoGate(e *Eco) (pats []gatePattern, unresolved []string) {
	if e.NewVer == nil {
		return nil, nil
	}
	var prm *ssa.Parameter
	for _, q := range e.NewVer.Params {
		if isStringType(q.Type()) {
			prm = q
		}
	}
	if prm == nil {
		return nil, nil
	}
	pats = p.gatePatterns(e.NewVer, prm, 0, &unresolved)
	return
}

func gateSups(pats []gatePattern) []reSup {
	var sups []reSup
	seen := map[string]bool{}
	for _, g := range pats {
		s := g.ri.Pattern
		if g.fold {
			s = "(?i:" + s + ")"
		}
		for _, pf := range g.prefixes {
			k := pf + "\x00" + s
			if !seen[k] {
				seen[k] = true
				sups = append(sups, reSup{Pat: s, Prefix: pf})
			}
		}
	}
	sort.Slice(sups, func(i, j int) bool { return sups[i].String() < sups[j].String() })
	return sups
}

func hasMandatory(pats []gatePattern) bool {
	for _, g := range pats {
		if g.mandatory {
			return true
		}
	}
	return false
}

// relangSelfCheck: the inclusion procedure answers a handful of fixed questions correctly on every run
// (a rule whose expected finding count is zero keeps a positive example that must fire)
func relangSelfCheck() string {
	type q struct {
		sub   string
		sups  []string
		holds bool
	}
	qs := []q{
		{`^\d+$`, []string{`^\d{1,9}$`}, false},
		{`^(0|[1-9]\d*)$`, []string{`^\d+$`}, true},
		{`^a$`, []string{`^b$`, `^[a-c]$`}, true},
		{`^[a-d]$`, []string{`^b$`, `^[a-c]$`}, false},
		{`^xay$`, []string{`a`}, true},
		{`^b$`, []string{`a`}, false},
		{`^A$`, []string{`(?i:^a$)`}, true},
		{`^\d+\.\d+$`, []string{`^\d+(\.\d+)?(\.\d+)?$`}, true},
		{`^\d+\.\d+\.\d+\.\d+$`, []string{`^\d+(\.\d+)?(\.\d+)?$`}, false},
		{`^1\.0$`, []string{`^(\d+)\.(\d+)$`, `^x$`}, true},
	}
	if res := reIncludes(`^1\.0$`, []reSup{{Pat: `^v\d\.\d$`, Prefix: "v"}}); !res.Holds {
		return "inclusion self-check failed on a prefixed pattern"
	}
	if res := reIncludes(`^1\.0$`, []reSup{{Pat: `^v\d\.\d$`}}); res.Holds {
		return "inclusion self-check failed on an unprefixed pattern"
	}
	for _, c := range []struct {
		pats []string
		hit  bool
	}{
		{[]string{`^\d+\.x$`, `x$`}, true},
		{[]string{`^\d+$`, `[xX*]`}, false},
		{[]string{`^\d+(-[a-z]+)?$`, `^[^-]*x`}, false},
		{[]string{`^\d+(\+[a-z]+)?$`, `^[^-]*x`}, true},
		{[]string{`^\d+(\+[a-z]+)?$`, `^[^-]*x`, `^[^+]*$`}, false},
	} {
		hit, _, why := reIntersects(c.pats...)
		if why != "" || hit != c.hit {
			return fmt.Sprintf("intersection self-check failed on %v: got %v %s", c.pats, hit, why)
		}
	}
	for _, c := range qs {
		var sups []reSup
		for _, s := range c.sups {
			sups = append(sups, reSup{Pat: s})
		}
		res := reIncludes(c.sub, sups)
		if res.Unsupported != "" || res.Holds != c.holds {
			return fmt.Sprintf("inclusion self-check failed on %q within %v: got %+v", c.sub, c.sups, res)
		}
	}
	return ""
}

const numComp = `(0|[1-9][0-9]{0,9})`

func numericGrammar(arity int) string {
	return "^" + numComp + strings.Repeat(`\.`+numComp, arity-1) + "$"
}

// plainArities: the arities of plain dotted-numeric versions each regex-gated ecosystem takes on the
// tree the rules were written against (read off its pattern and confirmed by the inclusion procedure);
// losing one of them rejects, or sends into a fallback, versions that C03 says are accepted
var plainArities = map[string][]int{
	"semver": {3}, "npm": {3}, "cargo": {3}, "hex": {3}, "golang": {3}, "mattermost": {3}, "apache": {3}, "github": {3},
	"nuget": {1, 2, 3, 4}, "composer": {1, 2, 3, 4, 5}, "gem": {1, 2, 3, 4, 5}, "pypi": {1, 2, 3, 4, 5},
	"gentoo": {1, 2, 3, 4, 5}, "conan": {1, 2, 3, 4, 5}, "cran": {2, 3, 4, 5}, "debian": {1, 2, 3, 4, 5}, "rpm": {1, 2, 3, 4, 5},
}

func ruleAcceptLang(p *Prog, r *Report) {
	if s := relangSelfCheck(); s != "" {
		r.Und("R-ACCEPT-LANG", "inclusion procedure self-check", "", s)
		return
	}
	n := 0
	for _, e := range p.Ecos {
		pats, unresolved := p.ecoGate(e)
		if len(unresolved) > 0 {
			r.Und("R-ACCEPT-LANG", e.Name+": whole-input patterns resolve to constants", unresolved[0], "a pattern the input is matched against is not a constant")
			continue
		}
		if len(pats) == 0 {
			if want, ok := plainArities[e.Name]; ok {
				r.Und("R-ACCEPT-LANG", fmt.Sprintf("%s: plain dotted numerics of %v components are in the accepted grammar", e.Name, want), p.FnPos(e.NewVer), "the constructor no longer matches its whole input against a constant pattern: the accepted grammar cannot be read off a pattern")
			}
			continue
		}
		want, ok := plainArities[e.Name]
		if !ok {
			// not among the ecosystems confirmed to be gated by patterns (special-form patterns in
			// front of a hand-written parser): no claim
			continue
		}
		sups := gateSups(pats)
		var bad []string
		states := 0
		for _, k := range want {
			res := reIncludes(numericGrammar(k), sups)
			states += res.States
			switch {
			case res.Unsupported != "":
				bad = append(bad, "undecided: "+res.Unsupported)
			case !res.Holds:
				bad = append(bad, fmt.Sprintf("%q (%d components, each at most 2^32) matches none of %v", res.Witness, k, sups))
			}
		}
		key := fmt.Sprintf("%s: plain dotted numerics of %v components are in the accepted grammar", e.Name, want)
		n++
		if len(bad) > 0 {
			r.Bad("R-ACCEPT-LANG", key, p.Pos(pats[0].pos), bad[0]+": the constructor rejects it or leaves the structured path")
		} else {
			r.Ok("R-ACCEPT-LANG", key, p.Pos(pats[0].pos), fmt.Sprintf("language inclusion decided on the product automaton (%d states) against %d whole-input pattern(s)", states, len(sups)))
		}
	}
	r.Floor("R-ACCEPT-LANG", 17)
}

func init() {
	register("C03", "", ruleAcceptLang)
}

// ---- C08: every SemVer 2.0.0 string is in the accepted grammar of the semver-family ecosystems -------------

const semverGrammar = `(0|[1-9][0-9]*)\.(0|[1-9][0-9]*)\.(0|[1-9][0-9]*)(-((0|[1-9][0-9]*|[0-9]*[a-zA-Z-][0-9a-zA-Z-]*)(\.(0|[1-9][0-9]*|[0-9]*[a-zA-Z-][0-9a-zA-Z-]*))*))?(\+([0-9a-zA-Z-]+(\.[0-9a-zA-Z-]+)*))?$`

func ruleSemverAccept(p *Prog, r *Report) {
	if s := relangSelfCheck(); s != "" {
		r.Und("R-SEMVER-ACCEPT", "inclusion procedure self-check", "", s)
		return
	}
	for _, name := range []string{"semver", "npm", "cargo", "hex", "golang", "nuget"} {
		key := name + ": every SemVer 2.0.0 version string is in the accepted grammar"
		e := ecoByName(p, name)
		if e == nil {
			r.Und("R-SEMVER-ACCEPT", key, "", "ecosystem not found")
			continue
		}
		pats, unresolved := p.ecoGate(e)
		if len(unresolved) > 0 || len(pats) == 0 {
			r.Und("R-SEMVER-ACCEPT", key, p.FnPos(e.NewVer), "the constructor does not match its whole input against constant patterns")
			continue
		}
		g := "^" + semverGrammar
		if name == "golang" {
			g = "^v" + semverGrammar // Go module versions carry the v prefix
		}
		sups := gateSups(pats)
		res := reIncludes(g, sups)
		switch {
		case res.Unsupported != "":
			r.Und("R-SEMVER-ACCEPT", key, p.Pos(pats[0].pos), res.Unsupported)
		case !res.Holds:
			r.Bad("R-SEMVER-ACCEPT", key, p.Pos(pats[0].pos), fmt.Sprintf("the valid SemVer string %q matches none of %v", res.Witness, sups))
		default:
			r.Ok("R-SEMVER-ACCEPT", key, p.Pos(pats[0].pos), fmt.Sprintf("language inclusion decided on the product automaton (%d states) against %d whole-input pattern(s)", res.States, len(sups)))
		}
	}
	r.Floor("R-SEMVER-ACCEPT", 6)
}

func init() {
	register("C08", "", ruleSemverAccept)
}

// ---- C14: every well-formed Alpine version takes the structured path ---------------------------------------

const alpineGrammar = `^(0|[1-9][0-9]*)(\.(0|[1-9][0-9]*))*[a-z]?(_(alpha|beta|pre|rc|cvs|svn|git|hg|p)[0-9]*)*(-r[0-9]+)?$`

func ruleAlpineGrammar(p *Prog, r *Report) {
	key := "alpine: every well-formed version (digits{.digits}[letter]{_suffix[digits]}[-rN]) matches the structured pattern"
	if s := relangSelfCheck(); s != "" {
		r.Und("R-ALPINE-GRAMMAR", key, "", s)
		return
	}
	e := ecoByName(p, "alpine")
	if e == nil {
		r.Und("R-ALPINE-GRAMMAR", key, "", "ecosystem not found")
		return
	}
	pats, unresolved := p.ecoGate(e)
	if len(unresolved) > 0 || len(pats) == 0 {
		r.Und("R-ALPINE-GRAMMAR", key, p.FnPos(e.NewVer), "the constructor does not match its input against a constant pattern")
		return
	}
	sups := gateSups(pats)
	res := reIncludes(alpineGrammar, sups)
	switch {
	case res.Unsupported != "":
		r.Und("R-ALPINE-GRAMMAR", key, p.Pos(pats[0].pos), res.Unsupported)
	case !res.Holds:
		r.Bad("R-ALPINE-GRAMMAR", key, p.Pos(pats[0].pos), fmt.Sprintf("the well-formed version %q matches none of %v: it is kept as an unparsed string and ordered as text, not by apk's rules", res.Witness, sups))
	default:
		r.Ok("R-ALPINE-GRAMMAR", key, p.Pos(pats[0].pos), fmt.Sprintf("language inclusion decided on the product automaton (%d states) against %v", res.States, sups))
	}
	r.Floor("R-ALPINE-GRAMMAR", 1)
}

func init() {
	register("C14", "", ruleAlpineGrammar)
}

// ---- C03 for the token-stream ecosystems -------------------------------------------------------------------
//
// debian, rpm, alpine, gem and maven do not keep numeric components in int fields that R-CHAIN could read:
// their numeric order is the work of a scanner or of a position-wise comparison of token lists. The
// rules that decide exactly that for C10-C14 are necessary for C03 as well (2.10.0 > 2.9.0 needs digit
// runs compared as integers from the start of the string; 1.0-rc1 < 1.0 needs the tokenizer to split
// "rc1"); their obligations that concern numeric components and release markers are taken over here.
// Obligations about other clauses of those properties ('~', epochs, separators) are left out: C03 does
// not depend on them.

type importSpec struct {
	eco   string
	fns   []ruleFn
	take  func(rule, key string) bool
	floor map[string]int
}

func ruleNumStream(p *Prog, r *Report) {
	has := func(s string, subs ...string) bool {
		for _, x := range subs {
			if strings.Contains(s, x) {
				return true
			}
		}
		return false
	}
	specs := []importSpec{
		{"debian", []ruleFn{ruleDebian}, func(rule, key string) bool {
			return rule == "R-DEB-SCAN" || rule == "R-DEB-DIGITS" || rule == "R-DEB-CHAIN" && has(key, "revision")
		}, map[string]int{"R-DEB-SCAN": 1, "R-DEB-DIGITS": 1, "R-DEB-CHAIN": 3}},
		{"rpm", []ruleFn{ruleRPM}, func(rule, key string) bool {
			return rule == "R-RPM-SCAN" || rule == "R-RPM-DIGITS" || rule == "R-RPM-CHAIN" && has(key, "release decides", "before the release")
		}, map[string]int{"R-RPM-SCAN": 1, "R-RPM-DIGITS": 1, "R-RPM-CHAIN": 2}},
		{"alpine", []ruleFn{ruleAlpine, ruleAlpineGrammar}, func(rule, key string) bool {
			return rule == "R-ALPINE-NUM" || rule == "R-ALPINE-GRAMMAR" || rule == "R-ALPINE-CHAIN" && has(key, "numeric components decide first", "revision decides last")
		}, map[string]int{"R-ALPINE-NUM": 1, "R-ALPINE-CHAIN": 2, "R-ALPINE-GRAMMAR": 1}},
		{"pypi", []ruleFn{rulePepTable}, func(rule, key string) bool { return rule == "R-PEP440-SPELL" }, map[string]int{"R-PEP440-SPELL": 1}},
		{"gem", []ruleFn{ruleGem}, func(rule, key string) bool {
			return rule == "R-GEM-TABLE" || rule == "R-GEM-TRIM" || rule == "R-GEM-ONLYTRIM"
		}, map[string]int{"R-GEM-TABLE": 3, "R-GEM-TRIM": 1, "R-GEM-ONLYTRIM": 1}},
		{"maven", []ruleFn{ruleMaven, ruleMavenToken, ruleMavenNumTok}, func(rule, key string) bool {
			return rule == "R-MAVEN-TOKEN" || rule == "R-MAVEN-RANK" || rule == "R-MAVEN-ALIAS" || rule == "R-MAVEN-NUMTOK"
		}, map[string]int{"R-MAVEN-TOKEN": 1, "R-MAVEN-RANK": 2, "R-MAVEN-ALIAS": 2, "R-MAVEN-NUMTOK": 1}},
	}
	runImports(p, r, specs)
}

func runImports(p *Prog, r *Report, specs []importSpec) {
	for _, sp := range specs {
		scratch := NewReport(r.Prop, r.Tier)
		for _, fn := range sp.fns {
			fn(p, scratch)
		}
		for _, o := range scratch.Obls {
			if sp.take(o.Rule, o.Key) {
				c := *o
				r.Obls = append(r.Obls, &c)
			}
		}
		for rule, n := range sp.floor {
			r.Floor(rule, n)
		}
	}
}

// ---- C01 for the two-cursor character scanners ----------------------------------------------------------
//
// debian's and rpm's string comparators walk both operands with a cursor each; the evaluator cannot
// summarise that loop, and R-PREORDER uses the scanner as a relation atom (an assumption). The
// structural rules of C10/C11 discharge the assumption: R-*-SCAN shows that each cursor starts at 0 and
// advances over its own string only, cutting it into maximal runs by a test on its own characters, and
// that the runs are handed pairwise to the two run comparators and the first non-tie is returned;
// R-*-NONDIGIT and R-*-DIGITS show that the run comparators compute fixed total preorders of runs. The
// scanner therefore compares the two canonical run sequences lexicographically, which is a total
// preorder. Obligations about other clauses of C10/C11 (which characters separate, segment classes)
// are left out: the order laws do not depend on them.
func ruleScannerOrder(p *Prog, r *Report) {
	specs := []importSpec{
		{"debian", []ruleFn{ruleDebian}, func(rule, key string) bool {
			return rule == "R-DEB-SCAN" || rule == "R-DEB-NONDIGIT" || rule == "R-DEB-DIGITS"
		}, map[string]int{"R-DEB-SCAN": 1, "R-DEB-NONDIGIT": 1, "R-DEB-DIGITS": 1}},
		{"rpm", []ruleFn{ruleRPM}, func(rule, key string) bool {
			return rule == "R-RPM-SCAN" || rule == "R-RPM-NONDIGIT" || rule == "R-RPM-DIGITS"
		}, map[string]int{"R-RPM-SCAN": 1, "R-RPM-NONDIGIT": 1, "R-RPM-DIGITS": 1}},
	}
	// Where R-*-SCAN does not recognise the scanner's shape at all (cursor loops moved into helper
	// functions, for instance) nothing is known about it either way: the scanner then stays an assumption
	// of R-PREORDER, as listed in the evidence; the shape itself is C10's / C11's subject. A recognised
	// shape that breaks a clause (a cursor that does not start at 0, a run that is not maximal) is reported.
	for _, sp := range specs {
		scratch := NewReport(r.Prop, r.Tier)
		for _, fn := range sp.fns {
			fn(p, scratch)
		}
		unrecognised := false
		for _, o := range scratch.Obls {
			if strings.HasSuffix(o.Rule, "-SCAN") && o.Verdict != OK && strings.Contains(o.Detail, "no two-cursor scanner loop") {
				unrecognised = true
			}
		}
		if unrecognised {
			r.Ok("R-SCANNER-SHAPE", sp.eco+": scanner shape", "-", "the two-cursor shape is not recognised (R-*-SCAN of the reference property reports it): the scanner stays an assumption of R-PREORDER")
			continue
		}
		for _, o := range scratch.Obls {
			if sp.take(o.Rule, o.Key) {
				c := *o
				r.Obls = append(r.Obls, &c)
			}
		}
		for rule, n := range sp.floor {
			r.Floor(rule, n)
		}
	}
}

func init() {
	register("C01", "", ruleScannerOrder)
	register("C07", "", ruleScannerOrder)
	register("C20", "", ruleScannerOrder)
	register("C03", "", ruleNumStream)
}

// ---- R-BOUND-LANG: every valid version can be written after a comparator --------------------------------
//
// Where the range parser cuts a constraint into operator and version with a regular expression, the
// capture group that feeds NewVersion must match every string NewVersion accepts; a narrower group
// makes "operator directly before a valid version" fail to parse for the versions it leaves out
// (a prefix spelling, a long component, a build suffix). Decided as language inclusion: each whole-input
// pattern of the version constructor is included in the group's sub-expression, anchored.
func ruleBoundLang(p *Prog, r *Report) {
	n := 0
	for _, e := range p.Ecos {
		pats, unresolved := p.ecoGate(e)
		if len(pats) == 0 || len(unresolved) > 0 || e.NewRng == nil {
			continue
		}
		inCtor := map[*ssa.Function]bool{}
		for _, f := range p.RepoReachable(e.NewVer) {
			inCtor[f] = true
		}
		type grp struct {
			ri  *regexInfo
			idx int
			pos token.Pos
		}
		var grps []grp
		seenG := map[string]bool{}
		for _, fn := range p.RepoReachable(e.NewRng) {
			if inCtor[fn] {
				continue
			}
			for _, b := range fn.Blocks {
				for _, ins := range b.Instrs {
					c, ok := ins.(*ssa.Call)
					if !ok || c.Call.StaticCallee() != e.NewVer || len(c.Call.Args) < 2 {
						continue
					}
					fp := &fieldProv{via: map[string]bool{}}
					p.provWalk(c.Call.Args[1], fp, map[ssa.Value]bool{}, 0)
					for _, g := range fp.groups {
						k := fmt.Sprintf("%s#%d", g.ri.Pattern, g.idx)
						if !seenG[k] {
							seenG[k] = true
							grps = append(grps, grp{g.ri, g.idx, c.Pos()})
						}
					}
				}
			}
		}
		for _, g := range grps {
			sub := findGroup(g.ri.Re, g.idx)
			if sub == nil {
				continue
			}
			n++
			key := fmt.Sprintf("%s: the version group of the constraint pattern takes every valid version (group %d of %s)", e.Name, g.idx, truncPat(g.ri.Pattern))
			sup := reSup{Pat: "^(?:" + sub.String() + ")$"}
			bad, und := "", ""
			for _, gp := range pats {
				if gp.fold || len(gp.prefixes) != 1 || gp.prefixes[0] != "" {
					continue // the constructor rewrites its input before this pattern: inclusion of the raw text is not what is needed
				}
				inc := reIncludes(gp.ri.Pattern, []reSup{sup})
				switch {
				case inc.Unsupported != "":
					und = inc.Unsupported
				case !inc.Holds:
					bad = fmt.Sprintf("the version %q, which %s accepts (pattern %s), is not matched by the group: a comparator written directly before it does not parse", inc.Witness, e.NewVer.Name(), truncPat(gp.ri.Pattern))
				}
			}
			switch {
			case bad != "":
				r.Bad("R-BOUND-LANG", key, p.Pos(g.pos), bad)
			case und != "":
				r.Und("R-BOUND-LANG", key, p.Pos(g.pos), "inclusion not decided: "+und)
			default:
				r.Ok("R-BOUND-LANG", key, p.Pos(g.pos), "every whole-input pattern of the version constructor is included in the group (product automaton)")
			}
		}
	}
	_ = n
	r.Floor("R-BOUND-LANG", 4)
}

func truncPat(s string) string {
	if len(s) > 60 {
		return s[:57] + "..."
	}
	return s
}

func init() {
	register("C02", "", ruleBoundLang)
}
