package main

import (
	"fmt"
	"sort"

	"golang.org/x/tools/go/ssa"
)

// externalCallees lists every non-repo callee called directly from the given repo functions.
func (p *Prog) externalCallees(fns []*ssa.Function) map[string][]string {
	out := map[string][]string{}
	for _, f := range fns {
		for _, b := range f.Blocks {
			for _, ins := range b.Instrs {
				c, ok := ins.(ssa.CallInstruction)
				if !ok {
					continue
				}
				for _, name := range p.calleeNames(c) {
					if name.repo {
						continue
					}
					out[name.name] = append(out[name.name], p.FnKey(f))
				}
			}
		}
	}
	return out
}

type calleeName struct {
	name string
	repo bool
	fn   *ssa.Function
}

// calleeNames resolves the callees of a call instruction: static callee, builtin,
// or the VTA targets of a dynamic/interface call.
func (p *Prog) calleeNames(c ssa.CallInstruction) []calleeName {
	com := c.Common()
	if b, ok := com.Value.(*ssa.Builtin); ok && !com.IsInvoke() {
		return []calleeName{{name: "builtin." + b.Name()}}
	}
	if f := com.StaticCallee(); f != nil {
		return []calleeName{{name: extName(f), repo: p.IsRepoFn(f), fn: f}}
	}
	var res []calleeName
	seen := map[*ssa.Function]bool{}
	if n := p.CG.Nodes[c.Parent()]; n != nil {
		for _, e := range n.Out {
			if e.Site == c && !seen[e.Callee.Func] {
				seen[e.Callee.Func] = true
				res = append(res, calleeName{name: extName(e.Callee.Func), repo: p.IsRepoFn(e.Callee.Func), fn: e.Callee.Func})
			}
		}
	}
	sort.Slice(res, func(i, j int) bool { return res[i].name < res[j].name })
	if len(res) == 0 {
		if com.IsInvoke() {
			return []calleeName{{name: "invoke:" + com.Value.Type().String() + "." + com.Method.Name()}}
		}
		return []calleeName{{name: "dynamic:" + com.Value.Type().String()}}
	}
	return res
}

func extName(f *ssa.Function) string {
	if o := f.Origin(); o != nil {
		f = o
	}
	return f.String()
}

func dumpExternal(p *Prog) {
	fns := p.RepoReachable(append(p.LibraryRoots(), p.CLIRoots()...)...)
	m := p.externalCallees(fns)
	var ks []string
	for k := range m {
		ks = append(ks, k)
	}
	sort.Strings(ks)
	for _, k := range ks {
		fmt.Printf("%-50s %d\n", k, len(m[k]))
	}
}
