package main

// c05b.go: R-PREFIX-PRED. gem's '~>' and conan's '~' and '^' are predicates of (probe, base) of one shape:
// the probe is at least the base, and its first K parts equal the base's, a missing part counting as the
// padding value; K depends on the base only. The predicate is executed symbolically, path by path:
//
//   - integer values are terms over the base: constants, len(<sequence of the base>) + c, the written
//     arity of the base (number of dot-separated parts of its text in front of the first '-') + c, min;
//   - a condition over such terms (or "part k of the base is/is not \"0\"") is a literal of the path;
//   - a counted loop  for i := 0; i < K; i++  (or a range over base[:K]) whose body compares the padded
//     probe part i with the base part i and returns false on a difference is the event PREFIX(K);
//     a single comparison of part k is the event AT(k);
//   - calls of helper predicates with (probe, base, n) are followed.
//
// The paths are then judged on a finite family of base shapes (written arity 1..4, zero pattern of the
// first three parts, every consistent length of every sequence of the base): for each shape the accepting
// paths whose literals hold must demand equality of exactly the first K_doc parts, K_doc being the
// documented number for that shape, and must have passed Compare(probe, base) >= 0.
// A term or loop the executor does not understand makes the obligation undecided.

import (
	"fmt"
	"go/token"
	"go/types"
	"sort"
	"strings"

	"golang.org/x/tools/go/ssa"
)

type ppTerm struct {
	kind string // const | len | arity | min | free
	c    int64
	seq  string
	a, b *ppTerm
}

func (t *ppTerm) String() string {
	switch t.kind {
	case "const":
		return fmt.Sprint(t.c)
	case "len":
		return fmt.Sprintf("len(%s)%+d", t.seq, t.c)
	case "arity":
		return fmt.Sprintf("arity%+d", t.c)
	case "min":
		return fmt.Sprintf("min(%s,%s)%+d", t.a, t.b, t.c)
	}
	return "?"
}

type ppShape struct {
	arity int
	zero  [3]bool        // part k of the base is "0"
	lens  map[string]int // every sequence of the base the paths mention
}

func (t *ppTerm) eval(sh *ppShape) (int, bool) {
	switch t.kind {
	case "const":
		return int(t.c), true
	case "arity":
		return sh.arity + int(t.c), true
	case "len":
		n, ok := sh.lens[t.seq]
		return n + int(t.c), ok
	case "min":
		x, ok1 := t.a.eval(sh)
		y, ok2 := t.b.eval(sh)
		if !ok1 || !ok2 {
			return 0, false
		}
		if y < x {
			x = y
		}
		return x + int(t.c), true
	}
	return 0, false
}

type ppLit struct {
	kind string // cmp | zero | free
	op   token.Token
	x, y *ppTerm
	k    int
	seq  string
	want bool
	text string
}

func (l ppLit) holds(sh *ppShape) (bool, bool) {
	switch l.kind {
	case "free":
		return true, true
	case "zero":
		if l.k > 2 {
			return false, false
		}
		return sh.zero[l.k] == l.want, true
	case "cmp":
		x, ok1 := l.x.eval(sh)
		y, ok2 := l.y.eval(sh)
		if !ok1 || !ok2 {
			return false, false
		}
		r := false
		switch l.op {
		case token.EQL:
			r = x == y
		case token.NEQ:
			r = x != y
		case token.LSS:
			r = x < y
		case token.LEQ:
			r = x <= y
		case token.GTR:
			r = x > y
		case token.GEQ:
			r = x >= y
		}
		return r == l.want, true
	}
	return false, false
}

type ppEvent struct {
	prefix *ppTerm // PREFIX(K)
	at     int     // AT(k) when prefix == nil
	pseq   string  // probe sequence, base sequence compared
	bseq   string
}

type ppPath struct {
	lits   []ppLit
	events []ppEvent
	ge     bool
	res    string // true | false
	where  string
}

type ppExec struct {
	p           *Prog
	e           *Eco
	paths       []ppPath
	why         string
	steps       int
	baseSeqs    map[string]bool
	zipBaseSeqs map[string]bool
	probeLen    string // a test on the probe's number of parts that is not the guard of a padded read
}

type ppFrame struct {
	fn          *ssa.Function
	probe, base ssa.Value
	env         map[ssa.Value]*ppTerm // resolved phis and bound parameters
	strs        map[ssa.Value]string  // string phis: "text" (the base's text) | "main" (text in front of the first '-')
	loops       []*loop
}

// who: "probe" / "base" when v is that version pointer
func (fr *ppFrame) who(v ssa.Value) string {
	switch v {
	case fr.probe:
		return "probe"
	case fr.base:
		return "base"
	}
	return ""
}

// seqName: a sequence of the probe or the base: a field, or result k of a method applied to it
func (x *ppExec) seqName(fr *ppFrame, v ssa.Value) string {
	switch s := v.(type) {
	case *ssa.UnOp:
		if s.Op == token.MUL {
			if fa, ok := s.X.(*ssa.FieldAddr); ok {
				if w := fr.who(fa.X); w != "" {
					st := fa.X.Type().Underlying().(*types.Pointer).Elem().Underlying().(*types.Struct)
					return w + "." + st.Field(fa.Field).Name()
				}
			}
		}
	case *ssa.Extract:
		if c, ok := s.Tuple.(*ssa.Call); ok {
			if g := c.Call.StaticCallee(); g != nil && len(c.Call.Args) == 1 {
				if w := fr.who(c.Call.Args[0]); w != "" {
					return fmt.Sprintf("%s.%s#%d", w, g.Name(), s.Index)
				}
			}
		}
	case *ssa.Call:
		if g := s.Call.StaticCallee(); g != nil && len(s.Call.Args) == 1 {
			if w := fr.who(s.Call.Args[0]); w != "" {
				return fmt.Sprintf("%s.%s", w, g.Name())
			}
		}
	case *ssa.Slice:
		return x.seqName(fr, s.X)
	case *ssa.Parameter:
		if t, ok := fr.env[v]; ok && t.kind == "seqref" {
			return t.seq
		}
	}
	return ""
}

// strKind: "text" = the base's text (String() or a string field), "main" = that text in front of the first '-'
func (x *ppExec) strKind(fr *ppFrame, v ssa.Value) string {
	if k, ok := fr.strs[v]; ok {
		return k
	}
	switch s := v.(type) {
	case *ssa.Call:
		if g := s.Call.StaticCallee(); g != nil {
			if g == x.e.VString && len(s.Call.Args) == 1 && fr.who(s.Call.Args[0]) == "base" {
				return "text"
			}
			switch extName(g) {
			case "strings.TrimSpace":
				return x.strKind(fr, s.Call.Args[0])
			}
		}
	case *ssa.UnOp:
		if s.Op == token.MUL {
			if fa, ok := s.X.(*ssa.FieldAddr); ok && fr.who(fa.X) == "base" && isStringType(s.Type()) {
				return "text"
			}
		}
	case *ssa.Slice:
		// text[:strings.Index(text, "-")]
		if s.Low == nil && s.High != nil && x.strKind(fr, s.X) == "text" {
			if c, ok := s.High.(*ssa.Call); ok {
				if g := c.Call.StaticCallee(); g != nil && (extName(g) == "strings.Index" || extName(g) == "strings.IndexByte") {
					if sep, ok := constString(c.Call.Args[1]); ok && sep == "-" && c.Call.Args[0] == s.X {
						return "main"
					}
				}
			}
			if ph, ok := s.High.(*ssa.Phi); ok {
				_ = ph
			}
		}
	case *ssa.Extract:
		if c, ok := s.Tuple.(*ssa.Call); ok {
			if g := c.Call.StaticCallee(); g != nil && extName(g) == "strings.Cut" && s.Index == 0 {
				if sep, ok := constString(c.Call.Args[1]); ok && sep == "-" && x.strKind(fr, c.Call.Args[0]) == "text" {
					return "main"
				}
			}
		}
	}
	return ""
}

func (x *ppExec) intTerm(fr *ppFrame, v ssa.Value) *ppTerm {
	if t, ok := fr.env[v]; ok {
		return t
	}
	if c, ok := constInt(v); ok {
		return &ppTerm{kind: "const", c: c}
	}
	switch s := v.(type) {
	case *ssa.BinOp:
		if s.Op == token.ADD || s.Op == token.SUB {
			if c, ok := constInt(s.Y); ok {
				t := x.intTerm(fr, s.X)
				if t.kind == "free" {
					return t
				}
				cp := *t
				if s.Op == token.ADD {
					cp.c += c
				} else {
					cp.c -= c
				}
				return &cp
			}
		}
	case *ssa.Call:
		if b, ok := s.Call.Value.(*ssa.Builtin); ok {
			switch b.Name() {
			case "len":
				a := s.Call.Args[0]
				if sl, ok := a.(*ssa.Slice); ok && sl.High != nil && sl.Low == nil {
					return x.intTerm(fr, sl.High)
				}
				if c, ok := a.(*ssa.Call); ok {
					if g := c.Call.StaticCallee(); g != nil && extName(g) == "strings.Split" {
						if sep, ok := constString(c.Call.Args[1]); ok && sep == "." {
							switch x.strKind(fr, c.Call.Args[0]) {
							case "main":
								return &ppTerm{kind: "arity"}
							}
						}
					}
				}
				if n := x.seqName(fr, a); n != "" {
					if strings.HasPrefix(n, "base.") {
						x.baseSeqs[n] = true
					}
					return &ppTerm{kind: "len", seq: n}
				}
			case "min":
				if len(s.Call.Args) == 2 {
					return &ppTerm{kind: "min", a: x.intTerm(fr, s.Call.Args[0]), b: x.intTerm(fr, s.Call.Args[1])}
				}
			}
		}
		if g := s.Call.StaticCallee(); g != nil && extName(g) == "strings.Count" {
			if sep, ok := constString(s.Call.Args[1]); ok && sep == "." && x.strKind(fr, s.Call.Args[0]) == "main" {
				return &ppTerm{kind: "arity", c: -1}
			}
		}
	}
	return &ppTerm{kind: "free"}
}

// elemOf: v reads part idx of a sequence (possibly padded with a constant when absent; possibly a field of
// the element); returns the sequence name and the index value
func (x *ppExec) elemOf(fr *ppFrame, v ssa.Value) (seq string, idx ssa.Value, ok bool) {
	switch s := v.(type) {
	case *ssa.Phi:
		// padded read: one edge a constant, the other the element
		var found bool
		for _, e := range s.Edges {
			if _, isC := e.(*ssa.Const); isC {
				continue
			}
			sq, ix, k := x.elemOf(fr, e)
			if !k {
				return "", nil, false
			}
			seq, idx, found = sq, ix, true
		}
		return seq, idx, found
	case *ssa.UnOp:
		if s.Op != token.MUL {
			return "", nil, false
		}
		switch a := s.X.(type) {
		case *ssa.IndexAddr:
			if n := x.seqName(fr, a.X); n != "" {
				return n, a.Index, true
			}
		case *ssa.FieldAddr:
			// a field of the element: &seq[i].f
			if ia, ok := a.X.(*ssa.IndexAddr); ok {
				if n := x.seqName(fr, ia.X); n != "" {
					return n, ia.Index, true
				}
			}
			// a field of a local copy of the element (the value of a range loop)
			if al, ok := a.X.(*ssa.Alloc); ok {
				if v := singleStore(al); v != nil {
					return x.elemOf(fr, v)
				}
			}
		case *ssa.Alloc:
			if v := singleStore(a); v != nil {
				return x.elemOf(fr, v)
			}
		}
	case *ssa.Field:
		return x.elemOf(fr, s.X)
	case *ssa.Call:
		// a padded read moved into a helper: f(seq, i) = seq[i] or a constant when there is no such element
		if g := s.Call.StaticCallee(); g != nil {
			if sp, ip, ok := paddedReadHelper(g); ok && len(s.Call.Args) == len(g.Params) {
				if n := x.seqName(fr, s.Call.Args[sp]); n != "" {
					return n, s.Call.Args[ip], true
				}
			}
		}
	case *ssa.Extract:
		// the value of a range loop over a sequence
		return "", nil, false
	}
	return "", nil, false
}

// paddedReadHelper: g(seq, i) returns seq[i] (or a field of it) on some paths and a constant on the others
func paddedReadHelper(g *ssa.Function) (seqParam, idxParam int, ok bool) {
	if g == nil || g.Blocks == nil || len(g.Params) != 2 || g.Signature.Results().Len() != 1 {
		return 0, 0, false
	}
	seqParam, idxParam = -1, -1
	for i, prm := range g.Params {
		if _, isSlice := prm.Type().Underlying().(*types.Slice); isSlice {
			seqParam = i
		} else if isIntType(prm.Type()) {
			idxParam = i
		}
	}
	if seqParam < 0 || idxParam < 0 {
		return 0, 0, false
	}
	nElem, nConst := 0, 0
	var isElem func(v ssa.Value, depth int) bool
	isElem = func(v ssa.Value, depth int) bool {
		if depth > 3 {
			return false
		}
		switch e := v.(type) {
		case *ssa.UnOp:
			if e.Op == token.MUL {
				switch a := e.X.(type) {
				case *ssa.IndexAddr:
					return a.X == ssa.Value(g.Params[seqParam]) && a.Index == ssa.Value(g.Params[idxParam])
				case *ssa.FieldAddr:
					if ia, ok := a.X.(*ssa.IndexAddr); ok {
						return ia.X == ssa.Value(g.Params[seqParam]) && ia.Index == ssa.Value(g.Params[idxParam])
					}
				}
			}
		case *ssa.Field:
			return isElem(e.X, depth+1)
		}
		return false
	}
	for _, b := range g.Blocks {
		ret, isRet := b.Instrs[len(b.Instrs)-1].(*ssa.Return)
		if !isRet {
			continue
		}
		switch v := ret.Results[0].(type) {
		case *ssa.Const:
			nConst++
		case *ssa.Phi:
			for _, ed := range v.Edges {
				if _, isC := ed.(*ssa.Const); isC {
					nConst++
				} else if isElem(ed, 0) {
					nElem++
				} else {
					return 0, 0, false
				}
			}
		default:
			if isElem(v, 0) {
				nElem++
			} else if _, isLit := v.(*ssa.UnOp); isLit {
				// a composite literal default (struct padding): a load from a fresh local
				if u := v.(*ssa.UnOp); u.Op == token.MUL {
					if _, isAl := u.X.(*ssa.Alloc); isAl {
						nConst++
						continue
					}
				}
				return 0, 0, false
			} else {
				return 0, 0, false
			}
		}
	}
	return seqParam, idxParam, nElem > 0 && nConst > 0
}

// classify a branch condition: a literal over the base, a padded-read guard (neutral), the order guard, or unknown
func (x *ppExec) condLit(fr *ppFrame, cond ssa.Value) (lit ppLit, kind string) {
	if u, ok := cond.(*ssa.UnOp); ok && u.Op == token.NOT {
		l, k := x.condLit(fr, u.X)
		l.want = !l.want
		return l, k
	}
	bo, ok := cond.(*ssa.BinOp)
	if !ok {
		return ppLit{}, "unknown"
	}
	// Compare(probe, base) < 0 / >= 0
	if c, ok := bo.X.(*ssa.Call); ok {
		if g := c.Call.StaticCallee(); g != nil && g == x.e.Compare && len(c.Call.Args) == 2 && c.Call.Args[0] == fr.probe && c.Call.Args[1] == fr.base {
			if z, ok := constInt(bo.Y); ok && z == 0 {
				switch bo.Op {
				case token.LSS:
					return ppLit{want: false}, "order" // true edge: probe < base
				case token.GEQ:
					return ppLit{want: true}, "order"
				}
			}
		}
	}
	// element of the base against "0"
	for _, pair := range [][2]ssa.Value{{bo.X, bo.Y}, {bo.Y, bo.X}} {
		if s, ok := constString(pair[1]); ok && s == "0" && (bo.Op == token.EQL || bo.Op == token.NEQ) {
			if seq, idx, ok := x.elemOf(fr, pair[0]); ok && strings.HasPrefix(seq, "base.") {
				if k, ok := constInt(idx); ok {
					return ppLit{kind: "zero", k: int(k), seq: seq, want: bo.Op == token.EQL, text: cond.String()}, "lit"
				}
			}
		}
	}
	xt, yt := x.intTerm(fr, bo.X), x.intTerm(fr, bo.Y)
	if !isIntType(bo.X.Type()) {
		return ppLit{}, "unknown"
	}
	mentionsProbe := func(t *ppTerm) bool {
		var f func(t *ppTerm) bool
		f = func(t *ppTerm) bool {
			if t == nil {
				return false
			}
			return strings.HasPrefix(t.seq, "probe.") || f(t.a) || f(t.b)
		}
		return f(t)
	}
	if mentionsProbe(xt) || mentionsProbe(yt) {
		return ppLit{}, "padguard"
	}
	if xt.kind == "free" || yt.kind == "free" {
		return ppLit{kind: "free", text: cond.String()}, "lit"
	}
	return ppLit{kind: "cmp", op: bo.Op, x: xt, y: yt, want: true, text: cond.String()}, "lit"
}

// prefixLoop: l is  for i := 0; i < K; i++ { if pad(probe.seq[i]) != base.seq[i] { return false } }
func (x *ppExec) prefixLoop(fr *ppFrame, l *loop) (ev ppEvent, exit *ssa.BasicBlock, ok bool) {
	h := l.header
	var idx, boundV ssa.Value
	var guardBlock *ssa.BasicBlock // the block whose If is the loop test (not a comparison of parts)
	if rb, rexit, latch := rotatedGuard(l); rb != nil {
		// for i := range K: tested in front of the loop and at the latch; the counter is the header phi
		for _, ins := range h.Instrs {
			ph, isPhi := ins.(*ssa.Phi)
			if !isPhi {
				break
			}
			if isIntType(ph.Type()) && idx == nil {
				idx = ph
			}
		}
		boundV, exit, guardBlock = rb, rexit, latch
	} else {
		iff, isIf := h.Instrs[len(h.Instrs)-1].(*ssa.If)
		if !isIf {
			return ev, nil, false
		}
		bo, isBo := iff.Cond.(*ssa.BinOp)
		if !isBo || bo.Op != token.LSS {
			return ev, nil, false
		}
		// induction value: phi(0, phi+1) or phi(-1,.)+1
		idx = bo.X
		ph, isPhi := idx.(*ssa.Phi)
		start := int64(0)
		if !isPhi {
			b2, ok := idx.(*ssa.BinOp)
			if !ok || b2.Op != token.ADD {
				return ev, nil, false
			}
			if one, ok := constInt(b2.Y); !ok || one != 1 {
				return ev, nil, false
			}
			ph, isPhi = b2.X.(*ssa.Phi)
			start = -1
		}
		if !isPhi || ph.Block() != h {
			return ev, nil, false
		}
		for i, e := range ph.Edges {
			if l.body[h.Preds[i]] {
				continue
			}
			if c, ok := constInt(e); !ok || c != start {
				return ev, nil, false
			}
		}
		if !l.body[h.Succs[0]] || l.body[h.Succs[1]] {
			return ev, nil, false
		}
		boundV, exit, guardBlock = bo.Y, h.Succs[1], h
	}
	if idx == nil {
		return ev, nil, false
	}
	K := x.intTerm(fr, boundV)
	if K.kind == "free" {
		return ev, nil, false
	}
	// the body: exactly one comparison of elements at idx leading to 'return false'; other branches are padded-read guards
	found := false
	for b := range l.body {
		if b == guardBlock {
			continue
		}
		last := b.Instrs[len(b.Instrs)-1]
		switch t := last.(type) {
		case *ssa.Return:
			if !returnsBool1(b, false) {
				return ev, nil, false
			}
		case *ssa.If:
			c := t.Cond
			neg := false
			if u, ok := c.(*ssa.UnOp); ok && u.Op == token.NOT {
				c, neg = u.X, true
			}
			cb, ok := c.(*ssa.BinOp)
			if !ok {
				return ev, nil, false
			}
			// padded-read guard: idx < len(seq)
			if cb.Op == token.LSS && cb.X == idx {
				if t2 := x.intTerm(fr, cb.Y); t2.kind == "len" {
					continue
				}
			}
			// the comparison: a != b, or cmp(a,b) != 0
			var a, bb ssa.Value
			differsOnTrue := false
			switch {
			case (cb.Op == token.NEQ || cb.Op == token.EQL) && isZeroInt(cb.Y) && isCall(cb.X):
				call := cb.X.(*ssa.Call)
				if len(call.Call.Args) != 2 {
					return ev, nil, false
				}
				a, bb = call.Call.Args[0], call.Call.Args[1]
				differsOnTrue = cb.Op == token.NEQ
			case cb.Op == token.NEQ || cb.Op == token.EQL:
				a, bb = cb.X, cb.Y
				differsOnTrue = cb.Op == token.NEQ
			default:
				return ev, nil, false
			}
			if neg {
				differsOnTrue = !differsOnTrue
			}
			s1, i1, ok1 := x.elemOf(fr, a)
			s2, i2, ok2 := x.elemOf(fr, bb)
			if !ok1 || !ok2 || i1 != idx || i2 != idx {
				// a range loop yields the base element as the loop value
				return ev, nil, false
			}
			if strings.HasPrefix(s1, "base.") {
				s1, s2 = s2, s1
			}
			if !strings.HasPrefix(s1, "probe.") || !strings.HasPrefix(s2, "base.") {
				return ev, nil, false
			}
			differ := b.Succs[1]
			if differsOnTrue {
				differ = b.Succs[0]
			}
			if !returnsBool1(differ, false) || found {
				return ev, nil, false
			}
			found = true
			ev = ppEvent{prefix: K, pseq: s1, bseq: s2}
			x.zipBaseSeqs[s2] = true
		}
	}
	if !found {
		return ev, nil, false
	}
	return ev, exit, true
}

// paddedDiamond: the branch at the end of b only chooses between reading an element and a constant default:
// one successor loads and jumps to the other (or both meet at once) and the join merges a constant
func paddedDiamond(b *ssa.BasicBlock) bool {
	if len(b.Succs) != 2 {
		return false
	}
	for k := 0; k < 2; k++ {
		in, join := b.Succs[k], b.Succs[1-k]
		if len(in.Succs) != 1 || in.Succs[0] != join || len(in.Preds) != 1 {
			continue
		}
		pure := true
		for _, ins := range in.Instrs {
			switch ins.(type) {
			case *ssa.IndexAddr, *ssa.UnOp, *ssa.FieldAddr, *ssa.Field, *ssa.Jump, *ssa.DebugRef:
			default:
				pure = false
			}
		}
		if !pure {
			continue
		}
		for _, ins := range join.Instrs {
			ph, ok := ins.(*ssa.Phi)
			if !ok {
				break
			}
			for _, e := range ph.Edges {
				if _, isC := e.(*ssa.Const); isC {
					return true
				}
			}
		}
	}
	return false
}

// singleStore: the only value ever stored into the local al (nil when there are several or its address escapes)
func singleStore(al *ssa.Alloc) ssa.Value {
	var v ssa.Value
	for _, ref := range *al.Referrers() {
		switch r := ref.(type) {
		case *ssa.Store:
			if r.Addr != ssa.Value(al) || v != nil {
				return nil
			}
			v = r.Val
		case *ssa.UnOp, *ssa.FieldAddr, *ssa.DebugRef:
		default:
			return nil
		}
	}
	return v
}

// returnsBool1: the block returns the single constant boolean want
func returnsBool1(b *ssa.BasicBlock, want bool) bool {
	ret, ok := b.Instrs[len(b.Instrs)-1].(*ssa.Return)
	if !ok || len(ret.Results) != 1 {
		return false
	}
	cv, ok := ret.Results[0].(*ssa.Const)
	return ok && cv.Value != nil && cv.Value.String() == fmt.Sprint(want)
}

func isZeroInt(v ssa.Value) bool { c, ok := constInt(v); return ok && c == 0 }
func isCall(v ssa.Value) bool    { _, ok := v.(*ssa.Call); return ok }

func (x *ppExec) run(fr *ppFrame, b, pred *ssa.BasicBlock, cur ppPath, visited map[*ssa.BasicBlock]int, done func(ppPath, *ssa.Return)) {
	x.steps++
	if x.why != "" {
		return
	}
	if x.steps > 50000 {
		x.why = "too many paths"
		return
	}
	if visited[b] > 0 {
		x.why = "a loop that is not a prefix comparison (" + x.p.Pos(b.Instrs[0].Pos()) + ")"
		return
	}
	// a recognised prefix loop is one event
	for _, l := range fr.loops {
		if l.header == b {
			// resolve header phis other than the induction variable are not supported
			ev, exit, ok := x.prefixLoop(fr, l)
			if !ok {
				x.why = "a loop that is not a counted comparison of the first K parts (" + x.p.Pos(b.Instrs[len(b.Instrs)-1].Pos()) + ")"
				return
			}
			cur.events = append(append([]ppEvent{}, cur.events...), ev)
			x.run(fr, exit, b, cur, visited, done)
			return
		}
	}
	visited[b]++
	defer func() { visited[b]-- }()
	// resolve phis on entry
	newEnv := map[ssa.Value]*ppTerm{}
	newStr := map[ssa.Value]string{}
	for _, ins := range b.Instrs {
		ph, ok := ins.(*ssa.Phi)
		if !ok {
			break
		}
		for i, p := range b.Preds {
			if p != pred {
				continue
			}
			if isIntType(ph.Type()) {
				newEnv[ph] = x.intTerm(fr, ph.Edges[i])
			} else if isStringType(ph.Type()) {
				if k := x.strKind(fr, ph.Edges[i]); k != "" {
					// the text itself counts as its own main part when there is no '-' (the other edge cuts it)
					newStr[ph] = "main"
					_ = k
				}
			}
		}
	}
	if len(newEnv) > 0 || len(newStr) > 0 {
		fr2 := *fr
		fr2.env = map[ssa.Value]*ppTerm{}
		for k, v := range fr.env {
			fr2.env[k] = v
		}
		for k, v := range newEnv {
			fr2.env[k] = v
		}
		fr2.strs = map[ssa.Value]string{}
		for k, v := range fr.strs {
			fr2.strs[k] = v
		}
		for k, v := range newStr {
			fr2.strs[k] = v
		}
		fr = &fr2
	}
	last := b.Instrs[len(b.Instrs)-1]
	switch t := last.(type) {
	case *ssa.Jump:
		x.run(fr, b.Succs[0], b, cur, visited, done)
	case *ssa.If:
		cond := t.Cond
		// a short-circuit condition: the phi of this block, resolved by the edge taken
		if ph, ok := cond.(*ssa.Phi); ok && ph.Block() == b {
			for i, p := range b.Preds {
				if p == pred {
					cond = ph.Edges[i]
				}
			}
			if c, ok := cond.(*ssa.Const); ok && c.Value != nil {
				if c.Value.String() == "true" {
					x.run(fr, b.Succs[0], b, cur, visited, done)
				} else {
					x.run(fr, b.Succs[1], b, cur, visited, done)
				}
				return
			}
		}
		lit, kind := x.condLit(fr, cond)
		switch kind {
		case "order":
			// lit.want tells which edge means probe >= base
			geEdge, ltEdge := b.Succs[0], b.Succs[1]
			if !lit.want {
				geEdge, ltEdge = b.Succs[1], b.Succs[0]
			}
			c1 := cur
			c1.ge = true
			x.run(fr, geEdge, b, c1, visited, done)
			c2 := cur
			c2.lits = append(append([]ppLit{}, cur.lits...), ppLit{kind: "free", text: "probe < base"})
			c2.where = "lt"
			x.run(fr, ltEdge, b, c2, visited, done)
		case "padguard":
			if !paddedDiamond(b) && x.probeLen == "" {
				x.probeLen = x.p.Pos(cond.Pos())
			}
			x.run(fr, b.Succs[0], b, cur, visited, done)
			x.run(fr, b.Succs[1], b, cur, visited, done)
		case "lit":
			for i, s := range b.Succs {
				c := cur
				l := lit
				if i == 1 {
					l.want = !l.want
				}
				c.lits = append(append([]ppLit{}, cur.lits...), l)
				x.run(fr, s, b, c, visited, done)
			}
		default:
			x.why = "a condition the executor does not understand: " + cond.String() + " (" + x.p.Pos(cond.Pos()) + ")"
		}
	case *ssa.Return:
		done(cur, t)
	default:
		x.why = "unexpected terminator"
	}
}

// execFn: all paths of the predicate fn(probe, base [, n])
func (x *ppExec) execFn(fn *ssa.Function, probe, base ssa.Value, bind map[ssa.Value]*ppTerm, prefix ppPath, depth int, out func(ppPath)) {
	if depth > 3 {
		x.why = "helper chain too deep"
		return
	}
	fr := &ppFrame{fn: fn, probe: probe, base: base, env: bind, strs: map[ssa.Value]string{}, loops: findLoops(fn)}
	x.run(fr, fn.Blocks[0], nil, prefix, map[*ssa.BasicBlock]int{}, func(pth ppPath, ret *ssa.Return) {
		if len(ret.Results) != 1 {
			x.why = "not a predicate"
			return
		}
		rv := ret.Results[0]
		if c, ok := rv.(*ssa.Const); ok && c.Value != nil {
			pth.res = c.Value.String()
			pth.where = x.p.Pos(ret.Pos())
			out(pth)
			return
		}
		// cmp(pad(probe.seq[k]), base.seq[k]) == 0, or a == b
		if bo, ok := rv.(*ssa.BinOp); ok && bo.Op == token.EQL {
			var a, b ssa.Value = bo.X, bo.Y
			if call, ok := bo.X.(*ssa.Call); ok && isZeroInt(bo.Y) && len(call.Call.Args) == 2 {
				a, b = call.Call.Args[0], call.Call.Args[1]
			}
			fr2 := fr
			s1, i1, ok1 := x.elemOf(fr2, a)
			s2, i2, ok2 := x.elemOf(fr2, b)
			if ok1 && ok2 {
				k1, okk1 := constInt(i1)
				k2, okk2 := constInt(i2)
				if strings.HasPrefix(s1, "base.") {
					s1, s2 = s2, s1
				}
				if okk1 && okk2 && k1 == k2 && strings.HasPrefix(s1, "probe.") && strings.HasPrefix(s2, "base.") {
					pth.events = append(append([]ppEvent{}, pth.events...), ppEvent{at: int(k1), pseq: s1, bseq: s2})
					pth.res = "true"
					pth.where = x.p.Pos(ret.Pos())
					x.zipBaseSeqs[s2] = true
					out(pth)
					return
				}
			}
		}
		// return helper(probe, base, n)
		if call, ok := rv.(*ssa.Call); ok {
			if g := call.Call.StaticCallee(); g != nil && x.p.IsRepoFn(g) && g.Blocks != nil {
				var gp, gb ssa.Value
				gbind := map[ssa.Value]*ppTerm{}
				for i, a := range call.Call.Args {
					if i >= len(g.Params) {
						break
					}
					switch {
					case a == fr.probe:
						gp = g.Params[i]
					case a == fr.base:
						gb = g.Params[i]
					case isIntType(a.Type()):
						gbind[g.Params[i]] = x.intTerm(fr, a)
					default:
						if n := x.seqName(fr, a); n != "" {
							gbind[g.Params[i]] = &ppTerm{kind: "seqref", seq: n}
						}
					}
				}
				if gp != nil && gb != nil {
					x.execFn(g, gp, gb, gbind, pth, depth+1, out)
					return
				}
			}
		}
		x.why = "a result the executor does not understand: " + rv.String() + " (" + x.p.Pos(ret.Pos()) + ")"
	})
}

type ppSpec struct {
	eco, fn, construct string
	// arityFromLen: the written arity of the base is the length of the zipped base sequence (conan keeps every part)
	arityFromLen bool
	// want: the documented number of leading parts that must equal the base's, "" ok, or a reason to skip the shape
	want func(arity int, zero [3]bool, side bool) (k int, note string)
}

var ppSpecs = []ppSpec{
	{"gem", "satisfiesPessimistic", "~> V (all but the last written component are fixed; ~> 1 fixes the major)", false, func(arity int, _ [3]bool, side bool) (int, string) {
		if side {
			// Gem::Requirement drops the pre-release and then the last numeric part; the written arity is an upper bound
			return max(arity-1, 1), "base with a pre-release part"
		}
		return max(arity-1, 1), ""
	}},
	{"conan", "tildeMatch", "~V (~1 fixes the major, anything longer major and minor)", true, func(arity int, _ [3]bool, _ bool) (int, string) {
		return min(arity, 2), ""
	}},
	{"conan", "caretMatch", "^V (everything up to and including the left-most non-zero part is fixed)", true, func(arity int, zero [3]bool, _ bool) (int, string) {
		class := ""
		if zero[0] && (arity < 2 || zero[1]) {
			class = "base whose major and minor are zero"
		}
		for k := 0; k < arity && k < 3; k++ {
			if !zero[k] {
				return k + 1, class
			}
		}
		return arity, class
	}},
}

func rulePrefixPred(p *Prog, r *Report) {
	for _, sp := range ppSpecs {
		key := fmt.Sprintf("%s: %s", sp.eco, sp.construct)
		e := ecoByName(p, sp.eco)
		if e == nil {
			r.Und("R-PREFIX-PRED", key, "", "ecosystem not found")
			continue
		}
		var fn *ssa.Function
		for f := range p.AllFns {
			if f.Name() == sp.fn && f.Pkg != nil && f.Pkg.Pkg == e.VerT.Obj().Pkg() && f.Blocks != nil {
				fn = f
			}
		}
		if fn == nil {
			r.Und("R-PREFIX-PRED", key, "", "predicate "+sp.fn+" not found")
			continue
		}
		var vp []*ssa.Parameter
		for _, prm := range fn.Params {
			if pt, ok := prm.Type().Underlying().(*types.Pointer); ok && types.Identical(pt.Elem(), e.VerT) {
				vp = append(vp, prm)
			}
		}
		if len(vp) != 2 {
			r.Und("R-PREFIX-PRED", key, p.FnPos(fn), "the predicate does not take (probe, base)")
			continue
		}
		x := &ppExec{p: p, e: e, baseSeqs: map[string]bool{}, zipBaseSeqs: map[string]bool{}}
		x.execFn(fn, vp[0], vp[1], map[ssa.Value]*ppTerm{}, ppPath{}, 0, func(pth ppPath) { x.paths = append(x.paths, pth) })
		if x.why != "" {
			r.Und("R-PREFIX-PRED", key, p.FnPos(fn), "outside the executor's fragment: "+x.why)
			continue
		}
		if x.probeLen != "" {
			r.Bad("R-PREFIX-PRED", key+" :: the number of parts the probe is written with decides", x.probeLen, "a test on the length of the probe's part list that is not the guard of a padded read: versions that compare equal (a missing part counts as the padding value) are treated differently, e.g. 1 and 1.0")
			continue
		}
		var zipSeq string
		for s := range x.zipBaseSeqs {
			zipSeq = s
		}
		if len(x.zipBaseSeqs) != 1 {
			r.Und("R-PREFIX-PRED", key, p.FnPos(fn), fmt.Sprintf("the paths compare %d different sequences of the base", len(x.zipBaseSeqs)))
			continue
		}
		var sideSeqs []string
		for s := range x.baseSeqs {
			if s != zipSeq {
				sideSeqs = append(sideSeqs, s)
			}
		}
		sort.Strings(sideSeqs)
		// judge the paths on the shapes
		bad := map[string][]string{} // signature -> examples
		nshape := 0
		for arity := 1; arity <= 4; arity++ {
			for zp := 0; zp < 8; zp++ {
				zero := [3]bool{zp&1 != 0, zp&2 != 0, zp&4 != 0}
				if arity < 3 && zp >= 1<<arity {
					continue
				}
				zipLens := []int{arity}
				if !sp.arityFromLen {
					zipLens = nil
					for n := 1; n <= arity; n++ {
						zipLens = append(zipLens, n) // trailing zero parts may have been trimmed
					}
				}
				for _, zl := range zipLens {
					nside := 1
					for range sideSeqs {
						nside *= 2
					}
					for sm := 0; sm < nside; sm++ {
						sh := &ppShape{arity: arity, zero: zero, lens: map[string]int{zipSeq: zl}}
						side := false
						for i, s := range sideSeqs {
							if sm&(1<<i) != 0 {
								sh.lens[s] = 1
								side = true
							} else {
								sh.lens[s] = 0
							}
						}
						nshape++
						want, note := sp.want(arity, zero, side)
						desc := fmt.Sprintf("written arity %d, zero parts %v, %s=%d", arity, zero[:min(arity, 3)], zipSeq, zl)
						for _, s := range sideSeqs {
							desc += fmt.Sprintf(", %s=%d", s, sh.lens[s])
						}
						accepting := 0
						for _, pth := range x.paths {
							holds, undec := true, false
							for _, l := range pth.lits {
								h, ok := l.holds(sh)
								if !ok {
									undec = true
								} else if !h {
									holds = false
								}
							}
							if !holds {
								continue
							}
							if undec {
								bad["a condition that cannot be evaluated on the base shapes"] = append(bad["a condition that cannot be evaluated on the base shapes"], desc)
								continue
							}
							if pth.where == "lt" || pth.res != "true" {
								continue
							}
							accepting++
							if !pth.ge {
								sig := "accepts without the test Compare(probe, base) >= 0"
								bad[sig] = append(bad[sig], desc)
								continue
							}
							need := map[int]bool{}
							okEval := true
							for _, ev := range pth.events {
								if ev.prefix != nil {
									k, ok := ev.prefix.eval(sh)
									if !ok {
										okEval = false
									}
									for i := 0; i < k; i++ {
										need[i] = true
									}
								} else {
									need[ev.at] = true
								}
							}
							if !okEval {
								bad["a prefix length that cannot be evaluated on the base shapes"] = append(bad["a prefix length that cannot be evaluated on the base shapes"], desc)
								continue
							}
							got := 0
							contiguous := true
							for i := range need {
								if i+1 > got {
									got = i + 1
								}
							}
							for i := 0; i < got; i++ {
								if !need[i] {
									contiguous = false
								}
							}
							if !contiguous || got != want {
								sig := fmt.Sprintf("fixes the first %d parts, documented %d", got, want)
								if !sp.arityFromLen && zl != arity {
									sig += " [base with trailing zero parts]"
								}
								if note != "" {
									// a named class of bases: one finding for the class
									rel := "more"
									if got < want {
										rel = "fewer"
									}
									sig = note + ": fixes " + rel + " leading parts than documented"
									desc += fmt.Sprintf(" (fixes %d, documented %d)", got, want)
								}
								bad[sig] = append(bad[sig], desc)
							}
						}
						if accepting == 0 {
							bad["no accepting path"] = append(bad["no accepting path"], desc)
						}
					}
				}
			}
		}
		if len(bad) == 0 {
			r.Ok("R-PREFIX-PRED", key, p.FnPos(fn), fmt.Sprintf("%s: %d symbolic paths judged on %d base shapes: every accepting path has passed Compare(probe, base) >= 0 and fixes exactly the documented number of leading parts", sp.fn, len(x.paths), nshape))
			continue
		}
		var sigs []string
		for s := range bad {
			sigs = append(sigs, s)
		}
		sort.Strings(sigs)
		for _, s := range sigs {
			r.Bad("R-PREFIX-PRED", key+" :: "+s, p.FnPos(fn), fmt.Sprintf("%d of %d base shapes, e.g. %s", len(bad[s]), nshape, bad[s][0]))
		}
	}
	r.Floor("R-PREFIX-PRED", len(ppSpecs))
}

func init() {
	register("C05", "", rulePrefixPred)
}

// ---- R-SIBLING-OPEN: sibling interval parsers agree on open ends ------------------------------------------
//
// The bracket syntaxes ([a,b], (a,b), [a,b), (a,b]) are parsed by sibling functions that split the text
// between the brackets at the comma and hand both sides to NewVersion. Where one sibling accepts an
// empty side as "unbounded" (it tests the side against "" before parsing it), a sibling that parses both
// sides unconditionally rejects the open interval of its own bracket kind ((1.0,) , (,2.0)), although the
// ecosystem documents it like the others. Cross-check: within one ecosystem, either every such parser
// tests its sides for emptiness or none does.
func ruleSiblingOpen(p *Prog, r *Report) {
	n := 0
	for _, e := range p.Ecos {
		if e.NewRng == nil {
			continue
		}
		type sib struct {
			fn      *ssa.Function
			guarded bool
		}
		var sibs []sib
		for _, fn := range p.RepoReachable(e.NewRng) {
			if fn.Blocks == nil {
				continue
			}
			var split *ssa.Call
			for _, b := range fn.Blocks {
				for _, ins := range b.Instrs {
					if c, ok := ins.(*ssa.Call); ok {
						if g := c.Call.StaticCallee(); g != nil && extName(g) == "strings.Split" {
							if sep, ok := constString(c.Call.Args[1]); ok && sep == "," {
								split = c
							}
						}
					}
				}
			}
			if split == nil {
				continue
			}
			// the two sides: TrimSpace of split[0] / split[1] (or the elements themselves)
			sideOf := func(v ssa.Value) int {
				for d := 0; d < 4; d++ {
					switch x := v.(type) {
					case *ssa.Call:
						if g := x.Call.StaticCallee(); g != nil && extName(g) == "strings.TrimSpace" {
							v = x.Call.Args[0]
							continue
						}
						return -1
					case *ssa.UnOp:
						if ia, ok := x.X.(*ssa.IndexAddr); ok && ia.X == ssa.Value(split) {
							if k, ok := constInt(ia.Index); ok && (k == 0 || k == 1) {
								return int(k)
							}
						}
						return -1
					}
					return -1
				}
				return -1
			}
			parsed := map[int]bool{}
			tested := map[int]bool{}
			for _, b := range fn.Blocks {
				for _, ins := range b.Instrs {
					switch x := ins.(type) {
					case *ssa.Call:
						if x.Call.StaticCallee() == e.NewVer && len(x.Call.Args) >= 2 {
							if s := sideOf(x.Call.Args[1]); s >= 0 {
								parsed[s] = true
							}
						}
					case *ssa.BinOp:
						if x.Op == token.EQL || x.Op == token.NEQ {
							for _, pr := range [][2]ssa.Value{{x.X, x.Y}, {x.Y, x.X}} {
								if lit, ok := constString(pr[1]); ok && lit == "" {
									if s := sideOf(pr[0]); s >= 0 {
										tested[s] = true
									}
								}
							}
						}
					}
				}
			}
			if parsed[0] && parsed[1] {
				sibs = append(sibs, sib{fn, tested[0] && tested[1]})
			}
		}
		if len(sibs) < 2 {
			continue
		}
		sort.Slice(sibs, func(i, j int) bool { return sibs[i].fn.Name() < sibs[j].fn.Name() })
		var open, closed []string
		for _, s := range sibs {
			if s.guarded {
				open = append(open, s.fn.Name())
			} else {
				closed = append(closed, s.fn.Name())
			}
		}
		n++
		key := fmt.Sprintf("%s: the interval parsers agree on open ends", e.Name)
		if len(open) > 0 && len(closed) > 0 {
			r.Bad("R-SIBLING-OPEN", key, p.FnPos(sibs[0].fn), fmt.Sprintf("%v accept an empty side as unbounded, %v hand both sides to NewVersion unconditionally: the open intervals of their own bracket kind are rejected", open, closed))
		} else {
			r.Ok("R-SIBLING-OPEN", key, p.FnPos(sibs[0].fn), fmt.Sprintf("%d sibling parsers split at the comma and parse both sides; open: %v, closed only: %v", len(sibs), open, closed))
		}
	}
	_ = n
	r.Floor("R-SIBLING-OPEN", 1)
}

func init() {
	register("C05", "", ruleSiblingOpen)
}
