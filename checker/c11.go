package main

import (
	"fmt"
	"go/constant"
	"go/token"
	"sort"
	"strings"

	"golang.org/x/tools/go/ssa"
)

// ---- C11: RPM versions order as rpmvercmp does -------------------------------------------------------
//
// As for Debian, the scanner is matched structurally and its ingredients are read from their abstract
// tables. rpmvercmp differs from dpkg in three ways that are each a clause of the property: every
// character that is not a letter, a digit, '~' or '^' only separates segments; a numeric segment is
// newer than an alphabetic one at the same place; '^' sorts after the end of the string but before
// any further segment.

func ruleRPM(p *Prog, r *Report) {
	e := ecoByName(p, "rpm")
	if e == nil {
		r.Und("R-RPM-CHAIN", "rpm: ecosystem", "", "ecosystem not found")
		return
	}
	ef := ecoFieldInfo(p, e)
	pos := p.FnPos(e.Compare)
	var fEpoch string
	var strs []string
	er := runAEOne(p, e)
	for i := 0; ef.st != nil && i < ef.st.NumFields(); i++ {
		f := ef.st.Field(i)
		if isIntType(f.Type()) && fEpoch == "" {
			fEpoch = "." + f.Name()
		}
		if isStringType(f.Type()) {
			for k := range er.res.assumed {
				if strings.HasSuffix(k, "(."+f.Name()+")") {
					strs = append(strs, "."+f.Name())
				}
			}
		}
	}
	if fEpoch == "" || len(strs) != 2 {
		r.Und("R-RPM-CHAIN", "rpm: fields located", pos, fmt.Sprintf("epoch and the two scanned text fields not located (%q %v)", fEpoch, strs))
		return
	}
	scan := stageFnFor(p, e, strs[0])
	if scan == nil {
		r.Und("R-RPM-CHAIN", "rpm: fields located", pos, "segment scanner not located")
		return
	}
	// which of the two is compared first
	fVer, fRel := strs[0], strs[1]
	{
		c := newAECtx(p)
		rank := func(f string) string { return "rank:" + scan.Name() + "(" + f + ")" }
		try := func(first, second string) bool {
			ov := map[string]override{rank(first): {rel: relPtr(-1)}, first: {free: true}, "~" + second: {free: true}}
			qr := c.queryPair(e.Compare, c.tiedExcept(ov), nil)
			return qr.oof == "" && qr.leaves > 0 && qr.only(-1)
		}
		if !try(fVer, fRel) && try(fRel, fVer) {
			fVer, fRel = fRel, fVer
		}
		q := func(key string, ov map[string]override, what string) {
			qr := c.queryPair(e.Compare, c.tiedExcept(ov), nil)
			switch {
			case qr.oof != "":
				r.Und("R-RPM-CHAIN", key, pos, qr.describe())
			case qr.leaves == 0:
				r.Und("R-RPM-CHAIN", key, pos, "no abstract world matches the row")
			case qr.only(-1):
				r.Ok("R-RPM-CHAIN", key, pos, fmt.Sprintf("%s: -1 in all %d abstract worlds", what, qr.leaves))
			default:
				r.Bad("R-RPM-CHAIN", key, pos, what+" does not always give -1: "+qr.describe())
			}
		}
		q("rpm: epoch decides first", map[string]override{fEpoch: {rel: relPtr(-1)}, "~" + fVer: {free: true}, "~" + fRel: {free: true}}, "smaller epoch, whatever version and release are")
		q("rpm: version decides before the release", map[string]override{rank(fVer): {rel: relPtr(-1)}, fVer: {free: true}, "~" + fRel: {free: true}}, "equal epochs, smaller version, whatever the releases are")
		q("rpm: release decides last", map[string]override{rank(fRel): {rel: relPtr(-1)}, fRel: {free: true}}, "equal epoch and version, smaller release")
		// version is the text before the last hyphen: provenance through LastIndex
		fpV := ef.prov[fieldIndex(ef, fVer)]
		if fpV.via["LastIndex"] || fpV.via["substring"] {
			r.Ok("R-RPM-CHAIN", "rpm: version/release split at the last hyphen", p.FnPos(e.NewVer), "the version field is a substring taken at strings.LastIndex of '-'")
		} else {
			r.Und("R-RPM-CHAIN", "rpm: version/release split at the last hyphen", p.FnPos(e.NewVer), fmt.Sprintf("the split was not recognised (provenance %v)", keysOf(fpV.via)))
		}
	}

	// ---- R-RPM-SCAN ---------------------------------------------------------------------------------
	var sepFn, nonDigitFn, digitFn *ssa.Function
	{
		key := "rpm: separators skipped, then a non-digit and a digit segment on both sides"
		outer, segs, why := scannerSegments(scan)
		var problems []string
		if why != "" {
			problems = append(problems, why)
		} else if cs := cursorStart(outer); cs != "" {
			problems = append(problems, cs)
		} else {
			bySide := map[int][]scanSegment{}
			for _, s := range segs {
				bySide[s.side] = append(bySide[s.side], s)
			}
			for side := 0; side < 2; side++ {
				ss := bySide[side]
				if len(ss) != 3 {
					problems = append(problems, fmt.Sprintf("side %d has %d cursor loops, want 3 (separators, non-digit segment, digit segment)", side, len(ss)))
					continue
				}
				// the separator predicate: the single atom of the first loop
				atoms := map[string]bool{}
				ss[0].guard.atoms(atoms)
				if len(atoms) != 1 {
					problems = append(problems, fmt.Sprintf("side %d: the skipping loop is not guarded by one separator predicate", side))
					continue
				}
				sepAtom := keysOf(atoms)[0]
				for fn := range p.AllFns {
					if fn.String() == sepAtom {
						sepFn = fn
					}
				}
				da := digitAtom(ss[2].guard)
				if da == "" || digitAtom(ss[1].guard) != da {
					problems = append(problems, fmt.Sprintf("side %d: segments are not delimited by unicode.IsDigit", side))
					continue
				}
				for dig := 0; dig < 2; dig++ {
					for sep := 0; sep < 2; sep++ {
						val := map[string]bool{da: dig == 1, sepAtom: sep == 1}
						if got, want := ss[0].guard.eval(val), sep == 1; got != want {
							problems = append(problems, fmt.Sprintf("side %d: the skipping loop does not run exactly on separators", side))
						}
						if got, want := ss[1].guard.eval(val), dig == 0 && sep == 0; got != want {
							problems = append(problems, fmt.Sprintf("side %d: the non-digit segment is not the run of characters that are neither digits nor separators", side))
						}
						if sep == 0 {
							if got, want := ss[2].guard.eval(val), dig == 1; got != want {
								problems = append(problems, fmt.Sprintf("side %d: the digit segment is not the run of digits", side))
							}
						}
					}
				}
			}
			calls := runComparatorCalls(p, scan, outer)
			if len(calls) != 2 {
				problems = append(problems, fmt.Sprintf("%d segment comparator calls in the scanner loop, want 2", len(calls)))
			} else {
				for k, c := range calls {
					if sliceOfParam(c.Call.Args[0], scan) != 0 || sliceOfParam(c.Call.Args[1], scan) != 1 {
						problems = append(problems, fmt.Sprintf("segment comparator call %d does not receive (segment of a, segment of b) in this order", k+1))
					}
					if !returnsIfNonZero(c) {
						problems = append(problems, fmt.Sprintf("the result of segment comparator call %d is not returned when non-zero", k+1))
					}
				}
				if len(problems) == 0 {
					nonDigitFn, digitFn = calls[0].Call.StaticCallee(), calls[1].Call.StaticCallee()
				}
			}
		}
		// unique, sorted problems
		sort.Strings(problems)
		var uniq []string
		for i, s := range problems {
			if i == 0 || s != problems[i-1] {
				uniq = append(uniq, s)
			}
		}
		if len(uniq) > 0 {
			r.Bad("R-RPM-SCAN", key, p.FnPos(scan), strings.Join(uniq, "; "))
		} else {
			r.Ok("R-RPM-SCAN", key, p.FnPos(scan), fmt.Sprintf("%s: per side skip %s characters, then the run that is neither digit nor separator, then the digit run; %s and %s receive (a-segment, b-segment) and their first non-zero result is returned", scan.Name(), sepFn.Name(), nonDigitFn.Name(), digitFn.Name()))
		}
	}

	// ---- R-RPM-SEP: what only separates ---------------------------------------------------------------
	if sepFn != nil {
		c := newAECtx(p)
		c.stageMode = false
		leaves, oof := c.tabulate(sepFn, paramArgs(sepFn))
		table := map[rune]bool{}
		other := false
		rk := ""
		if len(sepFn.Params) == 1 {
			rk = sepFn.Params[0].Name()
		}
		for _, lf := range leaves {
			res, ok := lf.res.(avConst)
			if !ok || res.v.Kind() != constant.Bool {
				oof = "the separator predicate's result is not a constant in the abstract domain"
				break
			}
			v, has := lf.w.pos[posKey(rk, 0)]
			if has && v%2 == 1 {
				n, _ := constant.Int64Val(c.pools[rk][v/2])
				table[rune(n)] = constant.BoolVal(res.v)
			} else {
				other = other || constant.BoolVal(res.v)
			}
		}
		is := func(ch rune) bool {
			if v, ok := table[ch]; ok {
				return v
			}
			return other
		}
		key := "rpm: every character other than letters, digits, '~' and '^' only separates segments"
		var missing []string
		for _, ch := range "._+" {
			if !is(ch) {
				missing = append(missing, fmt.Sprintf("%q", ch))
			}
		}
		switch {
		case oof != "":
			r.Und("R-RPM-SEP", key, p.FnPos(sepFn), oof)
		case len(missing) > 0:
			r.Bad("R-RPM-SEP", key+" :: not separators: "+strings.Join(missing, " "), p.FnPos(sepFn), fmt.Sprintf("%s does not treat %s as a separator: it becomes part of an alphabetic segment (1.0_1 vs 1.0.1 compare as segment \"_\" against nothing; rpmvercmp: equal)", sepFn.Name(), strings.Join(missing, ", ")))
		default:
			r.Ok("R-RPM-SEP", key, p.FnPos(sepFn), fmt.Sprintf("%s holds for '.', '_' and '+'", sepFn.Name()))
		}
		key2 := "rpm: '~' and '^' are not plain separators"
		var plain []string
		for _, ch := range "~^" {
			if is(ch) {
				plain = append(plain, fmt.Sprintf("%q", ch))
			}
		}
		// a caret must also be told apart somewhere in the scanner
		caretTest := false
		for _, fn := range p.RepoReachable(scan) {
			for _, b := range fn.Blocks {
				for _, ins := range b.Instrs {
					if bo, ok := ins.(*ssa.BinOp); ok && (bo.Op == token.EQL || bo.Op == token.NEQ) {
						if n, ok := constInt(bo.Y); ok && n == '^' && fn != sepFn {
							caretTest = true
						}
					}
				}
			}
		}
		switch {
		case len(plain) > 0:
			r.Bad("R-RPM-SEP", key2+" :: plain separators: "+strings.Join(plain, " "), p.FnPos(sepFn), fmt.Sprintf("%s treats %s as a plain separator: it is skipped like '.', so 1.0^git1 compares as 1.0.git1 (newer than 1.0.1), where rpmvercmp sorts a caret after the end of the string but before any further segment", sepFn.Name(), strings.Join(plain, ", ")))
		case !caretTest:
			r.Bad("R-RPM-SEP", key2, p.FnPos(scan), "no code reachable from the scanner tests for '^': the caret rule cannot be implemented")
		default:
			r.Ok("R-RPM-SEP", key2, p.FnPos(sepFn), "'~' and '^' are not skipped as separators and '^' is tested for in the scanner")
		}
	}

	// ---- R-RPM-SEGCLASS: a numeric segment is newer than an alphabetic one ---------------------------------
	{
		key := "rpm: a numeric segment is newer than an alphabetic one at the same place"
		// rpmvercmp decides by the TYPE of the segment before comparing text. A scanner that always
		// compares (non-digit run, non-digit run) and then (digit run, digit run) compares an alphabetic
		// segment with an empty run when the other side continues with digits, and calls it newer.
		outer, _, _ := scannerSegments(scan)
		typed := false
		if outer != nil {
			inner := map[*ssa.BasicBlock]bool{}
			for _, il := range findLoops(scan) {
				if il.header != outer.header && outer.body[il.header] {
					for b := range il.body {
						inner[b] = true
					}
				}
			}
			for b := range outer.body {
				if inner[b] || b == outer.header {
					continue
				}
				iff, ok := b.Instrs[len(b.Instrs)-1].(*ssa.If)
				if !ok {
					continue
				}
				// a branch of the scanner itself on the emptiness of a segment or on the class of the
				// current character
				var mentions func(v ssa.Value, d int) bool
				mentions = func(v ssa.Value, d int) bool {
					if d > 4 {
						return false
					}
					switch x := v.(type) {
					case *ssa.BinOp:
						if _, isSlice := x.X.(*ssa.Slice); isSlice {
							return true
						}
						if lc, ok := x.X.(*ssa.Call); ok {
							if bi, ok := lc.Call.Value.(*ssa.Builtin); ok && bi.Name() == "len" {
								if _, isSlice := lc.Call.Args[0].(*ssa.Slice); isSlice {
									return true
								}
							}
						}
						return mentions(x.X, d+1) || mentions(x.Y, d+1)
					case *ssa.Call:
						if f := x.Call.StaticCallee(); f != nil && strings.HasSuffix(f.String(), "unicode.IsDigit") {
							return true
						}
					case *ssa.UnOp:
						return mentions(x.X, d+1)
					case *ssa.Phi:
						for _, ed := range x.Edges {
							if mentions(ed, d+1) {
								return true
							}
						}
					}
					return false
				}
				if mentions(iff.Cond, 0) {
					typed = true
				}
			}
		}
		if typed {
			r.Ok("R-RPM-SEGCLASS", key, p.FnPos(scan), "the scanner branches on the kind or emptiness of the current segments before comparing them")
		} else {
			r.Bad("R-RPM-SEGCLASS", key, p.FnPos(scan), "the scanner never looks at the kind of the current segments: it compares the non-digit runs of both sides and then the digit runs, so an alphabetic segment facing a numeric one is compared with an empty run and wins (1.0a > 1.0.1; rpmvercmp: numeric is newer, 1.0a < 1.0.1)")
		}
	}

	// ---- R-RPM-NONDIGIT / R-RPM-DIGITS ----------------------------------------------------------------------
	if nonDigitFn != nil {
		key := "rpm: alphabetic segments by byte order, '~' before everything"
		c := newAECtx(p)
		c.stageMode = false
		type leaf struct {
			w   *world
			got int64
		}
		var leaves []leaf
		oof := c.withRetries(nonDigitFn, func() {
			leaves = nil
			c.explore(2, 100000, func(w *world) {
				leaves = append(leaves, leaf{w.clone(), c.runPair(nonDigitFn, w, 0, 1, nil)})
			})
		})
		tk := ""
		for _, k := range c.termKeys() {
			ti := c.terms[k]
			if strings.HasPrefix(k, "HasPrefix(") && strings.Contains(k, `"~"`) && len(ti.base) == 1 {
				tk = k
			}
		}
		var bad []string
		for _, lf := range leaves {
			desc := lf.w.describe(c.pools, c.terms)
			tx, okx := lf.w.pos[posKey(tk, 0)]
			ty, oky := lf.w.pos[posKey(tk, 1)]
			if tk == "" || !okx || !oky {
				bad = append(bad, "segments are ordered without testing for a leading '~': ["+desc+"]")
				continue
			}
			var exp int64
			switch {
			case tx == 1 && ty == 0:
				exp = -1
			case tx == 0 && ty == 1:
				exp = 1
			default:
				v, ok := c.cmpAssigned(lf.w, "p0", 0, 1)
				if !ok {
					bad = append(bad, "segments are ordered without comparing their text: ["+desc+"]")
					continue
				}
				exp = int64(v)
			}
			if lf.got != exp {
				bad = append(bad, fmt.Sprintf("expected %d, got %d [%s]", exp, lf.got, desc))
			}
		}
		switch {
		case oof != "":
			r.Und("R-RPM-NONDIGIT", key, p.FnPos(nonDigitFn), oof)
		case len(bad) > 0:
			sort.Strings(bad)
			r.Bad("R-RPM-NONDIGIT", key, p.FnPos(nonDigitFn), bad[0])
		case len(leaves) < 5:
			r.Und("R-RPM-NONDIGIT", key, p.FnPos(nonDigitFn), fmt.Sprintf("only %d abstract worlds", len(leaves)))
		default:
			r.Ok("R-RPM-NONDIGIT", key, p.FnPos(nonDigitFn), fmt.Sprintf("%d abstract worlds: a segment starting with '~' is older than one that does not (the empty one included); otherwise byte order of the text", len(leaves)))
		}
	}
	if digitFn != nil {
		key := "rpm: numeric segments compare as integers of any length, leading zeros ignored"
		oof, bad, rows, nleaves := digitsTable(p, digitFn)
		leaves := make([]struct{}, nleaves)
		switch {
		case oof != "":
			r.Und("R-RPM-DIGITS", key, p.FnPos(digitFn), oof)
		case len(bad) > 0:
			sort.Strings(bad)
			r.Bad("R-RPM-DIGITS", key, p.FnPos(digitFn), bad[0])
		case rows["arbitrary length"] == 0:
			r.Bad("R-RPM-DIGITS", key, p.FnPos(digitFn), "no path compares runs that do not fit a machine word")
		default:
			r.Ok("R-RPM-DIGITS", key, p.FnPos(digitFn), fmt.Sprintf("%d abstract worlds: parsed values when both runs fit, otherwise zero-stripped length then text; an empty run is older than digits (%v)", len(leaves), rows))
		}
	}
	r.Floor("R-RPM-CHAIN", 4)
	r.Floor("R-RPM-SCAN", 1)
	r.Floor("R-RPM-SEP", 2)
	r.Floor("R-RPM-SEGCLASS", 1)
}

func init() {
	register("C11", "RPM versions order as rpmvercmp does", ruleRPM)
}

// digitsTable evaluates a comparator of two digit runs and compares every leaf of its decision table with
// integer order: both empty tie, an empty run is older than digits, parsed values when both runs fit a
// machine word, otherwise the zero-stripped runs by length and then by text.
func digitsTable(p *Prog, digitFn *ssa.Function) (oof string, bad []string, rows map[string]int, nleaves int) {
	return digitsTableIf(p, digitFn, nil)
}

// digitsTableIf: the same on the leaves selected by keep (nil: all); leaves without a concrete instance
// (feasible) are dropped.
func digitsTableIf(p *Prog, digitFn *ssa.Function, keep func(c *aeCtx, w *world) bool) (oof string, bad []string, rows map[string]int, nleaves int) {
	c := newAECtx(p)
	c.stageMode = false
	type leaf struct {
		w   *world
		got int64
	}
	var leaves []leaf
	oof = c.withRetries(digitFn, func() {
		leaves = nil
		c.explore(2, 100000, func(w *world) {
			leaves = append(leaves, leaf{w.clone(), c.runPair(digitFn, w, 0, 1, nil)})
		})
	})
	pk := "p0"
	stripK, valK, errK := "", "", ""
	for _, k := range c.termKeys() {
		ti := c.terms[k]
		switch {
		case strings.HasPrefix(k, "TrimLeft(") && strings.HasSuffix(k, `,"0")`) && len(ti.base) == 1:
			stripK = k
		case strings.HasPrefix(k, "Atoi(") && strings.HasSuffix(k, "#0"):
			valK = k
		case strings.HasPrefix(k, "Atoi(") && strings.HasSuffix(k, "#1"):
			errK = k
		}
	}
	emptyAt := func(w *world, ind int) (bool, bool) {
		v, ok := w.pos[posKey(pk, ind)]
		if !ok {
			return false, false
		}
		ci := poolIndexStr(c.pools[pk], "")
		return ci >= 0 && v == 2*ci+1, true
	}
	rows = map[string]int{}
	kept := 0
	for _, lf := range leaves {
		if keep != nil && (!keep(c, lf.w) || !c.feasible(lf.w)) {
			continue
		}
		kept++
		desc := lf.w.describe(c.pools, c.terms)
		ex, okx := emptyAt(lf.w, 0)
		ey, oky := emptyAt(lf.w, 1)
		var exp int64
		row := ""
		switch {
		case okx && oky && ex && ey:
			exp, row = 0, "both empty"
		case okx && ex:
			exp, row = -1, "empty vs digits"
		case oky && ey:
			exp, row = 1, "digits vs empty"
		default:
			e0, h0 := lf.w.pos[posKey(errK, 0)]
			e1, h1 := lf.w.pos[posKey(errK, 1)]
			if errK != "" && h0 && h1 && e0 == 0 && e1 == 0 {
				v, ok := c.cmpAssigned(lf.w, valK, 0, 1)
				if !ok {
					bad = append(bad, "parsed values are not compared: ["+desc+"]")
					continue
				}
				exp, row = int64(v), "both fit a machine word"
			} else {
				lr, okl := c.cmpAssigned(lf.w, "len("+stripK+")", 0, 1)
				tr, okt := c.cmpAssigned(lf.w, stripK, 0, 1)
				switch {
				case stripK != "" && okl && lr != 0:
					exp = int64(lr)
				case stripK != "" && okl && okt:
					exp = int64(tr)
				default:
					bad = append(bad, "runs that do not fit a machine word are not compared zero-stripped by length and then text: ["+desc+"]")
					continue
				}
				row = "arbitrary length"
			}
		}
		rows[row]++
		if lf.got != exp {
			bad = append(bad, fmt.Sprintf("row %s: integer order gives %d, the function gives %d [%s]", row, exp, lf.got, desc))
		}
	}
	return oof, bad, rows, kept
}
