package main

import (
	"encoding/json"
	"flag"
	"fmt"
	"os"
	"sort"
)

// A rule set inspects the resolved program and records obligations.
type ruleFn func(p *Prog, r *Report)

var propRules = map[string][]ruleFn{}
var propExplain = map[string]string{}

func register(prop string, explain string, fns ...ruleFn) {
	propRules[prop] = append(propRules[prop], fns...)
	if explain != "" {
		propExplain[prop] = explain
	}
}

func main() {
	prop := flag.String("prop", "", "property id (C01..C20)")
	tier := flag.String("tier", "quick", "quick|thorough")
	repo := flag.String("repo", "/repo", "repository root")
	verif := flag.String("verif", "/verif", "verif dir (evidence, replay, known findings)")
	tags := flag.String("tags", "", "build tags")
	goarch := flag.String("goarch", "", "GOARCH for loading")
	replay := flag.String("replay", "", "replay file: re-evaluate one obligation")
	list := flag.Bool("list", false, "list properties with rules")
	knownPath := flag.String("known", "", "known findings file (default <verif>/known_findings.json)")
	flag.Parse()
	if *list {
		var ps []string
		for k := range propRules {
			ps = append(ps, k)
		}
		sort.Strings(ps)
		for _, k := range ps {
			fmt.Println(k)
		}
		return
	}
	var only *Obligation
	if *replay != "" {
		b, err := os.ReadFile(*replay)
		if err != nil {
			fatalf("replay: %v", err)
		}
		var rp struct {
			Property   string
			Obligation Obligation
		}
		if err := json.Unmarshal(b, &rp); err != nil {
			fatalf("replay: %v", err)
		}
		*prop = rp.Property
		only = &rp.Obligation
	}
	if *prop == "dump-external" {
		dumpExternal(Load(*repo, *tags, *goarch))
		return
	}
	rules, ok := propRules[*prop]
	if !ok {
		fatalf("no rules for property %q", *prop)
	}
	p := Load(*repo, *tags, *goarch)
	r := NewReport(*prop, *tier)
	r.Explanation = propExplain[*prop]
	r.Extra["analysed"] = map[string]any{
		"packages":         len(p.Pkgs),
		"ecosystems":       len(p.Ecos),
		"source_functions": len(p.SrcFns),
		"goarch":           *goarch,
		"tags":             *tags,
	}
	if len(p.Ecos) == 0 {
		fatalf("no ecosystems discovered")
	}
	if os.Getenv("GVCHECK_LEAVES") != "" {
		dumpLeaves(p)
		return
	}
	for i, fn := range rules {
		func() {
			defer func() {
				if e := recover(); e != nil {
					// an analyser panic is a failure of the check, never a pass
					r.Und("ANALYSER", fmt.Sprintf("panic in rule function %d of %s", i+1, *prop), "-", fmt.Sprint(e))
					if os.Getenv("GVCHECK_DEBUG") != "" {
						panic(e)
					}
				}
			}()
			fn(p, r)
		}()
	}
	if *knownPath == "" {
		*knownPath = *verif + "/known_findings.json"
	}
	known := loadKnown(*knownPath)
	code := r.Finish(*verif, known, only)
	os.Exit(code)
}
