package main

import (
	"fmt"
	"go/token"
	"go/types"
	"sort"
	"strings"

	"golang.org/x/tools/go/ssa"
)

// ---- C20: membership depends only on a version's place in the order ---------------------------------

// keyFields: scalar fields f of the ecosystem's Version such that Compare(x,y) = 0 implies x.f = y.f,
// read off the (unsummarised) decision table: no zero-result world has the term untied.
func keyFields(p *Prog, e *Eco) (map[string]bool, string) {
	if p.keyFieldCache == nil {
		p.keyFieldCache = map[string]map[string]bool{}
	}
	if k, ok := p.keyFieldCache[e.Name]; ok {
		return k, ""
	}
	c := newAECtx(p)
	c.stageMode = false
	untied := map[string]bool{}
	seenTerm := map[string]bool{}
	oof := ""
	for i := 0; i < 300; i++ {
		retry := false
		func() {
			defer func() {
				if ex := recover(); ex != nil {
					switch x := ex.(type) {
					case poolMiss:
						c.pools[x.key] = poolInsert(c.pools[x.key], x.c)
						c.lsum = map[string]*loopSummary{}
						retry = true
					case orderedMiss:
						c.orderedConst[x.key] = true
						retry = true
					case restartAnalysis:
						retry = true
					case needLoop:
						// loops are relation atoms here: element-level ties are handled by treating slices as non-key
						c.lsum[loopID(x.fn, x.l)] = &loopSummary{ok: true, seqVals: seqOperands(x.l)}
						retry = true
					case needStage:
						c.stages[x.fn] = &stageInfo{}
						retry = true
					case outOfFragment:
						oof = x.why
					case tooLarge:
						oof = "table too large"
					default:
						panic(ex)
					}
				}
			}()
			untied = map[string]bool{}
			c.explore(2, 400000, func(w *world) {
				v := c.runPair(e.Compare, w, 0, 1, nil)
				for k := range w.pos {
					seenTerm[k[:strings.LastIndex(k, "|")]] = true
				}
				if v == 0 {
					for _, k := range c.untiedKeys(w) {
						untied[k] = true
					}
					// a term whose relation was never consulted on this path may differ as well
					for k := range w.pos {
						key := k[:strings.LastIndex(k, "|")]
						if cv, ok := c.cmpAssigned(w, key, 0, 1); !ok || cv != 0 {
							untied[key] = true
						}
					}
				}
			})
		}()
		if !retry {
			break
		}
	}
	if oof != "" {
		return nil, oof
	}
	keys := map[string]bool{}
	st, _ := e.VerT.Underlying().(*types.Struct)
	for i := 0; st != nil && i < st.NumFields(); i++ {
		f := st.Field(i)
		if _, ok := f.Type().Underlying().(*types.Basic); !ok {
			continue
		}
		k := "." + f.Name()
		if seenTerm[k] && !untied[k] {
			keys[f.Name()] = true
		}
	}
	p.keyFieldCache[e.Name] = keys
	return keys, ""
}

// elemComparators: functions to which Compare's own code passes elements of the given sequence field
func elemComparators(p *Prog, e *Eco, inCompare map[*ssa.Function]bool, field int) map[*ssa.Function]bool {
	out := map[*ssa.Function]bool{}
	isElemOfField := func(v ssa.Value) bool {
		seen := map[ssa.Value]bool{}
		var walk func(v ssa.Value) bool
		walk = func(v ssa.Value) bool {
			if seen[v] {
				return false
			}
			seen[v] = true
			switch x := v.(type) {
			case *ssa.Phi:
				for _, ed := range x.Edges {
					if walk(ed) {
						return true
					}
				}
			case *ssa.UnOp:
				if ia, ok := x.X.(*ssa.IndexAddr); ok {
					return walk(ia.X)
				}
				if fa, ok := x.X.(*ssa.FieldAddr); ok {
					if pt, ok := fa.X.Type().Underlying().(*types.Pointer); ok && types.Identical(pt.Elem(), e.VerT) && fa.Field == field {
						return true
					}
				}
			case *ssa.Call:
				// a read helper: partOrZero(parts, i) hands back an element of its sequence argument
				if g := x.Call.StaticCallee(); g != nil && p.IsRepoFn(g) {
					for _, a := range x.Call.Args {
						if _, isSl := a.Type().Underlying().(*types.Slice); isSl && walk(a) {
							return true
						}
					}
				}
			case *ssa.Parameter:
				// a sequence parameter of a helper called from Compare with the field
				fn := x.Parent()
				idx := -1
				for i, q := range fn.Params {
					if q == x {
						idx = i
					}
				}
				if n := p.CG.Nodes[fn]; n != nil {
					for _, ce := range n.In {
						if ce.Site != nil && idx < len(ce.Site.Common().Args) && inCompare[ce.Caller.Func] && walk(ce.Site.Common().Args[idx]) {
							return true
						}
					}
				}
			}
			return false
		}
		return walk(v)
	}
	for fn := range inCompare {
		for _, b := range fn.Blocks {
			for _, ins := range b.Instrs {
				c, ok := ins.(*ssa.Call)
				if !ok {
					continue
				}
				g := c.Call.StaticCallee()
				if g == nil || !p.IsRepoFn(g) {
					continue
				}
				for _, a := range c.Call.Args {
					if isStringType(a.Type()) || isIntType(a.Type()) {
						if u, ok := a.(*ssa.UnOp); ok {
							if _, isIA := u.X.(*ssa.IndexAddr); isIA && isElemOfField(a) {
								out[g] = true
							}
						}
						if ph, ok := a.(*ssa.Phi); ok && isElemOfField(ph) {
							out[g] = true
						}
						if cl, ok := a.(*ssa.Call); ok && isElemOfField(cl) {
							out[g] = true
						}
					}
				}
			}
		}
	}
	return out
}

// seqReadViaComparator: the probe's sequence field is only measured (len) and its elements (possibly
// defaulted to a constant when absent) are only handed to Compare's own element comparator.
func seqReadViaComparator(p *Prog, fa *ssa.FieldAddr, cmps map[*ssa.Function]bool) bool {
	if len(cmps) == 0 {
		return false
	}
	var okVal func(v ssa.Value, depth int) bool
	okVal = func(v ssa.Value, depth int) bool {
		if depth > 6 || v.Referrers() == nil {
			return false
		}
		for _, ref := range *v.Referrers() {
			switch x := ref.(type) {
			case *ssa.DebugRef:
			case *ssa.Phi:
				if !okVal(x, depth+1) {
					return false
				}
			case *ssa.Call:
				if b, isB := x.Call.Value.(*ssa.Builtin); isB && b.Name() == "len" {
					// the number of elements is not shared by versions that compare equal when Compare pads
					// the shorter list: it may only guard a read that falls back to a constant when the
					// element is absent (the padding Compare itself uses)
					if !lenOnlyGuardsPaddedReads(x, v) {
						return false
					}
					continue
				}
				g := x.Call.StaticCallee()
				if sp, _, isPad := paddedReadHelper(g); isPad && sp < len(x.Call.Args) && x.Call.Args[sp] == v {
					// a padded read moved into a helper: its result is the element or the padding constant
					if !okVal(x, depth+1) {
						return false
					}
					continue
				}
				if g == nil || !cmps[g] {
					return false
				}
			case *ssa.IndexAddr:
				for _, r2 := range *x.Referrers() {
					ld, isLd := r2.(*ssa.UnOp)
					if !isLd || !okVal(ld, depth+1) {
						return false
					}
				}
			default:
				return false
			}
		}
		return true
	}
	for _, ref := range *fa.Referrers() {
		ld, ok := ref.(*ssa.UnOp)
		if !ok || !okVal(ld, 0) {
			return false
		}
	}
	return true
}

// lenOnlyGuardsPaddedReads: every use of len(seq) is a comparison idx < len(seq) whose branch does nothing
// but load seq[idx] and join with a constant default
func lenOnlyGuardsPaddedReads(lenCall *ssa.Call, seq ssa.Value) bool {
	for _, ref := range *lenCall.Referrers() {
		switch x := ref.(type) {
		case *ssa.DebugRef:
		case *ssa.BinOp:
			inRangeOnTrue := false
			switch {
			case x.Op == token.LSS && x.Y == ssa.Value(lenCall), x.Op == token.GTR && x.X == ssa.Value(lenCall):
				inRangeOnTrue = true
			case x.Op == token.GEQ && x.Y == ssa.Value(lenCall), x.Op == token.LEQ && x.X == ssa.Value(lenCall):
				inRangeOnTrue = false
			default:
				return false
			}
			for _, r2 := range *x.Referrers() {
				iff, ok := r2.(*ssa.If)
				if !ok {
					if _, isDbg := r2.(*ssa.DebugRef); isDbg {
						continue
					}
					return false
				}
				in, other := iff.Block().Succs[0], iff.Block().Succs[1]
				if !inRangeOnTrue {
					in, other = other, in
				}
				// the in-range block only loads the element and jumps to the join
				if len(in.Succs) != 1 {
					return false
				}
				join := in.Succs[0]
				for _, ins := range in.Instrs {
					switch y := ins.(type) {
					case *ssa.IndexAddr:
						if y.X != seq && !sameFieldLoad(y.X, seq) {
							return false
						}
					case *ssa.UnOp, *ssa.FieldAddr, *ssa.Field, *ssa.Jump, *ssa.DebugRef:
					default:
						return false
					}
				}
				if other != join {
					// an empty block that jumps to the join
					if len(other.Succs) != 1 || other.Succs[0] != join || len(other.Instrs) != 1 {
						return false
					}
				}
				// the join merges the element with a constant
				merges := false
				for _, ins := range join.Instrs {
					ph, ok := ins.(*ssa.Phi)
					if !ok {
						break
					}
					nconst := 0
					for _, e := range ph.Edges {
						if _, isC := e.(*ssa.Const); isC {
							nconst++
						}
					}
					if nconst >= 1 {
						merges = true
					}
				}
				if !merges {
					return false
				}
			}
		default:
			return false
		}
	}
	return true
}

// sameFieldLoad: a and b are loads of the same field of the same struct pointer
func sameFieldLoad(a, b ssa.Value) bool {
	la, ok1 := a.(*ssa.UnOp)
	lb, ok2 := b.(*ssa.UnOp)
	if !ok1 || !ok2 {
		return false
	}
	fa, ok1 := la.X.(*ssa.FieldAddr)
	fb, ok2 := lb.X.(*ssa.FieldAddr)
	return ok1 && ok2 && fa.X == fb.X && fa.Field == fb.Field
}

// probeExceptions: named, documented exceptions (DESIGN 5, C20)
var probeExceptions = map[string]string{
	"pkg/ecosystem/pypi.(constraint).matches":               "pypi '===' is documented to compare text and is scoped out by the property",
	"pkg/ecosystem/gem.satisfiesPessimistic":                "gem '~>' reads the probe's numeric segments with the same zero padding Compare uses",
	"pkg/ecosystem/gem.(Version).splitNumericAndPrerelease": "helper of gem '~>' (see satisfiesPessimistic)",
}

func ruleProbeObs(p *Prog, r *Report) {
	for _, e := range p.Ecos {
		keys, oof := keyFields(p, e)
		base := e.Name + ": probe observed only through Compare or order-determined fields"
		if oof != "" {
			r.Und("R-PROBE-OBS", base, p.FnPos(e.Contains), "key fields could not be computed: "+oof)
			continue
		}
		inCompare := map[*ssa.Function]bool{}
		for _, fn := range p.RepoReachable(e.Compare) {
			inCompare[fn] = true
		}
		if len(e.Contains.Params) != 2 {
			continue
		}
		tainted := taintPointers(p, map[ssa.Value]bool{e.Contains.Params[1]: true})
		var findings []string
		nobs := 0
		for v := range tainted {
			refs := v.Referrers()
			if refs == nil {
				continue
			}
			var host *ssa.Function
			if ins, ok := v.(ssa.Instruction); ok {
				host = ins.Parent()
			} else if par, ok := v.(*ssa.Parameter); ok {
				host = par.Parent()
			}
			if host == nil || inCompare[host] || host == e.VString {
				continue // inside Compare itself (or String()): not an observation by the range
			}
			for _, ref := range *refs {
				switch x := ref.(type) {
				case *ssa.FieldAddr:
					pt, ok := x.X.Type().Underlying().(*types.Pointer)
					if !ok || !types.Identical(pt.Elem(), e.VerT) {
						continue
					}
					nobs++
					name := e.VerT.Underlying().(*types.Struct).Field(x.Field).Name()
					if keys[name] {
						continue
					}
					if seqReadViaComparator(p, x, elemComparators(p, e, inCompare, x.Field)) {
						continue
					}
					findings = append(findings, fmt.Sprintf("%s|reads probe.%s, which versions that compare equal need not share (%s)", p.FnKey(host), name, p.Pos(x.Pos())))
				case *ssa.Call:
					if x.Call.StaticCallee() == e.VString {
						nobs++
						findings = append(findings, fmt.Sprintf("%s|reads the probe's text via String() (%s)", p.FnKey(host), p.Pos(x.Pos())))
					}
				}
			}
		}
		// arithmetic on the probe's order fields (a packed key major<<40|minor<<20|patch, a weighted sum)
		// is a second encoding of the order; whether it orders like Compare for every magnitude is
		// arithmetic this analysis does not do
		{
			fieldLoad := func(v ssa.Value) (string, bool) {
				for {
					if cv, ok := v.(*ssa.Convert); ok {
						v = cv.X
						continue
					}
					break
				}
				u, ok := v.(*ssa.UnOp)
				if !ok || u.Op != token.MUL {
					return "", false
				}
				fa, ok := u.X.(*ssa.FieldAddr)
				if !ok || !tainted[fa.X] {
					return "", false
				}
				pt, ok := fa.X.Type().Underlying().(*types.Pointer)
				if !ok || !types.Identical(pt.Elem(), e.VerT) {
					return "", false
				}
				return e.VerT.Underlying().(*types.Struct).Field(fa.Field).Name(), true
			}
			for _, fn := range p.RepoReachable(e.NewRng, e.Contains) {
				if inCompare[fn] || fn == e.VString || fn.Blocks == nil {
					continue
				}
				for _, b := range fn.Blocks {
					for _, ins := range b.Instrs {
						bo, ok := ins.(*ssa.BinOp)
						if !ok {
							continue
						}
						switch bo.Op {
						case token.SHL, token.SHR, token.OR, token.XOR, token.AND, token.AND_NOT, token.ADD, token.SUB, token.MUL, token.QUO, token.REM:
						default:
							continue
						}
						if !isIntType(bo.Type()) {
							continue
						}
						for _, op := range []ssa.Value{bo.X, bo.Y} {
							if name, ok := fieldLoad(op); ok {
								findings = append(findings, fmt.Sprintf("%s|computes with probe.%s (%s %s), a second encoding of the order (%s)", p.FnKey(fn), name, bo.Op, "arithmetic", p.Pos(bo.Pos())))
							}
						}
					}
				}
			}
		}
		sort.Strings(findings)
		seen := map[string]bool{}
		nbad := 0
		for _, f := range findings {
			i := strings.Index(f, "|")
			fnk, msg := f[:i], f[i+1:]
			what := msg[:strings.Index(msg, " (")]
			k := e.Name + ": " + fnk + " " + what
			if seen[k] {
				continue
			}
			seen[k] = true
			if why, ok := probeExceptions[fnk]; ok {
				r.Ok("R-PROBE-OBS", k, p.FnPos(e.Contains), "named exception: "+why)
				continue
			}
			nbad++
			if strings.HasPrefix(msg, "computes with") {
				r.Und("R-PROBE-OBS", k, p.FnPos(e.Contains), msg+": whether that encoding orders versions as Compare does, for every magnitude of the components, is not decided; if it does not, the range has holes")
				continue
			}
			r.Bad("R-PROBE-OBS", k, p.FnPos(e.Contains), msg+": two versions that compare equal can be treated differently by the range")
		}
		if nbad == 0 {
			var ks []string
			for k := range keys {
				ks = append(ks, k)
			}
			sort.Strings(ks)
			r.Ok("R-PROBE-OBS", base, p.FnPos(e.Contains), fmt.Sprintf("%d direct observations of the probe outside Compare, all of order-determined fields %v", nobs, ks))
		}
	}
	r.Floor("R-PROBE-OBS", 20)
}

func init() {
	register("C20", "First clause (equal-comparing versions are indistinguishable to ranges), decided structurally: (R-PROBE-OBS) on every path from Contains the probe version is observed only as an operand of Compare or through scalar fields on which equal-comparing versions necessarily agree (the key set is read off Compare's decision table); text (String()/original) and sequence fields are not observable; named exceptions: pypi '===' (scoped out) and gem '~>'. With R-OPSWITCH (C02) every comparator denotes an up- or down-set of Compare's preorder, so comparator-only conjunctions are convex given (R-PREORDER, re-run here) that Compare is a total preorder. A necessary condition of convexity for the field-equality shorthands is decided by R-FIELD-PREFIX (c20b.go); that such a predicate is convex is not.", ruleProbeObs, rulePreorder)
}
