package main

import (
	"fmt"
	"go/constant"
	"go/token"
	"go/types"
	"regexp/syntax"
	"sort"
	"strings"

	"golang.org/x/tools/go/ssa"
)

// ---- C10: Debian versions order as dpkg --compare-versions does ------------------------------------
//
// The two-cursor scanner itself is outside the abstract evaluator's fragment; its shape is checked
// structurally (R-DEB-SCAN) and its three ingredients are decided on their abstract tables:
// the character classes (R-DEB-CLASS), the non-digit run comparator (R-DEB-NONDIGIT) and the digit
// run comparator (R-DEB-DIGITS); the order of epoch, upstream and revision and the "no revision is
// revision 0" clause on Compare's table (R-DEB-CHAIN).

// scanSegment: one inner cursor loop of a two-cursor scanner
type scanSegment struct {
	hdr   *ssa.BasicBlock
	side  int // index of the string parameter the cursor walks
	guard formula
}

// scannerSegments: the inner cursor loops `for c < len(x) && P(x[c]) { c++ }` of the scanner's outer
// loop, in dominance order.
func scannerSegments(fn *ssa.Function) (outer *loop, segs []scanSegment, why string) {
	loops := findLoops(fn)
	for _, l := range loops {
		if c := classifyLoop(l); c.class == "T5" {
			outer = l
		}
	}
	if outer == nil {
		return nil, nil, "no two-cursor scanner loop (class T5)"
	}
	for _, il := range loops {
		if il.header == outer.header || !outer.body[il.header] {
			continue
		}
		var ph *ssa.Phi
		for _, ins := range il.header.Instrs {
			x, ok := ins.(*ssa.Phi)
			if !ok {
				break
			}
			if isIntType(x.Type()) {
				ph = x
			}
		}
		if ph == nil {
			return outer, nil, "inner loop without a cursor"
		}
		iff, ok := il.header.Instrs[len(il.header.Instrs)-1].(*ssa.If)
		if !ok {
			return outer, nil, "inner loop without a guard"
		}
		bo, ok := iff.Cond.(*ssa.BinOp)
		if !ok || bo.Op != token.LSS || bo.X != ssa.Value(ph) {
			return outer, nil, "inner loop guard is not cursor < len(x)"
		}
		lc, ok := bo.Y.(*ssa.Call)
		if !ok {
			return outer, nil, "inner loop bound is not a length"
		}
		side := -1
		if b, ok := lc.Call.Value.(*ssa.Builtin); ok && b.Name() == "len" {
			for i, prm := range fn.Params {
				if lc.Call.Args[0] == ssa.Value(prm) {
					side = i
				}
			}
		}
		if side < 0 {
			return outer, nil, "inner loop does not walk a parameter"
		}
		g, ok := innerGuard(il, ph, bo.Y)
		if !ok {
			return outer, nil, "inner loop has an unrecognised element guard"
		}
		segs = append(segs, scanSegment{il.header, side, g})
	}
	sort.Slice(segs, func(i, j int) bool {
		if segs[i].hdr.Dominates(segs[j].hdr) != segs[j].hdr.Dominates(segs[i].hdr) {
			return segs[i].hdr.Dominates(segs[j].hdr)
		}
		return segs[i].hdr.Index < segs[j].hdr.Index
	})
	return outer, segs, ""
}

// cursorStart: the scanner's cursors (the integer phis of the outer loop) enter the loop with the
// constant 0, so that every character of both strings is scanned. A scanner that starts elsewhere
// (a skipped common prefix) is outside what the segment rules decide: the runs it compares are then
// not the maximal runs of the whole strings.
func cursorStart(outer *loop) string {
	n := 0
	for _, ins := range outer.header.Instrs {
		ph, ok := ins.(*ssa.Phi)
		if !ok {
			break
		}
		if !isIntType(ph.Type()) {
			continue
		}
		for i, pred := range outer.header.Preds {
			if outer.body[pred] {
				continue
			}
			n++
			if v, ok := constInt(ph.Edges[i]); !ok || v != 0 {
				return fmt.Sprintf("cursor %s enters the scanning loop with %s, not 0: the characters in front of it are never compared and the first run compared need not be a maximal run of the string", ph.Comment, ph.Edges[i].String())
			}
		}
	}
	if n == 0 {
		return "the scanning loop has no integer cursor"
	}
	// the scan is the whole comparison: an answer given in front of the loop (a fast path for a
	// special shape of operands) is a second comparator whose agreement with the scan is not
	// decided here; `if a == b { return 0 }` is the one shortcut that cannot disagree
	fn := outer.header.Parent()
	reach := map[*ssa.BasicBlock]bool{}
	var mark func(b *ssa.BasicBlock)
	mark = func(b *ssa.BasicBlock) {
		if reach[b] {
			return
		}
		reach[b] = true
		for _, s := range b.Succs {
			mark(s)
		}
	}
	mark(outer.header)
	for _, b := range fn.Blocks {
		ret, ok := b.Instrs[len(b.Instrs)-1].(*ssa.Return)
		if !ok || reach[b] || len(ret.Results) != 1 {
			continue
		}
		if k, ok := constInt(ret.Results[0]); ok && k == 0 && len(fn.Params) >= 2 {
			if domEdges(b, func(cond ssa.Value, tv bool) bool {
				bo, ok := cond.(*ssa.BinOp)
				if !ok || !tv || bo.Op != token.EQL {
					return false
				}
				return bo.X == ssa.Value(fn.Params[0]) && bo.Y == ssa.Value(fn.Params[1]) || bo.X == ssa.Value(fn.Params[1]) && bo.Y == ssa.Value(fn.Params[0])
			}) {
				continue
			}
		}
		return fmt.Sprintf("%s answers in front of the scanning loop (%s): a second comparison path for some shape of operands, whose agreement with the scan of runs is not decided", fn.Name(), fn.Prog.Fset.Position(ret.Pos()))
	}
	return ""
}

// guardTable: the guard as a function of the named atom, other atoms fixed to the given values;
// returns (value when atom true, value when atom false, depends on other atoms)
func guardTable(g formula, atom string, others map[string]bool) (bool, bool) {
	val := map[string]bool{}
	for k, v := range others {
		val[k] = v
	}
	val[atom] = true
	t := g.eval(val)
	val[atom] = false
	f := g.eval(val)
	return t, f
}

func digitAtom(g formula) string {
	atoms := map[string]bool{}
	g.atoms(atoms)
	for a := range atoms {
		if strings.HasSuffix(a, "unicode.IsDigit") {
			return a
		}
	}
	return ""
}

// runComparatorCalls: calls in the outer loop to repo (string,string)->int functions, in dominance order
func runComparatorCalls(p *Prog, fn *ssa.Function, outer *loop) []*ssa.Call {
	var out []*ssa.Call
	for b := range outer.body {
		for _, ins := range b.Instrs {
			c, ok := ins.(*ssa.Call)
			if !ok {
				continue
			}
			f := c.Call.StaticCallee()
			if f == nil || !p.IsRepoFn(f) || len(f.Params) != 2 || !isStringType(f.Params[0].Type()) || !isStringType(f.Params[1].Type()) {
				continue
			}
			if f.Signature.Results().Len() == 1 && isIntType(f.Signature.Results().At(0).Type()) {
				out = append(out, c)
			}
		}
	}
	sort.Slice(out, func(i, j int) bool {
		bi, bj := out[i].Block(), out[j].Block()
		if bi != bj && bi.Dominates(bj) != bj.Dominates(bi) {
			return bi.Dominates(bj)
		}
		return out[i].Pos() < out[j].Pos()
	})
	return out
}

// sliceOfParam: v is x[lo:hi] of the i-th parameter
func sliceOfParam(v ssa.Value, fn *ssa.Function) int {
	sl, ok := v.(*ssa.Slice)
	if !ok {
		return -1
	}
	for i, prm := range fn.Params {
		if sl.X == ssa.Value(prm) {
			return i
		}
	}
	return -1
}

// returnsIfNonZero: the call's result is tested against 0 and returned when different
func returnsIfNonZero(c *ssa.Call) bool {
	for _, ref := range *c.Referrers() {
		bo, ok := ref.(*ssa.BinOp)
		if !ok || (bo.Op != token.NEQ && bo.Op != token.EQL) {
			continue
		}
		if z, ok := constInt(bo.Y); !ok || z != 0 {
			continue
		}
		for _, r2 := range *bo.Referrers() {
			iff, ok := r2.(*ssa.If)
			if !ok {
				continue
			}
			tgt := iff.Block().Succs[0]
			if bo.Op == token.EQL {
				tgt = iff.Block().Succs[1]
			}
			if ret, ok := tgt.Instrs[len(tgt.Instrs)-1].(*ssa.Return); ok && len(ret.Results) == 1 && ret.Results[0] == ssa.Value(c) {
				return true
			}
		}
	}
	return false
}

func ruleDebian(p *Prog, r *Report) {
	e := ecoByName(p, "debian")
	if e == nil {
		r.Und("R-DEB-CHAIN", "debian: ecosystem", "", "ecosystem not found")
		return
	}
	ef := ecoFieldInfo(p, e)
	pos := p.FnPos(e.Compare)
	// fields: epoch (digits before ':'), upstream, revision (after the last '-')
	var fEpoch, fUp, fRev string
	for i := 0; ef.st != nil && i < ef.st.NumFields(); i++ {
		f := ef.st.Field(i)
		switch {
		case isIntType(f.Type()) && fEpoch == "":
			fEpoch = "." + f.Name()
		case isStringType(f.Type()):
			er := runAEOne(p, e)
			for k := range er.res.assumed {
				if strings.HasSuffix(k, "(."+f.Name()+")") {
					if fUp == "" {
						fUp = "." + f.Name()
					} else if fRev == "" {
						fRev = "." + f.Name()
					}
				}
			}
		}
	}
	scan := stageFnFor(p, e, fUp)
	if fEpoch == "" || fUp == "" || fRev == "" || scan == nil {
		r.Und("R-DEB-CHAIN", "debian: fields located", pos, fmt.Sprintf("epoch/upstream/revision fields or the run scanner not located (%q %q %q)", fEpoch, fUp, fRev))
		return
	}
	// the upstream is the field compared first
	{
		c := newAECtx(p)
		rankUp := "rank:" + scan.Name() + "(" + fUp + ")"
		rankRev := "rank:" + scan.Name() + "(" + fRev + ")"
		q := func(key string, ov map[string]override, want int64, what string) {
			qr := c.queryPair(e.Compare, c.tiedExcept(ov), nil)
			switch {
			case qr.oof != "":
				r.Und("R-DEB-CHAIN", key, pos, qr.describe())
			case qr.leaves == 0:
				r.Und("R-DEB-CHAIN", key, pos, "no abstract world matches the row")
			case qr.only(want):
				r.Ok("R-DEB-CHAIN", key, pos, fmt.Sprintf("%s: %d in all %d abstract worlds", what, want, qr.leaves))
			default:
				r.Bad("R-DEB-CHAIN", key, pos, fmt.Sprintf("%s does not always give %d: %s", what, want, qr.describe()))
			}
		}
		free := func(keys ...string) map[string]override {
			ov := map[string]override{}
			for _, k := range keys {
				ov["~"+k] = override{free: true}
			}
			return ov
		}
		ov := free(fUp, fRev)
		ov[fEpoch] = override{rel: relPtr(-1)}
		q("debian: epoch decides first", ov, -1, "smaller epoch, whatever upstream and revision are")
		ov = free(fRev)
		ov[rankUp] = override{rel: relPtr(-1)}
		ov[fUp] = override{free: true}
		q("debian: upstream decides before the revision", ov, -1, "equal epochs, smaller upstream, whatever the revisions are")
		ov = map[string]override{rankRev: {rel: relPtr(-1)}, fRev: {xGap: true, yGap: true}}
		q("debian: revision decides last", ov, -1, "equal epoch and upstream, smaller revision")
		// no revision equals revision 0
		empty, zero := constant.MakeString(""), constant.MakeString("0")
		c.queryPair(e.Compare, nil, nil)
		if poolIndex(c.pools[rankRev], zero) < 0 {
			r.Bad("R-DEB-CHAIN", "debian: a missing revision equals revision 0", pos, "Compare never substitutes \"0\" for an empty revision")
		} else {
			ov = map[string]override{fRev: {xConst: &empty, yGap: true}, rankRev: {yConst: &zero}}
			q("debian: a missing revision equals revision 0", ov, 0, "x without a revision against y with a revision that ranks as \"0\"")
		}
	}

	// ---- R-DEB-SPLIT: the revision is what follows the LAST hyphen ------------------------------------
	{
		key := "debian: upstream/revision split at the last hyphen"
		k := ef.groupAfter("-")
		switch {
		case ef.main == nil || k == 0:
			r.Und("R-DEB-SPLIT", key, p.FnPos(e.NewVer), "no capture group follows a literal '-' in the version pattern")
		default:
			rev := findGroup(ef.main.Re, k)
			fi := -1
			for i, fp := range ef.prov {
				for _, g := range fp.groups {
					if g.ri == ef.main && g.idx == k {
						fi = i
					}
				}
			}
			switch {
			case fi < 0 || "."+ef.st.Field(fi).Name() != fRev:
				r.Bad("R-DEB-SPLIT", key, p.FnPos(e.NewVer), fmt.Sprintf("the group after '-' does not feed the revision field %s", fRev))
			case reCanMatchRune(rev, '-'):
				r.Bad("R-DEB-SPLIT", key, p.FnPos(e.NewVer), fmt.Sprintf("the revision group %s can itself contain '-': with several hyphens the split is not at the last one (1.0-2-3 must be upstream 1.0-2, revision 3)", rev.String()))
			case !strings.HasSuffix(ef.main.Pattern, "$"):
				r.Bad("R-DEB-SPLIT", key, p.FnPos(e.NewVer), "the version pattern is not anchored at the end")
			default:
				r.Ok("R-DEB-SPLIT", key, p.FnPos(e.NewVer), fmt.Sprintf("the revision group %s cannot contain '-' and runs to the end of the text: it is what follows the last hyphen", rev.String()))
			}
		}
	}

	// ---- R-DEB-SCAN ---------------------------------------------------------------------------------
	var nonDigitFn, digitFn *ssa.Function
	{
		key := "debian: runs alternate non-digit / digit on both sides"
		outer, segs, why := scannerSegments(scan)
		var problems []string
		if why != "" {
			problems = append(problems, why)
		} else if cs := cursorStart(outer); cs != "" {
			problems = append(problems, cs)
		} else {
			bySide := map[int][]scanSegment{}
			for _, s := range segs {
				bySide[s.side] = append(bySide[s.side], s)
			}
			for side := 0; side < 2; side++ {
				ss := bySide[side]
				if len(ss) != 2 {
					problems = append(problems, fmt.Sprintf("side %d has %d cursor loops, want 2 (non-digit run, digit run)", side, len(ss)))
					continue
				}
				for k, s := range ss {
					da := digitAtom(s.guard)
					if da == "" {
						problems = append(problems, fmt.Sprintf("side %d run %d is not delimited by unicode.IsDigit", side, k+1))
						continue
					}
					atoms := map[string]bool{}
					s.guard.atoms(atoms)
					if len(atoms) != 1 {
						problems = append(problems, fmt.Sprintf("side %d run %d depends on more than the digit test: %v", side, k+1, keysOf(atoms)))
						continue
					}
					t, f := guardTable(s.guard, da, nil)
					if k == 0 && !(t == false && f == true) {
						problems = append(problems, fmt.Sprintf("side %d: the first run is not the maximal non-digit run", side))
					}
					if k == 1 && !(t == true && f == false) {
						problems = append(problems, fmt.Sprintf("side %d: the second run is not the maximal digit run", side))
					}
				}
			}
			calls := runComparatorCalls(p, scan, outer)
			if len(calls) != 2 {
				problems = append(problems, fmt.Sprintf("%d run comparator calls in the scanner loop, want 2", len(calls)))
			} else {
				for k, c := range calls {
					if sliceOfParam(c.Call.Args[0], scan) != 0 || sliceOfParam(c.Call.Args[1], scan) != 1 {
						problems = append(problems, fmt.Sprintf("run comparator call %d does not receive (run of a, run of b) in this order", k+1))
					}
					if !returnsIfNonZero(c) {
						problems = append(problems, fmt.Sprintf("the result of run comparator call %d is not returned when non-zero", k+1))
					}
				}
				if len(problems) == 0 {
					// the first call sits between the non-digit and the digit loops
					for side := 0; side < 2; side++ {
						ss := bySide[side]
						if !ss[0].hdr.Dominates(calls[0].Block()) || !calls[0].Block().Dominates(ss[1].hdr) || !ss[1].hdr.Dominates(calls[1].Block()) {
							problems = append(problems, "the run comparators are not called right after their runs are delimited")
						}
					}
					nonDigitFn, digitFn = calls[0].Call.StaticCallee(), calls[1].Call.StaticCallee()
				}
			}
		}
		if len(problems) > 0 {
			r.Bad("R-DEB-SCAN", key, p.FnPos(scan), strings.Join(problems, "; "))
		} else {
			r.Ok("R-DEB-SCAN", key, p.FnPos(scan), fmt.Sprintf("%s: per side a maximal non-digit run then a maximal digit run (delimited by unicode.IsDigit only); %s on the non-digit runs, then %s on the digit runs, each (a-run, b-run), returned when non-zero", scan.Name(), nonDigitFn.Name(), digitFn.Name()))
		}
	}
	if nonDigitFn == nil || digitFn == nil {
		r.Und("R-DEB-NONDIGIT", "debian: non-digit runs by class then character", p.FnPos(scan), "run comparators not identified (R-DEB-SCAN)")
		r.Und("R-DEB-DIGITS", "debian: digit runs compare as integers of any length", p.FnPos(scan), "run comparators not identified (R-DEB-SCAN)")
		return
	}

	// ---- R-DEB-CLASS + R-DEB-NONDIGIT -----------------------------------------------------------------
	{
		key := "debian: non-digit runs by class (~, end, letters, others) then character"
		c := newAECtx(p)
		c.stageMode = false
		leaves, loopFn, seq, oof := zipWorlds(c, nonDigitFn)
		if oof != "" {
			r.Und("R-DEB-NONDIGIT", key, p.FnPos(nonDigitFn), "non-digit comparator: "+oof)
		} else {
			ch := seq + "[i]"
			presK := "present:" + seq
			letterK := ""
			for _, k := range c.termKeys() {
				ti := c.terms[k]
				if strings.HasPrefix(k, "IsLetter(") && len(ti.base) == 1 {
					letterK = k
				}
			}
			tilde := poolIndexInt(c.pools[ch], '~')
			nul := poolIndexInt(c.pools[ch], 0)
			class := func(w *world, ind int) (int, bool) {
				if w.pos[posKey(presK, ind)] == 0 {
					return 1, true
				}
				v, ok := w.pos[posKey(ch, ind)]
				if ok && tilde >= 0 && v == 2*tilde+1 {
					return 0, true
				}
				if ok && nul >= 0 && v == 2*nul+1 {
					return -1, true // a NUL byte inside a version: outside the grammar
				}
				if lv, ok := w.pos[posKey(letterK, ind)]; ok && letterK != "" {
					if lv == 1 {
						return 2, true
					}
					return 3, true
				}
				return 0, false
			}
			var bad []string
			rows := map[string]int{}
			for _, lf := range leaves {
				w := lf.w
				if w.pos[posKey(presK, 0)] == 0 && w.pos[posKey(presK, 1)] == 0 {
					continue
				}
				desc := w.describe(c.pools, c.terms)
				got, why := outcomeValue(lf.o)
				if why == "TAIL0" {
					why = ""
				}
				cx, okx := class(w, 0)
				cy, oky := class(w, 1)
				if cx == -1 || cy == -1 {
					continue
				}
				if !okx || !oky {
					// a tie of identical characters needs no classification
					if v, ok := c.cmpAssigned(w, ch, 0, 1); ok && v == 0 && got == 0 && why == "" {
						rows["identical characters"]++
						continue
					}
					bad = append(bad, "characters are ordered without classifying them: ["+desc+"]")
					continue
				}
				exp := int64(0)
				switch {
				case cx < cy:
					exp = -1
				case cx > cy:
					exp = 1
				case cx == 1:
					exp = 0
				default:
					v, ok := c.cmpAssigned(w, ch, 0, 1)
					if !ok {
						bad = append(bad, "characters of one class are ordered without comparing them: ["+desc+"]")
						continue
					}
					exp = int64(v)
				}
				rows[fmt.Sprintf("class %d vs %d", cx, cy)]++
				if why != "" || got != exp {
					bad = append(bad, fmt.Sprintf("classes %d vs %d: dpkg gives %d, the position gives %d %s [%s]", cx, cy, exp, got, why, desc))
				}
			}
			if len(bad) == 0 {
				c2 := newAECtx(p)
				c2.stageMode = false
				_, zbad, zoof := zipDecides(c2, nonDigitFn, nil)
				if zoof != "" {
					bad = append(bad, "comparator as a whole: "+zoof)
				} else if len(zbad) > 0 {
					bad = append(bad, zbad[0])
				}
			}
			switch {
			case len(bad) > 0:
				sort.Strings(bad)
				r.Bad("R-DEB-NONDIGIT", key, p.FnPos(loopFn), fmt.Sprintf("%d disagreeing abstract position worlds, e.g. %s", len(bad), bad[0]))
			case len(rows) < 10:
				r.Und("R-DEB-NONDIGIT", key, p.FnPos(loopFn), fmt.Sprintf("rows not all exercised: %v", rows))
			default:
				r.Ok("R-DEB-NONDIGIT", key, p.FnPos(loopFn), fmt.Sprintf("%d abstract position worlds: '~' before the end of the run before letters before all other characters, then by character code; the function is exactly this loop (%d class rows)", len(leaves), len(rows)))
			}
		}
	}

	// ---- R-DEB-DIGITS ----------------------------------------------------------------------------------
	{
		key := "debian: digit runs compare as integers of any length, empty run = 0"
		c := newAECtx(p)
		c.stageMode = false
		type leaf struct {
			w   *world
			got int64
		}
		var leaves []leaf
		oof := c.withRetries(digitFn, func() {
			leaves = nil
			c.explore(2, 100000, func(w *world) {
				v := c.runPair(digitFn, w, 0, 1, nil)
				leaves = append(leaves, leaf{w.clone(), v})
			})
		})
		stripK := ""
		for _, k := range c.termKeys() {
			ti := c.terms[k]
			if strings.HasPrefix(k, "TrimLeft(") && strings.HasSuffix(k, `,"0")`) && len(ti.base) == 1 {
				stripK = k
			}
		}
		var bad []string
		for _, lf := range leaves {
			desc := lf.w.describe(c.pools, c.terms)
			if stripK == "" {
				break
			}
			lr, okl := c.cmpAssigned(lf.w, "len("+stripK+")", 0, 1)
			tr, okt := c.cmpAssigned(lf.w, stripK, 0, 1)
			var exp int64
			switch {
			case okl && lr != 0:
				exp = int64(lr)
			case okl && okt:
				exp = int64(tr)
			case okt && tr == 0:
				exp = 0
			default:
				bad = append(bad, "the order is decided without comparing the zero-stripped runs by length and then by text: ["+desc+"]")
				continue
			}
			if lf.got != exp {
				bad = append(bad, fmt.Sprintf("integer order gives %d, the function gives %d [%s]", exp, lf.got, desc))
			}
		}
		switch {
		case oof != "":
			r.Und("R-DEB-DIGITS", key, p.FnPos(digitFn), "digit comparator outside the fragment: "+oof)
		case stripK == "":
			r.Bad("R-DEB-DIGITS", key, p.FnPos(digitFn), "the digit runs are not stripped of leading zeros before they are compared: integer order of runs longer than a machine word (and of empty runs) is not the order of their text")
		case len(bad) > 0:
			sort.Strings(bad)
			r.Bad("R-DEB-DIGITS", key, p.FnPos(digitFn), fmt.Sprintf("%d disagreeing abstract worlds, e.g. %s", len(bad), bad[0]))
		case len(leaves) < 5:
			r.Und("R-DEB-DIGITS", key, p.FnPos(digitFn), fmt.Sprintf("only %d abstract worlds", len(leaves)))
		default:
			r.Ok("R-DEB-DIGITS", key, p.FnPos(digitFn), fmt.Sprintf("%d abstract worlds: after stripping leading zeros the shorter run is smaller, equal lengths compare as text (integer order for any length; the empty run is 0)", len(leaves)))
		}
	}
	r.Floor("R-DEB-CHAIN", 4)
	r.Floor("R-DEB-SCAN", 1)
	r.Floor("R-DEB-SPLIT", 1)
	r.Floor("R-DEB-NONDIGIT", 1)
	r.Floor("R-DEB-DIGITS", 1)
	_ = types.Typ
}

func init() {
	register("C10", "Debian versions order as dpkg --compare-versions does", ruleDebian)
}

// reCanMatchRune: some string matched by re contains ch
func reCanMatchRune(re *syntax.Regexp, ch rune) bool {
	if re == nil {
		return false
	}
	switch re.Op {
	case syntax.OpLiteral:
		for _, r := range re.Rune {
			if r == ch {
				return true
			}
		}
		return false
	case syntax.OpCharClass:
		for i := 0; i+1 < len(re.Rune); i += 2 {
			if re.Rune[i] <= ch && ch <= re.Rune[i+1] {
				return true
			}
		}
		return false
	case syntax.OpAnyChar, syntax.OpAnyCharNotNL:
		return true
	}
	for _, s := range re.Sub {
		if reCanMatchRune(s, ch) {
			return true
		}
	}
	return false
}
